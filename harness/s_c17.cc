// Correspondence harness for C17 (observable instruments are read once per collection, gauges report the latest
// value): a real MeterProvider / Meter / ObservableInstrument (and, when built with ABI v2, synchronous Gauge) of the
// repo's working tree, 1..4 explicit MetricReader subclasses collected explicitly, driven by the op lines the Lean
// model driver (lean/Driver/C17.lean) also reads.
//
//   obs cfg <D|C,...> ; create <oc|ou|og|sg>[d] ; dup <instr> ; addcb <instr> <cb> ; rmcb <instr> <cb> ; destroy <instr> ;
//       grec <instr> <attr> <value> ; collect <r> <cb>=<attr>:<value>,... ...
//
// `dup i`: a further handle for the observable instrument of handle i (same name, type, value type, creation form): the meter
// gives it the storage the instrument already has; callbacks are registered, removed and cleaned up per handle.
// A kind with the suffix `d` is the double flavour (CreateDoubleObservable* / CreateDoubleGauge, ObserverResultT<double>,
// the double sum / last-value aggregations): the script's value v is observed as v * 2^-10 and printed as v again.
// Instruments are created through the (name) / (name, description) / (name, description, unit) forms in rotation; the
// callback rotates the three Observe(value, attributes) forms (KeyValueIterable, container template, initializer list)
// and `grec` the Record forms with and without a Context.
//
// One C function is the callback of every registration; its state pointer identifies the callback `cb`.  The
// script of a collection says what each callback observes in that cycle; every invocation is logged.
//
// Time stamps are canonicalised: "sdk" = MeterContext::GetSDKStartTime(), "#k" = the stamp taken by the k-th
// collection (the harness makes the system clock advance around every collection, so the windows are disjoint
// and a clock tie cannot occur), "?" anything else.  Double values are fed as k * 2^-10 and printed as k.
#include "common.h"
#include "metrics_factories.h"

#include <algorithm>
#include <chrono>
#include <cmath>
#include <map>

#include "opentelemetry/common/key_value_iterable_view.h"
#include "opentelemetry/metrics/meter.h"
#include "opentelemetry/metrics/async_instruments.h"
#include "opentelemetry/metrics/observer_result.h"
#include "opentelemetry/metrics/sync_instruments.h"
#include "opentelemetry/sdk/common/global_log_handler.h"
#include "opentelemetry/sdk/metrics/data/metric_data.h"
#include "opentelemetry/sdk/metrics/export/metric_producer.h"
#include "opentelemetry/sdk/metrics/meter_context.h"
#include "opentelemetry/sdk/metrics/meter_provider.h"
#include "opentelemetry/sdk/metrics/metric_reader.h"
#include "opentelemetry/sdk/metrics/view/instrument_selector.h"
#include "opentelemetry/sdk/metrics/view/meter_selector.h"
#include "opentelemetry/sdk/metrics/view/view.h"
#include "opentelemetry/sdk/metrics/view/view_registry.h"

namespace sdkm    = opentelemetry::sdk::metrics;
namespace apim    = opentelemetry::metrics;
namespace nostd   = opentelemetry::nostd;
namespace common  = opentelemetry::common;
using TimeNs      = long long;

static TimeNs now_ns()
{
  return std::chrono::duration_cast<std::chrono::nanoseconds>(
             std::chrono::system_clock::now().time_since_epoch())
      .count();
}
static TimeNs tick()
{
  TimeNs t = now_ns();
  while (now_ns() <= t)
  {
  }
  return t;  // the clock is now strictly past t
}

class TestReader : public sdkm::MetricReader
{
public:
  explicit TestReader(sdkm::AggregationTemporality t) : t_(t) {}
  sdkm::AggregationTemporality GetAggregationTemporality(sdkm::InstrumentType) const noexcept override
  {
    return t_;
  }

private:
  bool OnForceFlush(std::chrono::microseconds) noexcept override { return true; }
  bool OnShutDown(std::chrono::microseconds) noexcept override { return true; }
  sdkm::AggregationTemporality t_;
};

struct World;
struct CbState
{
  int id;
  World *w;
};

struct World
{
  std::vector<std::shared_ptr<TestReader>> readers;
  sdkm::MeterContext *ctx = nullptr;
  std::shared_ptr<sdkm::MeterProvider> provider;
  nostd::shared_ptr<apim::Meter> meter;
  std::vector<std::string> kinds;  // oc | ou | og | sg
  std::vector<bool> dbl;           // the double flavour
  std::vector<size_t> canon;       // handle -> the handle that created its instrument (itself, unless made by `dup`)
  size_t nobs = 0;                 // Observe / Record calls so far: the overload used rotates with it
  std::vector<nostd::shared_ptr<apim::ObservableInstrument>> obs;  // null for sync gauges / destroyed
#if OPENTELEMETRY_ABI_VERSION_NO >= 2
  std::vector<nostd::unique_ptr<apim::Gauge<int64_t>>> gauges;
  std::vector<nostd::unique_ptr<apim::Gauge<double>>> dgauges;
#endif
  CbState cbs[8];
  std::map<int, std::vector<std::pair<long long, long long>>> script;
  std::vector<int> calls;
  std::vector<std::pair<TimeNs, TimeNs>> windows;
  TimeNs sdk_start = 0;            // exact, when the construction path used exposes the MeterContext
  TimeNs sdk_lo = 0, sdk_hi = -1;   // else: the window in which the provider was constructed

  std::string ts(common::SystemTimestamp t) const
  {
    TimeNs v = t.time_since_epoch().count();
    if (ctx ? v == sdk_start : (sdk_lo < v && v <= sdk_hi)) return "sdk";
    for (size_t k = 0; k < windows.size(); k++)
      if (windows[k].first < v && v <= windows[k].second) return "#" + std::to_string(k + 1);
    return "?";
  }
};

static bool parse_int(const std::string &s, long long &out)
{
  if (s.empty()) return false;
  size_t i = 0;
  if (s[0] == '-') i = 1;
  if (i == s.size() || s.size() - i > 15) return false;
  for (size_t j = i; j < s.size(); j++)
    if (s[j] < '0' || s[j] > '9') return false;
  out = atoll(s.c_str());
  return true;
}
static bool parse_nat(const std::string &s, long long &out)
{
  return !s.empty() && s[0] != '-' && parse_int(s, out);
}

static std::vector<std::string> split(const std::string &s, char c)
{
  std::vector<std::string> v;
  std::string cur;
  for (char ch : s)
  {
    if (ch == c)
    {
      v.push_back(cur);
      cur.clear();
    }
    else
      cur.push_back(ch);
  }
  v.push_back(cur);
  return v;
}

template <class F>
static void with_attrs(long long a, F f)
{
  if (a % 3 == 1)
  {
    std::map<std::string, common::AttributeValue> m{{"k", static_cast<int64_t>(a)}};
    f(common::KeyValueIterableView<decltype(m)>(m));
  }
  else if (a % 3 == 2)
  {
    std::string s = "s" + std::to_string(a);
    std::map<std::string, common::AttributeValue> m{{"z", nostd::string_view(s)}, {"k", static_cast<int64_t>(a)}};
    f(common::KeyValueIterableView<decltype(m)>(m));
  }
  else
  {
    std::map<std::string, common::AttributeValue> m{{"k", static_cast<int64_t>(a)}, {"b", true}};
    f(common::KeyValueIterableView<decltype(m)>(m));
  }
}

static std::string attr_index(const sdkm::PointAttributes &attrs)
{
  const auto &m = attrs.GetAttributes();
  if (m.empty()) return "0";
  auto it = m.find("k");
  if (it == m.end() || !nostd::holds_alternative<int64_t>(it->second)) return "?";
  long long a = nostd::get<int64_t>(it->second);
  size_t want = a % 3 == 1 ? 1 : 2;
  if (a <= 0 || m.size() != want) return "?";
  return std::to_string(a);
}

// the one callback function; `state` says which callback this is
static void the_callback(apim::ObserverResult result, void *state)
{
  CbState *cb = static_cast<CbState *>(state);
  World &w    = *cb->w;
  w.calls.push_back(cb->id);
  auto it = w.script.find(cb->id);
  if (it == w.script.end()) return;
  // Observe(value) for the empty set; for the others the three attribute forms of the API rotate: a KeyValueIterable,
  // a container (the template overload) and an initializer list - they must all report the same measurement
  auto observe_all = [&](auto r, auto conv) {
    for (auto &av : it->second)
    {
      const long long a = av.first;
      auto v            = conv(av.second);
      if (a == 0) { r->Observe(v); continue; }
      const size_t form = w.nobs++ % 3;
      if (form == 0) with_attrs(a, [&](const common::KeyValueIterable &kv) { r->Observe(v, kv); });
      else if (form == 1)
      {
        std::string s = "s" + std::to_string(a);
        std::map<std::string, common::AttributeValue> m{{"k", static_cast<int64_t>(a)}};
        if (a % 3 == 2) m["z"] = nostd::string_view(s);
        else if (a % 3 == 0) m["b"] = true;
        r->Observe(v, m);
      }
      else
      {
        std::string s = "s" + std::to_string(a);
        if (a % 3 == 1) r->Observe(v, {{"k", static_cast<int64_t>(a)}});
        else if (a % 3 == 2) r->Observe(v, {{"z", nostd::string_view(s)}, {"k", static_cast<int64_t>(a)}});
        else r->Observe(v, {{"k", static_cast<int64_t>(a)}, {"b", true}});
      }
    }
  };
  if (nostd::holds_alternative<nostd::shared_ptr<apim::ObserverResultT<int64_t>>>(result))
    observe_all(nostd::get<nostd::shared_ptr<apim::ObserverResultT<int64_t>>>(result),
                [](long long v) { return static_cast<int64_t>(v); });
  else if (nostd::holds_alternative<nostd::shared_ptr<apim::ObserverResultT<double>>>(result))
    observe_all(nostd::get<nostd::shared_ptr<apim::ObserverResultT<double>>>(result),
                [](long long v) { return static_cast<double>(v) / 1024.0; });
}

static std::string show_md(const World &w, const sdkm::MetricData &md)
{
  const auto &d = md.instrument_descriptor;
  std::string kind;
  bool lv = false;
  if (d.type_ == sdkm::InstrumentType::kObservableCounter) kind = "oc";
  else if (d.type_ == sdkm::InstrumentType::kObservableUpDownCounter) kind = "ou";
  else if (d.type_ == sdkm::InstrumentType::kObservableGauge) { kind = "og"; lv = true; }
  else if (d.type_ == sdkm::InstrumentType::kGauge) { kind = "sg"; lv = true; }
  else kind = "?type";
  long long x;
  const bool dbl = d.value_type_ == sdkm::InstrumentValueType::kDouble;
  if (dbl) kind += "d";
  std::string s = (d.name_.size() >= 2 && d.name_[0] == 'o' && parse_nat(d.name_.substr(1), x))
                      ? std::to_string(x) + "." + kind
                      : "?name:" + d.name_;
  if (s[0] != '?')
  {
    // created through the (name) / (name, description) / (name, description, unit) form number x % 3
    const std::string want_desc = x % 3 >= 1 ? "d" + std::to_string(x) : "";
    const std::string want_unit = x % 3 == 2 ? "By" : "";
    if (d.description_ != want_desc) s = "?desc:" + d.description_;
    else if (d.unit_ != want_unit) s = "?unit:" + d.unit_;
  }
  auto num = [dbl](const sdkm::ValueType &val) -> std::string {
    if (dbl)
    {
      if (!nostd::holds_alternative<double>(val)) return "?vt";
      double y = nostd::get<double>(val) * 1024.0;
      if (std::floor(y) != y || std::fabs(y) > 1e15) return "?inexact";
      return std::to_string(static_cast<long long>(y));
    }
    if (!nostd::holds_alternative<int64_t>(val)) return "?vt";
    return std::to_string(static_cast<long long>(nostd::get<int64_t>(val)));
  };
  s += md.aggregation_temporality == sdkm::AggregationTemporality::kDelta
           ? " D "
           : (md.aggregation_temporality == sdkm::AggregationTemporality::kCumulative ? " C " : " ? ");
  s += w.ts(md.start_ts) + " " + w.ts(md.end_ts) + " {";
  std::vector<std::pair<long long, std::string>> pts;
  for (auto &p : md.point_data_attr_)
  {
    std::string a = attr_index(p.attributes);
    std::string v;
    if (lv)
    {
      if (!nostd::holds_alternative<sdkm::LastValuePointData>(p.point_data)) v = "?point";
      else
      {
        auto &lp = nostd::get<sdkm::LastValuePointData>(p.point_data);
        if (!lp.is_lastvalue_valid_) v = "?invalid";
        else v = num(lp.value_);
      }
    }
    else
    {
      if (!nostd::holds_alternative<sdkm::SumPointData>(p.point_data)) v = "?point";
      else
      {
        auto &sp = nostd::get<sdkm::SumPointData>(p.point_data);
        if (sp.is_monotonic_ != (kind == "oc" || kind == "ocd")) v = "?mono";
        else v = num(sp.value_);
      }
    }
    long long key = a == "?" ? -1 : atoll(a.c_str());
    pts.emplace_back(key, a + "=" + v);
  }
  std::sort(pts.begin(), pts.end());
  for (size_t i = 0; i < pts.size(); i++) s += (i ? "," : "") + pts[i].second;
  return s + "}";
}

static bool parse_script(World &w, const std::vector<std::string> &op)
{
  w.script.clear();
  for (size_t i = 2; i < op.size(); i++)
  {
    auto p = split(op[i], '=');
    long long cb;
    if (p.size() != 2 || !parse_nat(p[0], cb) || cb >= 8 || w.script.count(static_cast<int>(cb))) return false;
    auto &lst = w.script[static_cast<int>(cb)];
    if (p[1] == "-") continue;
    for (auto &kv : split(p[1], ','))
    {
      auto q = split(kv, ':');
      long long a, v;
      if (q.size() != 2 || !parse_nat(q[0], a) || !parse_int(q[1], v) || a >= 16 || std::llabs(v) > 1099511627776LL)
        return false;
      lst.emplace_back(a, v);
    }
  }
  return true;
}

static std::string handle_obs(const std::vector<std::string> &t)
{
  auto ops = vh::split_ops(t, 1);
  if (ops.empty() || ops[0].size() != 2 || ops[0][0] != "cfg") return "bad-op";
  World w;
  const uint64_t hash = vhm::case_hash(t);
  for (int i = 0; i < 8; i++) w.cbs[i] = CbState{i, &w};
  std::vector<sdkm::AggregationTemporality> temps;
  for (auto &r : split(ops[0][1], ','))
  {
    if (r == "D") temps.push_back(sdkm::AggregationTemporality::kDelta);
    else if (r == "C") temps.push_back(sdkm::AggregationTemporality::kCumulative);
    else return "bad-op";
  }
  if (temps.empty() || temps.size() > 4) return "bad-op";
  {
    // provider / context / registry through the constructors or the *Factory::Create overloads, chosen by the hash of the
    // case text (metrics_factories.h)
    w.sdk_lo = tick();
    auto built = vhm::make_provider(hash, vhm::mix(hash, 1) % 2 ? vhm::make_registry(hash) : nullptr, nullptr, nullptr);
    w.provider = built.provider;
    w.ctx      = built.ctx;
    w.sdk_hi   = tick();
    if (w.ctx) w.sdk_start = w.ctx->GetSDKStartTime().time_since_epoch().count();
    for (auto tmp : temps)
    {
      auto r = std::make_shared<TestReader>(tmp);
      w.readers.push_back(r);
      w.provider->AddMetricReader(r);
    }
    w.meter = w.provider->GetMeter("m");
    tick();
    tick();
  }
  std::vector<std::string> outs{"ok"};
  for (size_t i = 1; i < ops.size(); i++)
  {
    auto &op = ops[i];
    long long ins = 0, cb = 0;
    if (op.size() == 2 && op[0] == "create")
    {
      const bool dbl = op[1].size() == 3 && op[1][2] == 'd';
      if (dbl) op[1].pop_back();
      if (op[1] != "oc" && op[1] != "ou" && op[1] != "og" && op[1] != "sg") return "bad-op";
      std::unique_ptr<std::string> name(new std::string("o" + std::to_string(w.kinds.size())));
      const size_t variant = w.kinds.size() % 3;
      std::unique_ptr<std::string> desc(new std::string("d" + std::to_string(w.kinds.size())));
      std::unique_ptr<std::string> unit(new std::string("By"));
      nostd::string_view ds(desc->data(), desc->size()), us(unit->data(), unit->size());
#define CREATE(F) (variant == 0 ? w.meter->F(nm) : (variant == 1 ? w.meter->F(nm, ds) : w.meter->F(nm, ds, us)))
      nostd::string_view nm(name->data(), name->size());
      nostd::shared_ptr<apim::ObservableInstrument> o;
      if (w.kinds.size() % 2 == 1)
      {
        // every other instrument gets a view that names, explicitly, the aggregation the instrument has by default (sum
        // for counters and up-down counters, last value for gauges): the streams must be the same as without the view
        const sdkm::InstrumentType ty = op[1] == "oc"   ? sdkm::InstrumentType::kObservableCounter
                                        : op[1] == "ou" ? sdkm::InstrumentType::kObservableUpDownCounter
                                        : op[1] == "og" ? sdkm::InstrumentType::kObservableGauge
                                                        : sdkm::InstrumentType::kGauge;
        const sdkm::AggregationType ag =
            (op[1] == "oc" || op[1] == "ou") ? sdkm::AggregationType::kSum : sdkm::AggregationType::kLastValue;
        auto is   = vhm::make_isel(vhm::mix(hash, 100 + w.kinds.size()), ty, *name, "");
        auto ms   = vhm::make_msel(vhm::mix(hash, 200 + w.kinds.size()), "m", "", "");
        auto view = vhm::make_view(vhm::mix(hash, 300 + w.kinds.size()), "", "", "", ag);
        w.provider->AddView(std::move(is), std::move(ms), std::move(view));
      }
      if (op[1] == "oc") o = dbl ? CREATE(CreateDoubleObservableCounter) : CREATE(CreateInt64ObservableCounter);
      else if (op[1] == "ou") o = dbl ? CREATE(CreateDoubleObservableUpDownCounter) : CREATE(CreateInt64ObservableUpDownCounter);
      else if (op[1] == "og") o = dbl ? CREATE(CreateDoubleObservableGauge) : CREATE(CreateInt64ObservableGauge);
      else if (op[1] == "sg")
      {
#if OPENTELEMETRY_ABI_VERSION_NO >= 2
        w.gauges.resize(w.kinds.size() + 1);
        w.dgauges.resize(w.kinds.size() + 1);
        if (dbl) w.dgauges[w.kinds.size()] = CREATE(CreateDoubleGauge);
        else w.gauges[w.kinds.size()] = CREATE(CreateInt64Gauge);
#else
        return "bad-op";  // synchronous gauges exist under ABI v2 only
#endif
      }
      else return "bad-op";
#undef CREATE
      w.obs.push_back(o);
      outs.push_back("i" + std::to_string(w.kinds.size()));
      w.kinds.push_back(op[1]);
      w.dbl.push_back(dbl);
      w.canon.push_back(w.canon.size());
    }
    else if (op.size() == 2 && op[0] == "dup")
    {
      if (!parse_nat(op[1], ins) || static_cast<size_t>(ins) >= w.kinds.size() || w.kinds[ins] == "sg" || !w.obs[ins]) return "bad-op";
      const size_t c0      = w.canon[ins];
      const size_t variant = c0 % 3;
      const bool dbl       = w.dbl[ins];
      std::unique_ptr<std::string> name(new std::string("o" + std::to_string(c0)));
      std::unique_ptr<std::string> desc(new std::string("d" + std::to_string(c0)));
      std::unique_ptr<std::string> unit(new std::string("By"));
      nostd::string_view nm(name->data(), name->size()), ds(desc->data(), desc->size()), us(unit->data(), unit->size());
#define CREATE(F) (variant == 0 ? w.meter->F(nm) : (variant == 1 ? w.meter->F(nm, ds) : w.meter->F(nm, ds, us)))
      nostd::shared_ptr<apim::ObservableInstrument> o;
      if (w.kinds[ins] == "oc") o = dbl ? CREATE(CreateDoubleObservableCounter) : CREATE(CreateInt64ObservableCounter);
      else if (w.kinds[ins] == "ou") o = dbl ? CREATE(CreateDoubleObservableUpDownCounter) : CREATE(CreateInt64ObservableUpDownCounter);
      else o = dbl ? CREATE(CreateDoubleObservableGauge) : CREATE(CreateInt64ObservableGauge);
#undef CREATE
      w.obs.push_back(o);
      outs.push_back("i" + std::to_string(w.kinds.size()));
      w.kinds.push_back(w.kinds[ins]);
      w.dbl.push_back(dbl);
      w.canon.push_back(c0);
#if OPENTELEMETRY_ABI_VERSION_NO >= 2
      w.gauges.resize(w.kinds.size());
      w.dgauges.resize(w.kinds.size());
#endif
    }
    else if (op.size() == 3 && (op[0] == "addcb" || op[0] == "rmcb"))
    {
      if (!parse_nat(op[1], ins) || !parse_nat(op[2], cb) || static_cast<size_t>(ins) >= w.kinds.size() ||
          w.kinds[ins] == "sg" || cb >= 8)
        return "bad-op";
      // after `destroy` the handle is gone: nothing can be registered through it (the model registers; the
      // generators never do this)
      if (!w.obs[ins]) return "bad-op";
      if (op[0] == "addcb") w.obs[ins]->AddCallback(the_callback, &w.cbs[cb]);
      else w.obs[ins]->RemoveCallback(the_callback, &w.cbs[cb]);
      outs.push_back("ok");
    }
    else if (op.size() == 2 && op[0] == "destroy")
    {
      if (!parse_nat(op[1], ins) || static_cast<size_t>(ins) >= w.kinds.size() || w.kinds[ins] == "sg") return "bad-op";
      w.obs[ins] = nostd::shared_ptr<apim::ObservableInstrument>();
      outs.push_back("ok");
    }
    else if (op.size() == 4 && op[0] == "grec")
    {
      long long a, v;
      if (!parse_nat(op[1], ins) || !parse_nat(op[2], a) || !parse_int(op[3], v) ||
          static_cast<size_t>(ins) >= w.kinds.size() || w.kinds[ins] != "sg" || a >= 16 ||
          std::llabs(v) > 1099511627776LL)
        return "bad-op";
#if OPENTELEMETRY_ABI_VERSION_NO >= 2
      tick();
      // Record(value) / Record(value, context) / Record(value, attributes) / Record(value, attributes, context) in rotation
      const size_t nth  = w.nobs++;
      const size_t form = nth % 2;        // without / with a Context
      const size_t how  = (nth / 2) % 3;  // attributes as KeyValueIterable / container (template overload) / initializer list
      opentelemetry::context::Context octx{};
      auto rec = [&](auto &g, auto val) {
        std::string sval = "s" + std::to_string(a);
        if (a == 0)
        {
          if (form == 0) g->Record(val);
          else g->Record(val, octx);
        }
        else if (how == 0)
          with_attrs(a, [&](const common::KeyValueIterable &kv) {
            if (form == 0) g->Record(val, kv);
            else g->Record(val, kv, octx);
          });
        else if (how == 1)
        {
          std::map<std::string, common::AttributeValue> m{{"k", static_cast<int64_t>(a)}};
          if (a % 3 == 2) m["z"] = nostd::string_view(sval);
          else if (a % 3 == 0) m["b"] = true;
          if (form == 0) g->Record(val, m);
          else g->Record(val, m, octx);
        }
        else if (a % 3 == 1)
        {
          if (form == 0) g->Record(val, {{"k", static_cast<int64_t>(a)}});
          else g->Record(val, {{"k", static_cast<int64_t>(a)}}, octx);
        }
        else if (a % 3 == 2)
        {
          if (form == 0) g->Record(val, {{"z", nostd::string_view(sval)}, {"k", static_cast<int64_t>(a)}});
          else g->Record(val, {{"z", nostd::string_view(sval)}, {"k", static_cast<int64_t>(a)}}, octx);
        }
        else
        {
          if (form == 0) g->Record(val, {{"k", static_cast<int64_t>(a)}, {"b", true}});
          else g->Record(val, {{"k", static_cast<int64_t>(a)}, {"b", true}}, octx);
        }
      };
      if (w.dbl[ins]) rec(w.dgauges[ins], static_cast<double>(v) / 1024.0);
      else rec(w.gauges[ins], static_cast<int64_t>(v));
      tick();
      outs.push_back("ok");
#else
      return "bad-op";
#endif
    }
    else if (op.size() >= 2 && op[0] == "collect")
    {
      long long r;
      if (!parse_nat(op[1], r) || static_cast<size_t>(r) >= w.readers.size() || !parse_script(w, op)) return "bad-op";
      w.calls.clear();
      std::vector<sdkm::MetricData> got;
      TimeNs before = tick();
      w.readers[r]->Collect([&](sdkm::ResourceMetrics &rm) {
        for (auto &sm : rm.scope_metric_data_)
          for (auto &md : sm.metric_data_) got.push_back(md);
        return true;
      });
      TimeNs after = tick();
      w.windows.emplace_back(before, after);
      std::vector<std::string> mds;
      for (auto &md : got) mds.push_back(show_md(w, md));
      std::sort(mds.begin(), mds.end());
      std::string c = "calls=[";
      for (size_t k = 0; k < w.calls.size(); k++) c += (k ? "," : "") + std::to_string(w.calls[k]);
      outs.push_back(c + "] [" + vh::join(mds, " | ") + "]");
    }
    else
      return "bad-op";
  }
  return vh::join(outs, " ; ");
}

int main()
{
  opentelemetry::sdk::common::internal_log::GlobalLogHandler::SetLogLevel(
      opentelemetry::sdk::common::internal_log::LogLevel::None);
  return vh::run_lines([](const std::vector<std::string> &t) -> std::string {
    if (t.size() >= 2 && t[0] == "obs") return handle_obs(t);
    return "bad-op";
  });
}
