// Shared helpers of the correspondence harnesses (line protocol, hex arguments, exact-size buffers).
#pragma once
#include <cstdint>
#include <cstdio>
#include <cstdlib>
#include <cstring>
#include <iostream>
#include <memory>
#include <sstream>
#include <string>
#include <vector>

namespace vh
{
inline int hexval(char c)
{
  if (c >= '0' && c <= '9') return c - '0';
  if (c >= 'a' && c <= 'f') return c - 'a' + 10;
  if (c >= 'A' && c <= 'F') return c - 'A' + 10;
  return -1;
}

// "-" = empty
inline bool from_hex(const std::string &h, std::string &out)
{
  out.clear();
  if (h == "-") return true;
  if (h.size() % 2) return false;
  for (size_t i = 0; i < h.size(); i += 2)
  {
    int a = hexval(h[i]), b = hexval(h[i + 1]);
    if (a < 0 || b < 0) return false;
    out.push_back(static_cast<char>(a * 16 + b));
  }
  return true;
}

inline std::string to_hex(const char *p, size_t n)
{
  static const char *d = "0123456789abcdef";
  if (n == 0) return "-";
  std::string s;
  for (size_t i = 0; i < n; i++)
  {
    unsigned char c = static_cast<unsigned char>(p[i]);
    s.push_back(d[c >> 4]);
    s.push_back(d[c & 15]);
  }
  return s;
}
inline std::string to_hex(const std::string &s) { return to_hex(s.data(), s.size()); }

// A byte string in a heap block of exactly its size (no terminating NUL): any read past the end,
// or any reliance on C-string termination, is an AddressSanitizer report.
struct Exact
{
  std::unique_ptr<char[]> p;
  size_t n;
  explicit Exact(const std::string &s) : p(new char[s.size() ? s.size() : 1]), n(s.size())
  {
    // for an empty string keep a 1-byte block so data() is a valid non-null pointer; ASan poisons beyond it
    if (n) memcpy(p.get(), s.data(), n);
    else p[0] = 'Z';
  }
  const char *data() const { return p.get(); }
  size_t size() const { return n; }
};

inline std::vector<std::string> split_ws(const std::string &line)
{
  std::vector<std::string> v;
  std::istringstream is(line);
  std::string t;
  while (is >> t) v.push_back(t);
  return v;
}

inline std::vector<std::vector<std::string>> split_ops(const std::vector<std::string> &toks, size_t from)
{
  std::vector<std::vector<std::string>> ops(1);
  for (size_t i = from; i < toks.size(); i++)
  {
    if (toks[i] == ";") ops.emplace_back();
    else ops.back().push_back(toks[i]);
  }
  return ops;
}

inline std::string join(const std::vector<std::string> &v, const char *sep)
{
  std::string s;
  for (size_t i = 0; i < v.size(); i++)
  {
    if (i) s += sep;
    s += v[i];
  }
  return s;
}

// main loop: one case per line, one observation line per case, flushed (so a sanitizer abort
// can be attributed to the case after the last complete line)
template <class F>
int run_lines(F handle)
{
  std::string line;
  while (std::getline(std::cin, line))
  {
    std::string out = handle(split_ws(line));
    fputs(out.c_str(), stdout);
    fputc('\n', stdout);
    fflush(stdout);
  }
  return 0;
}
}  // namespace vh
