// Correspondence harness for C06 (counter conservation across readers, temporalities, handles, views):
// a real MeterProvider / Meter / Counter / UpDownCounter of the repo's working tree, 1..4 explicit MetricReader
// subclasses collected explicitly, driven by the op lines the Lean model driver (lean/Driver/C06.lean) also reads.
//
//   met cfg <D|C|P|Q[~m],...> <views: n:c|n:u,... or -> ; create <name> <cl|cd|ul|ud> [n] ; add <handle> <attr> <value> ; collect <r>
//       ; race <handle> <threads T> <adds N> <r> <collections K> ; flush ; shutdown
//
// `create ... n`: the instrument is created on a second meter "n" of the same provider (the views select meter "m" only, so its
// streams are the default ones); an instrument of the same name on the other meter is a different instrument.  Its streams
// are printed with the prefix `n:`.
// reader P / Q: a temporality selector by instrument type (P: delta for Counter, cumulative for UpDownCounter - the OTLP
// "delta preference"; Q the other way round).  `~m` (m = 0..2): the reader is added through the
// AddMetricReader(reader, MetricFilter) overload; the filter's TestMetric answers by the last digit x of the stream
// name: (x+m)%3 = 0 accept, 1 drop, 2 accept-partial, and TestAttributes then accepts the attribute sets a with
// (a+m) even.  `flush` / `shutdown` = MeterProvider::ForceFlush / Shutdown: neither consumes a measurement, and a
// reader may go on collecting afterwards.  Instruments are created through the (name) / (name, description) /
// (name, description, unit) forms in rotation by instrument, every third view carries a description: the exported
// descriptor must show them ("?desc" / "?unit" otherwise).
//
// `race` is the supporting real-thread run for "measurements recorded concurrently with collections": reader r
// collects once, then T recorder threads each Add 1 unit N times (thread t to attribute set t%3+1) through the handle
// while the main thread collects K-1 more times for r; after the join one more unit is added (set 1) and r collects a
// last time.  Printed per stream: for a delta reader the sum of all points of these K+1 collections, for a cumulative
// reader the points of the last one - both independent of the schedule exactly when nothing is lost or duplicated.
//
// Time stamps are canonicalised: "sdk" = MeterContext::GetSDKStartTime(), "#k" = the stamp taken by the k-th
// collection (the harness makes the system clock advance around every collection, so the windows are disjoint
// and a clock tie cannot occur), "?" anything else.  Double values are fed as k * 2^-10 and printed as k.
#include "common.h"
#include "metrics_factories.h"

#include <algorithm>
#include <chrono>
#include <cmath>
#include <map>
#include <thread>

#include "opentelemetry/common/key_value_iterable_view.h"
#include "opentelemetry/metrics/meter.h"
#include "opentelemetry/metrics/sync_instruments.h"
#include "opentelemetry/sdk/common/global_log_handler.h"
#include "opentelemetry/sdk/metrics/data/metric_data.h"
#include "opentelemetry/sdk/metrics/export/metric_filter.h"
#include "opentelemetry/sdk/metrics/export/metric_producer.h"
#include "opentelemetry/sdk/metrics/meter_context.h"
#include "opentelemetry/sdk/metrics/meter_provider.h"
#include "opentelemetry/sdk/metrics/metric_reader.h"
#include "opentelemetry/sdk/metrics/view/instrument_selector.h"
#include "opentelemetry/sdk/metrics/view/meter_selector.h"
#include "opentelemetry/sdk/metrics/view/view.h"
#include "opentelemetry/sdk/metrics/view/view_registry.h"

namespace sdkm    = opentelemetry::sdk::metrics;
namespace apim    = opentelemetry::metrics;
namespace nostd   = opentelemetry::nostd;
namespace common  = opentelemetry::common;
using TimeNs      = long long;

static TimeNs now_ns()
{
  return std::chrono::duration_cast<std::chrono::nanoseconds>(
             std::chrono::system_clock::now().time_since_epoch())
      .count();
}
static TimeNs tick()
{
  TimeNs t = now_ns();
  while (now_ns() <= t)
  {
  }
  return t;  // the clock is now strictly past t
}

class TestReader : public sdkm::MetricReader
{
public:
  explicit TestReader(char mode) : mode_(mode) {}
  sdkm::AggregationTemporality GetAggregationTemporality(sdkm::InstrumentType t) const noexcept override
  {
    const bool counter = t == sdkm::InstrumentType::kCounter;
    switch (mode_)
    {
      case 'D':
        return sdkm::AggregationTemporality::kDelta;
      case 'P':
        return counter ? sdkm::AggregationTemporality::kDelta : sdkm::AggregationTemporality::kCumulative;
      case 'Q':
        return counter ? sdkm::AggregationTemporality::kCumulative : sdkm::AggregationTemporality::kDelta;
      default:
        return sdkm::AggregationTemporality::kCumulative;
    }
  }

private:
  bool OnForceFlush(std::chrono::microseconds) noexcept override { return true; }
  bool OnShutDown(std::chrono::microseconds) noexcept override { return true; }
  char mode_;
};

struct Handle
{
  std::string kind;
  nostd::unique_ptr<apim::Counter<uint64_t>> cl;
  nostd::unique_ptr<apim::Counter<double>> cd;
  nostd::unique_ptr<apim::UpDownCounter<int64_t>> ul;
  nostd::unique_ptr<apim::UpDownCounter<double>> ud;
};

struct World
{
  std::vector<std::pair<int, bool>> views;  // (instrument name, counter?)
  std::vector<std::shared_ptr<TestReader>> readers;
  sdkm::MeterContext *ctx = nullptr;
  std::shared_ptr<sdkm::MeterProvider> provider;
  nostd::shared_ptr<apim::Meter> meter;
  nostd::shared_ptr<apim::Meter> meter_n;  // the second meter, requested on first use
  std::vector<std::unique_ptr<Handle>> handles;
  std::vector<std::pair<TimeNs, TimeNs>> windows;
  TimeNs sdk_start = 0;              // exact, when the construction path used exposes the MeterContext
  TimeNs sdk_lo = 0, sdk_hi = -1;     // else: the window in which the provider was constructed (disjoint from every collection window)
  size_t nadd      = 0;  // `add` operations so far: the overload used rotates with it (all overloads must record the same)

  std::string ts(common::SystemTimestamp t) const
  {
    TimeNs v = t.time_since_epoch().count();
    if (ctx ? v == sdk_start : (sdk_lo < v && v <= sdk_hi)) return "sdk";
    for (size_t k = 0; k < windows.size(); k++)
      if (windows[k].first < v && v <= windows[k].second) return "#" + std::to_string(k + 1);
    return "?";
  }
};

static bool parse_int(const std::string &s, long long &out)
{
  if (s.empty()) return false;
  size_t i = 0;
  if (s[0] == '-') i = 1;
  if (i == s.size() || s.size() - i > 15) return false;
  for (size_t j = i; j < s.size(); j++)
    if (s[j] < '0' || s[j] > '9') return false;
  out = atoll(s.c_str());
  return true;
}
static bool parse_nat(const std::string &s, long long &out)
{
  return !s.empty() && s[0] != '-' && parse_int(s, out);
}

static std::vector<std::string> split(const std::string &s, char c)
{
  std::vector<std::string> v;
  std::string cur;
  for (char ch : s)
  {
    if (ch == c)
    {
      v.push_back(cur);
      cur.clear();
    }
    else
      cur.push_back(ch);
  }
  v.push_back(cur);
  return v;
}

static bool setup(World &w, const std::vector<std::string> &op, uint64_t hash)
{
  if (op.size() != 3 || op[0] != "cfg") return false;
  std::vector<std::pair<char, int>> temps;  // (mode, filter 0..2 or -1)
  for (auto &r : split(op[1], ','))
  {
    if (r.size() != 1 && r.size() != 3) return false;
    if (r[0] != 'D' && r[0] != 'C' && r[0] != 'P' && r[0] != 'Q') return false;
    int flt = -1;
    if (r.size() == 3)
    {
      if (r[1] != '~' || r[2] < '0' || r[2] > '2') return false;
      flt = r[2] - '0';
    }
    temps.emplace_back(r[0], flt);
  }
  if (temps.empty() || temps.size() > 4) return false;
  if (op[2] != "-")
  {
    for (auto &v : split(op[2], ','))
    {
      auto p = split(v, ':');
      long long n;
      if (p.size() != 2 || !parse_nat(p[0], n) || n >= 8 || (p[1] != "c" && p[1] != "u")) return false;
      w.views.emplace_back(static_cast<int>(n), p[1] == "c");
    }
    if (w.views.size() > 4) return false;
  }
  // provider, context, registry, views and selectors through the constructors or the *Factory::Create overloads, chosen by
  // the hash of the case text (metrics_factories.h); the views are either put into the ViewRegistry that is handed to the
  // provider, or added with MeterProvider::AddView afterwards (then the overloads without a registry are used as well)
  std::unique_ptr<sdkm::ViewRegistry> registry;
  if (vhm::mix(hash, 1) % 2) registry = vhm::make_registry(hash);
  auto make_it = [&]() {
    w.sdk_lo    = tick();
    auto built  = vhm::make_provider(hash, std::move(registry), nullptr, nullptr);
    w.provider  = built.provider;
    w.ctx       = built.ctx;
    w.sdk_hi    = tick();
    if (w.ctx) w.sdk_start = w.ctx->GetSDKStartTime().time_since_epoch().count();
  };
  const bool views_first = registry != nullptr;
  if (!views_first) make_it();
  for (size_t g = 0; g < w.views.size(); g++)
  {
    std::string iname = "i" + std::to_string(w.views[g].first);
    auto isel = vhm::make_isel(vhm::mix(hash, 100 + g), w.views[g].second ? sdkm::InstrumentType::kCounter : sdkm::InstrumentType::kUpDownCounter, iname, "");
    auto msel = vhm::make_msel(vhm::mix(hash, 200 + g), "m", "", "");
    // every other view names the aggregation explicitly (sum - what counters and up-down counters have by default anyway)
    // ... and every third one carries a description, which replaces the instrument's in the exported descriptor
    const std::string vdesc = g % 3 == 2 ? "vd" + std::to_string(g) : "";
    auto view = vhm::make_view(vhm::mix(hash, 300 + g), "v" + std::to_string(g), vdesc, "",
                               g % 2 == 1 ? sdkm::AggregationType::kSum : sdkm::AggregationType::kDefault);
    if (views_first) registry->AddView(std::move(isel), std::move(msel), std::move(view));
    else w.provider->AddView(std::move(isel), std::move(msel), std::move(view));
  }
  if (views_first) make_it();
  for (auto t : temps)
  {
    auto r = std::make_shared<TestReader>(t.first);
    w.readers.push_back(r);
    if (t.second < 0) w.provider->AddMetricReader(r);
    else
    {
      const int m = t.second;
      auto last_digit = [](nostd::string_view name) { return name.empty() ? 0 : (name[name.size() - 1] - '0'); };
      auto test_metric = [m, last_digit](const opentelemetry::sdk::instrumentationscope::InstrumentationScope &,
                                         nostd::string_view name, const sdkm::InstrumentType &, nostd::string_view) {
        int x = (last_digit(name) + m) % 3;
        return x == 0 ? sdkm::MetricFilter::MetricFilterResult::kAccept
                      : (x == 1 ? sdkm::MetricFilter::MetricFilterResult::kDrop
                                : sdkm::MetricFilter::MetricFilterResult::kAcceptPartial);
      };
      auto test_attrs = [m](const opentelemetry::sdk::instrumentationscope::InstrumentationScope &, nostd::string_view,
                            const sdkm::InstrumentType &, nostd::string_view, const sdkm::PointAttributes &attrs) {
        long long a = 0;
        auto it     = attrs.GetAttributes().find("k");
        if (it != attrs.GetAttributes().end() && nostd::holds_alternative<int64_t>(it->second))
          a = nostd::get<int64_t>(it->second);
        return (a + m) % 2 == 0 ? sdkm::MetricFilter::AttributesFilterResult::kAccept
                                : sdkm::MetricFilter::AttributesFilterResult::kDrop;
      };
      w.provider->AddMetricReader(r, sdkm::MetricFilter::Create(test_metric, test_attrs));
    }
  }
  w.meter = w.provider->GetMeter("m");
  tick();
  tick();
  return true;
}

// attribute set number a of the pool; the caller-side containers die right after the call
template <class F>
static void with_attrs(long long a, F f)
{
  if (a % 3 == 1)
  {
    std::map<std::string, common::AttributeValue> m{{"k", static_cast<int64_t>(a)}};
    f(common::KeyValueIterableView<decltype(m)>(m));
  }
  else if (a % 3 == 2)
  {
    std::string s = "s" + std::to_string(a);
    std::map<std::string, common::AttributeValue> m{{"z", nostd::string_view(s)}, {"k", static_cast<int64_t>(a)}};
    f(common::KeyValueIterableView<decltype(m)>(m));
  }
  else
  {
    std::map<std::string, common::AttributeValue> m{{"k", static_cast<int64_t>(a)}, {"b", true}};
    f(common::KeyValueIterableView<decltype(m)>(m));
  }
}

static std::string attr_index(const sdkm::PointAttributes &attrs)
{
  const auto &m = attrs.GetAttributes();
  if (m.empty()) return "0";
  auto it = m.find("k");
  if (it == m.end() || !nostd::holds_alternative<int64_t>(it->second)) return "?";
  long long a = nostd::get<int64_t>(it->second);
  size_t want = a % 3 == 1 ? 1 : 2;
  if (a <= 0 || m.size() != want) return "?";
  return std::to_string(a);
}

static std::string stream_label(const World &w, const sdkm::InstrumentDescriptor &d, bool on_n)
{
  std::string kind;
  if (d.type_ == sdkm::InstrumentType::kCounter) kind = "c";
  else if (d.type_ == sdkm::InstrumentType::kUpDownCounter) kind = "u";
  else return "?type";
  kind += d.value_type_ == sdkm::InstrumentValueType::kDouble ? "d" : "l";
  const std::string &n = d.name_;
  long long x;
  if (n.size() < 2 || !parse_nat(n.substr(1), x)) return "?name:" + n;
  // the descriptor must carry the description / unit the instrument was created with (the view's description when it
  // has one): variant = (instrument name + kind) % 3, see `create`
  auto desc_ok = [&](long long iname, const std::string &view_desc) {
    int ki      = (kind[0] == 'c' ? 0 : 2) + (kind[1] == 'd' ? 1 : 0);
    int variant = static_cast<int>((iname + ki) % 3);
    std::string want_desc = variant >= 1 ? "d" + std::to_string(iname) : "";
    if (!view_desc.empty()) want_desc = view_desc;
    std::string want_unit = variant == 2 ? "By" : "";
    return std::string(d.description_ != want_desc ? "?desc:" + d.description_ : (d.unit_ != want_unit ? "?unit:" + d.unit_ : ""));
  };
  if (n[0] == 'i')
  {
    std::string bad = desc_ok(x, "");
    return bad.empty() ? std::to_string(x) + "." + kind + ".0" : bad;
  }
  if (n[0] == 'v' && static_cast<size_t>(x) < w.views.size() && !on_n)
  {
    std::string bad = desc_ok(w.views[x].first, x % 3 == 2 ? "vd" + std::to_string(x) : "");
    if (!bad.empty()) return bad;
    size_t pos = 0;
    for (size_t g = 0; g < static_cast<size_t>(x); g++)
      if (w.views[g] == w.views[x]) pos++;
    return std::to_string(w.views[x].first) + "." + kind + "." + std::to_string(pos);
  }
  return "?name:" + n;
}

static std::string show_md(const World &w, const sdkm::MetricData &md, const std::string &scope)
{
  if (scope != "m" && scope != "n") return "?scope:" + scope + " ? ? ? {}";
  std::string s = stream_label(w, md.instrument_descriptor, scope == "n");
  if (scope == "n" && s[0] != '?') s = "n:" + s;
  s += md.aggregation_temporality == sdkm::AggregationTemporality::kDelta
           ? " D "
           : (md.aggregation_temporality == sdkm::AggregationTemporality::kCumulative ? " C " : " ? ");
  s += w.ts(md.start_ts) + " " + w.ts(md.end_ts) + " {";
  std::vector<std::pair<long long, std::string>> pts;
  for (auto &p : md.point_data_attr_)
  {
    std::string a = attr_index(p.attributes);
    std::string v;
    if (!nostd::holds_alternative<sdkm::SumPointData>(p.point_data)) v = "?point";
    else
    {
      auto &sp = nostd::get<sdkm::SumPointData>(p.point_data);
      bool dbl = md.instrument_descriptor.value_type_ == sdkm::InstrumentValueType::kDouble;
      bool mono = md.instrument_descriptor.type_ == sdkm::InstrumentType::kCounter;
      if (sp.is_monotonic_ != mono) v = "?mono";
      else if (dbl)
      {
        if (!nostd::holds_alternative<double>(sp.value_)) v = "?vt";
        else
        {
          double x = nostd::get<double>(sp.value_) * 1024.0;
          if (std::floor(x) != x || std::fabs(x) > 1e15) v = "?inexact";
          else v = std::to_string(static_cast<long long>(x));
        }
      }
      else
      {
        if (!nostd::holds_alternative<int64_t>(sp.value_)) v = "?vt";
        else v = std::to_string(static_cast<long long>(nostd::get<int64_t>(sp.value_)));
      }
    }
    long long key = a == "?" ? -1 : atoll(a.c_str());
    pts.emplace_back(key, a + "=" + v);
  }
  std::sort(pts.begin(), pts.end());
  for (size_t i = 0; i < pts.size(); i++) s += (i ? "," : "") + pts[i].second;
  return s + "}";
}

static std::string handle_met(const std::vector<std::string> &t)
{
  auto ops = vh::split_ops(t, 1);
  if (ops.empty()) return "bad-op";
  World w;
  if (!setup(w, ops[0], vhm::case_hash(t))) return "bad-op";
  std::vector<std::string> outs{"ok"};
  for (size_t i = 1; i < ops.size(); i++)
  {
    auto &op = ops[i];
    if ((op.size() == 3 || (op.size() == 4 && op[3] == "n")) && op[0] == "create")
    {
      const bool on_n = op.size() == 4;
      if (on_n && !w.meter_n) w.meter_n = w.provider->GetMeter("n");
      auto &the_meter = on_n ? w.meter_n : w.meter;
      long long n;
      if (!parse_nat(op[1], n) || n >= 8) return "bad-op";
      std::unique_ptr<Handle> h(new Handle);
      h->kind = op[2];
      {
        // NUL-terminated on purpose: the name validator reads the name as a C string (D12, property C19);
        // the buffer dies right after the call, so the SDK must own its copy
        std::unique_ptr<std::string> name(new std::string("i" + std::to_string(n)));
        nostd::string_view nm(name->data(), name->size());
        // the three forms (name) / (name, description) / (name, description, unit) rotate by instrument: every handle of
        // one instrument uses the same form (the stream keeps the descriptor of the handle that created it)
        int ki = op[2] == "cl" ? 0 : (op[2] == "cd" ? 1 : (op[2] == "ul" ? 2 : (op[2] == "ud" ? 3 : -1)));
        if (ki < 0) return "bad-op";
        int variant = static_cast<int>((n + ki) % 3);
        std::unique_ptr<std::string> desc(new std::string("d" + std::to_string(n)));
        std::unique_ptr<std::string> unit(new std::string("By"));
        nostd::string_view ds(desc->data(), desc->size()), us(unit->data(), unit->size());
#define CREATE(F) (variant == 0 ? the_meter->F(nm) : (variant == 1 ? the_meter->F(nm, ds) : the_meter->F(nm, ds, us)))
        if (ki == 0) h->cl = CREATE(CreateUInt64Counter);
        else if (ki == 1) h->cd = CREATE(CreateDoubleCounter);
        else if (ki == 2) h->ul = CREATE(CreateInt64UpDownCounter);
        else h->ud = CREATE(CreateDoubleUpDownCounter);
#undef CREATE
      }
      outs.push_back("h" + std::to_string(w.handles.size()));
      w.handles.push_back(std::move(h));
    }
    else if (op.size() == 4 && op[0] == "add")
    {
      long long hd, a, v;
      if (!parse_nat(op[1], hd) || !parse_nat(op[2], a) || !parse_int(op[3], v)) return "bad-op";
      if (static_cast<size_t>(hd) >= w.handles.size() || a >= 16) return "bad-op";
      Handle &h = *w.handles[hd];
      bool dbl  = h.kind[1] == 'd';
      if (std::llabs(v) > (dbl ? 1048576LL : 1099511627776LL)) return "bad-op";
      double dv = static_cast<double>(v) / 1024.0;
      // the API has four overloads per instrument (value / value+context / value+attributes / value+attributes+context);
      // which one is used rotates with the operation count - they must all record the same measurement
      const size_t ov = w.nadd++;
      opentelemetry::context::Context octx{};
      auto add_kv = [&](const common::KeyValueIterable &kv, bool with_ctx) {
        if (with_ctx)
        {
          if (h.cl) h.cl->Add(static_cast<uint64_t>(v), kv, octx);
          else if (h.cd) h.cd->Add(dv, kv, octx);
          else if (h.ul) h.ul->Add(static_cast<int64_t>(v), kv, octx);
          else h.ud->Add(dv, kv, octx);
        }
        else
        {
          if (h.cl) h.cl->Add(static_cast<uint64_t>(v), kv);
          else if (h.cd) h.cd->Add(dv, kv);
          else if (h.ul) h.ul->Add(static_cast<int64_t>(v), kv);
          else h.ud->Add(dv, kv);
        }
      };
      if (a == 0)
      {
        std::map<std::string, common::AttributeValue> none;
        switch (ov % 4)
        {
          case 0:
            if (h.cl) h.cl->Add(static_cast<uint64_t>(v));
            else if (h.cd) h.cd->Add(dv);
            else if (h.ul) h.ul->Add(static_cast<int64_t>(v));
            else h.ud->Add(dv);
            break;
          case 1:
            if (h.cl) h.cl->Add(static_cast<uint64_t>(v), octx);
            else if (h.cd) h.cd->Add(dv, octx);
            else if (h.ul) h.ul->Add(static_cast<int64_t>(v), octx);
            else h.ud->Add(dv, octx);
            break;
          case 2:
            add_kv(common::KeyValueIterableView<decltype(none)>(none), false);
            break;
          default:
            add_kv(common::KeyValueIterableView<decltype(none)>(none), true);
            break;
        }
      }
      else
      {
        // the attribute set through each of the API's forms in rotation - a KeyValueIterable, a container (the template
        // overloads) and an initializer list, each with and without a Context: they must all record the same measurement
        const bool with_ctx = ov % 2 == 1;
        const size_t form   = (ov / 2) % 3;
        auto through = [&](auto &inst, auto val) {
          std::string sval = "s" + std::to_string(a);
          if (form == 1)
          {
            std::map<std::string, common::AttributeValue> m{{"k", static_cast<int64_t>(a)}};
            if (a % 3 == 2) m["z"] = nostd::string_view(sval);
            else if (a % 3 == 0) m["b"] = true;
            if (with_ctx) inst->Add(val, m, octx);
            else inst->Add(val, m);
          }
          else if (a % 3 == 1)
          {
            if (with_ctx) inst->Add(val, {{"k", static_cast<int64_t>(a)}}, octx);
            else inst->Add(val, {{"k", static_cast<int64_t>(a)}});
          }
          else if (a % 3 == 2)
          {
            if (with_ctx) inst->Add(val, {{"z", nostd::string_view(sval)}, {"k", static_cast<int64_t>(a)}}, octx);
            else inst->Add(val, {{"z", nostd::string_view(sval)}, {"k", static_cast<int64_t>(a)}});
          }
          else
          {
            if (with_ctx) inst->Add(val, {{"k", static_cast<int64_t>(a)}, {"b", true}}, octx);
            else inst->Add(val, {{"k", static_cast<int64_t>(a)}, {"b", true}});
          }
        };
        if (form == 0) with_attrs(a, [&](const common::KeyValueIterable &kv) { add_kv(kv, with_ctx); });
        else if (h.cl) through(h.cl, static_cast<uint64_t>(v));
        else if (h.cd) through(h.cd, dv);
        else if (h.ul) through(h.ul, static_cast<int64_t>(v));
        else through(h.ud, dv);
      }
      outs.push_back("ok");
    }
    else if (op.size() == 2 && op[0] == "collect")
    {
      long long r;
      if (!parse_nat(op[1], r) || static_cast<size_t>(r) >= w.readers.size()) return "bad-op";
      std::vector<std::pair<std::string, sdkm::MetricData>> got;
      TimeNs before = tick();
      w.readers[r]->Collect([&](sdkm::ResourceMetrics &rm) {
        for (auto &sm : rm.scope_metric_data_)
          for (auto &md : sm.metric_data_) got.emplace_back(sm.scope_->GetName(), md);
        return true;
      });
      TimeNs after = tick();
      w.windows.emplace_back(before, after);
      std::vector<std::string> mds;
      for (auto &md : got) mds.push_back(show_md(w, md.second, md.first));
      std::sort(mds.begin(), mds.end());
      outs.push_back("[" + vh::join(mds, " | ") + "]");
    }
    else if (op.size() == 1 && (op[0] == "flush" || op[0] == "shutdown"))
    {
      // neither takes a measurement away from anyone; TestReader's OnForceFlush / OnShutDown succeed
      bool ok = op[0] == "flush" ? w.provider->ForceFlush() : w.provider->Shutdown();
      outs.push_back(ok ? "ok" : "failed");
    }
    else if (op.size() == 6 && op[0] == "race")
    {
      long long hd, T, N, r, K;
      if (!parse_nat(op[1], hd) || !parse_nat(op[2], T) || !parse_nat(op[3], N) || !parse_nat(op[4], r) ||
          !parse_nat(op[5], K))
        return "bad-op";
      if (static_cast<size_t>(hd) >= w.handles.size() || T < 1 || T > 4 || N > 5000 ||
          static_cast<size_t>(r) >= w.readers.size() || K < 1 || K > 64)
        return "bad-op";
      Handle &h   = *w.handles[hd];
      auto add_one = [&h](long long a) {
        with_attrs(a, [&](const common::KeyValueIterable &kv) {
          if (h.cl) h.cl->Add(static_cast<uint64_t>(1), kv);
          else if (h.cd) h.cd->Add(1.0 / 1024.0, kv);
          else if (h.ul) h.ul->Add(static_cast<int64_t>(1), kv);
          else h.ud->Add(1.0 / 1024.0, kv);
        });
      };
      std::map<std::string, std::map<long long, long long>> acc;  // label -> attr -> units
      bool bad = false;
      auto collect_once = [&]() {
        TimeNs before = tick();
        std::vector<std::pair<std::string, sdkm::MetricData>> got;
        w.readers[r]->Collect([&](sdkm::ResourceMetrics &rm) {
          for (auto &sm : rm.scope_metric_data_)
            for (auto &md : sm.metric_data_) got.emplace_back(sm.scope_->GetName(), md);
          return true;
        });
        TimeNs after = tick();
        w.windows.emplace_back(before, after);
        for (auto &scoped : got)
        {
          auto &md         = scoped.second;
          std::string text = show_md(w, md, scoped.first);  // "label T start end {a=v,...}"
          size_t sp = text.find(' '), br = text.find('{');
          std::string label = text.substr(0, sp);
          auto &m           = acc[label];
          const bool delta  = md.aggregation_temporality == sdkm::AggregationTemporality::kDelta;
          if (!delta) m.clear();
          std::string body = text.substr(br + 1, text.size() - br - 2);
          if (body.empty()) continue;
          for (auto &kv : split(body, ','))
          {
            auto p = split(kv, '=');
            long long a, v;
            if (p.size() != 2 || !parse_nat(p[0], a) || !parse_int(p[1], v)) { bad = true; continue; }
            if (delta) m[a] += v;
            else m[a] = v;
          }
        }
      };
      collect_once();
      std::vector<std::thread> threads;
      for (long long t = 0; t < T; t++)
        threads.emplace_back([&, t]() {
          for (long long i = 0; i < N; i++) add_one(t % 3 + 1);
        });
      for (long long k = 1; k < K; k++) collect_once();
      for (auto &t : threads) t.join();
      add_one(1);
      collect_once();
      std::vector<std::string> parts;
      for (auto &lm : acc)
      {
        std::string s = lm.first + " {";
        bool first    = true;
        for (auto &av : lm.second)
        {
          s += (first ? "" : ",") + std::to_string(av.first) + "=" + std::to_string(av.second);
          first = false;
        }
        parts.push_back(s + "}");
      }
      std::sort(parts.begin(), parts.end());
      outs.push_back(std::string(bad ? "race? [" : "race [") + vh::join(parts, " | ") + "]");
    }
    else
      return "bad-op";
  }
  return vh::join(outs, " ; ");
}

// `late <D|C> <n_before 0..40> <n_after 1..40>`: a reader attached to a provider that is already in use.  Reader 0 (delta) has
// collected everything recorded so far when the late reader is attached, so the late reader must be given exactly what is recorded
// afterwards - whatever reader 0 did before, and however many delta tables have gone by.  (The stream storage keeps one stash of
// unreported tables per collector; a collector that appears later has to get its own.)  Oracle only: the protocol model has a
// fixed set of readers.
static std::string handle_late(const std::vector<std::string> &t)
{
  if (t.size() != 4 || (t[1] != "D" && t[1] != "C")) return "bad-op";
  long long nb, na;
  if (!parse_nat(t[2], nb) || !parse_nat(t[3], na) || nb > 40 || na < 1 || na > 40) return "bad-op";
  auto provider = std::make_shared<sdkm::MeterProvider>();
  auto r0       = std::make_shared<TestReader>('D');
  provider->AddMetricReader(r0);
  // a second early reader: with a single delta reader the stream storage takes its fast path and keeps no stash at all
  auto r1 = std::make_shared<TestReader>('C');
  provider->AddMetricReader(r1);
  auto meter   = provider->GetMeter("m");
  auto counter = meter->CreateUInt64Counter("late0");
  auto sum_of  = [](const std::shared_ptr<TestReader> &r) {
    long long total = 0;
    r->Collect([&](sdkm::ResourceMetrics &rm) {
      for (auto &sm : rm.scope_metric_data_)
        for (auto &md : sm.metric_data_)
          for (auto &pt : md.point_data_attr_)
            if (nostd::holds_alternative<sdkm::SumPointData>(pt.point_data))
            {
              auto &v = nostd::get<sdkm::SumPointData>(pt.point_data).value_;
              if (nostd::holds_alternative<int64_t>(v)) total += nostd::get<int64_t>(v);
            }
      return true;
    });
    return total;
  };
  long long before = 0, seen0 = 0;
  for (long long i = 0; i < nb; i++)
  {
    counter->Add(static_cast<uint64_t>(i + 1));
    before += i + 1;
    if (i % 3 == 1) seen0 += sum_of(r0);
  }
  seen0 += sum_of(r0);
  if (nb % 2 == 1) (void)sum_of(r1);
  auto late = std::make_shared<TestReader>(t[1][0]);
  provider->AddMetricReader(late);
  long long after = 0;
  for (long long i = 0; i < na; i++)
  {
    counter->Add(static_cast<uint64_t>(10 + i));
    after += 10 + i;
    if (i % 4 == 2) seen0 += sum_of(r0);   // reader 0 goes on collecting: its tables must still reach the late reader
  }
  long long late1 = sum_of(late);
  counter->Add(5);
  long long late2 = sum_of(late);
  seen0 += sum_of(r0);
  return "late first=" + std::to_string(late1) + " second=" + std::to_string(late2) + " r0=" + std::to_string(seen0) +
         " before=" + std::to_string(before) + " after=" + std::to_string(after);
}

int main()
{
  opentelemetry::sdk::common::internal_log::GlobalLogHandler::SetLogLevel(
      opentelemetry::sdk::common::internal_log::LogLevel::None);
  return vh::run_lines([](const std::vector<std::string> &t) -> std::string {
    if (t.size() >= 2 && t[0] == "met") return handle_met(t);
    if (t[0] == "late") return handle_late(t);
    return "bad-op";
  });
}
