// C08 correspondence harness (Engine S): attribute-set keys (FilteredOrderedAttributeMap + attributes processor) and the
// series tables behind one instrument (SyncMetricStorage directly with an explicit limit; MeterProvider + view with the
// default limit).  Same line protocol as lean/Driver/C08.lean.  Keys and string values are handed over as
// string_views into exact-size heap blocks without a terminating NUL and are freed right after each call.
#include "common.h"
#include "metrics_factories.h"

#include <algorithm>
#include <chrono>
#include <cmath>
#include <list>
#include <map>
#include <unordered_map>

#include "opentelemetry/common/attribute_value.h"
#include "opentelemetry/common/key_value_iterable.h"
#include "opentelemetry/context/context.h"
#include "opentelemetry/sdk/common/global_log_handler.h"
#include "opentelemetry/sdk/metrics/aggregation/sum_aggregation.h"
#include "opentelemetry/sdk/metrics/data/point_data.h"
#include "opentelemetry/metrics/async_instruments.h"
#include "opentelemetry/metrics/observer_result.h"
#include "opentelemetry/sdk/metrics/export/metric_producer.h"
#include "opentelemetry/sdk/metrics/meter_provider.h"
#include "opentelemetry/sdk/metrics/metric_reader.h"
#include "opentelemetry/sdk/metrics/state/attributes_hashmap.h"
#include "opentelemetry/sdk/metrics/state/filtered_ordered_attribute_map.h"
#include "opentelemetry/sdk/metrics/state/metric_collector.h"
#include "opentelemetry/sdk/metrics/state/sync_metric_storage.h"
#include "opentelemetry/sdk/metrics/view/attributes_processor.h"
#include "opentelemetry/sdk/metrics/view/instrument_selector.h"
#include "opentelemetry/sdk/metrics/view/meter_selector.h"
#include "opentelemetry/sdk/metrics/view/view.h"

namespace sm     = opentelemetry::sdk::metrics;
namespace nostd  = opentelemetry::nostd;
namespace common = opentelemetry::common;

// ---------------------------------------------------------------- exact printing (as in s_c07.cc)
static std::string dy_u(bool neg, uint64_t m, int e)
{
  if (m == 0) return "0";
  while ((m & 1) == 0)
  {
    m >>= 1;
    e++;
  }
  return std::string(neg ? "-" : "") + std::to_string(m) + "p" + std::to_string(e);
}
static std::string dy(double v)
{
  if (v == 0) return "0";
  int e;
  double f   = std::frexp(std::fabs(v), &e);
  uint64_t m = static_cast<uint64_t>(std::ldexp(f, 53));
  return dy_u(v < 0, m, e - 53);
}
static std::string hex_or_empty(const std::string &s) { return s.empty() ? std::string() : vh::to_hex(s); }

static std::vector<std::string> split(const std::string &s, char sep)
{
  std::vector<std::string> v;
  std::string cur;
  for (char c : s)
  {
    if (c == sep)
    {
      v.push_back(cur);
      cur.clear();
    }
    else
      cur.push_back(c);
  }
  v.push_back(cur);
  return v;
}

static bool hex_maybe_empty(const std::string &h, std::string &out)
{
  if (h.empty())
  {
    out.clear();
    return true;
  }
  if (h == "-") return false;
  return vh::from_hex(h, out);
}

static bool parse_int(const std::string &s, __int128 lo, __int128 hi, __int128 &out)
{
  if (s.empty()) return false;
  size_t i = 0;
  bool neg = false;
  if (s[0] == '-')
  {
    neg = true;
    i   = 1;
  }
  if (i == s.size() || s.size() - i > 30) return false;
  __int128 m = 0;
  for (; i < s.size(); i++)
  {
    if (s[i] < '0' || s[i] > '9') return false;
    m = m * 10 + (s[i] - '0');
  }
  if (neg) m = -m;
  if (m < lo || m >= hi) return false;
  out = m;
  return true;
}
static bool parse_nat(const std::string &s, __int128 hi, __int128 &out)
{
  if (s.empty() || s[0] == '-' || s[0] == '+') return false;
  return parse_int(s, 0, hi, out);
}
static bool parse_double(const std::string &s, double &out)
{
  if (s.size() != 16) return false;
  uint64_t bits = 0;
  for (char c : s)
  {
    int h = vh::hexval(c);
    if (h < 0) return false;
    bits = (bits << 4) | static_cast<uint64_t>(h);
  }
  memcpy(&out, &bits, 8);
  return std::isfinite(out);
}

// ---------------------------------------------------------------- attribute lists owned by the harness
// A key buffer.  exact: a heap block of exactly the key's size (any read past the end is an ASan report).
// guarded: the key's bytes followed by 'Z' and a NUL inside the same block - still not terminated at its own length,
// so code that reads the key as a C string sees a *different* key (caught by the oracle) but does not abort the
// process; used for the bulk of the allow-list cases so that a reintroduced C-string lookup does not turn every case
// into a sanitizer abort (the exact variant is kept for a sample of them).
struct KeyBuf
{
  std::unique_ptr<char[]> p;
  size_t n;
  KeyBuf(const std::string &s, bool guarded) : p(new char[s.size() + (guarded ? 2 : (s.empty() ? 1 : 0))]), n(s.size())
  {
    if (n) memcpy(p.get(), s.data(), n);
    if (guarded)
    {
      p[n]     = 'Z';
      p[n + 1] = 0;
    }
    else if (!n)
      p[0] = 'Z';
  }
  const char *data() const { return p.get(); }
  size_t size() const { return n; }
};

struct Holder
{
  std::unique_ptr<KeyBuf> key;
  common::AttributeValue value;
  // backing stores
  std::unique_ptr<vh::Exact> str;
  std::string cstr;
  std::unique_ptr<bool[]> bools;
  std::vector<int32_t> i32s;
  std::vector<uint32_t> u32s;
  std::vector<int64_t> i64s;
  std::vector<uint64_t> u64s;
  std::vector<double> dbls;
  std::vector<uint8_t> u8s;
  std::vector<std::unique_ptr<vh::Exact>> strs;
  std::vector<nostd::string_view> views;
};

template <class T>
static bool parse_arr(const std::string &p, __int128 lo, __int128 hi, std::vector<T> &out)
{
  if (p.empty()) return true;
  for (auto &t : split(p, '+'))
  {
    __int128 v;
    if (lo < 0 ? !parse_int(t, lo, hi, v) : !parse_nat(t, hi, v)) return false;
    out.push_back(static_cast<T>(v));
  }
  return true;
}

static const __int128 P31 = static_cast<__int128>(1) << 31, P32 = static_cast<__int128>(1) << 32,
                      P63 = static_cast<__int128>(1) << 63, P64 = static_cast<__int128>(1) << 64;

static bool parse_value(const std::string &tok, Holder &h)
{
  auto parts = split(tok, ':');
  if (parts.size() != 2) return false;
  const std::string &ty = parts[0], &p = parts[1];
  __int128 v;
  if (ty == "b")
  {
    if (p != "0" && p != "1") return false;
    h.value = (p == "1");
  }
  else if (ty == "i32")
  {
    if (!parse_int(p, -P31, P31, v)) return false;
    h.value = static_cast<int32_t>(v);
  }
  else if (ty == "u32")
  {
    if (!parse_nat(p, P32, v)) return false;
    h.value = static_cast<uint32_t>(v);
  }
  else if (ty == "i64")
  {
    if (!parse_int(p, -P63, P63, v)) return false;
    h.value = static_cast<int64_t>(v);
  }
  else if (ty == "u64")
  {
    if (!parse_nat(p, P64, v)) return false;
    h.value = static_cast<uint64_t>(v);
  }
  else if (ty == "d")
  {
    double d;
    if (!parse_double(p, d)) return false;
    h.value = d;
  }
  else if (ty == "s")
  {
    std::string s;
    if (!hex_maybe_empty(p, s)) return false;
    h.str.reset(new vh::Exact(s));
    h.value = nostd::string_view(h.str->data(), h.str->size());
  }
  else if (ty == "cs")
  {
    std::string s;
    if (!hex_maybe_empty(p, s)) return false;
    if (s.find('\0') != std::string::npos) return false;
    h.cstr  = s;
    h.value = h.cstr.c_str();
  }
  else if (ty == "ab")
  {
    h.bools.reset(new bool[p.size() ? p.size() : 1]);
    for (size_t i = 0; i < p.size(); i++)
    {
      if (p[i] != '0' && p[i] != '1') return false;
      h.bools[i] = p[i] == '1';
    }
    h.value = nostd::span<const bool>(h.bools.get(), p.size());
  }
  else if (ty == "ai32")
  {
    if (!parse_arr(p, -P31, P31, h.i32s)) return false;
    h.value = nostd::span<const int32_t>(h.i32s.data(), h.i32s.size());
  }
  else if (ty == "au32")
  {
    if (!parse_arr(p, 0, P32, h.u32s)) return false;
    h.value = nostd::span<const uint32_t>(h.u32s.data(), h.u32s.size());
  }
  else if (ty == "ai64")
  {
    if (!parse_arr(p, -P63, P63, h.i64s)) return false;
    h.value = nostd::span<const int64_t>(h.i64s.data(), h.i64s.size());
  }
  else if (ty == "au64")
  {
    if (!parse_arr(p, 0, P64, h.u64s)) return false;
    h.value = nostd::span<const uint64_t>(h.u64s.data(), h.u64s.size());
  }
  else if (ty == "ad")
  {
    if (!p.empty())
      for (auto &t : split(p, '+'))
      {
        double d;
        if (!parse_double(t, d)) return false;
        h.dbls.push_back(d);
      }
    h.value = nostd::span<const double>(h.dbls.data(), h.dbls.size());
  }
  else if (ty == "as")
  {
    if (!p.empty())
      for (auto &t : split(p, '+'))
      {
        std::string s;
        if (t.empty() || !vh::from_hex(t, s)) return false;
        h.strs.emplace_back(new vh::Exact(s));
      }
    for (auto &e : h.strs) h.views.emplace_back(e->data(), e->size());
    h.value = nostd::span<const nostd::string_view>(h.views.data(), h.views.size());
  }
  else if (ty == "au8")
  {
    std::string s;
    if (!hex_maybe_empty(p, s)) return false;
    h.u8s.assign(s.begin(), s.end());
    h.value = nostd::span<const uint8_t>(h.u8s.data(), h.u8s.size());
  }
  else
    return false;
  return true;
}

class AttrList : public common::KeyValueIterable
{
public:
  std::list<Holder> items;  // list: holders never move, the views into them stay valid
  bool ForEachKeyValue(nostd::function_ref<bool(nostd::string_view, common::AttributeValue)> cb) const noexcept override
  {
    for (auto &h : items)
      if (!cb(nostd::string_view(h.key->data(), h.key->size()), h.value)) return false;
    return true;
  }
  size_t size() const noexcept override { return items.size(); }
};

static bool parse_attrs(const std::string &tok, AttrList &out, bool guarded)
{
  if (tok == "-") return true;
  for (auto &kv : split(tok, ','))
  {
    auto parts = split(kv, '=');
    if (parts.size() != 2) return false;
    std::string k;
    if (!hex_maybe_empty(parts[0], k)) return false;
    out.items.emplace_back();
    Holder &h = out.items.back();
    h.key.reset(new KeyBuf(k, guarded));
    if (!parse_value(parts[1], h)) return false;
  }
  return true;
}

static bool parse_filter(const std::string &tok, std::unique_ptr<sm::AttributesProcessor> &out)
{
  if (tok == "*")
  {
    out.reset(new sm::DefaultAttributesProcessor());
    return true;
  }
  std::unordered_map<std::string, bool> allowed;
  if (tok != "-")
    for (auto &k : split(tok, ','))
    {
      std::string s;
      if (k == "_") s = "";
      else if (k.empty() || k == "-" || !vh::from_hex(k, s)) return false;
      allowed[s] = true;
    }
  out.reset(new sm::FilteringAttributesProcessor(std::move(allowed)));
  return true;
}

// ---------------------------------------------------------------- printing keys
struct ShowValue
{
  std::string operator()(bool v) const { return std::string("b:") + (v ? "1" : "0"); }
  std::string operator()(int32_t v) const { return "i32:" + std::to_string(v); }
  std::string operator()(uint32_t v) const { return "u32:" + std::to_string(v); }
  std::string operator()(int64_t v) const { return "i64:" + std::to_string(v); }
  std::string operator()(uint64_t v) const { return "u64:" + std::to_string(v); }
  std::string operator()(double v) const { return "d:" + dy(v); }
  std::string operator()(const std::string &v) const { return "s:" + hex_or_empty(v); }
  std::string operator()(const std::vector<bool> &v) const
  {
    std::string s = "ab:";
    for (bool b : v) s += b ? "1" : "0";
    return s;
  }
  template <class T>
  static std::string arr(const char *ty, const std::vector<T> &v)
  {
    std::vector<std::string> ss;
    for (auto &x : v) ss.push_back(std::to_string(x));
    return std::string(ty) + vh::join(ss, "+");
  }
  std::string operator()(const std::vector<int32_t> &v) const { return arr("ai32:", v); }
  std::string operator()(const std::vector<uint32_t> &v) const { return arr("au32:", v); }
  std::string operator()(const std::vector<int64_t> &v) const { return arr("ai64:", v); }
  std::string operator()(const std::vector<uint64_t> &v) const { return arr("au64:", v); }
  std::string operator()(const std::vector<double> &v) const
  {
    std::vector<std::string> ss;
    for (double x : v) ss.push_back(dy(x));
    return "ad:" + vh::join(ss, "+");
  }
  std::string operator()(const std::vector<std::string> &v) const
  {
    std::vector<std::string> ss;
    for (auto &x : v) ss.push_back(vh::to_hex(x));
    return "as:" + vh::join(ss, "+");
  }
  std::string operator()(const std::vector<uint8_t> &v) const
  {
    return "au8:" + hex_or_empty(std::string(v.begin(), v.end()));
  }
};

static std::string show_key(const opentelemetry::sdk::common::OrderedAttributeMap &m)
{
  std::vector<std::string> ss;
  for (auto &kv : m) ss.push_back(hex_or_empty(kv.first) + "=" + nostd::visit(ShowValue(), kv.second));
  return "{" + vh::join(ss, ",") + "}";
}

// ---------------------------------------------------------------- attr eq
static std::string run_attr(const std::vector<std::string> &t)
{
  if (t.size() != 5 || (t[1] != "eq" && t[1] != "eqg")) return "bad-op";
  bool guarded = t[1] == "eqg";
  std::unique_ptr<sm::AttributesProcessor> proc;
  if (!parse_filter(t[2], proc)) return "bad-op";
  std::unique_ptr<sm::FilteredOrderedAttributeMap> ma, mb;
  {
    AttrList a, b;
    if (!parse_attrs(t[3], a, guarded) || !parse_attrs(t[4], b, guarded)) return "bad-op";
    ma.reset(new sm::FilteredOrderedAttributeMap(a, proc.get()));
    mb.reset(new sm::FilteredOrderedAttributeMap(b, proc.get()));
  }  // caller buffers are gone: the maps must own their content
  bool eq = (*ma == *mb);
  // equality and hashing as the series table uses them
  sm::AttributesHashMap table;
  table.Set(*ma, std::unique_ptr<sm::Aggregation>(new sm::LongSumAggregation(true)));
  bool found = table.Has(*mb);
  if (found != eq) return "ERR table lookup and operator== disagree";
  // the other ways the SDK offers to arrive at the same key must agree with the one above (equal, and hashing equally):
  // AttributesProcessor::process(), the constructor without a processor (under the keep-everything processor), and the
  // initializer-list constructor (lists of at most three entries)
  {
    AttrList a2;
    if (!parse_attrs(t[3], a2, guarded)) return "bad-op";
    sm::MetricAttributes via_process = proc->process(a2);
    if (!(via_process == *ma) || via_process.GetHash() != ma->GetHash()) return "ERR process() and the filtered-map constructor disagree";
    if (sm::AttributeHashGenerator()(via_process) != sm::AttributeHashGenerator()(*ma)) return "ERR AttributeHashGenerator differs on equal keys";
    if (t[2] == "*")
    {
      sm::FilteredOrderedAttributeMap plain(a2);
      if (!(plain == *ma) || plain.GetHash() != ma->GetHash()) return "ERR constructor without processor differs from the keep-everything processor";
    }
    if (a2.items.size() <= 3)
    {
      std::vector<std::pair<nostd::string_view, common::AttributeValue>> kv;
      for (auto &h : a2.items) kv.emplace_back(nostd::string_view(h.key->data(), h.key->size()), h.value);
      std::unique_ptr<sm::FilteredOrderedAttributeMap> il;
      // under the keep-everything filter the processor may also be absent (nullptr): every other such case
      const sm::AttributesProcessor *ilp = (t[2] == "*" && (t[3].size() + t[4].size()) % 2) ? nullptr : proc.get();
      if (kv.size() == 0) il.reset(new sm::FilteredOrderedAttributeMap({}, ilp));
      else if (kv.size() == 1) il.reset(new sm::FilteredOrderedAttributeMap({kv[0]}, ilp));
      else if (kv.size() == 2) il.reset(new sm::FilteredOrderedAttributeMap({kv[0], kv[1]}, ilp));
      else il.reset(new sm::FilteredOrderedAttributeMap({kv[0], kv[1], kv[2]}, ilp));
      if (!(*il == *ma) || il->GetHash() != ma->GetHash()) return "ERR initializer-list constructor and KeyValueIterable constructor disagree";
    }
    // GetAllEnteries stops at the first `false` of its callback
    sm::AttributesHashMap two;
    two.Set(*ma, std::unique_ptr<sm::Aggregation>(new sm::LongSumAggregation(true)));
    two.Set(*mb, std::unique_ptr<sm::Aggregation>(new sm::LongSumAggregation(true)));
    size_t seen = 0;
    bool all = two.GetAllEnteries([&](const sm::MetricAttributes &, sm::Aggregation &) { return ++seen < 1; });
    if (all || seen != 1 || two.Size() != (eq ? 1u : 2u)) return "ERR GetAllEnteries / Size";
  }
  std::string he = "-";
  if (eq) he = (ma->GetHash() == mb->GetHash() && sm::FilteredOrderedAttributeMapHash()(*ma) == sm::FilteredOrderedAttributeMapHash()(*mb)) ? "1" : "0";
  return "a=" + show_key(*ma) + " b=" + show_key(*mb) + " eq=" + (eq ? "1" : "0") + " hasheq=" + he;
}

// ---------------------------------------------------------------- series
class Handle : public sm::CollectorHandle
{
public:
  explicit Handle(sm::AggregationTemporality t) : t_(t) {}
  sm::AggregationTemporality GetAggregationTemporality(sm::InstrumentType) noexcept override { return t_; }

private:
  sm::AggregationTemporality t_;
};

class Reader : public sm::MetricReader
{
public:
  explicit Reader(sm::AggregationTemporality t) : t_(t) {}
  sm::AggregationTemporality GetAggregationTemporality(sm::InstrumentType) const noexcept override { return t_; }

private:
  bool OnForceFlush(std::chrono::microseconds) noexcept override { return true; }
  bool OnShutDown(std::chrono::microseconds) noexcept override { return true; }
  sm::AggregationTemporality t_;
};

static const std::string kOvfShown = "{" + vh::to_hex(std::string("otel.metrics.overflow")) + "=b:1}";

typedef std::vector<std::pair<std::string, long long>> Points;

static void take_points(const std::vector<sm::PointDataAttributes> &src, Points &out)
{
  out.clear();
  for (auto &p : src)
  {
    const auto &val = nostd::get<sm::SumPointData>(p.point_data).value_;
    // a double-valued instrument is fed whole numbers below 2^40: every sum is exact
    out.emplace_back(show_key(p.attributes), nostd::holds_alternative<double>(val)
                                                 ? static_cast<long long>(nostd::get<double>(val))
                                                 : static_cast<long long>(nostd::get<int64_t>(val)));
  }
}

static std::string show_collect(bool seen, bool fast, size_t limit, const Points &pts)
{
  if (!seen) return "none";
  long long tot = 0;
  bool has_ovf  = false;
  std::string ovf_val = "-";
  std::vector<std::string> ss;
  for (auto &p : pts)
  {
    long long v = p.second;
    tot += v;
    const std::string &k = p.first;
    if (k == kOvfShown)
    {
      has_ovf = true;
      ovf_val = std::to_string(v);
    }
    ss.push_back(k + ":" + std::to_string(v));
  }
  size_t n = pts.size();
  if (has_ovf && !fast) return std::string("red le=") + (n <= limit ? "1" : "0") + " tot=" + std::to_string(tot);
  if (n > 64) return "big n=" + std::to_string(n) + " tot=" + std::to_string(tot) + " ovf=" + ovf_val;
  std::sort(ss.begin(), ss.end());
  std::string s = "full n=" + std::to_string(n) + " tot=" + std::to_string(tot);
  for (auto &x : ss) s += " " + x;
  return s;
}

struct ParsedOp
{
  int kind;  // 0 rec, 1 recn, 2 col
  std::string attrs, prefix;
  long long lo = 0, hi = 0, value = 0;
  size_t reader = 0;
};

static bool parse_ops(const std::vector<std::vector<std::string>> &ops, size_t nreaders, std::vector<ParsedOp> &out)
{
  for (auto &op : ops)
  {
    ParsedOp p;
    __int128 v;
    if (op.size() == 3 && op[0] == "rec")
    {
      p.kind  = 0;
      p.attrs = op[1];
      AttrList probe;
      // "~" / "~c": the overloads that take no attributes at all (without / with a context)
      if (op[1] != "~" && op[1] != "~c" && !parse_attrs(op[1], probe, true)) return false;
      if (!parse_nat(op[2], static_cast<__int128>(1) << 40, v)) return false;
      p.value = static_cast<long long>(v);
    }
    else if (op.size() == 5 && op[0] == "recn")
    {
      p.kind = 1;
      if (!hex_maybe_empty(op[1], p.prefix)) return false;
      if (!parse_nat(op[2], P31, v)) return false;
      p.lo = static_cast<long long>(v);
      if (!parse_nat(op[3], P31, v)) return false;
      p.hi = static_cast<long long>(v);
      if (!parse_nat(op[4], static_cast<__int128>(1) << 40, v)) return false;
      p.value = static_cast<long long>(v);
    }
    else if (op.size() == 2 && op[0] == "col")
    {
      p.kind = 2;
      if (!parse_nat(op[1], static_cast<__int128>(nreaders), v)) return false;
      p.reader = static_cast<size_t>(v);
    }
    else
      return false;
    out.push_back(p);
  }
  return true;
}

template <class REC, class REC0, class COL>
static std::string drive(const std::vector<ParsedOp> &ops, bool guarded, REC rec, REC0 rec0, COL col)
{
  std::vector<std::string> outs;
  for (auto &op : ops)
  {
    if (op.kind == 0 && (op.attrs == "~" || op.attrs == "~c"))
    {
      rec0(op.value, op.attrs == "~c");
    }
    else if (op.kind == 0)
    {
      AttrList a;
      parse_attrs(op.attrs, a, guarded);
      rec(op.value, a);
    }
    else if (op.kind == 1)
    {
      for (long long i = op.lo; i < op.hi; i++)
      {
        AttrList a;
        a.items.emplace_back();
        Holder &h = a.items.back();
        h.key.reset(new KeyBuf(op.prefix, guarded));
        h.value = static_cast<int64_t>(i);
        rec(op.value, a);
      }
    }
    else
      outs.push_back(col(op.reader));
  }
  return outs.empty() ? "-" : vh::join(outs, " ; ");
}

static bool parse_temps(const std::string &s, std::vector<sm::AggregationTemporality> &out)
{
  if (s.empty()) return false;
  for (char c : s)
  {
    if (c == 'D') out.push_back(sm::AggregationTemporality::kDelta);
    else if (c == 'C') out.push_back(sm::AggregationTemporality::kCumulative);
    else return false;
  }
  return true;
}

static std::string run_store(const std::vector<std::string> &t)
{
  if (t.size() < 5) return "bad-op";
  __int128 lim;
  if (!parse_nat(t[2], 100000, lim)) return "bad-op";
  size_t limit = static_cast<size_t>(lim);
  std::unique_ptr<sm::AttributesProcessor> proc;
  if (!parse_filter(t[3], proc)) return "bad-op";
  std::vector<sm::AggregationTemporality> temps;
  if (!parse_temps(t[4], temps)) return "bad-op";
  std::vector<ParsedOp> ops;
  if (!parse_ops(vh::split_ops(t, 5), temps.size(), ops)) return "bad-op";
  bool fast = temps.size() == 1 && temps[0] == sm::AggregationTemporality::kDelta;
  const bool dbl = t[1] == "stored";  // the double-valued storage: RecordDouble
  sm::InstrumentDescriptor desc = {"c", "", "", sm::InstrumentType::kCounter,
                                   dbl ? sm::InstrumentValueType::kDouble : sm::InstrumentValueType::kLong};
  sm::SyncMetricStorage storage(desc, sm::AggregationType::kSum, proc.get(), nullptr, limit);
  std::vector<std::shared_ptr<sm::CollectorHandle>> collectors;
  for (auto tp : temps) collectors.emplace_back(new Handle(tp));
  auto start = std::chrono::system_clock::now();
  return drive(
      ops, t[1] == "storeg",
      [&](long long v, const AttrList &a) {
        if (dbl) storage.RecordDouble(static_cast<double>(v), a, opentelemetry::context::Context{});
        else storage.RecordLong(v, a, opentelemetry::context::Context{});
      },
      [&](long long v, bool) {
        if (dbl) storage.RecordDouble(static_cast<double>(v), opentelemetry::context::Context{});
        else storage.RecordLong(v, opentelemetry::context::Context{});
      },
      [&](size_t r) {
        bool seen = false;
        Points pts;
        storage.Collect(collectors[r].get(), collectors, start, std::chrono::system_clock::now(),
                        [&](const sm::MetricData &md) {
                          seen = true;
                          take_points(md.point_data_attr_, pts);
                          return true;
                        });
        return show_collect(seen, fast, limit, pts);
      });
}

static std::string run_sdk(const std::vector<std::string> &t)
{
  if (t.size() < 4) return "bad-op";
  std::unique_ptr<sm::AttributesProcessor> proc;
  if (!parse_filter(t[2], proc)) return "bad-op";
  std::vector<sm::AggregationTemporality> temps;
  if (!parse_temps(t[3], temps)) return "bad-op";
  std::vector<ParsedOp> ops;
  if (!parse_ops(vh::split_ops(t, 4), temps.size(), ops)) return "bad-op";
  bool fast = temps.size() == 1 && temps[0] == sm::AggregationTemporality::kDelta;
  // provider, registry, view and selectors through the constructors or the *Factory::Create overloads (metrics_factories.h)
  const uint64_t hash = vhm::case_hash(t);
  // the view goes into the ViewRegistry handed to the provider, or is added with MeterProvider::AddView afterwards
  std::unique_ptr<sm::ViewRegistry> registry;
  if (vhm::mix(hash, 1) % 2) registry = vhm::make_registry(hash);
  auto view = vhm::make_view(hash, "c", "", "", sm::AggregationType::kDefault, nullptr, std::move(proc));
  auto is   = vhm::make_isel(hash, sm::InstrumentType::kCounter, "c", "");
  auto ms   = vhm::make_msel(hash, "m", "1", "s");
  const bool view_first = registry != nullptr;
  if (view_first) registry->AddView(std::move(is), std::move(ms), std::move(view));
  auto mp_p             = vhm::make_provider(hash, std::move(registry), nullptr, nullptr).provider;
  sm::MeterProvider &mp = *mp_p;
  if (!view_first) mp.AddView(std::move(is), std::move(ms), std::move(view));
  std::vector<std::shared_ptr<Reader>> readers;
  for (auto tp : temps)
  {
    readers.emplace_back(new Reader(tp));
    mp.AddMetricReader(readers.back());
  }
  auto meter   = mp.GetMeter("m", "1", "s");
  const bool dbl = t[1] == "sdkd";  // a double counter: DoubleCounter::Add -> RecordDouble
  nostd::unique_ptr<opentelemetry::metrics::Counter<uint64_t>> counter;
  nostd::unique_ptr<opentelemetry::metrics::Counter<double>> dcounter;
  if (dbl) dcounter = meter->CreateDoubleCounter("c", "", "");
  else counter = meter->CreateUInt64Counter("c", "", "");
  return drive(
      ops, t[1] == "sdkg",
      [&](long long v, const AttrList &a) {
        if (dbl) dcounter->Add(static_cast<double>(v), a, opentelemetry::context::Context{});
        else counter->Add(static_cast<uint64_t>(v), a, opentelemetry::context::Context{});
      },
      [&](long long v, bool with_ctx) {
        if (dbl)
        {
          if (with_ctx) dcounter->Add(static_cast<double>(v), opentelemetry::context::Context{});
          else dcounter->Add(static_cast<double>(v));
        }
        else if (with_ctx) counter->Add(static_cast<uint64_t>(v), opentelemetry::context::Context{});
        else counter->Add(static_cast<uint64_t>(v));
      },
      [&](size_t r) {
        bool seen = false;
        Points pts;
        readers[r]->Collect([&](sm::ResourceMetrics &rm) {
          for (auto &sc : rm.scope_metric_data_)
            for (auto &md : sc.metric_data_)
              if (md.instrument_descriptor.name_ == "c")
              {
                seen = true;
                take_points(md.point_data_attr_, pts);
              }
          return true;
        });
        return show_collect(seen, fast, sm::kAggregationCardinalityLimit, pts);
      });
}

// `series obs <readers> recn <prefix> <lo> <hi> <v> ; col <r> ; ...`: the same series table behind an OBSERVABLE counter with
// the default limit.  `recn` adds v to the running totals of the sets {prefix: lo}, ..., {prefix: hi-1}; at every collection
// the callback reports the running total of every set seen so far.  What the readers are given must then be what a
// synchronous counter with the same additions would give (C17: async refines sync), in particular within the limit and with
// the excess folded into the overflow series without losing anything.
struct ObsState
{
  std::map<std::pair<std::string, long long>, long long> totals;
};
static void obs_callback(opentelemetry::metrics::ObserverResult result, void *state)
{
  auto *st = static_cast<ObsState *>(state);
  auto r   = nostd::get<nostd::shared_ptr<opentelemetry::metrics::ObserverResultT<int64_t>>>(result);
  for (auto &kv : st->totals)
  {
    AttrList a;
    a.items.emplace_back();
    Holder &h = a.items.back();
    h.key.reset(new KeyBuf(kv.first.first, false));
    h.value = static_cast<int64_t>(kv.first.second);
    r->Observe(static_cast<int64_t>(kv.second), a);
  }
}
static std::string run_obs(const std::vector<std::string> &t)
{
  if (t.size() < 3) return "bad-op";
  std::vector<sm::AggregationTemporality> temps;
  if (!parse_temps(t[2], temps)) return "bad-op";
  std::vector<ParsedOp> ops;
  if (!parse_ops(vh::split_ops(t, 3), temps.size(), ops)) return "bad-op";
  for (auto &op : ops)
    if (op.kind == 0 || (op.kind == 1 && op.value == 0)) return "bad-op";  // only recn (v >= 1) / col: one Observe per set and cycle
  bool fast = temps.size() == 1 && temps[0] == sm::AggregationTemporality::kDelta;
  const uint64_t hash = vhm::case_hash(t);
  auto mp_p           = vhm::make_provider(hash, vhm::mix(hash, 1) % 2 ? vhm::make_registry(hash) : nullptr, nullptr, nullptr).provider;
  sm::MeterProvider &mp = *mp_p;
  std::vector<std::shared_ptr<Reader>> readers;
  for (auto tp : temps)
  {
    readers.emplace_back(new Reader(tp));
    mp.AddMetricReader(readers.back());
  }
  auto meter = mp.GetMeter("m", "1", "s");
  auto obs   = meter->CreateInt64ObservableCounter("c", "", "");
  ObsState st;
  obs->AddCallback(obs_callback, &st);
  std::vector<std::string> outs;
  for (auto &op : ops)
  {
    if (op.kind == 1)
    {
      for (long long i = op.lo; i < op.hi; i++) st.totals[{op.prefix, i}] += op.value;
      continue;
    }
    bool seen = false;
    Points pts;
    readers[op.reader]->Collect([&](sm::ResourceMetrics &rm) {
      for (auto &sc : rm.scope_metric_data_)
        for (auto &md : sc.metric_data_)
          if (md.instrument_descriptor.name_ == "c")
          {
            seen = true;
            take_points(md.point_data_attr_, pts);
          }
      return true;
    });
    if (temps[op.reader] == sm::AggregationTemporality::kDelta)
    {
      // a set whose total did not move since this reader's last collection is reported with the difference 0, where a
      // synchronous counter reports no point: not a difference the property is about
      Points nz;
      for (auto &p : pts)
        if (p.second != 0) nz.push_back(p);
      pts.swap(nz);
      if (fast && pts.empty()) seen = false;
    }
    outs.push_back(show_collect(seen, fast, sm::kAggregationCardinalityLimit, pts));
  }
  obs->RemoveCallback(obs_callback, &st);
  return outs.empty() ? "-" : vh::join(outs, " ; ");
}

static std::string handle(const std::vector<std::string> &t)
{
  if (t.empty()) return "bad-op";
  if (t[0] == "attr") return run_attr(t);
  if (t[0] == "series" && t.size() >= 2)
  {
    if (t[1] == "store" || t[1] == "storeg" || t[1] == "stored") return run_store(t);
    if (t[1] == "sdk" || t[1] == "sdkg" || t[1] == "sdkd") return run_sdk(t);
    if (t[1] == "obs") return run_obs(t);
  }
  return "bad-op";
}

int main()
{
  opentelemetry::sdk::common::internal_log::GlobalLogHandler::SetLogLevel(
      opentelemetry::sdk::common::internal_log::LogLevel::None);
  return vh::run_lines(handle);
}
