// Correspondence harness for C12 (samplers): calls the real samplers of the SDK in-process on the lines the Lean
// model driver also reads.  `threshold_` of TraceIdRatioBasedSampler is private; it is read through
// `#define private public` around the one header that declares it (all its includes are pulled in first).
#include "common.h"

#include <map>
#include <memory>
#include <string>

#include "opentelemetry/common/key_value_iterable_view.h"
#include "opentelemetry/sdk/trace/sampler.h"
#include "opentelemetry/sdk/trace/samplers/always_off.h"
#include "opentelemetry/sdk/trace/samplers/always_on.h"
#include "opentelemetry/sdk/trace/samplers/parent.h"
#include "opentelemetry/trace/span_context.h"
#include "opentelemetry/trace/span_context_kv_iterable_view.h"
#include "opentelemetry/trace/trace_state.h"

#define private public
#include "opentelemetry/sdk/trace/samplers/trace_id_ratio.h"
#undef private

namespace trace_api = opentelemetry::trace;
namespace trace_sdk = opentelemetry::sdk::trace;
namespace nostd     = opentelemetry::nostd;
namespace common    = opentelemetry::common;

static bool parse_bits(const std::string &s, double &out, bool &is_nan)
{
  if (s.size() != 16) return false;
  uint64_t b = 0;
  for (char c : s)
  {
    int v = vh::hexval(c);
    if (v < 0) return false;
    b = (b << 4) | static_cast<uint64_t>(v);
  }
  memcpy(&out, &b, 8);
  is_nan = ((b >> 52) & 0x7ff) == 0x7ff && (b & ((1ULL << 52) - 1)) != 0;
  return true;
}

static std::string hex16(uint64_t v)
{
  char buf[17];
  snprintf(buf, sizeof buf, "%016llx", static_cast<unsigned long long>(v));
  return buf;
}

static bool parse_trace_id(const std::string &s, trace_api::TraceId &out)
{
  std::string b;
  if (!vh::from_hex(s, b) || b.size() != 16) return false;
  out = trace_api::TraceId(nostd::span<const uint8_t, 16>(reinterpret_cast<const uint8_t *>(b.data()), 16));
  return true;
}

static std::vector<std::string> split_on(const std::string &s, char sep)
{
  std::vector<std::string> v(1);
  for (char c : s)
  {
    if (c == sep) v.emplace_back();
    else v.back().push_back(c);
  }
  return v;
}

// entries "k:v,k:v" (hex) -> a TraceState parsed by the real FromHeader from the header "k=v,k=v"
static bool parse_entries(const std::string &s, nostd::shared_ptr<trace_api::TraceState> &out)
{
  std::string header;
  if (s != "-")
  {
    bool first = true;
    for (auto &m : split_on(s, ','))
    {
      auto kv = split_on(m, ':');
      std::string k, v;
      if (kv.size() != 2 || !vh::from_hex(kv[0], k) || !vh::from_hex(kv[1], v)) return false;
      if (!first) header += ",";
      first = false;
      header += k + "=" + v;
    }
  }
  vh::Exact hx(header);
  out = trace_api::TraceState::FromHeader(nostd::string_view(hx.data(), hx.size()));
  return true;
}

static std::string show_ts(const nostd::shared_ptr<trace_api::TraceState> &ts)
{
  if (!ts) return "null";
  std::string s = "[";
  bool first    = true;
  ts->GetAllEntries([&](nostd::string_view k, nostd::string_view v) {
    if (!first) s += ",";
    first = false;
    s += vh::to_hex(k.data(), k.size()) + ":" + vh::to_hex(v.data(), v.size());
    return true;
  });
  return s + "]";
}

// a user-provided sampler: constant answer, counts its invocations
class CustomSampler : public trace_sdk::Sampler
{
public:
  CustomSampler(trace_sdk::Decision d, nostd::shared_ptr<trace_api::TraceState> ts) : d_(d), ts_(ts) {}
  trace_sdk::SamplingResult ShouldSample(const trace_api::SpanContext &, trace_api::TraceId, nostd::string_view,
                                         trace_api::SpanKind, const common::KeyValueIterable &,
                                         const trace_api::SpanContextKeyValueIterable &) noexcept override
  {
    ++calls;
    return {d_, nullptr, ts_};
  }
  nostd::string_view GetDescription() const noexcept override { return "Custom"; }
  int calls = 0;

private:
  trace_sdk::Decision d_;
  nostd::shared_ptr<trace_api::TraceState> ts_;
};

static bool parse_sampler(const std::string &spec, std::shared_ptr<trace_sdk::Sampler> &out,
                          std::shared_ptr<CustomSampler> &custom, bool &nan)
{
  auto parts = split_on(spec, '/');
  auto leaf  = split_on(parts.back(), '=');
  std::shared_ptr<trace_sdk::Sampler> s;
  if (leaf.size() == 1 && leaf[0] == "on") s = std::make_shared<trace_sdk::AlwaysOnSampler>();
  else if (leaf.size() == 1 && leaf[0] == "off") s = std::make_shared<trace_sdk::AlwaysOffSampler>();
  else if (leaf.size() == 2 && leaf[0] == "ratio")
  {
    double r;
    if (!parse_bits(leaf[1], r, nan)) return false;
    if (nan) return true;
    s = std::make_shared<trace_sdk::TraceIdRatioBasedSampler>(r);
  }
  else if (leaf.size() == 3 && leaf[0] == "custom")
  {
    trace_sdk::Decision d;
    if (leaf[1] == "0") d = trace_sdk::Decision::DROP;
    else if (leaf[1] == "1") d = trace_sdk::Decision::RECORD_ONLY;
    else if (leaf[1] == "2") d = trace_sdk::Decision::RECORD_AND_SAMPLE;
    else return false;
    nostd::shared_ptr<trace_api::TraceState> ts;
    if (leaf[2] != "null" && !parse_entries(leaf[2], ts)) return false;
    custom = std::make_shared<CustomSampler>(d, ts);
    s      = custom;
  }
  else return false;
  for (size_t i = parts.size() - 1; i-- > 0;)
  {
    if (parts[i] != "pb") return false;
    s = std::make_shared<trace_sdk::ParentBasedSampler>(s);
  }
  out = s;
  return true;
}

static bool parse_parent(const std::string &s, trace_api::SpanContext &out)
{
  if (s == "none")
  {
    out = trace_api::SpanContext::GetInvalid();
    return true;
  }
  auto p = split_on(s, '/');
  if (p.size() != 5) return false;
  std::string tid, sid, fl;
  if (!vh::from_hex(p[0], tid) || !vh::from_hex(p[1], sid) || !vh::from_hex(p[2], fl)) return false;
  if (tid.size() != 16 || sid.size() != 8 || fl.size() != 1 || (p[3] != "0" && p[3] != "1")) return false;
  nostd::shared_ptr<trace_api::TraceState> ts;
  if (!parse_entries(p[4], ts)) return false;
  out = trace_api::SpanContext(
      trace_api::TraceId(nostd::span<const uint8_t, 16>(reinterpret_cast<const uint8_t *>(tid.data()), 16)),
      trace_api::SpanId(nostd::span<const uint8_t, 8>(reinterpret_cast<const uint8_t *>(sid.data()), 8)),
      trace_api::TraceFlags(static_cast<uint8_t>(fl[0])), p[3] == "1", ts);
  return true;
}

static int dec_code(trace_sdk::Decision d)
{
  switch (d)
  {
    case trace_sdk::Decision::DROP: return 0;
    case trace_sdk::Decision::RECORD_ONLY: return 1;
    case trace_sdk::Decision::RECORD_AND_SAMPLE: return 2;
  }
  return 9;
}

// one decision of the ratio sampler for an id, asked several times with everything else varied (parent context,
// name, kind, attributes, links, a second sampler object built from the same ratio): '0'/'1', 'V' if the answers
// vary, 'x' for anything but DROP / RECORD_AND_SAMPLE with null trace state and null attributes
static char ratio_decision(double ratio, trace_sdk::TraceIdRatioBasedSampler &s, const trace_api::TraceId &id)
{
  using M = std::map<std::string, int>;
  M attrs1  = {{"k", 1}};
  M attrs0;
  using L = std::vector<std::pair<trace_api::SpanContext, std::map<std::string, std::string>>>;
  L links0;
  L links1 = {{trace_api::SpanContext(false, false), {}}};
  uint8_t tidb[16] = {9, 9, 9, 9, 9, 9, 9, 9, 9, 9, 9, 9, 9, 9, 9, 9};
  uint8_t sidb[8]  = {7, 7, 7, 7, 7, 7, 7, 7};
  trace_api::SpanContext sampled_remote(trace_api::TraceId(tidb), trace_api::SpanId(sidb), trace_api::TraceFlags(1), true,
                                        trace_api::TraceState::FromHeader("a=b"));
  trace_api::SpanContext unsampled_local(trace_api::TraceId(tidb), trace_api::SpanId(sidb), trace_api::TraceFlags(0), false);
  trace_sdk::TraceIdRatioBasedSampler s2(ratio);
  trace_sdk::SamplingResult r[4] = {
      s.ShouldSample(trace_api::SpanContext::GetInvalid(), id, "", trace_api::SpanKind::kInternal,
                     common::KeyValueIterableView<M>(attrs0), trace_api::SpanContextKeyValueIterableView<L>(links0)),
      s.ShouldSample(sampled_remote, id, "a-name", trace_api::SpanKind::kServer, common::KeyValueIterableView<M>(attrs1),
                     trace_api::SpanContextKeyValueIterableView<L>(links1)),
      s2.ShouldSample(unsampled_local, id, "other", trace_api::SpanKind::kClient, common::KeyValueIterableView<M>(attrs0),
                      trace_api::SpanContextKeyValueIterableView<L>(links1)),
      s.ShouldSample(unsampled_local, id, "x", trace_api::SpanKind::kProducer, common::KeyValueIterableView<M>(attrs1),
                     trace_api::SpanContextKeyValueIterableView<L>(links0))};
  char c = 0;
  for (auto &x : r)
  {
    char d;
    if (x.trace_state || x.attributes) d = 'x';
    else if (x.decision == trace_sdk::Decision::DROP) d = '0';
    else if (x.decision == trace_sdk::Decision::RECORD_AND_SAMPLE) d = '1';
    else d = 'x';
    if (c == 0) c = d;
    else if (c != d) return 'V';
  }
  return c;
}

static std::string handle_sm(const std::vector<std::string> &t)
{
  if (t.size() >= 3 && t[1] == "ratio")
  {
    std::vector<std::string> rs;
    std::vector<trace_api::TraceId> ids;
    size_t i = 2;
    for (; i < t.size() && t[i] != "ids"; i++) rs.push_back(t[i]);
    for (i++; i < t.size(); i++)
    {
      trace_api::TraceId id;
      if (!parse_trace_id(t[i], id)) return "bad-op";
      ids.push_back(id);
    }
    if (rs.empty()) return "bad-op";
    std::vector<std::pair<double, bool>> vals;
    for (auto &r : rs)
    {
      double d;
      bool nan;
      if (!parse_bits(r, d, nan)) return "bad-op";
      vals.emplace_back(d, nan);
    }
    std::vector<std::string> outs;
    for (auto &v : vals)
    {
      if (v.second)
      {
        outs.push_back("nan-ub");  // static_cast<uint64_t>(NaN) is undefined behaviour: never executed
        continue;
      }
      trace_sdk::TraceIdRatioBasedSampler s(v.first);
      std::string d;
      for (auto &id : ids) d.push_back(ratio_decision(v.first, s, id));
      outs.push_back("T=" + hex16(s.threshold_) + " D=" + d);
    }
    return vh::join(outs, " ; ");
  }
  if (t.size() == 5 && t[1] == "sample")
  {
    std::shared_ptr<trace_sdk::Sampler> s;
    std::shared_ptr<CustomSampler> custom;
    bool nan = false;
    trace_api::SpanContext parent(false, false);
    trace_api::TraceId tid;
    if (!parse_sampler(t[2], s, custom, nan) || nan || !parse_parent(t[3], parent) || !parse_trace_id(t[4], tid))
      return "bad-op";
    using M = std::map<std::string, int>;
    M attrs;
    using L = std::vector<std::pair<trace_api::SpanContext, std::map<std::string, std::string>>>;
    L links;
    auto r = s->ShouldSample(parent, tid, "", trace_api::SpanKind::kInternal, common::KeyValueIterableView<M>(attrs),
                             trace_api::SpanContextKeyValueIterableView<L>(links));
    if (r.attributes) return "ERR attributes-not-null";
    return "dec=" + std::to_string(dec_code(r.decision)) + " ts=" + show_ts(r.trace_state) +
           " calls=" + std::to_string(custom ? custom->calls : 0);
  }
  return "bad-op";
}

int main()
{
  return vh::run_lines([](const std::vector<std::string> &t) -> std::string {
    if (t.empty()) return "bad-op";
    if (t[0] == "sm") return handle_sm(t);
    return "bad-op";
  });
}
