// Correspondence harness for C12 (samplers): calls the real samplers of the SDK in-process on the lines the Lean
// model driver also reads.  `threshold_` of TraceIdRatioBasedSampler is private; it is read through
// `#define private public` around the one header that declares it (all its includes are pulled in first).
#include "common.h"

#include <map>
#include <memory>
#include <string>

#include "opentelemetry/sdk/trace/sampler.h"
#include "opentelemetry/trace/trace_id.h"

#define private public
#include "opentelemetry/sdk/trace/samplers/trace_id_ratio.h"
#undef private

#include "sampler_spec.h"

#include "opentelemetry/context/context.h"
#include "opentelemetry/context/runtime_context.h"
#include "opentelemetry/sdk/resource/resource.h"
#include "opentelemetry/sdk/trace/exporter.h"
#include "opentelemetry/sdk/trace/id_generator.h"
#include "opentelemetry/sdk/trace/recordable.h"
#include "opentelemetry/sdk/trace/samplers/always_off_factory.h"
#include "opentelemetry/sdk/trace/samplers/always_on_factory.h"
#include "opentelemetry/sdk/trace/samplers/parent_factory.h"
#include "opentelemetry/sdk/trace/samplers/trace_id_ratio_factory.h"
#include "opentelemetry/sdk/trace/simple_processor.h"
#include "opentelemetry/sdk/trace/span_data.h"
#include "opentelemetry/sdk/trace/tracer_provider.h"
#include "opentelemetry/trace/context.h"
#include "opentelemetry/trace/default_span.h"
#include "opentelemetry/trace/span_startoptions.h"
#include "opentelemetry/trace/tracer.h"

namespace context = opentelemetry::context;

// a counting user-provided sampler has to stay reachable from the harness: the tree owns this forwarder
class Fwd : public trace_sdk::Sampler
{
public:
  explicit Fwd(std::shared_ptr<trace_sdk::Sampler> s) : s_(std::move(s)) {}
  trace_sdk::SamplingResult ShouldSample(const trace_api::SpanContext &p, trace_api::TraceId t, nostd::string_view n,
                                         trace_api::SpanKind k, const common::KeyValueIterable &a,
                                         const trace_api::SpanContextKeyValueIterable &l) noexcept override
  {
    return s_->ShouldSample(p, t, n, k, a, l);
  }
  nostd::string_view GetDescription() const noexcept override { return s_->GetDescription(); }

private:
  std::shared_ptr<trace_sdk::Sampler> s_;
};

// the sampler tree of a spec, built through the factories (`f`) or through the constructors
static bool build_sampler(const std::string &spec, bool f, std::unique_ptr<trace_sdk::Sampler> &out,
                          std::shared_ptr<CustomSampler> &custom, bool &nan)
{
  auto parts = split_on(spec, '/');
  auto leaf  = split_on(parts.back(), '=');
  std::unique_ptr<trace_sdk::Sampler> s;
  if (leaf.size() == 1 && leaf[0] == "on")
  {
    if (f) s = trace_sdk::AlwaysOnSamplerFactory::Create();
    else s.reset(new trace_sdk::AlwaysOnSampler);
  }
  else if (leaf.size() == 1 && leaf[0] == "off")
  {
    if (f) s = trace_sdk::AlwaysOffSamplerFactory::Create();
    else s.reset(new trace_sdk::AlwaysOffSampler);
  }
  else if (leaf.size() == 2 && leaf[0] == "ratio")
  {
    double r;
    if (!parse_bits(leaf[1], r, nan)) return false;
    if (nan) return true;
    if (f) s = trace_sdk::TraceIdRatioBasedSamplerFactory::Create(r);
    else s.reset(new trace_sdk::TraceIdRatioBasedSampler(r));
  }
  else if (leaf.size() == 3 && leaf[0] == "custom")
  {
    std::shared_ptr<trace_sdk::Sampler> tmp;
    if (!parse_sampler(parts.back(), tmp, custom, nan)) return false;
    s.reset(new Fwd(custom));
  }
  else return false;
  for (size_t i = parts.size() - 1; i-- > 0;)
  {
    if (parts[i] != "pb") return false;
    std::shared_ptr<trace_sdk::Sampler> d(std::move(s));
    if (f) s = trace_sdk::ParentBasedSamplerFactory::Create(d);
    else s.reset(new trace_sdk::ParentBasedSampler(d));
  }
  out = std::move(s);
  return true;
}

// which overload family a case uses rotates with its text
static size_t rot_of(const std::vector<std::string> &t)
{
  size_t h = 0;
  for (auto &x : t)
    for (char c : x) h = h * 131 + static_cast<unsigned char>(c);
  return h >> 3;
}

class FixedIdGenerator : public trace_sdk::IdGenerator
{
public:
  explicit FixedIdGenerator(trace_api::TraceId t) : trace_sdk::IdGenerator(false), t_(t) {}
  trace_api::SpanId GenerateSpanId() noexcept override
  {
    const uint8_t b[8] = {0x51, 0x52, 0x53, 0x54, 0x55, 0x56, 0x57, 0x58};
    return trace_api::SpanId(b);
  }
  trace_api::TraceId GenerateTraceId() noexcept override { return t_; }

private:
  trace_api::TraceId t_;
};

class NullExporter final : public trace_sdk::SpanExporter
{
public:
  std::unique_ptr<trace_sdk::Recordable> MakeRecordable() noexcept override
  {
    return std::unique_ptr<trace_sdk::Recordable>(new trace_sdk::SpanData);
  }
  opentelemetry::sdk::common::ExportResult Export(
      const nostd::span<std::unique_ptr<trace_sdk::Recordable>> &) noexcept override
  {
    return opentelemetry::sdk::common::ExportResult::kSuccess;
  }
  bool ForceFlush(std::chrono::microseconds) noexcept override { return true; }
  bool Shutdown(std::chrono::microseconds) noexcept override { return true; }
};

// one decision of the ratio sampler for an id, asked several times with everything else varied (parent context,
// name, kind, attributes, links, a second sampler object built from the same ratio): '0'/'1', 'V' if the answers
// vary, 'x' for anything but DROP / RECORD_AND_SAMPLE with null trace state and null attributes
static char ratio_decision(double ratio, trace_sdk::TraceIdRatioBasedSampler &s, const trace_api::TraceId &id)
{
  using M = std::map<std::string, int>;
  M attrs1  = {{"k", 1}};
  M attrs0;
  using L = std::vector<std::pair<trace_api::SpanContext, std::map<std::string, std::string>>>;
  L links0;
  L links1 = {{trace_api::SpanContext(false, false), {}}};
  uint8_t tidb[16] = {9, 9, 9, 9, 9, 9, 9, 9, 9, 9, 9, 9, 9, 9, 9, 9};
  uint8_t sidb[8]  = {7, 7, 7, 7, 7, 7, 7, 7};
  trace_api::SpanContext sampled_remote(trace_api::TraceId(tidb), trace_api::SpanId(sidb), trace_api::TraceFlags(1), true,
                                        trace_api::TraceState::FromHeader("a=b"));
  trace_api::SpanContext unsampled_local(trace_api::TraceId(tidb), trace_api::SpanId(sidb), trace_api::TraceFlags(0), false);
  // a second sampler object from the same ratio, through the constructor or the factory
  std::unique_ptr<trace_sdk::Sampler> s2p =
      (id.Id()[15] & 1) ? trace_sdk::TraceIdRatioBasedSamplerFactory::Create(ratio)
                        : std::unique_ptr<trace_sdk::Sampler>(new trace_sdk::TraceIdRatioBasedSampler(ratio));
  trace_sdk::Sampler &s2 = *s2p;
  trace_sdk::SamplingResult r[4] = {
      s.ShouldSample(trace_api::SpanContext::GetInvalid(), id, "", trace_api::SpanKind::kInternal,
                     common::KeyValueIterableView<M>(attrs0), trace_api::SpanContextKeyValueIterableView<L>(links0)),
      s.ShouldSample(sampled_remote, id, "a-name", trace_api::SpanKind::kServer, common::KeyValueIterableView<M>(attrs1),
                     trace_api::SpanContextKeyValueIterableView<L>(links1)),
      s2.ShouldSample(unsampled_local, id, "other", trace_api::SpanKind::kClient, common::KeyValueIterableView<M>(attrs0),
                      trace_api::SpanContextKeyValueIterableView<L>(links1)),
      s.ShouldSample(unsampled_local, id, "x", trace_api::SpanKind::kProducer, common::KeyValueIterableView<M>(attrs1),
                     trace_api::SpanContextKeyValueIterableView<L>(links0))};
  char c = 0;
  for (auto &x : r)
  {
    char d;
    if (x.trace_state || x.attributes) d = 'x';
    else if (x.decision == trace_sdk::Decision::DROP) d = '0';
    else if (x.decision == trace_sdk::Decision::RECORD_AND_SAMPLE) d = '1';
    else d = 'x';
    if (c == 0) c = d;
    else if (c != d) return 'V';
  }
  return c;
}

static std::string handle_sm(const std::vector<std::string> &t)
{
  if (t.size() >= 3 && t[1] == "ratio")
  {
    std::vector<std::string> rs;
    std::vector<trace_api::TraceId> ids;
    size_t i = 2;
    for (; i < t.size() && t[i] != "ids"; i++) rs.push_back(t[i]);
    for (i++; i < t.size(); i++)
    {
      trace_api::TraceId id;
      if (!parse_trace_id(t[i], id)) return "bad-op";
      ids.push_back(id);
    }
    if (rs.empty()) return "bad-op";
    std::vector<std::pair<double, bool>> vals;
    for (auto &r : rs)
    {
      double d;
      bool nan;
      if (!parse_bits(r, d, nan)) return "bad-op";
      vals.emplace_back(d, nan);
    }
    std::vector<std::string> outs;
    for (auto &v : vals)
    {
      if (v.second)
      {
        outs.push_back("nan-ub");  // static_cast<uint64_t>(NaN) is undefined behaviour: never executed
        continue;
      }
      // the sampler whose threshold_ is read: built by the constructor or by the factory
      std::unique_ptr<trace_sdk::Sampler> sp =
          ((rot_of(t) + outs.size()) & 1) ? trace_sdk::TraceIdRatioBasedSamplerFactory::Create(v.first)
                                          : std::unique_ptr<trace_sdk::Sampler>(new trace_sdk::TraceIdRatioBasedSampler(v.first));
      auto &s = *static_cast<trace_sdk::TraceIdRatioBasedSampler *>(sp.get());
      std::string d;
      for (auto &id : ids) d.push_back(ratio_decision(v.first, s, id));
      outs.push_back("T=" + hex16(s.threshold_) + " D=" + d);
    }
    return vh::join(outs, " ; ");
  }
  if (t.size() == 5 && t[1] == "sample")
  {
    std::unique_ptr<trace_sdk::Sampler> s;
    std::shared_ptr<CustomSampler> custom;
    bool nan = false;
    trace_api::SpanContext parent(false, false);
    trace_api::TraceId tid;
    if (!build_sampler(t[2], rot_of(t) & 1, s, custom, nan) || nan || !parse_parent(t[3], parent) || !parse_trace_id(t[4], tid))
      return "bad-op";
    using M = std::map<std::string, int>;
    M attrs;
    using L = std::vector<std::pair<trace_api::SpanContext, std::map<std::string, std::string>>>;
    L links;
    auto r = s->ShouldSample(parent, tid, "", trace_api::SpanKind::kInternal, common::KeyValueIterableView<M>(attrs),
                             trace_api::SpanContextKeyValueIterableView<L>(links));
    if (r.attributes) return "ERR attributes-not-null";
    return "dec=" + std::to_string(dec_code(r.decision)) + " ts=" + show_ts(r.trace_state) +
           " calls=" + std::to_string(custom ? custom->calls : 0);
  }
  // sm span <spec> <parent> <tid> <c|x|a|r>: the sampled flag, recording state and trace state of a span started through a
  // real Tracer whose sampler is <spec> and whose id generator hands out <tid>; the parent is supplied as
  // options.parent = SpanContext (c), options.parent = Context carrying the span (x), the span active on the thread (a),
  // or it is active on the thread but options.parent is a Context with the is_root_span flag (r)
  if (t.size() == 6 && t[1] == "span")
  {
    std::unique_ptr<trace_sdk::Sampler> s, direct;
    std::shared_ptr<CustomSampler> custom, custom2;
    bool nan = false;
    trace_api::SpanContext parent(false, false);
    trace_api::TraceId tid;
    const std::string &how = t[5];
    if (how != "c" && how != "x" && how != "a" && how != "r") return "bad-op";
    const bool f = rot_of(t) & 1;
    if (!build_sampler(t[2], f, s, custom, nan) || nan || !parse_parent(t[3], parent) || !parse_trace_id(t[4], tid))
      return "bad-op";
    build_sampler(t[2], !f, direct, custom2, nan);
    std::string out;
    {
      trace_sdk::TracerProvider provider(
          std::unique_ptr<trace_sdk::SpanProcessor>(
              new trace_sdk::SimpleSpanProcessor(std::unique_ptr<trace_sdk::SpanExporter>(new NullExporter))),
          opentelemetry::sdk::resource::Resource::Create({}), std::move(s),
          std::unique_ptr<trace_sdk::IdGenerator>(new FixedIdGenerator(tid)));
      auto tracer = provider.GetTracer("c12", "1");
      trace_api::StartSpanOptions o;
      nostd::unique_ptr<context::Token> token;
      nostd::shared_ptr<trace_api::Span> pspan(new trace_api::DefaultSpan(parent));
      if (how == "c") o.parent = parent;
      else if (how == "x") o.parent = context::Context{}.SetValue(trace_api::kSpanKey, pspan);
      else
      {
        token = context::RuntimeContext::Attach(context::RuntimeContext::GetCurrent().SetValue(trace_api::kSpanKey, pspan));
        if (how == "r") o.parent = context::Context{}.SetValue(trace_api::kIsRootSpanKey, true);
      }
      auto span = (rot_of(t) & 2) ? tracer->StartSpan("", o) : tracer->StartSpan("", {{"k", 1}}, o);
      auto sc   = span->GetContext();
      int dec   = sc.IsSampled() ? 2 : span->IsRecording() ? 1 : 0;
      // what a sampler built from the same spec says when asked directly about this trace id
      using M = std::map<std::string, int>;
      M attrs;
      using L = std::vector<std::pair<trace_api::SpanContext, std::map<std::string, std::string>>>;
      L links;
      auto r = direct->ShouldSample(how == "r" ? trace_api::SpanContext::GetInvalid() : parent, sc.trace_id(), "",
                                    trace_api::SpanKind::kInternal, common::KeyValueIterableView<M>(attrs),
                                    trace_api::SpanContextKeyValueIterableView<L>(links));
      out = "dec=" + std::to_string(dec) + " ts=" + show_ts(sc.trace_state()) +
            " calls=" + std::to_string(custom ? custom->calls : 0) +
            " tid=" + vh::to_hex(reinterpret_cast<const char *>(sc.trace_id().Id().data()), 16) +
            " sdec=" + std::to_string(dec_code(r.decision));
      span->End();
      if (token) context::RuntimeContext::Detach(*token);
    }
    return out;
  }
  return "bad-op";
}

int main()
{
  return vh::run_lines([](const std::vector<std::string> &t) -> std::string {
    if (t.empty()) return "bad-op";
    if (t[0] == "sm") return handle_sm(t);
    return "bad-op";
  });
}
