// Correspondence harness for C12 (samplers): calls the real samplers of the SDK in-process on the lines the Lean
// model driver also reads.  `threshold_` of TraceIdRatioBasedSampler is private; it is read through
// `#define private public` around the one header that declares it (all its includes are pulled in first).
#include "common.h"

#include <map>
#include <memory>
#include <string>

#include "opentelemetry/sdk/trace/sampler.h"
#include "opentelemetry/trace/trace_id.h"

#define private public
#include "opentelemetry/sdk/trace/samplers/trace_id_ratio.h"
#undef private

#include "sampler_spec.h"

// one decision of the ratio sampler for an id, asked several times with everything else varied (parent context,
// name, kind, attributes, links, a second sampler object built from the same ratio): '0'/'1', 'V' if the answers
// vary, 'x' for anything but DROP / RECORD_AND_SAMPLE with null trace state and null attributes
static char ratio_decision(double ratio, trace_sdk::TraceIdRatioBasedSampler &s, const trace_api::TraceId &id)
{
  using M = std::map<std::string, int>;
  M attrs1  = {{"k", 1}};
  M attrs0;
  using L = std::vector<std::pair<trace_api::SpanContext, std::map<std::string, std::string>>>;
  L links0;
  L links1 = {{trace_api::SpanContext(false, false), {}}};
  uint8_t tidb[16] = {9, 9, 9, 9, 9, 9, 9, 9, 9, 9, 9, 9, 9, 9, 9, 9};
  uint8_t sidb[8]  = {7, 7, 7, 7, 7, 7, 7, 7};
  trace_api::SpanContext sampled_remote(trace_api::TraceId(tidb), trace_api::SpanId(sidb), trace_api::TraceFlags(1), true,
                                        trace_api::TraceState::FromHeader("a=b"));
  trace_api::SpanContext unsampled_local(trace_api::TraceId(tidb), trace_api::SpanId(sidb), trace_api::TraceFlags(0), false);
  trace_sdk::TraceIdRatioBasedSampler s2(ratio);
  trace_sdk::SamplingResult r[4] = {
      s.ShouldSample(trace_api::SpanContext::GetInvalid(), id, "", trace_api::SpanKind::kInternal,
                     common::KeyValueIterableView<M>(attrs0), trace_api::SpanContextKeyValueIterableView<L>(links0)),
      s.ShouldSample(sampled_remote, id, "a-name", trace_api::SpanKind::kServer, common::KeyValueIterableView<M>(attrs1),
                     trace_api::SpanContextKeyValueIterableView<L>(links1)),
      s2.ShouldSample(unsampled_local, id, "other", trace_api::SpanKind::kClient, common::KeyValueIterableView<M>(attrs0),
                      trace_api::SpanContextKeyValueIterableView<L>(links1)),
      s.ShouldSample(unsampled_local, id, "x", trace_api::SpanKind::kProducer, common::KeyValueIterableView<M>(attrs1),
                     trace_api::SpanContextKeyValueIterableView<L>(links0))};
  char c = 0;
  for (auto &x : r)
  {
    char d;
    if (x.trace_state || x.attributes) d = 'x';
    else if (x.decision == trace_sdk::Decision::DROP) d = '0';
    else if (x.decision == trace_sdk::Decision::RECORD_AND_SAMPLE) d = '1';
    else d = 'x';
    if (c == 0) c = d;
    else if (c != d) return 'V';
  }
  return c;
}

static std::string handle_sm(const std::vector<std::string> &t)
{
  if (t.size() >= 3 && t[1] == "ratio")
  {
    std::vector<std::string> rs;
    std::vector<trace_api::TraceId> ids;
    size_t i = 2;
    for (; i < t.size() && t[i] != "ids"; i++) rs.push_back(t[i]);
    for (i++; i < t.size(); i++)
    {
      trace_api::TraceId id;
      if (!parse_trace_id(t[i], id)) return "bad-op";
      ids.push_back(id);
    }
    if (rs.empty()) return "bad-op";
    std::vector<std::pair<double, bool>> vals;
    for (auto &r : rs)
    {
      double d;
      bool nan;
      if (!parse_bits(r, d, nan)) return "bad-op";
      vals.emplace_back(d, nan);
    }
    std::vector<std::string> outs;
    for (auto &v : vals)
    {
      if (v.second)
      {
        outs.push_back("nan-ub");  // static_cast<uint64_t>(NaN) is undefined behaviour: never executed
        continue;
      }
      trace_sdk::TraceIdRatioBasedSampler s(v.first);
      std::string d;
      for (auto &id : ids) d.push_back(ratio_decision(v.first, s, id));
      outs.push_back("T=" + hex16(s.threshold_) + " D=" + d);
    }
    return vh::join(outs, " ; ");
  }
  if (t.size() == 5 && t[1] == "sample")
  {
    std::shared_ptr<trace_sdk::Sampler> s;
    std::shared_ptr<CustomSampler> custom;
    bool nan = false;
    trace_api::SpanContext parent(false, false);
    trace_api::TraceId tid;
    if (!parse_sampler(t[2], s, custom, nan) || nan || !parse_parent(t[3], parent) || !parse_trace_id(t[4], tid))
      return "bad-op";
    using M = std::map<std::string, int>;
    M attrs;
    using L = std::vector<std::pair<trace_api::SpanContext, std::map<std::string, std::string>>>;
    L links;
    auto r = s->ShouldSample(parent, tid, "", trace_api::SpanKind::kInternal, common::KeyValueIterableView<M>(attrs),
                             trace_api::SpanContextKeyValueIterableView<L>(links));
    if (r.attributes) return "ERR attributes-not-null";
    return "dec=" + std::to_string(dec_code(r.decision)) + " ts=" + show_ts(r.trace_state) +
           " calls=" + std::to_string(custom ? custom->calls : 0);
  }
  return "bad-op";
}

int main()
{
  return vh::run_lines([](const std::vector<std::string> &t) -> std::string {
    if (t.empty()) return "bad-op";
    if (t[0] == "sm") return handle_sm(t);
    return "bad-op";
  });
}
