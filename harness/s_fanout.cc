// Correspondence harness for the fan-out clause of C02 (Engine S): the REAL TracerProvider / TracerContext /
// MultiSpanProcessor, LoggerProvider / LoggerContext / MultiLogRecordProcessor, MeterProvider / MeterContext /
// MetricCollector / MetricReader of the repo's working tree, with 0..4 children:
//
//   r  a harness processor (for `mp`: a harness MetricReader subclass) whose ForceFlush / Shutdown results are
//      scripted and which logs every call it receives, with the class of the timeout it was handed
//   s  the real SimpleSpanProcessor / SimpleLogRecordProcessor over a harness exporter (scripted, logs every call)
//   b  the real BatchSpanProcessor / BatchLogRecordProcessor (its own worker thread) over a harness exporter; only
//      schedule-independent facts are printed: at the return of a call through the fan-out layer, the number of
//      accepted records not yet passed to Export, whether the exporter's ForceFlush / Shutdown ran during the call,
//      the exporter Shutdown count so far, and any exporter call begun after a Shutdown of the processor had returned
//
//   layer suffix = how the provider is built (they must all be the same provider): tp / lp = from a context; tpv / lpv = the
//   constructor taking the vector of processors; tpp / lpp = the constructor taking one processor, the remaining children
//   added with AddProcessor; lpd = the default constructor + AddProcessor; mp = default constructor; mpc = from a MeterContext;
//   mpv = the (views, resource) constructor; f = the provider's factory (tpf / lpf: Create(vector), mpf: Create(), mlf:
//   MultiLogRecordProcessorFactory::Create), g = the provider's factory over the context's factory (tpg / lpg / mpg).
//   fan <ms|tp|ml|lp|mp> <kind>:<flush script>:<shutdown script>,… ; f<z|k|l|m> ; s<z|k|l|m> ; e ; d ; c<i> ; rs<i> ; rf<i>
//
// s and b children sit behind a thin forwarding decorator that logs the processor-level call and its result in the
// calling thread.  The same lines are read by lean/Driver/C02Fanout.lean.
#include "common.h"

#include <atomic>
#include <chrono>
#include <thread>

#include "opentelemetry/sdk/common/global_log_handler.h"
#include "opentelemetry/sdk/logs/batch_log_record_processor.h"
#include "opentelemetry/sdk/logs/batch_log_record_processor_options.h"
#include "opentelemetry/sdk/logs/exporter.h"
#include "opentelemetry/sdk/logs/logger_context.h"
#define private public  // SubjLP / SubjTP reach context_ of a provider that built its own context (harness TU only)
#include "opentelemetry/sdk/logs/logger_provider.h"
#include "opentelemetry/sdk/trace/tracer_provider.h"
#undef private
#include "opentelemetry/sdk/logs/logger_context_factory.h"
#include "opentelemetry/sdk/logs/logger_provider_factory.h"
#include "opentelemetry/sdk/logs/multi_log_record_processor.h"
#include "opentelemetry/sdk/logs/multi_log_record_processor_factory.h"
#include "opentelemetry/sdk/metrics/meter_context_factory.h"
#include "opentelemetry/sdk/metrics/meter_provider_factory.h"
#include "opentelemetry/sdk/trace/tracer_context_factory.h"
#include "opentelemetry/sdk/trace/tracer_provider_factory.h"
#include "opentelemetry/sdk/logs/processor.h"
#include "opentelemetry/sdk/logs/read_write_log_record.h"
#include "opentelemetry/sdk/logs/simple_log_record_processor.h"
#include "opentelemetry/sdk/metrics/meter_context.h"
#include "opentelemetry/sdk/metrics/meter_provider.h"
#include "opentelemetry/sdk/metrics/metric_reader.h"
#include "opentelemetry/sdk/trace/batch_span_processor.h"
#include "opentelemetry/sdk/trace/batch_span_processor_options.h"
#include "opentelemetry/sdk/trace/exporter.h"
#include "opentelemetry/sdk/trace/multi_span_processor.h"
#include "opentelemetry/sdk/trace/processor.h"
#include "opentelemetry/sdk/trace/simple_processor.h"
#include "opentelemetry/sdk/trace/span_data.h"
#include "opentelemetry/sdk/trace/tracer_context.h"
#include "opentelemetry/sdk/trace/tracer_provider.h"

namespace sdkt  = opentelemetry::sdk::trace;
namespace sdkl  = opentelemetry::sdk::logs;
namespace sdkm  = opentelemetry::sdk::metrics;
namespace nostd = opentelemetry::nostd;
using usec      = std::chrono::microseconds;

static const long long kShort = 20000;         // 20 ms
static const long long kLong  = 3600000000LL;  // 1 h
static const long long kNsMax = 9223372036854775LL;  // nanoseconds::max() in microseconds

// ---- the log of one case ------------------------------------------------------------------------------------------
struct Log
{
  std::vector<std::string> evs;      // events of the current op
  long long op_timeout   = -1;       // the caller's timeout of the current op (us), -1 = none
  int calls_in_op        = 0;        // children called so far in this op (timeout classification)
  bool slept_in_op       = false;    // a slow child has used up the short timeout
  // per child, kept apart from the event log: ForceFlush / Shutdown calls received, exporter Shutdown calls
  struct Cnt
  {
    long long f = 0, s = 0;
    std::atomic<long long> xs{0};
  };
  std::vector<std::unique_ptr<Cnt>> cnt;
  void add(const std::string &s) { evs.push_back(s); }
};
static Log *g_log = nullptr;

// class of the timeout a child was handed (see Otel.Fanout.TC)
static std::string tcls(usec t)
{
  long long v = t.count();
  Log &L      = *g_log;
  std::string r;
  if (v == (usec::max)().count()) r = "m";
  else if (v == kNsMax) r = "n";
  else if (v > 1000000000000000LL) r = "h";
  else if (v == kLong) r = "l";
  else if (v == kShort) r = "k";
  else if (v == 0)
  {
    // a 20 ms budget may run out between two children on a loaded machine: before a slow child has slept, zero and
    // a positive remainder are both "what remains" (the one-hour budget cannot run out, there the remainder must be > 0)
    if (L.op_timeout == kShort && L.calls_in_op > 0 && !L.slept_in_op) r = "r";
    else r = "0";
  }
  else if (v < 0) r = "neg";
  else if (L.op_timeout > 0 && v < L.op_timeout) r = "r";
  else r = "odd" + std::to_string(v);
  L.calls_in_op++;
  return r;
}

struct Script
{
  std::string f, s;  // remaining results
  bool next_flush(bool &slow)
  {
    char c = 't';
    if (!f.empty())
    {
      c = f[0];
      f.erase(0, 1);
    }
    slow = (c == 'T' || c == 'F');
    return c == 't' || c == 'T';
  }
  bool next_shutdown()
  {
    char c = 't';
    if (!s.empty())
    {
      c = s[0];
      s.erase(0, 1);
    }
    return c == 't';
  }
};

static void maybe_sleep(bool slow)
{
  if (slow && g_log->op_timeout == kShort)
  {
    std::this_thread::sleep_for(std::chrono::milliseconds(25));
    g_log->slept_in_op = true;
  }
}

// ---- signal adapters ----------------------------------------------------------------------------------------------
struct SpanSig
{
  using Processor  = sdkt::SpanProcessor;
  using Exporter   = sdkt::SpanExporter;
  using Recordable = sdkt::Recordable;
  using Simple     = sdkt::SimpleSpanProcessor;
  static std::unique_ptr<Recordable> make() { return std::unique_ptr<Recordable>(new sdkt::SpanData); }
  static void deliver(Processor &p, std::unique_ptr<Recordable> &&r) { p.OnEnd(std::move(r)); }
  static std::unique_ptr<Processor> batch(std::unique_ptr<Exporter> &&e)
  {
    sdkt::BatchSpanProcessorOptions o;
    o.max_queue_size        = 2048;
    o.max_export_batch_size = 3;
    o.schedule_delay_millis = std::chrono::milliseconds(50);
    return std::unique_ptr<Processor>(new sdkt::BatchSpanProcessor(std::move(e), o));
  }
};
struct LogSig
{
  using Processor  = sdkl::LogRecordProcessor;
  using Exporter   = sdkl::LogRecordExporter;
  using Recordable = sdkl::Recordable;
  using Simple     = sdkl::SimpleLogRecordProcessor;
  static std::unique_ptr<Recordable> make() { return std::unique_ptr<Recordable>(new sdkl::ReadWriteLogRecord); }
  static void deliver(Processor &p, std::unique_ptr<Recordable> &&r) { p.OnEmit(std::move(r)); }
  static std::unique_ptr<Processor> batch(std::unique_ptr<Exporter> &&e)
  {
    return std::unique_ptr<Processor>(new sdkl::BatchLogRecordProcessor(std::move(e), 2048, std::chrono::milliseconds(50), 3));
  }
};

// processor base classes mapping OnEnd / OnEmit to one Deliver
struct SpanProcBase : sdkt::SpanProcessor
{
  void OnStart(sdkt::Recordable &, const opentelemetry::trace::SpanContext &) noexcept override {}
  void OnEnd(std::unique_ptr<sdkt::Recordable> &&r) noexcept override { Deliver(std::move(r)); }
  virtual void Deliver(std::unique_ptr<sdkt::Recordable> &&r) noexcept = 0;
};
struct LogProcBase : sdkl::LogRecordProcessor
{
  void OnEmit(std::unique_ptr<sdkl::Recordable> &&r) noexcept override { Deliver(std::move(r)); }
  virtual void Deliver(std::unique_ptr<sdkl::Recordable> &&r) noexcept = 0;
};
template <class Sig>
struct BaseOf;
template <>
struct BaseOf<SpanSig>
{
  using type = SpanProcBase;
};
template <>
struct BaseOf<LogSig>
{
  using type = LogProcBase;
};

// ---- r: scripted processor ----------------------------------------------------------------------------------------
template <class Sig>
struct RawProc : BaseOf<Sig>::type
{
  int id;
  Script sc;
  RawProc(int i, const Script &s) : id(i), sc(s) {}
  std::unique_ptr<typename Sig::Recordable> MakeRecordable() noexcept override { return Sig::make(); }
  void Deliver(std::unique_ptr<typename Sig::Recordable> &&r) noexcept override
  {
    r.reset();
    g_log->add("c" + std::to_string(id) + ":E");
  }
  bool ForceFlush(usec timeout) noexcept override
  {
    std::string tc = tcls(timeout);
    g_log->cnt[id]->f++;
    bool slow;
    bool r = sc.next_flush(slow);
    maybe_sleep(slow);
    g_log->add("c" + std::to_string(id) + ":F:" + tc + "=" + (r ? "1" : "0"));
    return r;
  }
  bool Shutdown(usec timeout) noexcept override
  {
    std::string tc = tcls(timeout);
    g_log->cnt[id]->s++;
    bool r         = sc.next_shutdown();
    g_log->add("c" + std::to_string(id) + ":S:" + tc + "=" + (r ? "1" : "0"));
    return r;
  }
  ~RawProc() override { g_log->add("c" + std::to_string(id) + ":~"); }
};

// ---- harness exporter (state outlives the exporter object) ------------------------------------------------------------
struct ExpState
{
  int id;
  bool threaded;  // batch child: called from the worker thread, nothing is logged from there
  Script sc;
  std::atomic<long long> exported{0}, flushes{0}, shutdowns{0}, late{0};
  std::atomic<bool> proc_shutdown_returned{false};
  std::atomic<int> last_shutdown_result{1};
};
template <class Sig>
struct Exp : Sig::Exporter
{
  std::shared_ptr<ExpState> st;
  explicit Exp(std::shared_ptr<ExpState> s) : st(std::move(s)) {}
  void note_late()
  {
    if (st->proc_shutdown_returned.load()) st->late++;
  }
  std::unique_ptr<typename Sig::Recordable> MakeRecordable() noexcept override { return Sig::make(); }
  opentelemetry::sdk::common::ExportResult Export(
      const nostd::span<std::unique_ptr<typename Sig::Recordable>> &recs) noexcept override
  {
    note_late();
    for (auto &r : recs) r.reset();
    st->exported += static_cast<long long>(recs.size());
    if (!st->threaded) g_log->add("x" + std::to_string(st->id) + ":E" + std::to_string(recs.size()));
    return opentelemetry::sdk::common::ExportResult::kSuccess;
  }
  bool ForceFlush(usec) noexcept override
  {
    note_late();
    st->flushes++;
    if (st->threaded) return true;
    bool slow;
    bool r = st->sc.next_flush(slow);
    maybe_sleep(slow);
    g_log->add("x" + std::to_string(st->id) + ":F=" + (r ? "1" : "0"));
    return r;
  }
  bool Shutdown(usec) noexcept override
  {
    note_late();
    st->shutdowns++;
    g_log->cnt[st->id]->xs++;
    bool r = st->sc.next_shutdown();  // a batch child calls this from the thread that called its Shutdown
    st->last_shutdown_result.store(r ? 1 : 0);
    if (!st->threaded) g_log->add("x" + std::to_string(st->id) + ":S=" + (r ? "1" : "0"));
    return r;
  }
};

// ---- s / b: the real processor behind a logging decorator ---------------------------------------------------------------
template <class Sig>
struct Deco : BaseOf<Sig>::type
{
  int id;
  bool batch;
  std::unique_ptr<typename Sig::Processor> inner;
  std::shared_ptr<ExpState> st;
  long long accepted = 0;
  bool shutdown_called = false;
  Deco(int i, bool b, std::unique_ptr<typename Sig::Processor> &&p, std::shared_ptr<ExpState> s)
      : id(i), batch(b), inner(std::move(p)), st(std::move(s))
  {}
  std::string cid() const { return "c" + std::to_string(id); }
  void bstate()
  {
    if (!batch) return;
    std::string s = cid() + ":q" + std::to_string(accepted - st->exported.load()) + ":xs" + std::to_string(st->shutdowns.load());
    if (st->late.load()) s += ":LATE" + std::to_string(st->late.load());
    g_log->add(s);
  }
  std::unique_ptr<typename Sig::Recordable> MakeRecordable() noexcept override { return inner->MakeRecordable(); }
  void Deliver(std::unique_ptr<typename Sig::Recordable> &&r) noexcept override
  {
    if (!shutdown_called) accepted++;
    Sig::deliver(*inner, std::move(r));
  }
  bool ForceFlush(usec timeout) noexcept override
  {
    std::string tc = tcls(timeout);
    g_log->cnt[id]->f++;
    long long f0   = st->flushes.load();
    bool r         = inner->ForceFlush(timeout);
    if (batch && st->flushes.load() > f0) g_log->add("x" + std::to_string(id) + ":F=1");
    g_log->add(cid() + ":F:" + tc + "=" + (r ? "1" : "0"));
    bstate();
    return r;
  }
  bool Shutdown(usec timeout) noexcept override
  {
    std::string tc  = tcls(timeout);
    g_log->cnt[id]->s++;
    shutdown_called = true;
    long long s0    = st->shutdowns.load();
    bool r          = inner->Shutdown(timeout);
    st->proc_shutdown_returned.store(true);
    if (batch && st->shutdowns.load() > s0)
      g_log->add("x" + std::to_string(id) + ":S=" + std::to_string(st->last_shutdown_result.load()));
    g_log->add(cid() + ":S:" + tc + "=" + (r ? "1" : "0"));
    bstate();
    return r;
  }
  ~Deco() override
  {
    g_log->add(cid() + ":~");
    long long s0 = st->shutdowns.load();
    inner.reset();
    if (batch && st->shutdowns.load() > s0)
      g_log->add("x" + std::to_string(id) + ":S=" + std::to_string(st->last_shutdown_result.load()));
    bstate();
  }
};

// ---- mp: scripted reader ------------------------------------------------------------------------------------------------
struct Reader : sdkm::MetricReader
{
  int id;
  Script sc;
  Reader(int i, const Script &s) : id(i), sc(s) {}
  sdkm::AggregationTemporality GetAggregationTemporality(sdkm::InstrumentType) const noexcept override
  {
    return sdkm::AggregationTemporality::kCumulative;
  }
  ~Reader() override { g_log->add("c" + std::to_string(id) + ":~"); }

private:
  bool OnForceFlush(usec timeout) noexcept override
  {
    std::string tc = tcls(timeout);
    g_log->cnt[id]->f++;
    bool slow;
    bool r = sc.next_flush(slow);
    maybe_sleep(slow);
    g_log->add("c" + std::to_string(id) + ":F:" + tc + "=" + (r ? "1" : "0"));
    return r;
  }
  bool OnShutDown(usec timeout) noexcept override
  {
    std::string tc = tcls(timeout);
    g_log->cnt[id]->s++;
    bool r         = sc.next_shutdown();
    g_log->add("c" + std::to_string(id) + ":S:" + tc + "=" + (r ? "1" : "0"));
    return r;
  }
};

// ---- the layer under test ------------------------------------------------------------------------------------------------
struct ChildSpec
{
  char kind;
  Script sc;
};

struct Subject
{
  virtual ~Subject() = default;
  virtual bool flush(usec t)    = 0;
  virtual bool shutdown(usec t) = 0;
  virtual bool emit() { return false; }
  virtual void destroy() = 0;
  virtual int reader_op(char, size_t) { return -1; }  // -1 = na
};

template <class Sig>
static std::vector<std::unique_ptr<typename Sig::Processor>> make_children(const std::vector<ChildSpec> &cs)
{
  std::vector<std::unique_ptr<typename Sig::Processor>> v;
  for (size_t i = 0; i < cs.size(); i++)
  {
    int id = static_cast<int>(i);
    if (cs[i].kind == 'r')
    {
      v.emplace_back(new RawProc<Sig>(id, cs[i].sc));
      continue;
    }
    auto st      = std::make_shared<ExpState>();
    st->id       = id;
    st->threaded = cs[i].kind == 'b';
    st->sc       = cs[i].sc;
    std::unique_ptr<typename Sig::Exporter> e(new Exp<Sig>(st));
    std::unique_ptr<typename Sig::Processor> inner;
    if (cs[i].kind == 's') inner.reset(new typename Sig::Simple(std::move(e)));
    else inner = Sig::batch(std::move(e));
    v.emplace_back(new Deco<Sig>(id, cs[i].kind == 'b', std::move(inner), st));
  }
  return v;
}

template <class Sig>
static bool emit_through(typename Sig::Processor &p)
{
  auto r = p.MakeRecordable();
  Sig::deliver(p, std::move(r));
  return true;
}

struct SubjMS : Subject
{
  std::unique_ptr<sdkt::MultiSpanProcessor> p;
  explicit SubjMS(const std::vector<ChildSpec> &cs) : p(new sdkt::MultiSpanProcessor(make_children<SpanSig>(cs))) {}
  bool flush(usec t) override { return p->ForceFlush(t); }
  bool shutdown(usec t) override { return p->Shutdown(t); }
  bool emit() override { return emit_through<SpanSig>(*p); }
  void destroy() override { p.reset(); }
};
struct SubjTP : Subject
{
  sdkt::TracerContext *ctx;
  std::unique_ptr<sdkt::TracerProvider> p;
  SubjTP(const std::vector<ChildSpec> &cs, const std::string &how)
  {
    auto kids = make_children<SpanSig>(cs);
    if (how == "f")
      p = sdkt::TracerProviderFactory::Create(std::move(kids));
    else if (how == "g")
      p = sdkt::TracerProviderFactory::Create(sdkt::TracerContextFactory::Create(std::move(kids)));
    else if (how == "v" || (how == "p" && kids.empty()))
      p.reset(new sdkt::TracerProvider(std::move(kids)));
    else if (how == "p")
    {
      p.reset(new sdkt::TracerProvider(std::move(kids[0])));
      for (size_t i = 1; i < kids.size(); i++) p->AddProcessor(std::move(kids[i]));
    }
    else
    {
      std::unique_ptr<sdkt::TracerContext> c(new sdkt::TracerContext(std::move(kids)));
      p.reset(new sdkt::TracerProvider(std::move(c)));
    }
    ctx = p->context_.get();
  }
  bool flush(usec t) override { return p->ForceFlush(t); }
  bool shutdown(usec t) override { return p->Shutdown(t); }
  bool emit() override { return emit_through<SpanSig>(ctx->GetProcessor()); }
  void destroy() override { p.reset(); }
};
struct SubjML : Subject
{
  std::unique_ptr<sdkl::LogRecordProcessor> p;
  SubjML(const std::vector<ChildSpec> &cs, const std::string &how)
      : p(how == "f" ? sdkl::MultiLogRecordProcessorFactory::Create(make_children<LogSig>(cs))
                     : std::unique_ptr<sdkl::LogRecordProcessor>(new sdkl::MultiLogRecordProcessor(make_children<LogSig>(cs))))
  {}
  bool flush(usec t) override { return p->ForceFlush(t); }
  bool shutdown(usec t) override { return p->Shutdown(t); }
  bool emit() override { return emit_through<LogSig>(*p); }
  void destroy() override { p.reset(); }
};
struct SubjLP : Subject
{
  sdkl::LoggerContext *ctx;
  std::unique_ptr<sdkl::LoggerProvider> p;
  SubjLP(const std::vector<ChildSpec> &cs, const std::string &how)
  {
    auto kids = make_children<LogSig>(cs);
    if (how == "f")
      p = sdkl::LoggerProviderFactory::Create(std::move(kids));
    else if (how == "g")
      p = sdkl::LoggerProviderFactory::Create(sdkl::LoggerContextFactory::Create(std::move(kids)));
    else if (how == "v" || (how == "p" && kids.empty()))
      p.reset(new sdkl::LoggerProvider(std::move(kids)));
    else if (how == "p")
    {
      p.reset(new sdkl::LoggerProvider(std::move(kids[0])));
      for (size_t i = 1; i < kids.size(); i++) p->AddProcessor(std::move(kids[i]));
    }
    else if (how == "d")
    {
      p.reset(new sdkl::LoggerProvider());
      for (auto &k : kids) p->AddProcessor(std::move(k));
    }
    else
    {
      std::unique_ptr<sdkl::LoggerContext> c(new sdkl::LoggerContext(std::move(kids)));
      p.reset(new sdkl::LoggerProvider(std::move(c)));
    }
    ctx = p->context_.get();
  }
  bool flush(usec t) override { return p->ForceFlush(t); }
  bool shutdown(usec t) override { return p->Shutdown(t); }
  bool emit() override { return emit_through<LogSig>(ctx->GetProcessor()); }
  void destroy() override { p.reset(); }
};
struct SubjMP : Subject
{
  std::vector<Reader *> readers;  // owned by the provider's collectors
  std::unique_ptr<sdkm::MeterProvider> p;
  SubjMP(const std::vector<ChildSpec> &cs, const std::string &how)
      : p(how == "f"   ? sdkm::MeterProviderFactory::Create().release()
          : how == "g" ? sdkm::MeterProviderFactory::Create(sdkm::MeterContextFactory::Create()).release()
          : how == "c" ? new sdkm::MeterProvider(std::unique_ptr<sdkm::MeterContext>(new sdkm::MeterContext()))
          : how == "v" ? new sdkm::MeterProvider(std::unique_ptr<sdkm::ViewRegistry>(new sdkm::ViewRegistry()),
                                                 opentelemetry::sdk::resource::Resource::Create({}))
                       : new sdkm::MeterProvider())
  {
    for (size_t i = 0; i < cs.size(); i++)
    {
      std::shared_ptr<Reader> r(new Reader(static_cast<int>(i), cs[i].sc));
      readers.push_back(r.get());
      p->AddMetricReader(std::move(r));
    }
  }
  bool flush(usec t) override { return p->ForceFlush(t); }
  bool shutdown(usec t) override { return p->Shutdown(t); }
  void destroy() override
  {
    p.reset();
    readers.clear();
  }
  int reader_op(char what, size_t i) override
  {
    if (i >= readers.size()) return -1;
    Reader *r = readers[i];
    if (what == 'c')
    {
      int id = r->id;
      return r->Collect([id](sdkm::ResourceMetrics &) {
        g_log->add("c" + std::to_string(id) + ":C");
        return true;
      })
                 ? 1
                 : 0;
    }
    if (what == 's') return r->Shutdown() ? 1 : 0;
    return r->ForceFlush() ? 1 : 0;
  }
};

static bool parse_children(const std::string &layer, const std::string &s, std::vector<ChildSpec> &out)
{
  if (s == "-") return true;
  size_t pos = 0;
  while (true)
  {
    size_t q         = s.find(',', pos);
    std::string item = s.substr(pos, q == std::string::npos ? std::string::npos : q - pos);
    // kind:f:s
    size_t a = item.find(':');
    size_t b = a == std::string::npos ? a : item.find(':', a + 1);
    if (a != 1 || b == std::string::npos || item.find(':', b + 1) != std::string::npos) return false;
    ChildSpec c;
    c.kind       = item[0];
    std::string f = item.substr(2, b - 2), sh = item.substr(b + 1);
    if (f.empty() || sh.empty()) return false;
    if (f == "-") f = "";
    if (sh == "-") sh = "";
    if (f.size() > 16 || sh.size() > 16) return false;
    if (f.find_first_not_of("tfTF") != std::string::npos || sh.find_first_not_of("tf") != std::string::npos) return false;
    if (c.kind != 'r' && c.kind != 's' && c.kind != 'b') return false;
    if (layer == "mp" && c.kind != 'r') return false;
    if (c.kind == 'b' && !f.empty()) return false;
    c.sc.f = f;
    c.sc.s = sh;
    out.push_back(c);
    if (q == std::string::npos) break;
    pos = q + 1;
  }
  return out.size() <= 4;
}

static bool timeout_of(char c, long long &t)
{
  switch (c)
  {
    case 'z': t = 0; return true;
    case 'k': t = kShort; return true;
    case 'l': t = kLong; return true;
    case 'm': t = (usec::max)().count(); return true;
    default: return false;
  }
}

static std::string handle(const std::vector<std::string> &toks)
{
  if (toks.size() < 3 || toks[0] != "fan") return "bad-op";
  auto ops = vh::split_ops(toks, 1);
  if (ops.empty() || ops[0].size() != 2) return "bad-op";
  const std::string layer = ops[0][0].substr(0, 2);
  const std::string how   = ops[0][0].size() > 2 ? ops[0][0].substr(2) : std::string();
  std::vector<ChildSpec> cs;
  if (layer != "ms" && layer != "tp" && layer != "ml" && layer != "lp" && layer != "mp") return "bad-op";
  if (!how.empty() && !((layer == "tp" && (how == "v" || how == "p" || how == "f" || how == "g")) ||
                        (layer == "lp" && (how == "v" || how == "p" || how == "d" || how == "f" || how == "g")) ||
                        (layer == "mp" && (how == "c" || how == "v" || how == "f" || how == "g")) || (layer == "ml" && how == "f")))
    return "bad-op";
  if (!parse_children(layer, ops[0][1], cs)) return "bad-op";
  if (ops.size() - 1 > 64) return "bad-op";
  // validate the ops before anything is built
  for (size_t k = 1; k < ops.size(); k++)
  {
    if (ops[k].size() != 1) return "bad-op";
    const std::string &o = ops[k][0];
    long long t;
    bool ok = (o.size() == 2 && (o[0] == 'f' || o[0] == 's') && timeout_of(o[1], t)) || o == "e" || o == "d" ||
              (o.size() == 2 && o[0] == 'c' && o[1] >= '0' && o[1] <= '3') ||
              (o.size() == 3 && o[0] == 'r' && (o[1] == 's' || o[1] == 'f') && o[2] >= '0' && o[2] <= '3');
    if (!ok) return "bad-op";
  }
  Log log;
  for (size_t i = 0; i < cs.size(); i++) log.cnt.emplace_back(new Log::Cnt);
  g_log = &log;
  std::unique_ptr<Subject> subj;
  if (layer == "ms") subj.reset(new SubjMS(cs));
  else if (layer == "tp") subj.reset(new SubjTP(cs, how));
  else if (layer == "ml") subj.reset(new SubjML(cs, how));
  else if (layer == "lp") subj.reset(new SubjLP(cs, how));
  else subj.reset(new SubjMP(cs, how));
  bool alive = true;
  std::vector<std::string> segs;
  auto seg = [&](const std::string &obs) {
    std::string s = obs;
    for (auto &e : log.evs) s += " " + e;
    segs.push_back(s);
    log.evs.clear();
  };
  for (size_t k = 1; k < ops.size(); k++)
  {
    const std::string &o = ops[k][0];
    log.evs.clear();
    log.op_timeout  = -1;
    log.calls_in_op = 0;
    log.slept_in_op = false;
    if (!alive)
    {
      seg("gone");
      continue;
    }
    if (o[0] == 'f' || o[0] == 's')
    {
      long long t = 0;
      timeout_of(o[1], t);
      log.op_timeout = t;
      bool r         = o[0] == 'f' ? subj->flush(usec(t)) : subj->shutdown(usec(t));
      seg(std::string(1, o[0]) + "=" + (r ? "1" : "0"));
    }
    else if (o == "e")
    {
      seg(subj->emit() ? "e" : "na");
    }
    else if (o == "d")
    {
      log.op_timeout = (usec::max)().count();
      subj->destroy();
      alive = false;
      seg("d");
    }
    else
    {
      char what   = o[0] == 'c' ? 'c' : o[1];
      size_t i    = static_cast<size_t>(o.back() - '0');
      log.op_timeout = (usec::max)().count();
      int r       = subj->reader_op(what, i);
      std::string name = o[0] == 'c' ? "c" : (what == 's' ? "rs" : "rf");
      seg(r < 0 ? "na" : name + "=" + std::to_string(r));
    }
  }
  if (alive)
  {
    log.evs.clear();
    log.op_timeout  = (usec::max)().count();
    log.calls_in_op = 0;
    log.slept_in_op = false;
    subj->destroy();
    seg("end");
  }
  subj.reset();
  std::string sum = "sum";
  for (size_t i = 0; i < cs.size(); i++)
    sum += " c" + std::to_string(i) + ":F" + std::to_string(log.cnt[i]->f) + ":S" + std::to_string(log.cnt[i]->s) + ":X" +
           std::to_string(log.cnt[i]->xs.load());
  segs.push_back(sum);
  g_log = nullptr;
  return vh::join(segs, " ; ");
}

int main()
{
  opentelemetry::sdk::common::internal_log::GlobalLogHandler::SetLogLevel(
      opentelemetry::sdk::common::internal_log::LogLevel::None);
  return vh::run_lines(handle);
}
