// C07 correspondence harness (Engine S): the real histogram aggregations, directly and through a real MeterProvider
// with explicit readers.  Same line protocol as lean/Driver/C07.lean.
#include "common.h"

#include <algorithm>
#include <cmath>
#include <map>

#include "opentelemetry/common/key_value_iterable_view.h"
#include "opentelemetry/context/context.h"
#include "opentelemetry/sdk/common/global_log_handler.h"
#include "opentelemetry/sdk/metrics/aggregation/aggregation_config.h"
#include "opentelemetry/sdk/metrics/aggregation/histogram_aggregation.h"
#include "opentelemetry/sdk/metrics/data/point_data.h"
#include "opentelemetry/sdk/metrics/export/metric_producer.h"
#include "opentelemetry/sdk/metrics/meter_provider.h"
#include "opentelemetry/sdk/metrics/metric_reader.h"
#include "opentelemetry/sdk/metrics/view/instrument_selector.h"
#include "opentelemetry/sdk/metrics/view/meter_selector.h"
#include "opentelemetry/sdk/metrics/view/view.h"

namespace sm    = opentelemetry::sdk::metrics;
namespace nostd = opentelemetry::nostd;

static std::string dy_u(bool neg, uint64_t m, int e)
{
  if (m == 0) return "0";
  while ((m & 1) == 0)
  {
    m >>= 1;
    e++;
  }
  return std::string(neg ? "-" : "") + std::to_string(m) + "p" + std::to_string(e);
}
static std::string dy(int64_t v)
{
  bool neg   = v < 0;
  uint64_t m = neg ? (~static_cast<uint64_t>(v) + 1) : static_cast<uint64_t>(v);
  return dy_u(neg, m, 0);
}
// exact text of a finite double: odd mantissa and binary exponent
static std::string dy(double v)
{
  if (v == 0) return "0";
  int e;
  double f   = std::frexp(std::fabs(v), &e);  // |v| = f * 2^e, 0.5 <= f < 1
  uint64_t m = static_cast<uint64_t>(std::ldexp(f, 53));
  return dy_u(v < 0, m, e - 53);
}

static bool parse_double(const std::string &s, double &out)
{
  if (s.size() != 16) return false;
  uint64_t bits = 0;
  for (char c : s)
  {
    int h = vh::hexval(c);
    if (h < 0) return false;
    bits = (bits << 4) | static_cast<uint64_t>(h);
  }
  memcpy(&out, &bits, 8);
  return std::isfinite(out);
}
static bool parse_long(const std::string &s, int64_t &out)
{
  if (s.empty()) return false;
  size_t i = 0;
  if (s[0] == '-') i = 1;
  if (i == s.size() || s.size() - i > 19) return false;
  unsigned __int128 m = 0;
  for (; i < s.size(); i++)
  {
    if (s[i] < '0' || s[i] > '9') return false;
    m = m * 10 + static_cast<unsigned>(s[i] - '0');
  }
  if (s[0] == '-')
  {
    if (m > (static_cast<unsigned __int128>(1) << 63)) return false;
    out = static_cast<int64_t>(~static_cast<uint64_t>(m) + 1);
  }
  else
  {
    if (m >= (static_cast<unsigned __int128>(1) << 63)) return false;
    out = static_cast<int64_t>(m);
  }
  return true;
}

static std::vector<std::string> split(const std::string &s, char sep)
{
  std::vector<std::string> v;
  std::string cur;
  for (char c : s)
  {
    if (c == sep)
    {
      v.push_back(cur);
      cur.clear();
    }
    else
      cur.push_back(c);
  }
  v.push_back(cur);
  return v;
}

struct Cfg
{
  bool is_default = true;
  sm::HistogramAggregationConfig cfg;
};

static bool parse_cfg(const std::string &s, Cfg &c)
{
  if (s == "def") return true;
  auto parts = split(s, ':');
  if (parts.size() != 2) return false;
  if (parts[0] != "0" && parts[0] != "1") return false;
  c.is_default          = false;
  c.cfg.record_min_max_ = parts[0] == "1";
  if (parts[1] != "-")
  {
    for (auto &t : split(parts[1], ','))
    {
      double d;
      if (!parse_double(t, d)) return false;
      c.cfg.boundaries_.push_back(d);
    }
  }
  return true;
}

template <class T>
static std::string show_point(const sm::HistogramPointData &p, bool with_sum)
{
  std::vector<std::string> bs, cs;
  for (double b : p.boundaries_) bs.push_back(dy(b));
  for (uint64_t c : p.counts_) cs.push_back(std::to_string(c));
  std::string s = "b=" + (bs.empty() ? std::string("-") : vh::join(bs, ","));
  s += "|c=" + (cs.empty() ? std::string("-") : vh::join(cs, ","));
  s += "|n=" + std::to_string(p.count_);
  s += "|s=" + (with_sum ? dy(nostd::get<T>(p.sum_)) : std::string("?"));
  s += "|mn=" + (p.record_min_max_ ? dy(nostd::get<T>(p.min_)) : std::string("-"));
  s += "|mx=" + (p.record_min_max_ ? dy(nostd::get<T>(p.max_)) : std::string("-"));
  return s;
}

template <class T, class AGG, bool (*PARSE)(const std::string &, T &)>
static std::string run_agg(const Cfg &cfg, const std::string &fold, bool with_sum, const std::string &groups)
{
  const sm::AggregationConfig *ac = cfg.is_default ? nullptr : &cfg.cfg;
  std::vector<std::unique_ptr<sm::Aggregation>> aggs;
  for (auto &g : split(groups, '/'))
  {
    std::unique_ptr<sm::Aggregation> a(new AGG(ac));
    if (g != "-")
    {
      for (auto &t : split(g, ','))
      {
        T v;
        if (!PARSE(t, v)) return "bad-op";
        a->Aggregate(v);
      }
    }
    aggs.push_back(std::move(a));
  }
  std::unique_ptr<sm::Aggregation> res;
  if (fold == "L")
  {
    res = std::move(aggs[0]);
    for (size_t i = 1; i < aggs.size(); i++) res = res->Merge(*aggs[i]);
  }
  else if (fold == "R")
  {
    res = std::move(aggs.back());
    for (size_t i = aggs.size() - 1; i-- > 0;) res = aggs[i]->Merge(*res);
  }
  else if (fold == "N")
  {
    res.reset(new AGG(ac));
    for (auto &a : aggs) res = res->Merge(*a);
  }
  else
    return "bad-op";
  return show_point<T>(nostd::get<sm::HistogramPointData>(res->ToPoint()), with_sum);
}

class Reader : public sm::MetricReader
{
public:
  explicit Reader(sm::AggregationTemporality t) : t_(t) {}
  sm::AggregationTemporality GetAggregationTemporality(sm::InstrumentType) const noexcept override { return t_; }

private:
  bool OnForceFlush(std::chrono::microseconds) noexcept override { return true; }
  bool OnShutDown(std::chrono::microseconds) noexcept override { return true; }
  sm::AggregationTemporality t_;
};

template <class T, bool (*PARSE)(const std::string &, T &)>
static std::string run_sdk(const Cfg &cfg, const std::string &temps, bool with_sum,
                           const std::vector<std::vector<std::string>> &ops)
{
  if (temps.empty()) return "bad-op";
  constexpr bool is_long = std::is_same<T, int64_t>::value;
  sm::MeterProvider mp;
  std::vector<std::shared_ptr<Reader>> readers;
  for (char c : temps)
  {
    if (c != 'D' && c != 'C') return "bad-op";
    readers.emplace_back(new Reader(c == 'D' ? sm::AggregationTemporality::kDelta : sm::AggregationTemporality::kCumulative));
    mp.AddMetricReader(readers.back());
  }
  if (!cfg.is_default)
  {
    std::shared_ptr<sm::HistogramAggregationConfig> hc(new sm::HistogramAggregationConfig(cfg.cfg));
    // the view names its aggregation (kHistogram) or leaves it at kDefault - for a histogram instrument that is the same
    // aggregation, and the view's configuration (boundaries, record_min_max) applies either way; which one depends on the case
    const bool by_default = (cfg.cfg.boundaries_.size() + temps.size() + ops.size()) % 2 == 1;
    std::unique_ptr<sm::View> view(
        new sm::View("h", "", "", by_default ? sm::AggregationType::kDefault : sm::AggregationType::kHistogram, hc));
    std::unique_ptr<sm::InstrumentSelector> is(new sm::InstrumentSelector(sm::InstrumentType::kHistogram, "h", ""));
    std::unique_ptr<sm::MeterSelector> ms(new sm::MeterSelector("m", "1", "s"));
    mp.AddView(std::move(is), std::move(ms), std::move(view));
  }
  auto meter = mp.GetMeter("m", "1", "s");
  nostd::unique_ptr<opentelemetry::metrics::Histogram<uint64_t>> hl;
  nostd::unique_ptr<opentelemetry::metrics::Histogram<double>> hd;
  if (is_long) hl = meter->CreateUInt64Histogram("h", "", "");
  else hd = meter->CreateDoubleHistogram("h", "", "");
  std::vector<std::string> outs;
  // validate first so that a malformed line is rejected as a whole
  for (auto &op : ops)
  {
    if (op.size() == 3 && op[0] == "rec")
    {
      T v;
      if (!PARSE(op[2], v)) return "bad-op";
      if (is_long && v < 0) return "bad-op";  // the API takes uint64_t
      if (op[1] != "-" && !(op[1].size() == 1 && op[1][0] >= '0' && op[1][0] <= '9')) return "bad-op";
    }
    else if (op.size() == 2 && op[0] == "col")
    {
      if (op[1].empty() || op[1].size() > 3) return "bad-op";
      for (char c : op[1])
        if (c < '0' || c > '9') return "bad-op";
      if (static_cast<size_t>(std::stoi(op[1])) >= readers.size()) return "bad-op";
    }
    else
      return "bad-op";
  }
  size_t nrec = 0;  // attribute-less records so far in this case: the overload used alternates with it
  for (auto &op : ops)
  {
    if (op[0] == "rec")
    {
      T v;
      PARSE(op[2], v);
      opentelemetry::context::Context ctx{};
      // the overloads with and without attributes must record the same: an empty attribute list is the attribute-less call
      if (op[1] == "-" && (nrec++ % 2 == 0))
      {
        if (is_long) hl->Record(static_cast<uint64_t>(v), ctx);
        else hd->Record(static_cast<double>(v), ctx);
      }
      else if (op[1] == "-")
      {
        std::map<std::string, int64_t> none;
        opentelemetry::common::KeyValueIterableView<std::map<std::string, int64_t>> view(none);
        if (is_long) hl->Record(static_cast<uint64_t>(v), view, ctx);
        else hd->Record(static_cast<double>(v), view, ctx);
      }
      else
      {
        std::map<std::string, int64_t> attrs{{"k", static_cast<int64_t>(op[1][0] - '0')}};
        opentelemetry::common::KeyValueIterableView<std::map<std::string, int64_t>> view(attrs);
        if (is_long) hl->Record(static_cast<uint64_t>(v), view, ctx);
        else hd->Record(static_cast<double>(v), view, ctx);
      }
    }
    else
    {
      auto &rd       = readers[static_cast<size_t>(std::stoi(op[1]))];
      bool seen      = false;
      std::vector<std::pair<int64_t, std::string>> pts;
      rd->Collect([&](sm::ResourceMetrics &rm) {
        for (auto &sc : rm.scope_metric_data_)
          for (auto &md : sc.metric_data_)
          {
            if (md.instrument_descriptor.name_ != "h") continue;
            seen = true;
            for (auto &pa : md.point_data_attr_)
            {
              int64_t id = -1;
              auto it    = pa.attributes.find("k");
              if (it != pa.attributes.end()) id = nostd::get<int64_t>(it->second);
              pts.emplace_back(id, show_point<T>(nostd::get<sm::HistogramPointData>(pa.point_data), with_sum));
            }
          }
        return true;
      });
      if (!seen) outs.push_back("none");
      else if (pts.empty()) outs.push_back("empty");
      else
      {
        std::sort(pts.begin(), pts.end());
        std::vector<std::string> ss;
        for (auto &p : pts) ss.push_back("[" + (p.first < 0 ? std::string("-") : std::to_string(p.first)) + "]" + p.second);
        outs.push_back(vh::join(ss, " "));
      }
    }
  }
  return outs.empty() ? "-" : vh::join(outs, " ; ");
}

static std::string handle(const std::vector<std::string> &t)
{
  if (t.size() < 2 || t[0] != "hist") return "bad-op";
  if (t[1] == "agg")
  {
    if (t.size() != 7) return "bad-op";
    Cfg cfg;
    if (!parse_cfg(t[3], cfg)) return "bad-op";
    if (t[5] != "s0" && t[5] != "s1") return "bad-op";
    bool ws = t[5] == "s1";
    if (t[2] == "l") return run_agg<int64_t, sm::LongHistogramAggregation, parse_long>(cfg, t[4], ws, t[6]);
    if (t[2] == "d") return run_agg<double, sm::DoubleHistogramAggregation, parse_double>(cfg, t[4], ws, t[6]);
    return "bad-op";
  }
  if (t[1] == "sdk")
  {
    if (t.size() < 6) return "bad-op";
    Cfg cfg;
    if (!parse_cfg(t[3], cfg)) return "bad-op";
    if (t[5] != "s0" && t[5] != "s1") return "bad-op";
    bool ws  = t[5] == "s1";
    auto ops = vh::split_ops(t, 6);
    if (t[2] == "l") return run_sdk<int64_t, parse_long>(cfg, t[4], ws, ops);
    if (t[2] == "d") return run_sdk<double, parse_double>(cfg, t[4], ws, ops);
    return "bad-op";
  }
  return "bad-op";
}

int main()
{
  opentelemetry::sdk::common::internal_log::GlobalLogHandler::SetLogLevel(
      opentelemetry::sdk::common::internal_log::LogLevel::None);
  return vh::run_lines(handle);
}
