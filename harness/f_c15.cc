// Correspondence harness for C15 (Baggage, BaggagePropagator, CompositePropagator, GlobalTextMapPropagator): calls
// the real header-only API of the repo in-process on the lines the Lean model driver also reads.
#include "common.h"

#include <algorithm>
#include <cctype>
#include <deque>
#include <list>
#include <map>
#include <mutex>
#include <string>
#include <vector>

#include "opentelemetry/common/kv_properties.h"
#include "opentelemetry/context/context.h"
#include "opentelemetry/context/propagation/composite_propagator.h"
#include "opentelemetry/context/propagation/global_propagator.h"
#include "opentelemetry/context/propagation/noop_propagator.h"
#include "opentelemetry/context/propagation/text_map_propagator.h"
#include "opentelemetry/trace/context.h"
#include "opentelemetry/trace/default_span.h"
#include "opentelemetry/trace/propagation/b3_propagator.h"
#include "opentelemetry/trace/propagation/http_trace_context.h"
#include "opentelemetry/trace/propagation/jaeger.h"
#include "opentelemetry/trace/span_context.h"
#include "opentelemetry/trace/trace_state.h"

// UrlEncode / UrlDecode are private static members: reach them in this TU only (no source change)
#define private public
#include "opentelemetry/baggage/baggage.h"
#undef private
#include "opentelemetry/baggage/baggage_context.h"
#include "opentelemetry/baggage/propagation/baggage_propagator.h"

namespace trace_api = opentelemetry::trace;
namespace nostd     = opentelemetry::nostd;
namespace context   = opentelemetry::context;
namespace baggage   = opentelemetry::baggage;
namespace tprop     = opentelemetry::trace::propagation;
namespace cprop     = opentelemetry::context::propagation;

class ExactCarrier : public cprop::TextMapCarrier
{
public:
  nostd::string_view Get(nostd::string_view key) const noexcept override
  {
    auto it = in_.find(std::string(key));
    if (it == in_.end()) return "";
    return nostd::string_view(it->second->data(), it->second->size());
  }
  void Set(nostd::string_view key, nostd::string_view value) noexcept override
  {
    out_[std::string(key)] = std::string(value.data(), value.size());
  }
  void Put(const std::string &k, const std::string &v) { in_[k].reset(new vh::Exact(v)); }
  std::map<std::string, std::unique_ptr<vh::Exact>> in_;
  std::map<std::string, std::string> out_;
};

using BG = nostd::shared_ptr<baggage::Baggage>;

static std::string show_bag(const baggage::Baggage &b)
{
  std::string s = "[";
  bool first    = true;
  b.GetAllEntries([&](nostd::string_view k, nostd::string_view v) {
    if (!first) s += ",";
    first = false;
    s += vh::to_hex(k.data(), k.size()) + ":" + vh::to_hex(v.data(), v.size());
    return true;
  });
  return s + "]";
}

static std::string show_ts(const trace_api::TraceState &ts)
{
  std::string s = "[";
  bool first    = true;
  ts.GetAllEntries([&](nostd::string_view k, nostd::string_view v) {
    if (!first) s += ",";
    first = false;
    s += vh::to_hex(k.data(), k.size()) + ":" + vh::to_hex(v.data(), v.size());
    return true;
  });
  return s + "]";
}

static std::string show_span(const trace_api::SpanContext &sc)
{
  char tid[16], sid[8];
  sc.trace_id().CopyBytesTo(nostd::span<uint8_t, 16>(reinterpret_cast<uint8_t *>(tid), 16));
  sc.span_id().CopyBytesTo(nostd::span<uint8_t, 8>(reinterpret_cast<uint8_t *>(sid), 8));
  char fl = static_cast<char>(sc.trace_flags().flags());
  return "tid=" + vh::to_hex(tid, 16) + " sid=" + vh::to_hex(sid, 8) + " fl=" + vh::to_hex(&fl, 1) +
         " remote=" + (sc.IsRemote() ? "1" : "0") + " ts=" + show_ts(*sc.trace_state());
}

static BG from_header(const std::string &h)
{
  vh::Exact x(h);
  return baggage::Baggage::FromHeader(nostd::string_view(x.data(), x.size()));
  // x is freed here: the baggage must own its copies
}

static std::string handle_bg(const std::vector<std::string> &t)
{
  std::vector<BG> states;
  std::vector<std::string> shown;
  states.push_back(BG(new baggage::Baggage()));
  shown.push_back(show_bag(*states[0]));
  std::vector<std::string> outs;
  auto push = [&](BG s) {
    states.push_back(s);
    shown.push_back(show_bag(*s));
    return shown.back();
  };
  for (auto &op : vh::split_ops(t, 1))
  {
    std::string o = "bad-op";
    std::string a, b;
    auto idx = [&](const std::string &s, size_t &i) {
      char *e = nullptr;
      i       = strtoul(s.c_str(), &e, 10);
      return *e == 0 && !s.empty() && i < states.size();
    };
    size_t i = 0;
    if (op.size() == 2 && op[0] == "from" && vh::from_hex(op[1], a))
    {
      o = push(from_header(a));
    }
    else if (op.size() == 4 && op[0] == "set" && idx(op[1], i) && vh::from_hex(op[2], a) && vh::from_hex(op[3], b))
    {
      BG r;
      {
        vh::Exact k(a), v(b);
        r = states[i]->Set(nostd::string_view(k.data(), k.size()), nostd::string_view(v.data(), v.size()));
      }
      o = push(r);
    }
    else if (op.size() == 3 && op[0] == "del" && idx(op[1], i) && vh::from_hex(op[2], a))
    {
      BG r;
      {
        vh::Exact k(a);
        r = states[i]->Delete(nostd::string_view(k.data(), k.size()));
      }
      o = push(r);
    }
    else if (op.size() == 3 && op[0] == "get" && idx(op[1], i) && vh::from_hex(op[2], a))
    {
      vh::Exact k(a);
      std::string val = "stale";
      bool ok         = states[i]->GetValue(nostd::string_view(k.data(), k.size()), val);
      o               = ok ? "v=" + vh::to_hex(val) : std::string("none");
    }
    else if (op.size() == 2 && op[0] == "hdr" && idx(op[1], i))
    {
      o = "h=" + vh::to_hex(states[i]->ToHeader());
    }
    else if (op.size() == 2 && op[0] == "rt" && idx(op[1], i))
    {
      o = push(from_header(states[i]->ToHeader()));
    }
    else if (op.size() == 2 && op[0] == "enc" && vh::from_hex(op[1], a))
    {
      vh::Exact x(a);
      o = "e=" + vh::to_hex(baggage::Baggage::UrlEncode(nostd::string_view(x.data(), x.size())));
    }
    else if (op.size() == 2 && op[0] == "dec" && vh::from_hex(op[1], a))
    {
      vh::Exact x(a);
      bool err      = false;
      std::string d = baggage::Baggage::UrlDecode(nostd::string_view(x.data(), x.size()), err);
      if (err)
        o = d.empty() ? "err" : "ERR err-with-output";
      else
        o = "d=" + vh::to_hex(d);
    }
    // ---- further entry points that build or read a baggage
    // mk <variant> <k> <v> ... : the templated constructor Baggage(const T &keys_and_values) (no validity check, NUL-terminated
    // copies) over several key-value-iterable container types; the caller's container is destroyed right after
    else if (op.size() >= 2 && op.size() % 2 == 0 && op[0] == "mk" && op[1].size() == 1)
    {
      std::vector<std::pair<std::string, std::string>> kvs;
      bool ok = true;
      for (size_t j = 2; j + 1 < op.size() && ok; j += 2)
      {
        ok = vh::from_hex(op[j], a) && vh::from_hex(op[j + 1], b);
        kvs.emplace_back(a, b);
      }
      BG r;
      if (ok && op[1] == "v")
      {
        std::unique_ptr<std::vector<std::pair<std::string, std::string>>> c(
            new std::vector<std::pair<std::string, std::string>>(kvs));
        r = BG(new baggage::Baggage(*c));
      }
      else if (ok && op[1] == "s")
      {
        std::vector<std::unique_ptr<vh::Exact>> keep;
        std::vector<std::pair<nostd::string_view, nostd::string_view>> c;
        for (auto &kv : kvs)
        {
          keep.emplace_back(new vh::Exact(kv.first));
          auto *k = keep.back().get();
          keep.emplace_back(new vh::Exact(kv.second));
          auto *v = keep.back().get();
          c.emplace_back(nostd::string_view(k->data(), k->size()), nostd::string_view(v->data(), v->size()));
        }
        r = BG(new baggage::Baggage(c));
      }
      else if (ok && op[1] == "l")
      {
        std::list<std::pair<std::string, std::string>> c(kvs.begin(), kvs.end());
        r = BG(new baggage::Baggage(c));
      }
      else if (ok && op[1] == "d")
      {
        std::deque<std::pair<std::string, nostd::string_view>> c;
        for (auto &kv : kvs) c.emplace_back(kv.first, nostd::string_view(kv.second.data(), kv.second.size()));
        r = BG(new baggage::Baggage(c));
      }
      else if (ok && op[1] == "m")
      {
        // a std::map iterates in key order: only strictly ascending key lists are well-formed cases
        bool asc = true;
        for (size_t j = 1; j < kvs.size(); j++) asc = asc && kvs[j - 1].first < kvs[j].first;
        if (asc)
        {
          std::map<std::string, std::string> c(kvs.begin(), kvs.end());
          r = BG(new baggage::Baggage(c));
        }
      }
      for (auto &kv : kvs)  // the strings the containers were filled from
      {
        std::fill(kv.first.begin(), kv.first.end(), '#');
        std::fill(kv.second.begin(), kv.second.end(), '#');
      }
      if (r) o = push(r);
    }
    // new <n> : Baggage(size_t) - an empty baggage with room for n entries
    else if (op.size() == 2 && op[0] == "new" && !op[1].empty() && op[1].size() <= 4 &&
             op[1].find_first_not_of("0123456789") == std::string::npos)
    {
      o = push(BG(new baggage::Baggage(static_cast<size_t>(std::stoul(op[1])))));
    }
    // dflt : the shared Baggage::GetDefault() (what FromHeader returns for an over-long header)
    else if (op.size() == 1 && op[0] == "dflt")
    {
      o = push(baggage::Baggage::GetDefault());
    }
    // all <i> <n> : GetAllEntries with a callback that returns false at its n-th call (0 = never)
    else if (op.size() == 3 && op[0] == "all" && idx(op[1], i) && !op[2].empty() && op[2].size() <= 4 &&
             op[2].find_first_not_of("0123456789") == std::string::npos)
    {
      size_t stop = std::stoul(op[2]), calls = 0;
      std::string s = "[";
      bool ret      = states[i]->GetAllEntries([&](nostd::string_view k, nostd::string_view v) {
        if (calls) s += ",";
        calls++;
        s += vh::to_hex(k.data(), k.size()) + ":" + vh::to_hex(v.data(), v.size());
        return calls != stop;
      });
      o = "seen=" + s + "] ret=" + (ret ? "1" : "0");
    }
    // "neither changes the baggage they were called on": every earlier baggage must still print as it did
    for (size_t j = 0; j < states.size(); j++)
      if (show_bag(*states[j]) != shown[j]) o += " MUTATED" + std::to_string(j);
    outs.push_back(o);
  }
  return vh::join(outs, " ; ");
}

static cprop::TextMapPropagator *make_part(const std::string &n)
{
  if (n == "w3c") return new tprop::HttpTraceContext();
  if (n == "b3s") return new tprop::B3Propagator();
  if (n == "b3m") return new tprop::B3PropagatorMultiHeader();
  if (n == "jg") return new tprop::JaegerPropagator();
  if (n == "bag") return new baggage::propagation::BaggagePropagator();
  if (n == "noop") return new cprop::NoOpPropagator();
  return nullptr;
}

static nostd::shared_ptr<cprop::TextMapPropagator> g_initial;

// the composite (installed in and fetched from the global slot, as an application would) and, separately, fresh
// instances of its parts in the same order
static bool make_composite(const std::string &plist, nostd::shared_ptr<cprop::TextMapPropagator> &out,
                           std::vector<std::unique_ptr<cprop::TextMapPropagator>> &parts)
{
  std::vector<std::unique_ptr<cprop::TextMapPropagator>> ps;
  if (plist == "@")
  {
    // what the global slot held before anything was installed (fetched at the start of main): no parts
    out = g_initial;
    return static_cast<bool>(out);
  }
  if (plist != "-")
  {
    std::string cur;
    std::vector<std::string> names;
    for (char c : plist)
    {
      if (c == ',')
      {
        names.push_back(cur);
        cur.clear();
      }
      else
        cur.push_back(c);
    }
    names.push_back(cur);
    for (auto &n : names)
    {
      auto *a = make_part(n);
      auto *b = make_part(n);
      if (!a || !b) return false;
      ps.emplace_back(a);
      parts.emplace_back(b);
    }
  }
  cprop::GlobalTextMapPropagator::SetGlobalPropagator(
      nostd::shared_ptr<cprop::TextMapPropagator>(new cprop::CompositePropagator(std::move(ps))));
  out = cprop::GlobalTextMapPropagator::GetGlobalPropagator();
  return true;
}

static const char *kNames[8] = {"baggage", "b3", "traceparent", "tracestate", "uber-trace-id",
                                "X-B3-TraceId", "X-B3-SpanId", "X-B3-Sampled"};

static std::string show_carrier(const std::map<std::string, std::string> &m)
{
  std::string s = "[";
  bool first    = true;
  size_t known  = 0;
  for (auto n : kNames)
  {
    auto it = m.find(n);
    if (it == m.end()) continue;
    known++;
    if (!first) s += ",";
    first = false;
    s += vh::to_hex(std::string(n)) + ":" + vh::to_hex(it->second);
  }
  s += "]";
  if (m.size() != known) s += " extra=" + std::to_string(m.size() - known);
  return s;
}

static std::string describe(const context::Context &ctx, const context::Context &out)
{
  bool same = (out == ctx);
  auto mk   = out.GetValue("marker");
  if (!nostd::holds_alternative<int64_t>(mk) || nostd::get<int64_t>(mk) != 77) return "ERR marker-lost";
  std::string span = "none";
  if (out.HasKey(trace_api::kSpanKey))
  {
    auto sc = trace_api::GetSpan(out)->GetContext();
    if (!sc.IsValid()) return "installed-invalid " + show_span(sc);
    span = show_span(sc);
  }
  std::string bag = "none";
  if (out.HasKey(baggage::kBaggageHeader)) bag = show_bag(*baggage::GetBaggage(out));
  if (same && (span != "none" || bag != "none")) return "ERR caller-context-changed";
  return "span=<" + span + "> bag=" + bag + " same=" + (same ? "1" : "0");
}

// the composite's Extract, and next to it the context threaded by hand through fresh instances of the parts
static std::string do_extract(cprop::TextMapPropagator &p, std::vector<std::unique_ptr<cprop::TextMapPropagator>> &parts,
                              ExactCarrier &c)
{
  context::Context ctx;
  ctx           = ctx.SetValue("marker", static_cast<int64_t>(77));
  auto out      = p.Extract(c, ctx);
  std::string a = describe(ctx, out);
  context::Context cur = ctx;
  for (auto &q : parts) cur = q->Extract(c, cur);
  return a + " parts=" + describe(ctx, cur);
}

static std::string handle_comp(const std::vector<std::string> &t)
{
  nostd::shared_ptr<cprop::TextMapPropagator> comp;
  std::vector<std::unique_ptr<cprop::TextMapPropagator>> parts;
  if (t.size() == 8 && (t[1] == "inject" || t[1] == "rt"))
  {
    if (!make_composite(t[2], comp, parts)) return "bad-op";
    std::string tid, sid, fl, ts, bag;
    context::Context ctx;
    if (!vh::from_hex(t[6], ts) || !vh::from_hex(t[7], bag)) return "bad-op";
    if (t[3] != "-")
    {
      if (!vh::from_hex(t[3], tid) || !vh::from_hex(t[4], sid) || !vh::from_hex(t[5], fl) || tid.size() != 16 ||
          sid.size() != 8 || fl.size() != 1)
        return "bad-op";
      vh::Exact tsx(ts);
      auto state = trace_api::TraceState::FromHeader(nostd::string_view(tsx.data(), tsx.size()));
      trace_api::SpanContext sc(
          trace_api::TraceId(nostd::span<const uint8_t, 16>(reinterpret_cast<const uint8_t *>(tid.data()), 16)),
          trace_api::SpanId(nostd::span<const uint8_t, 8>(reinterpret_cast<const uint8_t *>(sid.data()), 8)),
          trace_api::TraceFlags(static_cast<uint8_t>(fl[0])), false, state);
      nostd::shared_ptr<trace_api::Span> sp{new trace_api::DefaultSpan(sc)};
      ctx = trace_api::SetSpan(ctx, sp);
    }
    if (!bag.empty())
    {
      auto b = from_header(bag);
      ctx    = baggage::SetBaggage(ctx, b);
    }
    ExactCarrier c;
    comp->Inject(c, ctx);
    if (t[1] == "inject")
    {
      ExactCarrier m;  // every part by hand, in order, same context
      for (auto &q : parts) q->Inject(m, ctx);
      return show_carrier(c.out_) + " parts=" + show_carrier(m.out_);
    }
    ExactCarrier c2;
    for (auto &kv : c.out_) c2.Put(kv.first, kv.second);
    return do_extract(*comp, parts, c2);
  }
  if (t.size() == 4 && t[1] == "fields" && !t[3].empty() && t[3].size() <= 3 &&
      t[3].find_first_not_of("0123456789") == std::string::npos)
  {
    // Fields with a callback that returns false at its n-th call (0 = never); next to it the parts asked by hand, in order,
    // until one of them reports false
    if (!make_composite(t[2], comp, parts)) return "bad-op";
    size_t stop = std::stoul(t[3]);
    auto run    = [&](bool whole) {
      size_t calls = 0;
      std::string s = "[";
      auto cb = [&](nostd::string_view f) {
        if (calls) s += ",";
        calls++;
        s += vh::to_hex(f.data(), f.size());
        return calls != stop;
      };
      bool ret = true;
      if (whole)
        ret = comp->Fields(cb);
      else
        for (auto &q : parts)
        {
          if (!q->Fields(cb))
          {
            ret = false;
            break;
          }
        }
      return "f=" + s + "] ret=" + (ret ? "1" : "0");
    };
    std::string a = run(true);
    return a + " parts=" + run(false);
  }
  if (t.size() == 11 && t[1] == "extract")
  {
    if (!make_composite(t[2], comp, parts)) return "bad-op";
    static const char *names[8] = {"traceparent", "tracestate", "b3", "X-B3-TraceId", "X-B3-SpanId",
                                   "X-B3-Sampled", "uber-trace-id", "baggage"};
    ExactCarrier c;
    for (int i = 0; i < 8; i++)
    {
      std::string v;
      if (!vh::from_hex(t[3 + i], v)) return "bad-op";
      if (!v.empty()) c.Put(names[i], v);
    }
    return do_extract(*comp, parts, c);
  }
  return "bad-op";
}

int main()
{
  g_initial = cprop::GlobalTextMapPropagator::GetGlobalPropagator();
  return vh::run_lines([](const std::vector<std::string> &t) -> std::string {
    if (t.empty()) return "bad-op";
    if (t[0] == "bg") return handle_bg(t);
    if (t[0] == "comp") return handle_comp(t);
    return "bad-op";
  });
}
