// Correspondence harness for C19 (instrument names, views, scope rules): calls the real SDK of the working tree
// in-process on the lines the Lean model driver also reads.
//
//   val name <hex> | val unit <hex>        InstrumentMetaDataValidator::ValidateName / ValidateUnit on an exact-size,
//                                          unterminated buffer                                   -> 1 | 0
//   mv m <name> <ver> <schema> <enabled 0|1>
//      ; v <itype> <namepat> <unit> <mname> <mver> <mschema> <vname> <vdesc> <vunit> <agg> <filter> <bounds>   (a registered view)
//      ; i <itype> <l|d> <name> <unit> <desc>                                                     (an instrument + one measurement)
//      real MeterProvider + explicit reader; every instrument records one value with attributes {a,b}; one Collect
//      the k-th `i` op records the value 100+k; a further `i` op with the name, type and value type of an earlier one is a second handle
//                                          -> [stream|stream…] sorted, stream = n=<hex>,d=<hex>,u=<hex>,t=<itype>,a=<agg>,k=<keys>,v=<value of the point | ->
//   sc <t|m|l> d <0|1> ; r <matcher> <arg> <0|1> ; … ; g <name> <ver> <schema> [<logger name> <k=v,…>] ; …
//      real Tracer/Meter/LoggerProvider with a ScopeConfigurator built from the rules; every `g` requests a tracer /
//      meter / logger, emits one span / measurement / log record through it
//                                          -> per `g` op: i=<index of the first request that returned this object> out=<items exported> res=<1 if the
//                                             exported item references the provider's resource>
// itype: c h u oc og ou   agg: def drop hist last sum   filter: * (none) | e (empty allow-list) | <keyhex>,<keyhex>…
// bounds: - (no aggregation config) | <int>,<int>… (HistogramAggregationConfig::boundaries_); a histogram stream prints a=hist[:b1:b2…]@<bucket index>
// matcher: name | ver | schema | any | prefix
#include "common.h"
#include "metrics_factories.h"
#include "opentelemetry/sdk/logs/logger_context_factory.h"
#include "opentelemetry/sdk/logs/logger_provider_factory.h"
#include "opentelemetry/sdk/trace/tracer_context_factory.h"
#include "opentelemetry/sdk/trace/tracer_provider_factory.h"
#include "supervised.h"

#include <algorithm>
#include <functional>
#include <map>
#include <set>

#include "opentelemetry/logs/logger.h"
#include "opentelemetry/metrics/async_instruments.h"
#include "opentelemetry/metrics/sync_instruments.h"
#include "opentelemetry/sdk/common/global_log_handler.h"
#include "opentelemetry/sdk/instrumentationscope/scope_configurator.h"
#include "opentelemetry/sdk/logs/logger_provider.h"
#include "opentelemetry/sdk/logs/processor.h"
#include "opentelemetry/sdk/logs/read_write_log_record.h"
#include "opentelemetry/sdk/metrics/instrument_metadata_validator.h"
#include "opentelemetry/sdk/metrics/meter_context.h"
#include "opentelemetry/sdk/metrics/meter_context_factory.h"
#include "opentelemetry/sdk/metrics/meter_provider.h"
#include "opentelemetry/sdk/metrics/meter_provider_factory.h"
#include "opentelemetry/sdk/metrics/view/instrument_selector_factory.h"
#include "opentelemetry/sdk/metrics/view/meter_selector_factory.h"
#include "opentelemetry/sdk/metrics/view/view_factory.h"
#include "opentelemetry/sdk/metrics/view/view_registry_factory.h"
#include "opentelemetry/sdk/metrics/metric_reader.h"
#include "opentelemetry/sdk/metrics/view/attributes_processor.h"
#include "opentelemetry/sdk/metrics/view/instrument_selector.h"
#include "opentelemetry/sdk/metrics/view/meter_selector.h"
#include "opentelemetry/sdk/metrics/aggregation/aggregation_config.h"
#include "opentelemetry/sdk/metrics/view/view.h"
#include "opentelemetry/sdk/metrics/view/view_registry.h"
#include "opentelemetry/sdk/resource/resource.h"
#include "opentelemetry/sdk/trace/processor.h"
#include "opentelemetry/sdk/trace/span_data.h"
#include "opentelemetry/sdk/trace/tracer_provider.h"

namespace nostd     = opentelemetry::nostd;
namespace sm        = opentelemetry::sdk::metrics;
namespace st        = opentelemetry::sdk::trace;
namespace sl        = opentelemetry::sdk::logs;
namespace scope_ns  = opentelemetry::sdk::instrumentationscope;
namespace mapi      = opentelemetry::metrics;
namespace res       = opentelemetry::sdk::resource;
using opentelemetry::common::KeyValueIterableView;

static nostd::string_view sv(const vh::Exact &x) { return nostd::string_view(x.data(), x.size()); }

// ------------------------------------------------------------------------------------------------ val
static std::string handle_val(const std::vector<std::string> &t)
{
  std::string s;
  if (t.size() != 3 || !vh::from_hex(t[2], s)) return "bad-op";
  static sm::InstrumentMetaDataValidator validator;
  vh::Exact x(s);
  if (t[1] == "name") return validator.ValidateName(sv(x)) ? "1" : "0";
  if (t[1] == "unit") return validator.ValidateUnit(sv(x)) ? "1" : "0";
  return "bad-op";
}

// ------------------------------------------------------------------------------------------------ mv
class ExplicitReader : public sm::MetricReader
{
public:
  sm::AggregationTemporality GetAggregationTemporality(sm::InstrumentType) const noexcept override
  {
    return sm::AggregationTemporality::kCumulative;
  }
  bool OnForceFlush(std::chrono::microseconds) noexcept override { return true; }
  bool OnShutDown(std::chrono::microseconds) noexcept override { return true; }
};

static bool itype_of(const std::string &s, sm::InstrumentType &t)
{
  if (s == "c") t = sm::InstrumentType::kCounter;
  else if (s == "h") t = sm::InstrumentType::kHistogram;
  else if (s == "u") t = sm::InstrumentType::kUpDownCounter;
  else if (s == "oc") t = sm::InstrumentType::kObservableCounter;
  else if (s == "og") t = sm::InstrumentType::kObservableGauge;
  else if (s == "ou") t = sm::InstrumentType::kObservableUpDownCounter;
  else return false;
  return true;
}
static const char *itype_name(sm::InstrumentType t)
{
  switch (t)
  {
    case sm::InstrumentType::kCounter: return "c";
    case sm::InstrumentType::kHistogram: return "h";
    case sm::InstrumentType::kUpDownCounter: return "u";
    case sm::InstrumentType::kObservableCounter: return "oc";
    case sm::InstrumentType::kObservableGauge: return "og";
    case sm::InstrumentType::kObservableUpDownCounter: return "ou";
    default: return "?";
  }
}
static bool agg_of(const std::string &s, sm::AggregationType &a)
{
  if (s == "def") a = sm::AggregationType::kDefault;
  else if (s == "drop") a = sm::AggregationType::kDrop;
  else if (s == "hist") a = sm::AggregationType::kHistogram;
  else if (s == "last") a = sm::AggregationType::kLastValue;
  else if (s == "sum") a = sm::AggregationType::kSum;
  else return false;
  return true;
}

struct ObsState
{
  long value;
  bool is_double;
};

static void observe_cb(opentelemetry::metrics::ObserverResult result, void *state)
{
  auto *s = static_cast<ObsState *>(state);
  std::map<std::string, std::string> attrs{{"a", "x"}, {"b", "y"}};
  KeyValueIterableView<std::map<std::string, std::string>> view(attrs);
  if (nostd::holds_alternative<nostd::shared_ptr<mapi::ObserverResultT<int64_t>>>(result))
    nostd::get<nostd::shared_ptr<mapi::ObserverResultT<int64_t>>>(result)->Observe(s->value, view);
  else
    nostd::get<nostd::shared_ptr<mapi::ObserverResultT<double>>>(result)->Observe(static_cast<double>(s->value), view);
}

static long value_of(const sm::ValueType &v)
{
  if (nostd::holds_alternative<int64_t>(v)) return static_cast<long>(nostd::get<int64_t>(v));
  return static_cast<long>(nostd::get<double>(v));
}

// the MeterProvider, its context, registry, views and selectors are built through the constructors or the *Factory::Create
// overloads, chosen by a hash of the case text (metrics_factories.h): views, resource and scope configurator must reach the
// meters through every one of them
static std::string handle_mv(const std::vector<std::string> &t)
{
  auto ops = vh::split_ops(t, 1);
  if (ops.empty() || ops[0].size() != 5 || ops[0][0] != "m") return "bad-op";
  std::string mname, mver, mschema;
  if (!vh::from_hex(ops[0][1], mname) || !vh::from_hex(ops[0][2], mver) || !vh::from_hex(ops[0][3], mschema)) return "bad-op";
  if (ops[0][4] != "0" && ops[0][4] != "1") return "bad-op";
  bool enabled = ops[0][4] == "1";

  // which entry points build the configuration depends on the case (number of operations): the provider constructor /
  // factory, and whether the views go into a ViewRegistry handed to the provider or are added with MeterProvider::AddView
  // afterwards (before any instrument exists), built directly or through the *Factory::Create functions
  const uint64_t how    = vhm::case_hash(t);
  const bool late_views = vhm::mix(how, 2) % 2 == 1;
  std::unique_ptr<sm::ViewRegistry> views = vhm::make_registry(how);
  struct PendingView
  {
    std::unique_ptr<sm::InstrumentSelector> isel;
    std::unique_ptr<sm::MeterSelector> msel;
    std::unique_ptr<sm::View> view;
  };
  std::vector<PendingView> pending;
  struct InstrReq
  {
    sm::InstrumentType type;
    bool is_double;
    std::string name, unit, desc;
  };
  std::vector<InstrReq> reqs;
  for (size_t k = 1; k < ops.size(); k++)
  {
    auto &op = ops[k];
    if (op.size() == 13 && op[0] == "v")
    {
      sm::InstrumentType it;
      sm::AggregationType agg;
      std::string pat, unit, smn, smv, sms, vname, vdesc, vunit;
      if (!itype_of(op[1], it) || !vh::from_hex(op[2], pat) || !vh::from_hex(op[3], unit) || !vh::from_hex(op[4], smn) ||
          !vh::from_hex(op[5], smv) || !vh::from_hex(op[6], sms) || !vh::from_hex(op[7], vname) || !vh::from_hex(op[8], vdesc) ||
          !vh::from_hex(op[9], vunit) || !agg_of(op[10], agg))
        return "bad-op";
      std::unique_ptr<sm::AttributesProcessor> proc;
      if (op[11] == "*") proc.reset(new sm::DefaultAttributesProcessor());
      else
      {
        std::unordered_map<std::string, bool> allowed;
        if (op[11] != "e")
        {
          std::istringstream is(op[11]);
          std::string item, key;
          while (std::getline(is, item, ','))
          {
            if (!vh::from_hex(item, key)) return "bad-op";
            allowed[key] = true;
          }
        }
        proc.reset(new sm::FilteringAttributesProcessor(allowed));
      }
      // explicit histogram bucket boundaries: `-` = no aggregation config, else comma separated non-negative integers
      std::shared_ptr<sm::AggregationConfig> config;
      if (op[12] != "-")
      {
        auto hc = std::make_shared<sm::HistogramAggregationConfig>();
        std::istringstream is(op[12]);
        std::string item;
        while (std::getline(is, item, ','))
        {
          char *e = nullptr;
          long b  = strtol(item.c_str(), &e, 10);
          if (item.empty() || *e || b < 0 || b > 1000000) return "bad-op";
          hc->boundaries_.push_back(static_cast<double>(b));
        }
        config = hc;
      }
      try
      {
        // an attributes processor that keeps everything may also be left to the View's default
        if (op[11] == "*" && vhm::mix(how, 400 + k) % 2) proc.reset();
        PendingView pv;
        pv.isel = vhm::make_isel(vhm::mix(how, 100 + k), it, pat, unit);
        pv.msel = vhm::make_msel(vhm::mix(how, 200 + k), smn, smv, sms);
        pv.view = vhm::make_view(vhm::mix(how, 300 + k), vname, vdesc, vunit, agg, config, std::move(proc));
        if (late_views) pending.push_back(std::move(pv));
        else views->AddView(std::move(pv.isel), std::move(pv.msel), std::move(pv.view));
      }
      catch (const std::exception &)
      {
        return "bad-op regex";
      }
    }
    else if (op.size() == 6 && op[0] == "i")
    {
      InstrReq r;
      if (!itype_of(op[1], r.type) || (op[2] != "l" && op[2] != "d") || !vh::from_hex(op[3], r.name) || !vh::from_hex(op[4], r.unit) ||
          !vh::from_hex(op[5], r.desc))
        return "bad-op";
      r.is_double = op[2] == "d";
      reqs.push_back(r);
    }
    else
      return "bad-op";
  }

  // two handles for one observable instrument (same name, type, value type) are outside the C19 model (C17's subject)
  {
    std::set<std::string> seen;
    for (auto &r : reqs)
      if (r.type == sm::InstrumentType::kObservableCounter || r.type == sm::InstrumentType::kObservableGauge ||
          r.type == sm::InstrumentType::kObservableUpDownCounter)
        if (!seen.insert(r.name + '\n' + itype_name(r.type) + (r.is_double ? "d" : "l")).second) return "bad-op";
  }

  auto resource = res::Resource::Create({});
  std::unique_ptr<scope_ns::ScopeConfigurator<sm::MeterConfig>> conf(new scope_ns::ScopeConfigurator<sm::MeterConfig>(
      scope_ns::ScopeConfigurator<sm::MeterConfig>::Builder(enabled ? sm::MeterConfig::Enabled() : sm::MeterConfig::Disabled()).Build()));
  auto provider = vhm::make_provider(how, std::move(views), &resource, std::move(conf)).provider;
  for (auto &pv : pending) provider->AddView(std::move(pv.isel), std::move(pv.msel), std::move(pv.view));
  auto reader   = std::make_shared<ExplicitReader>();
  provider->AddMetricReader(reader);
  nostd::shared_ptr<mapi::Meter> meter;
  {
    vh::Exact n(mname), v(mver), s(mschema);
    meter = provider->GetMeter(sv(n), sv(v), sv(s));
  }

  // keep instruments (and callback states) alive until after the collection
  std::vector<nostd::unique_ptr<mapi::Counter<uint64_t>>> c_l;
  std::vector<nostd::unique_ptr<mapi::Counter<double>>> c_d;
  std::vector<nostd::unique_ptr<mapi::Histogram<uint64_t>>> h_l;
  std::vector<nostd::unique_ptr<mapi::Histogram<double>>> h_d;
  std::vector<nostd::unique_ptr<mapi::UpDownCounter<int64_t>>> u_l;
  std::vector<nostd::unique_ptr<mapi::UpDownCounter<double>>> u_d;
  std::vector<nostd::shared_ptr<mapi::ObservableInstrument>> obs;
  std::vector<std::unique_ptr<ObsState>> states;
  std::map<std::string, std::string> attrs{{"a", "x"}, {"b", "y"}};
  KeyValueIterableView<std::map<std::string, std::string>> attr_view(attrs);
  auto ctx = opentelemetry::context::Context{};

  for (size_t k = 0; k < reqs.size(); k++)
  {
    auto &r   = reqs[k];
    long val  = 100 + static_cast<long>(k);
    // caller buffers: exact size, gone right after the Create call
    std::unique_ptr<vh::Exact> n(new vh::Exact(r.name)), u(new vh::Exact(r.unit)), d(new vh::Exact(r.desc));
    switch (r.type)
    {
      case sm::InstrumentType::kCounter:
        if (r.is_double) { c_d.push_back(meter->CreateDoubleCounter(sv(*n), sv(*d), sv(*u))); n.reset(); u.reset(); d.reset(); c_d.back()->Add(static_cast<double>(val), attr_view, ctx); }
        else { c_l.push_back(meter->CreateUInt64Counter(sv(*n), sv(*d), sv(*u))); n.reset(); u.reset(); d.reset(); c_l.back()->Add(static_cast<uint64_t>(val), attr_view, ctx); }
        break;
      case sm::InstrumentType::kHistogram:
        if (r.is_double) { h_d.push_back(meter->CreateDoubleHistogram(sv(*n), sv(*d), sv(*u))); n.reset(); u.reset(); d.reset(); h_d.back()->Record(static_cast<double>(val), attr_view, ctx); }
        else { h_l.push_back(meter->CreateUInt64Histogram(sv(*n), sv(*d), sv(*u))); n.reset(); u.reset(); d.reset(); h_l.back()->Record(static_cast<uint64_t>(val), attr_view, ctx); }
        break;
      case sm::InstrumentType::kUpDownCounter:
        if (r.is_double) { u_d.push_back(meter->CreateDoubleUpDownCounter(sv(*n), sv(*d), sv(*u))); n.reset(); u.reset(); d.reset(); u_d.back()->Add(static_cast<double>(val), attr_view, ctx); }
        else { u_l.push_back(meter->CreateInt64UpDownCounter(sv(*n), sv(*d), sv(*u))); n.reset(); u.reset(); d.reset(); u_l.back()->Add(static_cast<int64_t>(val), attr_view, ctx); }
        break;
      default: {
        nostd::shared_ptr<mapi::ObservableInstrument> o;
        if (r.type == sm::InstrumentType::kObservableCounter)
          o = r.is_double ? meter->CreateDoubleObservableCounter(sv(*n), sv(*d), sv(*u)) : meter->CreateInt64ObservableCounter(sv(*n), sv(*d), sv(*u));
        else if (r.type == sm::InstrumentType::kObservableGauge)
          o = r.is_double ? meter->CreateDoubleObservableGauge(sv(*n), sv(*d), sv(*u)) : meter->CreateInt64ObservableGauge(sv(*n), sv(*d), sv(*u));
        else
          o = r.is_double ? meter->CreateDoubleObservableUpDownCounter(sv(*n), sv(*d), sv(*u))
                          : meter->CreateInt64ObservableUpDownCounter(sv(*n), sv(*d), sv(*u));
        n.reset(); u.reset(); d.reset();
        states.emplace_back(new ObsState{val, r.is_double});
        o->AddCallback(observe_cb, states.back().get());
        obs.push_back(o);
      }
    }
  }

  std::vector<std::string> streams;
  std::string extra;
  reader->Collect([&](sm::ResourceMetrics &rm) {
    if (rm.resource_ != &provider->GetResource()) extra += " RESOURCE-MISMATCH";
    for (auto &sc : rm.scope_metric_data_)
    {
      if (sc.scope_->GetName() != mname || sc.scope_->GetVersion() != mver || sc.scope_->GetSchemaURL() != mschema) extra += " SCOPE-MISMATCH";
      for (auto &md : sc.metric_data_)
      {
        for (auto &pa : md.point_data_attr_)
        {
          std::string agg = "?";
          std::string val = "-";
          if (nostd::holds_alternative<sm::SumPointData>(pa.point_data))
          {
            agg = "sum";
            val = std::to_string(value_of(nostd::get<sm::SumPointData>(pa.point_data).value_));
          }
          else if (nostd::holds_alternative<sm::HistogramPointData>(pa.point_data))
          {
            auto &hp = nostd::get<sm::HistogramPointData>(pa.point_data);
            static const std::vector<double> kDefaultBounds{0.0,   5.0,   10.0,   25.0,   50.0,   75.0,   100.0,  250.0,
                                                            500.0, 750.0, 1000.0, 2500.0, 5000.0, 7500.0, 10000.0};
            // a=hist (the default boundaries) or a=hist:<b1>:<b2>… ; the bucket the value fell into follows after '@'
            agg = "hist";
            if (hp.boundaries_ != kDefaultBounds)
              for (double b : hp.boundaries_) agg += ":" + std::to_string(static_cast<long>(b));
            if (hp.counts_.size() != hp.boundaries_.size() + 1) agg += "!COUNTS";
            for (size_t bi = 0; bi < hp.counts_.size(); bi++)
              if (hp.counts_[bi]) agg += "@" + std::to_string(bi);
            val = std::to_string(value_of(hp.sum_));
          }
          else if (nostd::holds_alternative<sm::LastValuePointData>(pa.point_data))
          {
            agg = "last";
            val = std::to_string(value_of(nostd::get<sm::LastValuePointData>(pa.point_data).value_));
          }
          else if (nostd::holds_alternative<sm::DropPointData>(pa.point_data))
          {
            agg = "drop";
          }
          std::vector<std::string> keys;
          for (auto &kv : pa.attributes) keys.push_back(vh::to_hex(kv.first));
          std::sort(keys.begin(), keys.end());
          streams.push_back("n=" + vh::to_hex(md.instrument_descriptor.name_) + ",d=" + vh::to_hex(md.instrument_descriptor.description_) +
                            ",u=" + vh::to_hex(md.instrument_descriptor.unit_) + ",t=" + itype_name(md.instrument_descriptor.type_) + ",a=" + agg +
                            ",k=" + (keys.empty() ? std::string("none") : vh::join(keys, "+")) + ",v=" + val);
        }
      }
    }
    return true;
  });
  std::sort(streams.begin(), streams.end());
  return "[" + vh::join(streams, "|") + "]" + extra;
}

// ------------------------------------------------------------------------------------------------ sc
struct Captured
{
  std::string name;
  bool resource_ok;
};

class CaptureSpans : public st::SpanProcessor
{
public:
  explicit CaptureSpans(std::vector<Captured> *out, const res::Resource **provider_res) : out_(out), pres_(provider_res) {}
  std::unique_ptr<st::Recordable> MakeRecordable() noexcept override { return std::unique_ptr<st::Recordable>(new st::SpanData); }
  void OnStart(st::Recordable &, const opentelemetry::trace::SpanContext &) noexcept override {}
  void OnEnd(std::unique_ptr<st::Recordable> &&span) noexcept override
  {
    auto *d = static_cast<st::SpanData *>(span.get());
    out_->push_back({std::string(d->GetName()), &d->GetResource() == *pres_});
  }
  bool ForceFlush(std::chrono::microseconds) noexcept override { return true; }
  bool Shutdown(std::chrono::microseconds) noexcept override { return true; }
  std::vector<Captured> *out_;
  const res::Resource **pres_;
};

class CaptureLogs : public sl::LogRecordProcessor
{
public:
  explicit CaptureLogs(std::vector<Captured> *out, const res::Resource **provider_res) : out_(out), pres_(provider_res) {}
  std::unique_ptr<sl::Recordable> MakeRecordable() noexcept override { return std::unique_ptr<sl::Recordable>(new sl::ReadWriteLogRecord); }
  void OnEmit(std::unique_ptr<sl::Recordable> &&rec) noexcept override
  {
    auto *d = static_cast<sl::ReadWriteLogRecord *>(rec.get());
    std::string body;
    if (nostd::holds_alternative<nostd::string_view>(d->GetBody())) body = std::string(nostd::get<nostd::string_view>(d->GetBody()));
    else if (nostd::holds_alternative<const char *>(d->GetBody())) body = nostd::get<const char *>(d->GetBody());
    out_->push_back({body, &d->GetResource() == *pres_});
  }
  bool ForceFlush(std::chrono::microseconds) noexcept override { return true; }
  bool Shutdown(std::chrono::microseconds) noexcept override { return true; }
  std::vector<Captured> *out_;
  const res::Resource **pres_;
};

struct Rule
{
  std::string matcher, arg;
  bool enabled;
};

template <class Config>
static std::unique_ptr<scope_ns::ScopeConfigurator<Config>> build_conf(const std::vector<Rule> &rules, bool def)
{
  typename scope_ns::ScopeConfigurator<Config>::Builder b(def ? Config::Enabled() : Config::Disabled());
  for (auto &r : rules)
  {
    Config c = r.enabled ? Config::Enabled() : Config::Disabled();
    std::string arg = r.arg;
    if (r.matcher == "name")
    {
      vh::Exact x(arg);
      b.AddConditionNameEquals(sv(x), c);  // the builder must own its copy
    }
    else if (r.matcher == "ver")
      b.AddCondition([arg](const scope_ns::InstrumentationScope &s) { return s.GetVersion() == arg; }, c);
    else if (r.matcher == "schema")
      b.AddCondition([arg](const scope_ns::InstrumentationScope &s) { return s.GetSchemaURL() == arg; }, c);
    else if (r.matcher == "any")
      b.AddCondition([](const scope_ns::InstrumentationScope &) { return true; }, c);
    else
      b.AddCondition([arg](const scope_ns::InstrumentationScope &s) { return s.GetName().compare(0, arg.size(), arg) == 0; }, c);
  }
  // a builder is a value: building from it does not use it up (a second provider is configured from the same rule list)
  auto first = b.Build();
  (void)first;
  return std::unique_ptr<scope_ns::ScopeConfigurator<Config>>(new scope_ns::ScopeConfigurator<Config>(b.Build()));
}

static std::string handle_sc(const std::vector<std::string> &t)
{
  if (t.size() < 2) return "bad-op";
  std::string kind = t[1];
  if (kind != "t" && kind != "m" && kind != "l") return "bad-op";
  auto ops = vh::split_ops(t, 2);
  if (ops.empty() || ops[0].size() != 2 || ops[0][0] != "d" || (ops[0][1] != "0" && ops[0][1] != "1")) return "bad-op";
  bool def = ops[0][1] == "1";
  std::vector<Rule> rules;
  struct Req
  {
    std::string name, ver, schema, lname;
    std::vector<std::pair<std::string, std::string>> attrs;
  };
  std::vector<Req> reqs;
  for (size_t k = 1; k < ops.size(); k++)
  {
    auto &op = ops[k];
    if (op.size() == 4 && op[0] == "r")
    {
      Rule r;
      r.matcher = op[1];
      if (r.matcher != "name" && r.matcher != "ver" && r.matcher != "schema" && r.matcher != "any" && r.matcher != "prefix") return "bad-op";
      if (!vh::from_hex(op[2], r.arg) || (op[3] != "0" && op[3] != "1")) return "bad-op";
      if (!reqs.empty()) return "bad-op";  // rules first
      r.enabled = op[3] == "1";
      rules.push_back(r);
    }
    else if (op[0] == "g" && ((kind != "l" && op.size() == 4) || (kind == "l" && op.size() == 6)))
    {
      Req r;
      if (!vh::from_hex(op[1], r.name) || !vh::from_hex(op[2], r.ver) || !vh::from_hex(op[3], r.schema)) return "bad-op";
      if (kind == "l")
      {
        if (!vh::from_hex(op[4], r.lname)) return "bad-op";
        if (op[5] != "-")
        {
          std::istringstream is(op[5]);
          std::string item;
          std::set<std::string> seen;
          while (std::getline(is, item, ','))
          {
            size_t eq = item.find('=');
            std::string k2, v2;
            if (eq == std::string::npos || !vh::from_hex(item.substr(0, eq), k2) || !vh::from_hex(item.substr(eq + 1), v2)) return "bad-op";
            if (!seen.insert(k2).second) return "bad-op";
            r.attrs.emplace_back(k2, v2);
          }
        }
      }
      reqs.push_back(r);
    }
    else
      return "bad-op";
  }

  auto resource = res::Resource::Create({{"service.name", "c19"}});
  std::vector<Captured> captured;
  const res::Resource *provider_res = nullptr;
  std::vector<const void *> ptrs;
  std::vector<std::string> outs;
  auto first_index = [&](const void *p) {
    for (size_t i = 0; i < ptrs.size(); i++)
      if (ptrs[i] == p) return i;
    ptrs.push_back(p);
    return ptrs.size() - 1;
  };
  // `ptrs` holds one entry per request (the pointer it got); index of the first equal pointer = canonical instance id

  if (kind == "t")
  {
    std::unique_ptr<st::SpanProcessor> proc(new CaptureSpans(&captured, &provider_res));
    // two constructors, the factory overloads that take a configurator, and a context: which one builds the provider
    // depends on the case; the scope rules must reach the tracers through every one of them
    auto smp  = []() { return std::unique_ptr<st::Sampler>(new st::AlwaysOnSampler); };
    auto idg  = []() { return std::unique_ptr<st::IdGenerator>(new st::RandomIdGenerator()); };
    auto conf = build_conf<st::TracerConfig>(rules, def);
    std::vector<std::unique_ptr<st::SpanProcessor>> procs;
    std::unique_ptr<st::TracerProvider> provider_p;
    switch ((rules.size() + reqs.size()) % 5)
    {
      case 1:
        procs.push_back(std::move(proc));
        provider_p.reset(new st::TracerProvider(std::move(procs), resource, smp(), idg(), std::move(conf)));
        break;
      case 2:
        procs.push_back(std::move(proc));
        provider_p = st::TracerProviderFactory::Create(std::move(procs), resource, smp(), idg(), std::move(conf));
        break;
      case 3:
        provider_p = st::TracerProviderFactory::Create(std::move(proc), resource, smp(), idg(), std::move(conf));
        break;
      case 4:
        procs.push_back(std::move(proc));
        provider_p = st::TracerProviderFactory::Create(
            st::TracerContextFactory::Create(std::move(procs), resource, smp(), idg(), std::move(conf)));
        break;
      default:
        provider_p.reset(new st::TracerProvider(std::move(proc), resource, smp(), idg(), std::move(conf)));
        break;
    }
    st::TracerProvider &provider = *provider_p;
    provider_res                 = &provider.GetResource();
    std::vector<nostd::shared_ptr<opentelemetry::trace::Tracer>> keep;
    for (size_t k = 0; k < reqs.size(); k++)
    {
      nostd::shared_ptr<opentelemetry::trace::Tracer> tr;
      {
        vh::Exact n(reqs[k].name), v(reqs[k].ver), s(reqs[k].schema);
        // an empty scope name is also handed over as a string_view without a buffer (data() == nullptr), every other time
        tr = provider.GetTracer(reqs[k].name.empty() && k % 2 == 1 ? nostd::string_view() : sv(n), sv(v), sv(s));
      }
      keep.push_back(tr);
      size_t before = captured.size();
      std::string sname = "s" + std::to_string(k);
      tr->StartSpan(sname)->End();
      size_t n_out = captured.size() - before;
      bool res_ok  = true;
      for (size_t j = before; j < captured.size(); j++) res_ok = res_ok && captured[j].resource_ok && captured[j].name == sname;
      size_t idx = 0;
      for (; idx < keep.size(); idx++)
        if (keep[idx].get() == tr.get()) break;
      outs.push_back("i=" + std::to_string(idx) + " out=" + std::to_string(n_out) + " res=" + (res_ok ? "1" : "0"));
    }
    (void)first_index;
    return outs.empty() ? "none" : vh::join(outs, " ; ");
  }
  if (kind == "l")
  {
    std::unique_ptr<sl::LogRecordProcessor> proc(new CaptureLogs(&captured, &provider_res));
    auto conf = build_conf<sl::LoggerConfig>(rules, def);
    std::vector<std::unique_ptr<sl::LogRecordProcessor>> procs;
    std::unique_ptr<sl::LoggerProvider> provider_p;
    switch ((rules.size() + reqs.size()) % 5)
    {
      case 1:
        procs.push_back(std::move(proc));
        provider_p.reset(new sl::LoggerProvider(std::move(procs), resource, std::move(conf)));
        break;
      case 2:
        procs.push_back(std::move(proc));
        provider_p = sl::LoggerProviderFactory::Create(std::move(procs), resource, std::move(conf));
        break;
      case 3:
        provider_p = sl::LoggerProviderFactory::Create(std::move(proc), resource, std::move(conf));
        break;
      case 4:
        procs.push_back(std::move(proc));
        provider_p = sl::LoggerProviderFactory::Create(sl::LoggerContextFactory::Create(std::move(procs), resource, std::move(conf)));
        break;
      default:
        provider_p.reset(new sl::LoggerProvider(std::move(proc), resource, std::move(conf)));
        break;
    }
    sl::LoggerProvider &provider = *provider_p;
    provider_res                 = &provider.GetResource();
    std::vector<nostd::shared_ptr<opentelemetry::logs::Logger>> keep;
    for (size_t k = 0; k < reqs.size(); k++)
    {
      nostd::shared_ptr<opentelemetry::logs::Logger> lg;
      {
        vh::Exact n(reqs[k].name), v(reqs[k].ver), s(reqs[k].schema), ln(reqs[k].lname);
        std::map<std::string, std::string> attrs(reqs[k].attrs.begin(), reqs[k].attrs.end());
        KeyValueIterableView<std::map<std::string, std::string>> av(attrs);
        lg = provider.GetLogger(sv(ln), reqs[k].name.empty() && k % 2 == 1 ? nostd::string_view() : sv(n), sv(v), sv(s), av);
      }
      keep.push_back(lg);
      size_t before = captured.size();
      std::string body = "b" + std::to_string(k);
      lg->EmitLogRecord(opentelemetry::logs::Severity::kInfo, nostd::string_view(body));
      size_t n_out = captured.size() - before;
      bool res_ok  = true;
      for (size_t j = before; j < captured.size(); j++) res_ok = res_ok && captured[j].resource_ok && captured[j].name == body;
      size_t idx = 0;
      for (; idx < keep.size(); idx++)
        if (keep[idx].get() == lg.get()) break;
      outs.push_back("i=" + std::to_string(idx) + " out=" + std::to_string(n_out) + " res=" + (res_ok ? "1" : "0"));
    }
    return outs.empty() ? "none" : vh::join(outs, " ; ");
  }
  // meters
  {
    const uint64_t how = vhm::case_hash(t);
    auto provider      = vhm::make_provider(how, vhm::make_registry(how), &resource, build_conf<sm::MeterConfig>(rules, def)).provider;
    auto reader   = std::make_shared<ExplicitReader>();
    provider->AddMetricReader(reader);
    std::vector<nostd::shared_ptr<mapi::Meter>> keep;
    std::vector<nostd::unique_ptr<mapi::Counter<uint64_t>>> counters;
    for (size_t k = 0; k < reqs.size(); k++)
    {
      nostd::shared_ptr<mapi::Meter> m;
      {
        vh::Exact n(reqs[k].name), v(reqs[k].ver), s(reqs[k].schema);
        m = provider->GetMeter(reqs[k].name.empty() && k % 2 == 1 ? nostd::string_view() : sv(n), sv(v), sv(s));
      }
      keep.push_back(m);
      std::string cname = "c" + std::to_string(k);
      counters.push_back(m->CreateUInt64Counter(cname));
      counters.back()->Add(1);
      size_t n_out = 0;
      bool res_ok  = true;
      reader->Collect([&](sm::ResourceMetrics &rm) {
        for (auto &sc : rm.scope_metric_data_)
          for (auto &md : sc.metric_data_)
            if (md.instrument_descriptor.name_ == cname)
            {
              n_out++;
              res_ok = res_ok && rm.resource_ == &provider->GetResource() && sc.scope_->GetName() == reqs[k].name &&
                       sc.scope_->GetVersion() == reqs[k].ver && sc.scope_->GetSchemaURL() == reqs[k].schema;
            }
        return true;
      });
      size_t idx = 0;
      for (; idx < keep.size(); idx++)
        if (keep[idx].get() == m.get()) break;
      outs.push_back("i=" + std::to_string(idx) + " out=" + std::to_string(n_out) + " res=" + (res_ok ? "1" : "0"));
    }
    return outs.empty() ? "none" : vh::join(outs, " ; ");
  }
}

int main()
{
  opentelemetry::sdk::common::internal_log::GlobalLogHandler::SetLogLevel(opentelemetry::sdk::common::internal_log::LogLevel::None);
  unsetenv("OTEL_RESOURCE_ATTRIBUTES");
  unsetenv("OTEL_SERVICE_NAME");
  return vh::run_lines_supervised([](const std::vector<std::string> &t) -> std::string {
    if (t.empty()) return "bad-op";
    if (t[0] == "val") return handle_val(t);
    if (t[0] == "mv") return handle_mv(t);
    if (t[0] == "sc") return handle_sc(t);
    return "bad-op";
  });
}
