// Correspondence harness for C18 (resources, environment readers): calls the real SDK code of the
// working tree in-process on the lines the Lean model driver also reads.
//
//   env bool  <hex|unset>                  GetBoolEnvironmentVariable            -> r=<0|1> v=<0|1>
//   env uint  <errno 0|1> <hex|unset>      GetUintEnvironmentVariable, errno preset to ERANGE when 1
//                                                                              -> r=<0|1> v=<n>
//   env dur   <hex|unset>                  GetDurationEnvironmentVariable        -> r=1 ns=<n> | r=0 ns=keep | r=0 ns=0
//   env float <errno 0|1> <strtof reports ERANGE 0|1 (model input)> <hex|unset> <expected binary32 bits as 8 hex digits | ->
//                                                                              -> r=1 v=ok|- | r=0 v=0
//   env disabled <hex|unset>               sdk::{trace,metrics,logs}::Provider::Set*Provider under OTEL_SDK_DISABLED
//                                                                              -> installed=<t><m><l>
//   res merge <attrsA> <schemaA> <attrsB> <schemaB>   Resource::Merge          -> m={..} s=<hex> a={..} sa=<hex> b={..} sb=<hex>
//   res detect <hex|unset> <hex|unset>     OTELResourceDetector::Detect under OTEL_RESOURCE_ATTRIBUTES / OTEL_SERVICE_NAME
//                                                                              -> m={..} s=<hex>
//   res create <hex|unset> <hex|unset> <attrs> <schema>   Resource::Create in a forked child (the environment is read once
//                                                         per process and cached in a function-local static)
//                                                                              -> m={..} s=<hex>
// attrs = `-` | comma separated `<keyhex>=<value token>`; value token = s<hex> | i<int64> | j<int32> | u<uint32> | b<0|1> | d<int as double>
#include "common.h"
#include "supervised.h"

#include <sys/types.h>
#include <sys/wait.h>
#include <unistd.h>
#include <algorithm>
#include <cerrno>
#include <chrono>
#include <functional>
#include <map>

#include "opentelemetry/logs/noop.h"
#include "opentelemetry/logs/provider.h"
#include "opentelemetry/metrics/noop.h"
#include "opentelemetry/metrics/provider.h"
#include "opentelemetry/sdk/common/env_variables.h"
#include "opentelemetry/sdk/common/global_log_handler.h"
#include "opentelemetry/sdk/logs/provider.h"
#include "opentelemetry/sdk/metrics/provider.h"
#include "opentelemetry/sdk/resource/resource.h"
#include "opentelemetry/sdk/resource/resource_detector.h"
#include "opentelemetry/sdk/trace/provider.h"
#include "opentelemetry/trace/noop.h"
#include "opentelemetry/trace/provider.h"

namespace sdkc  = opentelemetry::sdk::common;
namespace res   = opentelemetry::sdk::resource;
namespace nostd = opentelemetry::nostd;

static_assert(std::is_same<std::chrono::system_clock::duration, std::chrono::nanoseconds>::value,
              "the duration model is written for a nanosecond system_clock");

static const char *kVar = "OTEL_VERIF_VALUE";

// the environment value: "unset" or a hex string without NUL bytes
static bool apply_env(const char *name, const std::string &tok)
{
  if (tok == "unset")
  {
    unsetenv(name);
    return true;
  }
  std::string v;
  if (!vh::from_hex(tok, v)) return false;
  if (v.find('\0') != std::string::npos) return false;
  // setenv copies; the exact-size block makes sure nothing but the bytes given is used
  vh::Exact x(v + std::string(1, '\0'));
  setenv(name, x.data(), 1);
  return true;
}

struct Maker : public res::ResourceDetector
{
  res::Resource Detect() noexcept override { return Create({}); }
  static res::Resource Make(const res::ResourceAttributes &a, const std::string &schema) { return Create(a, schema); }
};

static bool parse_value(const std::string &tok, opentelemetry::sdk::common::OwnedAttributeValue &out)
{
  if (tok.empty()) return false;
  std::string body = tok.substr(1);
  char *e          = nullptr;
  switch (tok[0])
  {
    case 's': {
      std::string v;
      if (!vh::from_hex(body, v)) return false;
      out = v;
      return true;
    }
    case 'i': {
      errno       = 0;
      long long v = strtoll(body.c_str(), &e, 10);
      if (body.empty() || *e || errno) return false;
      out = static_cast<int64_t>(v);
      return true;
    }
    case 'j': {
      errno       = 0;
      long long v = strtoll(body.c_str(), &e, 10);
      if (body.empty() || *e || errno || v < INT32_MIN || v > INT32_MAX) return false;
      out = static_cast<int32_t>(v);
      return true;
    }
    case 'u': {
      errno                = 0;
      unsigned long long v = strtoull(body.c_str(), &e, 10);
      if (body.empty() || *e || errno || v > UINT32_MAX || body[0] == '-') return false;
      out = static_cast<uint32_t>(v);
      return true;
    }
    case 'b':
      if (body != "0" && body != "1") return false;
      out = (body == "1");
      return true;
    case 'd': {
      errno       = 0;
      long long v = strtoll(body.c_str(), &e, 10);
      if (body.empty() || *e || errno || v < -1000000 || v > 1000000) return false;
      out = static_cast<double>(v);
      return true;
    }
  }
  return false;
}

static std::string show_value(const opentelemetry::sdk::common::OwnedAttributeValue &v)
{
  if (nostd::holds_alternative<std::string>(v)) return "s" + vh::to_hex(nostd::get<std::string>(v));
  if (nostd::holds_alternative<int64_t>(v)) return "i" + std::to_string(nostd::get<int64_t>(v));
  if (nostd::holds_alternative<int32_t>(v)) return "j" + std::to_string(nostd::get<int32_t>(v));
  if (nostd::holds_alternative<uint32_t>(v)) return "u" + std::to_string(nostd::get<uint32_t>(v));
  if (nostd::holds_alternative<bool>(v)) return std::string("b") + (nostd::get<bool>(v) ? "1" : "0");
  if (nostd::holds_alternative<double>(v))
  {
    double d = nostd::get<double>(v);
    if (d == static_cast<double>(static_cast<long long>(d))) return "d" + std::to_string(static_cast<long long>(d));
    return "d?";
  }
  return "?";
}

static bool parse_attrs(const std::string &tok, res::ResourceAttributes &out)
{
  out.clear();
  if (tok == "-") return true;
  size_t i = 0;
  while (i <= tok.size())
  {
    size_t j = tok.find(',', i);
    if (j == std::string::npos) j = tok.size();
    std::string item = tok.substr(i, j - i);
    size_t eq        = item.find('=');
    if (eq == std::string::npos) return false;
    std::string k;
    if (!vh::from_hex(item.substr(0, eq), k)) return false;
    opentelemetry::sdk::common::OwnedAttributeValue v;
    if (!parse_value(item.substr(eq + 1), v)) return false;
    // the caller's key lives in an exact-size block that is gone after the call: the map must own its copy
    {
      vh::Exact kx(k);
      out[std::string(kx.data(), kx.size())] = v;
    }
    i = j + 1;
  }
  return true;
}

static std::string show_attrs(const res::ResourceAttributes &a)
{
  std::vector<std::pair<std::string, std::string>> items;
  for (auto &kv : a) items.emplace_back(kv.first, show_value(kv.second));
  std::sort(items.begin(), items.end());
  std::string s = "{";
  for (size_t i = 0; i < items.size(); i++)
  {
    if (i) s += ",";
    s += vh::to_hex(items[i].first) + "=" + items[i].second;
  }
  return s + "}";
}

static std::string show_res(const res::Resource &r)
{
  return "m=" + show_attrs(r.GetAttributes()) + " s=" + vh::to_hex(r.GetSchemaURL());
}

static std::string handle_env(const std::vector<std::string> &t)
{
  if (t.size() == 3 && t[1] == "bool")
  {
    if (!apply_env(kVar, t[2])) return "bad-op";
    bool v = true;  // a stale value the reader must overwrite
    bool r = sdkc::GetBoolEnvironmentVariable(kVar, v);
    return std::string("r=") + (r ? "1" : "0") + " v=" + (v ? "1" : "0");
  }
  if (t.size() == 4 && t[1] == "uint" && (t[2] == "0" || t[2] == "1"))
  {
    if (!apply_env(kVar, t[3])) return "bad-op";
    std::uint32_t v = 777;
    errno           = (t[2] == "1") ? ERANGE : 0;
    bool r          = sdkc::GetUintEnvironmentVariable(kVar, v);
    errno           = 0;
    return std::string("r=") + (r ? "1" : "0") + " v=" + std::to_string(v);
  }
  if (t.size() == 3 && t[1] == "dur")
  {
    if (!apply_env(kVar, t[2])) return "bad-op";
    const auto sentinel = std::chrono::system_clock::duration{-777};
    auto v              = sentinel;
    bool r              = sdkc::GetDurationEnvironmentVariable(kVar, v);
    std::string o       = std::string("r=") + (r ? "1" : "0") + " ns=";
    if (v == sentinel) return o + "keep";
    return o + std::to_string(static_cast<long long>(v.count()));
  }
  if (t.size() == 6 && t[1] == "float" && (t[2] == "0" || t[2] == "1") && (t[3] == "0" || t[3] == "1"))
  {
    // t[3] (does strtof report ERANGE for this string) is an input of the model only
    if (!apply_env(kVar, t[4])) return "bad-op";
    float v = 777.0f;
    errno   = (t[2] == "1") ? ERANGE : 0;
    bool r  = sdkc::GetFloatEnvironmentVariable(kVar, v);
    errno   = 0;
    uint32_t bits;
    memcpy(&bits, &v, 4);
    char buf[16];
    snprintf(buf, sizeof buf, "%08x", bits);
    if (!r) return std::string("r=0 v=") + (bits == 0 ? "0" : (std::string("BAD:") + buf));
    if (t[5] == "-") return "r=1 v=-";
    return std::string("r=1 v=") + (t[5] == buf ? "ok" : (std::string("BAD:") + buf));
  }
  if (t.size() == 3 && t[1] == "disabled")
  {
    if (!apply_env("OTEL_SDK_DISABLED", t[2])) return "bad-op";
    namespace ta = opentelemetry::trace;
    namespace ma = opentelemetry::metrics;
    namespace la = opentelemetry::logs;
    nostd::shared_ptr<ta::TracerProvider> t0{new ta::NoopTracerProvider}, t1{new ta::NoopTracerProvider};
    nostd::shared_ptr<ma::MeterProvider> m0{new ma::NoopMeterProvider}, m1{new ma::NoopMeterProvider};
    nostd::shared_ptr<la::LoggerProvider> l0{new la::NoopLoggerProvider}, l1{new la::NoopLoggerProvider};
    ta::Provider::SetTracerProvider(t0);
    ma::Provider::SetMeterProvider(m0);
    la::Provider::SetLoggerProvider(l0);
    opentelemetry::sdk::trace::Provider::SetTracerProvider(t1);
    opentelemetry::sdk::metrics::Provider::SetMeterProvider(m1);
    opentelemetry::sdk::logs::Provider::SetLoggerProvider(l1);
    auto code = [](const void *now, const void *before, const void *given) {
      return now == given ? "1" : (now == before ? "0" : "?");
    };
    std::string o = "installed=";
    o += code(ta::Provider::GetTracerProvider().get(), t0.get(), t1.get());
    o += code(ma::Provider::GetMeterProvider().get(), m0.get(), m1.get());
    o += code(la::Provider::GetLoggerProvider().get(), l0.get(), l1.get());
    unsetenv("OTEL_SDK_DISABLED");
    return o;
  }
  return "bad-op";
}

static std::string in_child(const std::function<std::string()> &f)
{
  int fd[2];
  if (pipe(fd) != 0) return "ERR pipe";
  fflush(stdout);
  pid_t pid = fork();
  if (pid < 0) return "ERR fork";
  if (pid == 0)
  {
    close(fd[0]);
    std::string o;
    try
    {
      o = f();
    }
    catch (const std::exception &e)
    {
      o = "THROW";
    }
    catch (...)
    {
      o = "THROW";
    }
    size_t off = 0;
    while (off < o.size())
    {
      ssize_t n = write(fd[1], o.data() + off, o.size() - off);
      if (n <= 0) break;
      off += static_cast<size_t>(n);
    }
    close(fd[1]);
    _exit(0);
  }
  close(fd[1]);
  std::string o;
  char buf[4096];
  ssize_t n;
  while ((n = read(fd[0], buf, sizeof buf)) > 0) o.append(buf, static_cast<size_t>(n));
  close(fd[0]);
  int st = 0;
  waitpid(pid, &st, 0);
  if (!WIFEXITED(st) || WEXITSTATUS(st) != 0)
  {
    // a sanitizer report or a crash inside the child is the result of this case: die the same way so that the
    // check attributes it to this line (the child's report is already on stderr)
    fprintf(stderr, "child failed: status %d\n", st);
    abort();
  }
  return o;
}

static std::string handle_res(const std::vector<std::string> &t)
{
  if (t.size() == 6 && t[1] == "merge")
  {
    res::ResourceAttributes aa, ba;
    std::string sa, sb;
    if (!parse_attrs(t[2], aa) || !vh::from_hex(t[3], sa) || !parse_attrs(t[4], ba) || !vh::from_hex(t[5], sb))
      return "bad-op";
    // an operand without attributes and without schema URL is the shared Resource::GetEmpty() object itself: Merge must
    // leave it as it is (it is printed below, and it is the operand of every later such case of this process)
    res::Resource a_own = Maker::Make(aa, sa);
    res::Resource b_own = Maker::Make(ba, sb);
    const res::Resource &a = (aa.empty() && sa.empty()) ? res::Resource::GetEmpty() : a_own;
    const res::Resource &b = (ba.empty() && sb.empty()) ? res::Resource::GetEmpty() : b_own;
    aa.clear();
    ba.clear();
    std::string out;
    {
      res::Resource m = a.Merge(b);
      out             = show_res(m);
    }
    return out + " a=" + show_attrs(a.GetAttributes()) + " sa=" + vh::to_hex(a.GetSchemaURL()) +
           " b=" + show_attrs(b.GetAttributes()) + " sb=" + vh::to_hex(b.GetSchemaURL());
  }
  if (t.size() == 4 && t[1] == "detect")
  {
    if (!apply_env("OTEL_RESOURCE_ATTRIBUTES", t[2]) || !apply_env("OTEL_SERVICE_NAME", t[3])) return "bad-op";
    res::OTELResourceDetector d;
    std::string o = show_res(d.Detect());
    unsetenv("OTEL_RESOURCE_ATTRIBUTES");
    unsetenv("OTEL_SERVICE_NAME");
    return o;
  }
  if (t.size() == 6 && t[1] == "create")
  {
    res::ResourceAttributes ua;
    std::string schema, e1, e2;
    if (!parse_attrs(t[4], ua) || !vh::from_hex(t[5], schema)) return "bad-op";
    if (t[2] != "unset" && (!vh::from_hex(t[2], e1) || e1.find('\0') != std::string::npos)) return "bad-op";
    if (t[3] != "unset" && (!vh::from_hex(t[3], e2) || e2.find('\0') != std::string::npos)) return "bad-op";
    return in_child([&]() {
      apply_env("OTEL_RESOURCE_ATTRIBUTES", t[2]);
      apply_env("OTEL_SERVICE_NAME", t[3]);
      res::Resource r = res::Resource::Create(ua, schema);
      // a second call in the same process sees the same (cached) environment part
      res::Resource r2 = res::Resource::Create(ua, schema);
      std::string o    = show_res(r);
      if (show_res(r2) != o) o += " UNSTABLE";
      return o;
    });
  }
  return "bad-op";
}

int main()
{
  // the SDK's default log handler writes warnings to stdout: keep the line protocol clean
  opentelemetry::sdk::common::internal_log::GlobalLogHandler::SetLogLevel(
      opentelemetry::sdk::common::internal_log::LogLevel::None);
  unsetenv("OTEL_RESOURCE_ATTRIBUTES");
  unsetenv("OTEL_SERVICE_NAME");
  unsetenv("OTEL_SDK_DISABLED");
  return vh::run_lines_supervised([](const std::vector<std::string> &t) -> std::string {
    if (t.empty()) return "bad-op";
    if (t[0] == "env") return handle_env(t);
    if (t[0] == "res") return handle_res(t);
    return "bad-op";
  });
}
