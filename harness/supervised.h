// Supervised line loop for SDK harnesses whose cases may die in a sanitizer report.
//
// vh::run_lines (common.h) answers lines in-process: a sanitizer abort kills the harness, the check attributes it to the
// case after the last complete line and restarts the harness with the rest.  That is fine for a rare crash, but a
// defect that makes *most* cases abort (e.g. a validator that reads past every unterminated buffer) turns one run into
// thousands of process restarts.  Here the process that owns stdin/stdout never runs SDK code: it forks a worker that
// answers the remaining lines in-process and relays its output; when the worker dies, the supervisor answers the case it
// died on with `CRASH <kind>` itself (same classification as vcore.classify_crash) and forks a new worker for the rest.
// One fork per crash instead of one process start per crash; no fork at all per ordinary case.  A run in which more than
// kCrashBudget cases died stops executing: it already has its witnesses (the check fails on the first of them).
#pragma once
#include "common.h"

#include <poll.h>
#include <sys/types.h>
#include <sys/wait.h>
#include <unistd.h>

namespace vh
{
inline std::string classify_crash_text(const std::string &err, int status)
{
  auto grab = [&](const char *marker, size_t maxlen, bool word) -> std::string {
    size_t p = err.find(marker);
    if (p == std::string::npos) return "";
    p += strlen(marker);
    size_t e = p;
    while (e < err.size() && e - p < maxlen && err[e] != '\n' && (!word || isalnum(static_cast<unsigned char>(err[e])) || err[e] == '-' || err[e] == '_'))
      e++;
    return err.substr(p, e - p);
  };
  std::string k = grab("ERROR: AddressSanitizer: ", 60, true);
  if (!k.empty()) return "asan:" + k;
  k = grab("runtime error: ", 80, false);
  if (!k.empty())
  {
    for (auto &c : k)
      if (c == ' ') c = '_';
    return "ubsan:" + k.substr(0, 60);
  }
  if (err.find("terminate called") != std::string::npos) return "terminate";
  if (WIFSIGNALED(status)) return "signal:" + std::to_string(WTERMSIG(status));
  return "exit:" + std::to_string(WIFEXITED(status) ? WEXITSTATUS(status) : -1);
}

// after this many worker deaths in one run the remaining cases are answered `CRASH not-run:…` without being executed
static const size_t kCrashBudget = 300;

template <class F>
int run_lines_supervised(F handle)
{
  std::vector<std::string> lines;
  std::string line;
  while (std::getline(std::cin, line)) lines.push_back(line);
  size_t i = 0;
  size_t crashes = 0;
  while (i < lines.size())
  {
    if (crashes >= kCrashBudget)
    {
      // the run has its witnesses; do not spend a fork and a sanitizer report on every remaining case
      for (; i < lines.size(); i++) fputs("CRASH not-run:crash-budget-exhausted\n", stdout);
      fflush(stdout);
      break;
    }
    int po[2], pe[2];
    if (pipe(po) != 0 || pipe(pe) != 0) return 3;
    fflush(stdout);
    fflush(stderr);
    pid_t pid = fork();
    if (pid < 0) return 3;
    if (pid == 0)
    {
      close(po[0]);
      close(pe[0]);
      // anything the SDK prints by itself (its default log handler writes to stdout) must not reach the protocol stream
      dup2(pe[1], 1);
      dup2(pe[1], 2);
      close(pe[1]);
      FILE *out = fdopen(po[1], "w");
      for (size_t j = i; j < lines.size(); j++)
      {
        std::string o = handle(split_ws(lines[j]));
        for (auto &c : o)
          if (c == '\n') c = ' ';
        fputs(o.c_str(), out);
        fputc('\n', out);
        fflush(out);
      }
      fclose(out);
      _exit(0);
    }
    close(po[1]);
    close(pe[1]);
    std::string obuf, err;
    size_t done = 0;
    bool o_open = true, e_open = true;
    while (o_open || e_open)
    {
      struct pollfd fds[2];
      int n = 0;
      int oi = -1, ei = -1;
      if (o_open) { fds[n].fd = po[0]; fds[n].events = POLLIN; oi = n++; }
      if (e_open) { fds[n].fd = pe[0]; fds[n].events = POLLIN; ei = n++; }
      if (poll(fds, static_cast<nfds_t>(n), -1) < 0) break;
      char buf[65536];
      if (oi >= 0 && (fds[oi].revents & (POLLIN | POLLHUP | POLLERR)))
      {
        ssize_t r = read(po[0], buf, sizeof buf);
        if (r <= 0) o_open = false;
        else
        {
          obuf.append(buf, static_cast<size_t>(r));
          size_t nl;
          while ((nl = obuf.find('\n')) != std::string::npos)
          {
            fwrite(obuf.data(), 1, nl + 1, stdout);
            obuf.erase(0, nl + 1);
            done++;
          }
          fflush(stdout);
        }
      }
      if (ei >= 0 && (fds[ei].revents & (POLLIN | POLLHUP | POLLERR)))
      {
        ssize_t r = read(pe[0], buf, sizeof buf);
        if (r <= 0) e_open = false;
        else if (err.size() < (1u << 20)) err.append(buf, static_cast<size_t>(r));
      }
    }
    close(po[0]);
    close(pe[0]);
    int status = 0;
    waitpid(pid, &status, 0);
    i += done;
    if (i < lines.size())
    {
      // the worker died on lines[i] (a partial output line, if any, is dropped)
      std::string kind = classify_crash_text(err, status);
      crashes++;
      fputs(("CRASH " + kind + "\n").c_str(), stdout);
      fflush(stdout);
      std::string tail = err.size() > 3000 ? err.substr(err.size() - 3000) : err;
      fprintf(stderr, "[supervisor] case %zu died (%s): %s\n%s\n", i, kind.c_str(), lines[i].c_str(), tail.c_str());
      i++;
    }
    else if (!(WIFEXITED(status) && WEXITSTATUS(status) == 0))
    {
      // all lines answered but the worker ended abnormally: let the check see it
      fputs(err.c_str(), stderr);
      return WIFEXITED(status) ? WEXITSTATUS(status) : 97;
    }
  }
  return 0;
}
}  // namespace vh
