// Linked into harnesses ONLY in the coverage side mode (VERIF_COVERAGE=1, tools/covaudit.py), with -Wl,--wrap=_exit.
// Harnesses leave through _exit (exit code 77 = "fresh process please", forked children) or die in abort(); gcov writes its
// counters from an atexit handler, which neither runs.  Flush them first.
#include <csignal>
#include <cstdlib>
extern "C" void __gcov_dump(void);
extern "C" void __real__exit(int);
extern "C" void __wrap__exit(int c)
{
  __gcov_dump();
  __real__exit(c);
}
namespace
{
void on_sig(int sig)
{
  __gcov_dump();
  signal(sig, SIG_DFL);
  raise(sig);
}
struct Install
{
  Install()
  {
    signal(SIGABRT, on_sig);
    signal(SIGTERM, on_sig);
  }
} install;
}  // namespace
