// Real-thread ThreadSanitizer harness of the weak-memory sub-check of C11 (props/c11_mem.py).
//
// The UNMODIFIED spin_lock_mutex.h / atomic_unique_ptr.h / circular_buffer.h of the working tree run on real threads under
// -fsanitize=thread.  ThreadSanitizer derives happens-before from the memory orders of the atomic operations (a relaxed
// store does not release, a relaxed exchange does not acquire), so an order that is too weak for the PLAIN data it is
// meant to protect shows up as a reported data race whatever the hardware does.  Every case line is answered by one line:
//
//   tsan spin <threads> <iters> <seed>             threads increment a plain counter inside lock()/try_lock() .. unlock()
//   tsan ring <capacity> <producers> <adds> <seed> producers Add heap objects with plain fields; the consumer Consumes
//                                                  (Swap callback or Reset) and reads the plain fields
//   tsan slot <pairs> <items> <seed>               hand-off through ONE AtomicUniquePtr: SwapIfNull by the producer,
//                                                  Swap / Reset by the taker, who reads the plain fields
//   tsan selfrace <seed>                           two threads write one plain int with no synchronisation at all: the
//                                                  answer must be `race` (the detector is alive)
//   ramem ...                                      a model-only line (driver vs. the Python reference): answered `model`
//
// answer: `race reports=<n>` when ThreadSanitizer reported anything during the case, else `ok <summary>`.
#include "common.h"

#include <atomic>
#include <chrono>
#include <cstdint>
#include <memory>
#include <thread>
#include <vector>

#include "opentelemetry/common/spin_lock_mutex.h"
#include "opentelemetry/sdk/common/atomic_unique_ptr.h"
#include "opentelemetry/sdk/common/circular_buffer.h"

namespace otc = opentelemetry::common;
namespace osc = opentelemetry::sdk::common;

static std::atomic<int> g_reports{0};

// called by the ThreadSanitizer runtime for every report it prints (weak default in libtsan)
extern "C" void __tsan_on_report(void *) { g_reports.fetch_add(1, std::memory_order_relaxed); }
extern "C" const char *__tsan_default_options()
{
  return "halt_on_error=0:exitcode=0:report_signal_unsafe=0:suppress_equal_stacks=0:suppress_equal_addresses=0:"
         "report_thread_leaks=0:symbolize=0";
}

struct Rng
{
  uint64_t s;
  explicit Rng(uint64_t seed) : s(seed * 0x9E3779B97F4A7C15ull + 0x1234567ull) {}
  uint32_t next()
  {
    s ^= s << 13;
    s ^= s >> 7;
    s ^= s << 17;
    return static_cast<uint32_t>(s >> 16);
  }
  void jitter()
  {
    uint32_t r = next() % 16;
    if (r == 0)
      std::this_thread::yield();
    else if (r == 1)
      for (volatile int i = 0; i < 50; i = i + 1)
      {}
  }
};

struct Payload
{
  long a;
  long b;
  int owner;
  int seq;
  long sum;
};

static bool num(const std::string &s, long lo, long hi, long &out)
{
  if (s.empty() || s.size() > 9)
    return false;
  for (char c : s)
    if (c < '0' || c > '9')
      return false;
  out = std::stol(s);
  return out >= lo && out <= hi;
}

// ---- spin ---------------------------------------------------------------------------------------------------------
static std::string run_spin(long threads, long iters, long seed)
{
  otc::SpinLockMutex mu;
  long counter  = 0;     // plain
  long cells[4] = {0, 0, 0, 0};
  std::vector<std::thread> ts;
  for (long t = 0; t < threads; t++)
  {
    ts.emplace_back([&, t] {
      Rng rng(static_cast<uint64_t>(seed) * 131 + static_cast<uint64_t>(t));
      for (long i = 0; i < iters; i++)
      {
        if ((rng.next() & 3) == 0)
        {
          while (!mu.try_lock())
            rng.jitter();
        }
        else
          mu.lock();
        long v = counter;
        cells[v & 3] += 1;
        rng.jitter();
        counter = v + 1;
        mu.unlock();
        rng.jitter();
      }
    });
  }
  for (auto &t : ts)
    t.join();
  std::ostringstream os;
  os << "count=" << counter << " cells=" << (cells[0] + cells[1] + cells[2] + cells[3]);
  return os.str();
}

// ---- ring ---------------------------------------------------------------------------------------------------------
static std::string run_ring(long cap, long prods, long adds, long seed)
{
  osc::CircularBuffer<Payload> buf(static_cast<size_t>(cap));
  std::atomic<long> accepted{0}, failed{0}, done{0};
  long consumed = 0, bad = 0, disorder = 0;
  std::vector<int> last(static_cast<size_t>(prods), -1);
  auto check = [&](Payload *p) {
    if (p->a + p->b != p->sum || p->owner < 0 || p->owner >= prods)
      bad++;
    else
    {
      if (p->seq <= last[static_cast<size_t>(p->owner)])
        disorder++;
      last[static_cast<size_t>(p->owner)] = p->seq;
    }
    consumed++;
  };
  std::vector<std::thread> ts;
  for (long t = 0; t < prods; t++)
  {
    ts.emplace_back([&, t] {
      Rng rng(static_cast<uint64_t>(seed) * 977 + static_cast<uint64_t>(t));
      for (long i = 0; i < adds; i++)
      {
        std::unique_ptr<Payload> p(new Payload);
        p->a     = static_cast<long>(rng.next());
        p->b     = i;
        p->owner = static_cast<int>(t);
        p->seq   = static_cast<int>(i);
        p->sum   = p->a + p->b;
        int tries = 0;
        while (!buf.Add(p))
        {
          // full: the element is still ours (plain read of our own object), wait for the consumer
          if (p->sum != p->a + p->b)
            bad++;
          if (++tries > 200000)
            break;
          std::this_thread::yield();
        }
        if (p)
        {
          failed.fetch_add(1, std::memory_order_relaxed);
        }
        else
          accepted.fetch_add(1, std::memory_order_relaxed);
        rng.jitter();
      }
      done.fetch_add(1, std::memory_order_release);
    });
  }
  Rng crng(static_cast<uint64_t>(seed) * 31 + 7);
  long idle = 0;
  for (;;)
  {
    bool fin = done.load(std::memory_order_acquire) == prods;
    size_t n  = buf.size();
    if (n == 0)
    {
      if (fin)
        break;
      if (++idle > 50000000)
        break;
      std::this_thread::yield();
      continue;
    }
    size_t take = 1 + crng.next() % n;
    if ((crng.next() & 3) == 0)
    {
      // Consume(n) = Reset of every slot: the destructor side; look at the elements first through Peek
      auto range = buf.Peek().Take(take);
      range.ForEach([&](const osc::AtomicUniquePtr<Payload> &ptr) {
        check(ptr.Get());
        return true;
      });
      buf.Consume(take);
    }
    else
    {
      buf.Consume(take, [&](osc::CircularBufferRange<osc::AtomicUniquePtr<Payload>> &range) noexcept {
        range.ForEach([&](osc::AtomicUniquePtr<Payload> &ptr) noexcept {
          std::unique_ptr<Payload> x;
          ptr.Swap(x);
          if (x)
            check(x.get());
          else
            bad++;
          return true;
        });
      });
    }
    crng.jitter();
  }
  for (auto &t : ts)
    t.join();
  std::ostringstream os;
  os << "accepted=" << accepted.load() << " failed=" << failed.load() << " consumed=" << consumed << " bad=" << bad
     << " disorder=" << disorder << " left=" << buf.size();
  return os.str();
}

// ---- slot ---------------------------------------------------------------------------------------------------------
// one producer and one taker per AtomicUniquePtr.  The taker never looks at the slot with a load before it exchanges
// (a seq_cst load would synchronise on its own and hide the order of the exchange); three taker styles by (seed + pair) % 3:
//   0  Swap(x) in a loop, read *x                         - and the producer sometimes runs Add's undo path (Swap back, re-publish)
//   1  Reset() in a loop (the destructor is the access)    - Consume(n) without a callback
//   2  Get(), read, Reset()                                - load-based hand-off (Peek consumers)
static std::string run_slot(long pairs, long items, long seed)
{
  long got_total = 0, bad_total = 0;
  std::vector<std::thread> ts;
  std::vector<std::unique_ptr<osc::AtomicUniquePtr<Payload>>> slots;
  std::vector<long> got(static_cast<size_t>(pairs), 0), bad(static_cast<size_t>(pairs), 0);
  std::vector<std::unique_ptr<std::atomic<long>>> published;
  for (long k = 0; k < pairs; k++)
  {
    slots.emplace_back(new osc::AtomicUniquePtr<Payload>());
    published.emplace_back(new std::atomic<long>(0));
  }
  for (long k = 0; k < pairs; k++)
  {
    osc::AtomicUniquePtr<Payload> *slot = slots[static_cast<size_t>(k)].get();
    std::atomic<long> *pub              = published[static_cast<size_t>(k)].get();
    const long style                    = (seed + k) % 3;
    ts.emplace_back([=] {
      Rng rng(static_cast<uint64_t>(seed) * 53 + static_cast<uint64_t>(k));
      for (long i = 0; i < items; i++)
      {
        std::unique_ptr<Payload> p(new Payload);
        p->a     = static_cast<long>(rng.next());
        p->b     = i;
        p->owner = static_cast<int>(k);
        p->seq   = static_cast<int>(i);
        p->sum   = p->a + p->b;
        while (!slot->SwapIfNull(p))
          rng.jitter();
        if (style == 0 && (rng.next() & 3) == 0)
        {
          // the undo path of Add: take back whatever is there, look at it, publish it again
          slot->Swap(p);
          if (p)
          {
            volatile long chk = p->a + p->b - p->sum;
            (void)chk;
            while (!slot->SwapIfNull(p))
              rng.jitter();
          }
        }
        pub->fetch_add(1, std::memory_order_relaxed);
      }
    });
    ts.emplace_back([=, &got, &bad] {
      Rng rng(static_cast<uint64_t>(seed) * 59 + static_cast<uint64_t>(k));
      long n = 0, spins = 0;
      if (style == 1)
      {
        // blind Reset until everything published has been destroyed (the slot is null and the producer is done)
        while (spins++ < 200000000)
        {
          slot->Reset();
          if (pub->load(std::memory_order_relaxed) == items && slot->IsNull())
            break;
          rng.jitter();
        }
        got[static_cast<size_t>(k)] = pub->load(std::memory_order_relaxed);
        return;
      }
      while (n < items && spins++ < 200000000)
      {
        if (style == 0)
        {
          std::unique_ptr<Payload> x;
          slot->Swap(x);
          if (!x)
          {
            rng.jitter();
            continue;
          }
          if (x->a + x->b != x->sum || x->owner != k)
            bad[static_cast<size_t>(k)]++;
          n++;
        }
        else
        {
          Payload *raw = slot->Get();
          if (raw == nullptr)
          {
            rng.jitter();
            continue;
          }
          // only this thread takes elements out, so the object stays alive until the Reset below
          if (raw->a + raw->b != raw->sum || raw->owner != k)
            bad[static_cast<size_t>(k)]++;
          slot->Reset();
          n++;
        }
      }
      got[static_cast<size_t>(k)] = n;
    });
  }
  for (auto &t : ts)
    t.join();
  for (long k = 0; k < pairs; k++)
  {
    got_total += got[static_cast<size_t>(k)];
    bad_total += bad[static_cast<size_t>(k)];
  }
  std::ostringstream os;
  os << "handed=" << got_total << " bad=" << bad_total;
  return os.str();
}

static std::string run_selfrace()
{
  int plain = 0;
  std::thread a([&] {
    for (int i = 0; i < 20; i++)
      plain = plain + 1;
  });
  std::thread b([&] {
    for (int i = 0; i < 20; i++)
      plain = plain + 1;
  });
  a.join();
  b.join();
  return "plain=" + std::to_string(plain > 0);
}

int main()
{
  std::ios::sync_with_stdio(false);
  std::string line;
  while (std::getline(std::cin, line))
  {
    auto toks = vh::split_ws(line);
    std::string out = "bad-op";
    int before      = g_reports.load();
    bool ran        = false;
    if (!toks.empty() && toks[0] == "ramem")
    {
      out = "model";
    }
    else if (toks.size() >= 2 && toks[0] == "tsan")
    {
      long a, b, c, d;
      if (toks[1] == "spin" && toks.size() == 5 && num(toks[2], 1, 8, a) && num(toks[3], 1, 5000, b) &&
          num(toks[4], 0, 99999999, c))
      {
        out = run_spin(a, b, c);
        ran = true;
      }
      else if (toks[1] == "ring" && toks.size() == 6 && num(toks[2], 1, 64, a) && num(toks[3], 1, 8, b) &&
               num(toks[4], 1, 5000, c) && num(toks[5], 0, 99999999, d))
      {
        out = run_ring(a, b, c, d);
        ran = true;
      }
      else if (toks[1] == "slot" && toks.size() == 5 && num(toks[2], 1, 4, a) && num(toks[3], 1, 5000, b) &&
               num(toks[4], 0, 99999999, c))
      {
        out = run_slot(a, b, c);
        ran = true;
      }
      else if (toks[1] == "selfrace" && toks.size() == 3 && num(toks[2], 0, 99999999, a))
      {
        out = run_selfrace();
        ran = true;
      }
    }
    if (ran)
    {
      int n = g_reports.load() - before;
      out   = n > 0 ? "race reports=" + std::to_string(n) : "ok " + out;
    }
    std::cout << out << "\n" << std::flush;
  }
  return 0;
}
