// C13 harness (Engine S): real LoggerProvider / Logger (one enabled, one disabled by a ScopeConfigurator) with 1..8 real
// processors (SimpleLogRecordProcessor / BatchLogRecordProcessor flushed only on request, each wrapped only to count OnEmit)
// and harness exporters that render every record they receive AT EXPORT TIME through the ReadableLogRecord getters.
// The arguments of EmitLogRecord(args...) go through the real variadic template (all argument-kind sequences up to
// length 2 are instantiated; longer argument lists are composed as create + set* + emit); active spans are attached to the RuntimeContext of three persistent worker threads that
// run one op at a time.  Every body / attribute argument lives in a caller "cell" (exact-size heap blocks) that the
// program may later overwrite (`scribble`) or free; a record whose deferred export reads a freed cell is an ASan
// heap-use-after-free, which ends the process (the check attributes the CRASH to the case).
//
// Line syntax and output: see lean/Driver/C13.lean.
#include <algorithm>
#include <condition_variable>
#include <functional>
#include <set>
#include <thread>
#include "attr_util.h"
#include "park.h"
#include "opentelemetry/context/runtime_context.h"
#include "opentelemetry/logs/event_id.h"
#include "opentelemetry/logs/logger.h"
#include "opentelemetry/logs/severity.h"
#include "opentelemetry/sdk/common/global_log_handler.h"
#include "opentelemetry/sdk/instrumentationscope/scope_configurator.h"
#include "opentelemetry/common/key_value_iterable_view.h"
#include "opentelemetry/sdk/logs/batch_log_record_processor.h"
#include "opentelemetry/sdk/logs/batch_log_record_processor_factory.h"
#include "opentelemetry/sdk/logs/batch_log_record_processor_options.h"
#include "opentelemetry/sdk/logs/batch_log_record_processor_runtime_options.h"
#include "opentelemetry/sdk/logs/logger_context.h"
#include "opentelemetry/sdk/logs/simple_log_record_processor_factory.h"
#include "opentelemetry/sdk/logs/exporter.h"
#include "opentelemetry/sdk/logs/logger_config.h"
#include "opentelemetry/sdk/logs/logger_context_factory.h"
#include "opentelemetry/sdk/logs/logger_provider.h"
#include "opentelemetry/sdk/logs/logger_provider_factory.h"
#include "opentelemetry/sdk/logs/processor.h"
#include "opentelemetry/sdk/logs/read_write_log_record.h"
#include "opentelemetry/sdk/logs/simple_log_record_processor.h"
#include "opentelemetry/sdk/resource/resource.h"
#include "opentelemetry/trace/default_span.h"
#include "opentelemetry/trace/span_context.h"
#include "opentelemetry/trace/span_metadata.h"

namespace logs_api  = opentelemetry::logs;
namespace logs_sdk  = opentelemetry::sdk::logs;
namespace trace_api = opentelemetry::trace;
namespace context   = opentelemetry::context;
namespace nostd     = opentelemetry::nostd;
namespace common    = opentelemetry::common;
using vh::Exact;

// ---------------------------------------------------------------- rendering what the exporter reads
struct ViewPrinter
{
  std::string operator()(bool v) const { return std::string("b:") + (v ? "1" : "0"); }
  std::string operator()(int32_t v) const { return "i:" + std::to_string(v); }
  std::string operator()(uint32_t v) const { return "u:" + std::to_string(v); }
  std::string operator()(int64_t v) const { return "l:" + std::to_string(v); }
  std::string operator()(uint64_t v) const { return "U:" + std::to_string(v); }
  std::string operator()(double v) const { return "d:" + vh::bits_of(v); }
  std::string operator()(const char *v) const { return "s:" + vh::to_hex(v, strlen(v)); }
  std::string operator()(nostd::string_view v) const { return "s:" + vh::to_hex(v.data(), v.size()); }
  std::string operator()(nostd::span<const bool> v) const
  {
    return "B:" + vh::dots(v, [](bool x) { return std::string(x ? "1" : "0"); });
  }
  std::string operator()(nostd::span<const int32_t> v) const
  {
    return "I:" + vh::dots(v, [](int32_t x) { return std::to_string(x); });
  }
  std::string operator()(nostd::span<const uint32_t> v) const
  {
    return "V:" + vh::dots(v, [](uint32_t x) { return std::to_string(x); });
  }
  std::string operator()(nostd::span<const int64_t> v) const
  {
    return "L:" + vh::dots(v, [](int64_t x) { return std::to_string(x); });
  }
  std::string operator()(nostd::span<const uint64_t> v) const
  {
    return "W:" + vh::dots(v, [](uint64_t x) { return std::to_string(x); });
  }
  std::string operator()(nostd::span<const double> v) const
  {
    return "D:" + vh::dots(v, [](double x) { return vh::bits_of(x); });
  }
  std::string operator()(nostd::span<const nostd::string_view> v) const
  {
    return "S:" + vh::dots(v, [](nostd::string_view x) { return vh::to_hex(x.data(), x.size()); });
  }
  std::string operator()(nostd::span<const uint8_t> v) const
  {
    return "Y:" + vh::to_hex(reinterpret_cast<const char *>(v.data()), v.size());
  }
};

static std::string show_view(const common::AttributeValue &v)
{
  return std::to_string(v.index()) + ":" + nostd::visit(ViewPrinter{}, v);
}

static std::string show_record(const logs_sdk::ReadableLogRecord &r)
{
  std::string s = "{sev=" + std::to_string(static_cast<int>(r.GetSeverity()));
  s += " body=" + show_view(r.GetBody());
  std::map<std::string, std::string> sorted;
  for (auto &kv : r.GetAttributes()) sorted[kv.first] = show_view(kv.second);
  s += " attrs=[";
  bool first = true;
  for (auto &kv : sorted)
  {
    if (!first) s += ",";
    first = false;
    s += vh::to_hex(kv.first) + "=" + kv.second;
  }
  s += "] ts=" + std::to_string(r.GetTimestamp().time_since_epoch().count());
  s += " eid=" + std::to_string(r.GetEventId());
  s += " ename=" + vh::to_hex(r.GetEventName().data(), r.GetEventName().size());
  s += " tid=" + vh::to_hex(reinterpret_cast<const char *>(r.GetTraceId().Id().data()), 16);
  s += " sid=" + vh::to_hex(reinterpret_cast<const char *>(r.GetSpanId().Id().data()), 8);
  char fl = static_cast<char>(r.GetTraceFlags().flags());
  s += " fl=" + vh::to_hex(&fl, 1);
  auto &ra = r.GetResource().GetAttributes();
  auto it  = ra.find("verif.res");
  if (it == ra.end() || !nostd::holds_alternative<std::string>(it->second)) s += " res=null";
  else s += " res=" + vh::to_hex(nostd::get<std::string>(it->second));
  auto &sc = r.GetInstrumentationScope();
  s += " scope=" + vh::to_hex(sc.GetName()) + "/" + vh::to_hex(sc.GetVersion()) + "/" + vh::to_hex(sc.GetSchemaURL()) + "}";
  return s;
}

struct Log
{
  int on_emit = 0;
  std::mutex m;
  std::vector<std::vector<std::string>> batches;
};

class LogExporter final : public logs_sdk::LogRecordExporter
{
public:
  explicit LogExporter(std::shared_ptr<Log> log) : log_(std::move(log)) {}
  std::unique_ptr<logs_sdk::Recordable> MakeRecordable() noexcept override
  {
    return std::unique_ptr<logs_sdk::Recordable>(new logs_sdk::ReadWriteLogRecord);
  }
  opentelemetry::sdk::common::ExportResult Export(
      const nostd::span<std::unique_ptr<logs_sdk::Recordable>> &records) noexcept override
  {
    std::vector<std::string> b;
    for (auto &r : records) b.push_back(show_record(*static_cast<logs_sdk::ReadWriteLogRecord *>(r.get())));
    std::lock_guard<std::mutex> g(log_->m);
    log_->batches.push_back(std::move(b));
    // the answer rotates through every ExportResult: what a processor hands to Export is gone whatever the exporter says
    static const opentelemetry::sdk::common::ExportResult kAnswers[] = {
        opentelemetry::sdk::common::ExportResult::kSuccess, opentelemetry::sdk::common::ExportResult::kFailure,
        opentelemetry::sdk::common::ExportResult::kSuccess, opentelemetry::sdk::common::ExportResult::kFailureFull,
        opentelemetry::sdk::common::ExportResult::kSuccess, opentelemetry::sdk::common::ExportResult::kFailureInvalidArgument};
    return kAnswers[(n_answers_++) % 6];
  }
  unsigned n_answers_ = 0;
  bool ForceFlush(std::chrono::microseconds) noexcept override { return true; }
  bool Shutdown(std::chrono::microseconds) noexcept override { return true; }

private:
  std::shared_ptr<Log> log_;
};

class Counting final : public logs_sdk::LogRecordProcessor
{
public:
  Counting(std::unique_ptr<logs_sdk::LogRecordProcessor> inner, std::shared_ptr<Log> log, bool batch)
      : inner_(std::move(inner)), log_(std::move(log)), batch_(batch)
  {}
  std::unique_ptr<logs_sdk::Recordable> MakeRecordable() noexcept override { return inner_->MakeRecordable(); }
  void OnEmit(std::unique_ptr<logs_sdk::Recordable> &&record) noexcept override
  {
    log_->on_emit++;
    inner_->OnEmit(std::move(record));
  }
  bool ForceFlush(std::chrono::microseconds t) noexcept override
  {
    // BatchLogRecordProcessor::ForceFlush on an EMPTY queue only returns after `schedule_delay` (its wake-up does not set
    // is_force_wakeup_background_worker, so the worker goes back to sleep): forward only when something was handed over.
    if (batch_ && log_->on_emit == flushed_) return true;
    flushed_ = log_->on_emit;
    return inner_->ForceFlush(t);
  }
  bool Shutdown(std::chrono::microseconds t) noexcept override { return inner_->Shutdown(t); }

private:
  std::unique_ptr<logs_sdk::LogRecordProcessor> inner_;
  std::shared_ptr<Log> log_;
  bool batch_;
  int flushed_ = 0;
};

// a processor that hands out no recordable (`addproc z`): MultiRecordable keeps a null child for it, every setter skips it and
// MultiLogRecordProcessor::OnEmit has nothing to release to it; the other processors are not affected
class NoRecordable final : public logs_sdk::LogRecordProcessor
{
public:
  explicit NoRecordable(std::shared_ptr<Log> log) : log_(std::move(log)) {}
  std::unique_ptr<logs_sdk::Recordable> MakeRecordable() noexcept override { return nullptr; }
  void OnEmit(std::unique_ptr<logs_sdk::Recordable> &&) noexcept override { log_->on_emit++; }
  bool ForceFlush(std::chrono::microseconds) noexcept override { return true; }
  bool Shutdown(std::chrono::microseconds) noexcept override { return true; }

private:
  std::shared_ptr<Log> log_;
};

// the real processors through every constructor / factory overload; which one depends on the case (`rot`)
static std::unique_ptr<logs_sdk::LogRecordProcessor> make_processor(char k,
                                                                    std::unique_ptr<logs_sdk::LogRecordExporter> exp,
                                                                    size_t rot)
{
  std::unique_ptr<logs_sdk::LogRecordProcessor> inner;
  if (k == 's')
  {
    if (rot % 2 == 0) inner.reset(new logs_sdk::SimpleLogRecordProcessor(std::move(exp)));
    else inner = logs_sdk::SimpleLogRecordProcessorFactory::Create(std::move(exp));
    return inner;
  }
  logs_sdk::BatchLogRecordProcessorOptions o;
  // exports when flushed; the timer is only a safety net: BatchLogRecordProcessor::ForceFlush re-polls with this
  // period when its wake-up of the worker is lost (the worker was between its predicate check and its wait)
  o.schedule_delay_millis = std::chrono::milliseconds(2000);
  logs_sdk::BatchLogRecordProcessorRuntimeOptions ro;
  switch (rot % 5)
  {
    case 1:
      inner.reset(new logs_sdk::BatchLogRecordProcessor(std::move(exp), o.max_queue_size, o.schedule_delay_millis,
                                                        o.max_export_batch_size));
      break;
    case 2: inner.reset(new logs_sdk::BatchLogRecordProcessor(std::move(exp), o, ro)); break;
    case 3: inner = logs_sdk::BatchLogRecordProcessorFactory::Create(std::move(exp), o); break;
    case 4: inner = logs_sdk::BatchLogRecordProcessorFactory::Create(std::move(exp), o, ro); break;
    default: inner.reset(new logs_sdk::BatchLogRecordProcessor(std::move(exp), o)); break;
  }
  return inner;
}

// ---------------------------------------------------------------- persistent worker threads (thread-local context stacks)
class Worker
{
public:
  Worker()
      : th_([this] {
          vh::register_own_thread();
          loop();
        })
  {}
  ~Worker()
  {
    run_sync(nullptr);
    th_.join();
  }
  void run(const std::function<void()> &f) { run_sync(&f); }
  // tokens of the contexts this thread attached, most recent last (only touched from the worker itself)
  std::vector<nostd::unique_ptr<context::Token>> tokens;

private:
  void run_sync(const std::function<void()> *f)
  {
    std::unique_lock<std::mutex> lk(m_);
    task_ = f;
    has_  = true;
    cv_.notify_all();
    cv_.wait(lk, [this] { return !has_; });
  }
  void loop()
  {
    for (;;)
    {
      std::unique_lock<std::mutex> lk(m_);
      cv_.wait(lk, [this] { return has_; });
      const std::function<void()> *f = task_;
      if (f) (*f)();
      has_ = false;
      cv_.notify_all();
      if (!f) return;
    }
  }
  std::mutex m_;
  std::condition_variable cv_;
  const std::function<void()> *task_ = nullptr;
  bool has_                          = false;
  std::thread th_;
};

// ---------------------------------------------------------------- arguments
enum Kind
{
  K_SEV,
  K_EID,
  K_CTX,
  K_SID,
  K_TID,
  K_FL,
  K_TS,
  K_TP,
  K_ATTRS,
  K_ATTRSV,
  K_ATTRSS,  // common::MakeAttributes(span) / MakeAttributes({...}): span<const pair<string_view, AttributeValue>>
  K_ATTRSI,  // common::MakeAttributes({{k, v}, ...}) for up to two pairs (an initializer list has a static size), else as K_ATTRSS
  K_ATTRSW,  // common::MakeAttributes(container): a KeyValueIterableView<container> temporary
  K_BODY,
  K_BODYSV,
  K_BODYCS,
  K_BODYSTD
};

using PairVec = std::vector<std::pair<nostd::string_view, common::AttributeValue>>;
using PairSpan = nostd::span<const std::pair<nostd::string_view, common::AttributeValue>>;

// caller memory of one argument
struct Cell
{
  std::unique_ptr<vh::Val> val;
  std::unique_ptr<vh::Attrs> attrs;
  std::unique_ptr<PairVec> pairs;
  std::unique_ptr<std::string> str;
  void scribble()
  {
    if (val) val->scribble();
    if (attrs)
      for (auto &kv : attrs->kvs)
      {
        memset(kv.key->p.get(), 'X', kv.key->n ? kv.key->n : 1);  // keys are copied by the SDK: harmless
        kv.val->scribble();
      }
    if (str)
      for (auto &c : *str) c = 'X';
  }
};

struct Arg
{
  Kind kind;
  long buf = -1;
  std::string payload;  // for cell-backed arguments: parsed into the cell when the op runs
  // scalar / identity arguments are values the trait copies
  logs_api::Severity sev = logs_api::Severity::kInvalid;
  std::unique_ptr<logs_api::EventId> eid;
  trace_api::SpanContext ctx{false, false};
  trace_api::SpanId sid;
  trace_api::TraceId tid;
  trace_api::TraceFlags fl;
  common::SystemTimestamp ts;
  std::chrono::system_clock::time_point tp;
  Cell *cell = nullptr;  // set when the op runs
};

static bool parse_identity(const std::string &s, trace_api::TraceId &tid, trace_api::SpanId &sid, trace_api::TraceFlags &fl)
{
  auto p = vh::split_on(s, '/');
  std::string a, b, c;
  if (p.size() != 3 || !vh::from_hex(p[0], a) || !vh::from_hex(p[1], b) || !vh::from_hex(p[2], c)) return false;
  if (a.size() != 16 || b.size() != 8 || c.size() != 1) return false;
  tid = trace_api::TraceId(nostd::span<const uint8_t, 16>(reinterpret_cast<const uint8_t *>(a.data()), 16));
  sid = trace_api::SpanId(nostd::span<const uint8_t, 8>(reinterpret_cast<const uint8_t *>(b.data()), 8));
  fl  = trace_api::TraceFlags(static_cast<uint8_t>(c[0]));
  return true;
}

static bool parse_small(const std::string &s, unsigned long lim, long &out)
{
  unsigned __int128 n;
  if (!vh::parse_nat(s, n) || n >= lim) return false;
  out = static_cast<long>(n);
  return true;
}

static bool parse_arg(const std::string &tok, Arg &a)
{
  if (tok.find('#') != std::string::npos)
  {
    auto p = vh::split_on(tok, '#');
    if (p.size() != 2) return false;
    auto q = vh::split_on(p[1], '/');
    if (q.size() != 2 || !parse_small(q[0], 100000, a.buf)) return false;
    a.payload = q[1];
    vh::Val v;
    vh::Attrs at;
    if (p[0] == "attrs") { a.kind = K_ATTRS; return at.parse(a.payload); }
    if (p[0] == "attrsb") { a.kind = K_ATTRSV; return at.parse(a.payload); }
    if (p[0] == "attrss") { a.kind = K_ATTRSS; return at.parse(a.payload); }
    if (p[0] == "attrsi") { a.kind = K_ATTRSI; return at.parse(a.payload); }
    if (p[0] == "attrsw") { a.kind = K_ATTRSW; return at.parse(a.payload); }
    if (p[0] == "body") { a.kind = K_BODY; return v.parse(a.payload); }
    if (p[0] == "bodysv") { a.kind = K_BODYSV; return v.parse(a.payload) && v.tag == 's'; }
    if (p[0] == "bodystd") { a.kind = K_BODYSTD; return v.parse(a.payload) && v.tag == 's'; }
    if (p[0] == "bodycs") { a.kind = K_BODYCS; return v.parse(a.payload) && v.tag == 'c'; }
    return false;
  }
  auto p = vh::split_on(tok, ':');
  if (p.size() < 2) return false;
  int64_t n;
  std::string raw;
  if (p[0] == "sev" && p.size() == 2)
  {
    long s;
    if (!parse_small(p[1], 256, s)) return false;
    a.kind = K_SEV;
    a.sev  = static_cast<logs_api::Severity>(static_cast<uint8_t>(s));
    return true;
  }
  if (p[0] == "eid" && (p.size() == 2 || p.size() == 3))
  {
    if (!vh::parse_i(64, p[1], n)) return false;
    a.kind = K_EID;
    if (p.size() == 2) a.eid.reset(new logs_api::EventId(n));
    else
    {
      if (!vh::from_hex(p[2], raw)) return false;
      Exact nm(raw);
      a.eid.reset(new logs_api::EventId(n, nostd::string_view(nm.data(), nm.size())));
    }
    return true;
  }
  if (p.size() != 2) return false;
  if (p[0] == "ctx")
  {
    trace_api::TraceId t;
    trace_api::SpanId s;
    trace_api::TraceFlags f;
    if (!parse_identity(p[1], t, s, f)) return false;
    a.kind = K_CTX;
    a.ctx  = trace_api::SpanContext(t, s, f, false);
    return true;
  }
  if (p[0] == "sid")
  {
    if (!vh::from_hex(p[1], raw) || raw.size() != 8) return false;
    a.kind = K_SID;
    a.sid  = trace_api::SpanId(nostd::span<const uint8_t, 8>(reinterpret_cast<const uint8_t *>(raw.data()), 8));
    return true;
  }
  if (p[0] == "tid")
  {
    if (!vh::from_hex(p[1], raw) || raw.size() != 16) return false;
    a.kind = K_TID;
    a.tid  = trace_api::TraceId(nostd::span<const uint8_t, 16>(reinterpret_cast<const uint8_t *>(raw.data()), 16));
    return true;
  }
  if (p[0] == "fl")
  {
    if (!vh::from_hex(p[1], raw) || raw.size() != 1) return false;
    a.kind = K_FL;
    a.fl   = trace_api::TraceFlags(static_cast<uint8_t>(raw[0]));
    return true;
  }
  if (p[0] == "ts" || p[0] == "tp")
  {
    if (!vh::parse_i(64, p[1], n)) return false;
    a.kind = p[0] == "ts" ? K_TS : K_TP;
    a.ts   = common::SystemTimestamp(std::chrono::nanoseconds(n));
    a.tp   = std::chrono::system_clock::time_point(std::chrono::nanoseconds(n));
    return true;
  }
  return false;
}

// put the argument's payload into fresh caller memory
static void materialise(Arg &a, std::map<long, std::unique_ptr<Cell>> &cells)
{
  if (a.buf < 0) return;
  std::unique_ptr<Cell> c(new Cell);
  if (a.kind == K_ATTRS || a.kind == K_ATTRSV || a.kind == K_ATTRSS || a.kind == K_ATTRSI || a.kind == K_ATTRSW)
  {
    c->attrs.reset(new vh::Attrs);
    c->attrs->parse(a.payload);
    if (a.kind != K_ATTRS)
    {
      c->pairs.reset(new PairVec);
      for (auto &kv : c->attrs->kvs)
        c->pairs->emplace_back(nostd::string_view(kv.key->data(), kv.key->size()), kv.val->get());
    }
  }
  else
  {
    c->val.reset(new vh::Val);
    c->val->parse(a.payload);
    if (a.kind == K_BODYSTD) c->str.reset(new std::string(c->val->str->data(), c->val->str->size()));
  }
  a.cell = c.get();
  cells[a.buf] = std::move(c);
}

// Build the argument pack at run time: every sequence of argument kinds up to MAX_ARGS is a separate instantiation of
// the real `Logger::EmitLogRecord(...)` template.
constexpr size_t MAX_ARGS = 2;

template <class F, class... Acc>
static void dispatch(F &&call, std::vector<Arg> &args, size_t i, Acc &&...acc)
{
  if (i == args.size())
  {
    call(std::forward<Acc>(acc)...);
    return;
  }
  if constexpr (sizeof...(Acc) < MAX_ARGS)
  {
    Arg &a = args[i];
    switch (a.kind)
    {
      case K_SEV: dispatch(call, args, i + 1, std::forward<Acc>(acc)..., a.sev); break;
      case K_EID: dispatch(call, args, i + 1, std::forward<Acc>(acc)..., *a.eid); break;
      case K_CTX: dispatch(call, args, i + 1, std::forward<Acc>(acc)..., a.ctx); break;
      case K_SID: dispatch(call, args, i + 1, std::forward<Acc>(acc)..., a.sid); break;
      case K_TID: dispatch(call, args, i + 1, std::forward<Acc>(acc)..., a.tid); break;
      case K_FL: dispatch(call, args, i + 1, std::forward<Acc>(acc)..., a.fl); break;
      case K_TS: dispatch(call, args, i + 1, std::forward<Acc>(acc)..., a.ts); break;
      case K_TP: dispatch(call, args, i + 1, std::forward<Acc>(acc)..., a.tp); break;
      // a KeyValueIterable subclass must be passed as an rvalue for the generic trait's is_base_of overload to apply
      case K_ATTRS: dispatch(call, args, i + 1, std::forward<Acc>(acc)..., std::move(*a.cell->attrs)); break;
      case K_ATTRSV: dispatch(call, args, i + 1, std::forward<Acc>(acc)..., *a.cell->pairs); break;
      case K_ATTRSS:
        dispatch(call, args, i + 1, std::forward<Acc>(acc)..., common::MakeAttributes(PairSpan(*a.cell->pairs)));
        break;
      case K_ATTRSI:
      {
        // the initializer list's array lives until the end of the full expression, i.e. until `call` has returned
        const PairVec &pv = *a.cell->pairs;
        if (pv.empty()) dispatch(call, args, i + 1, std::forward<Acc>(acc)..., common::MakeAttributes({}));
        else if (pv.size() == 1) dispatch(call, args, i + 1, std::forward<Acc>(acc)..., common::MakeAttributes({pv[0]}));
        else if (pv.size() == 2)
          dispatch(call, args, i + 1, std::forward<Acc>(acc)..., common::MakeAttributes({pv[0], pv[1]}));
        else dispatch(call, args, i + 1, std::forward<Acc>(acc)..., common::MakeAttributes(PairSpan(pv)));
        break;
      }
      case K_ATTRSW: dispatch(call, args, i + 1, std::forward<Acc>(acc)..., common::MakeAttributes(*a.cell->pairs)); break;
      case K_BODY:
      {
        common::AttributeValue v = a.cell->val->get();
        dispatch(call, args, i + 1, std::forward<Acc>(acc)..., v);
        break;
      }
      case K_BODYSV:
      {
        nostd::string_view sv(a.cell->val->str->data(), a.cell->val->str->size());
        dispatch(call, args, i + 1, std::forward<Acc>(acc)..., sv);
        break;
      }
      case K_BODYCS:
      {
        const char *cs = a.cell->val->cstr.get();
        dispatch(call, args, i + 1, std::forward<Acc>(acc)..., cs);
        break;
      }
      case K_BODYSTD: dispatch(call, args, i + 1, std::forward<Acc>(acc)..., *a.cell->str); break;
    }
  }
}

struct Op
{
  std::string kind;
  long t = 0, rid = -1, buf = -1;
  bool enabled = true;
  std::string target;
  std::string via;  // `new:<via>`: which convenience entry point of logs::Logger emits the record
  trace_api::TraceId tid;
  trace_api::SpanId sid;
  trace_api::TraceFlags fl;
  std::vector<Arg> args;
};

// one non-severity argument (or none) for the variadic wrappers Trace(...) … Fatal(...)
template <class F>
static void dispatch1(F &&call, std::vector<Arg> &args, size_t i)
{
  if (i == args.size())
  {
    call();
    return;
  }
  Arg &a = args[i];
  switch (a.kind)
  {
    case K_SEV: break;
    case K_EID: call(*a.eid); break;
    case K_CTX: call(a.ctx); break;
    case K_SID: call(a.sid); break;
    case K_TID: call(a.tid); break;
    case K_FL: call(a.fl); break;
    case K_TS: call(a.ts); break;
    case K_TP: call(a.tp); break;
    case K_ATTRS: call(std::move(*a.cell->attrs)); break;
    case K_ATTRSV: call(*a.cell->pairs); break;
    case K_ATTRSS: call(common::MakeAttributes(PairSpan(*a.cell->pairs))); break;
    case K_ATTRSI:
    {
      const PairVec &pv = *a.cell->pairs;
      if (pv.empty()) call(common::MakeAttributes({}));
      else if (pv.size() == 1) call(common::MakeAttributes({pv[0]}));
      else if (pv.size() == 2) call(common::MakeAttributes({pv[0], pv[1]}));
      else call(common::MakeAttributes(PairSpan(pv)));
      break;
    }
    case K_ATTRSW: call(common::MakeAttributes(*a.cell->pairs)); break;
    case K_BODY:
    {
      common::AttributeValue v = a.cell->val->get();
      call(v);
      break;
    }
    case K_BODYSV: call(nostd::string_view(a.cell->val->str->data(), a.cell->val->str->size())); break;
    case K_BODYCS: call(a.cell->val->cstr.get()); break;
    case K_BODYSTD: call(*a.cell->str); break;
  }
}

#define BY_SEVERITY(sev, CALL)                        \
  switch (static_cast<int>(sev))                      \
  {                                                   \
    case 1: lg->Trace CALL; break;                    \
    case 5: lg->Debug CALL; break;                    \
    case 9: lg->Info CALL; break;                     \
    case 13: lg->Warn CALL; break;                    \
    case 17: lg->Error CALL; break;                   \
    default: lg->Fatal CALL; break;                   \
  }

static bool parse_op(const std::vector<std::string> &t, Op &op)
{
  if (t.empty()) return false;
  op.kind = t[0];
  if ((op.kind == "push" || op.kind == "pushc") && t.size() == 3)
    return parse_small(t[1], 3, op.t) && parse_identity(t[2], op.tid, op.sid, op.fl);
  // a context whose span entry carries no span: a null Span pointer, a null SpanContext pointer, a value of another type
  if ((op.kind == "pushn" || op.kind == "pushnc" || op.kind == "pushx") && t.size() == 2) return parse_small(t[1], 3, op.t);
  if (op.kind == "pop" && t.size() == 2) return parse_small(t[1], 3, op.t);
  if (op.kind == "create" && t.size() == 4)
  {
    if (t[2] != "e" && t[2] != "d") return false;
    op.enabled = t[2] == "e";
    return parse_small(t[1], 3, op.t) && parse_small(t[3], 100000, op.rid);
  }
  if (op.kind == "set" && t.size() == 3)
  {
    op.args.emplace_back();
    return parse_small(t[1], 100000, op.rid) && parse_arg(t[2], op.args[0]);
  }
  if (op.kind == "emit" && t.size() >= 4 && t.size() <= 4 + 4)
  {
    if (!parse_small(t[1], 3, op.t)) return false;
    if (t[2] != "e" && t[2] != "d") return false;
    op.enabled = t[2] == "e";
    op.target  = t[3];
    if (op.target.compare(0, 4, "new:") == 0)
    {
      op.via    = op.target.substr(4);
      op.target = "new";
    }
    if (op.via.empty() && t.size() > 4 + MAX_ARGS) return false;
    if (op.target != "new" && op.target != "null" && !parse_small(op.target, 100000, op.rid)) return false;
    for (size_t i = 4; i < t.size(); i++)
    {
      op.args.emplace_back();
      if (!parse_arg(t[i], op.args.back())) return false;
    }
    if (!op.via.empty())
    {
      // the shapes the convenience entry points take: severity first, then exactly their parameters
      auto is6 = [](logs_api::Severity s) {
        auto v = static_cast<int>(s);
        return v == 1 || v == 5 || v == 9 || v == 13 || v == 17 || v == 21;
      };
      auto kinds = [&](std::initializer_list<int> ks) {
        if (op.args.size() != ks.size()) return false;
        size_t i = 0;
        for (int k : ks)
          if (op.args[i++].kind != k) return false;
        return true;
      };
      const std::string &v = op.via;
      if (op.args.empty() || op.args[0].kind != K_SEV) return false;
      bool wrapper = v == "v" || v[0] == 'w';
      if (wrapper && !is6(op.args[0].sev)) return false;
      if (v == "v") return op.args.size() <= 2 && (op.args.size() == 1 || op.args[1].kind != K_SEV);
      if (v == "l4e" || v == "w4e") return kinds({K_SEV, K_EID, K_BODYSV, K_ATTRS});
      if (v == "l4i" || v == "w4i") return kinds({K_SEV, K_EID, K_BODYSV, K_ATTRS}) && op.args[1].eid->name_ == nullptr;
      if (v == "l3" || v == "w3") return kinds({K_SEV, K_BODYSV, K_ATTRS});
      if (v == "l2" || v == "w2") return kinds({K_SEV, K_BODYSV});
      return false;
    }
    return true;
  }
  if ((op.kind == "scribble" || op.kind == "free") && t.size() == 2) return parse_small(t[1], 100000, op.buf);
  if (op.kind == "flush" && t.size() == 1) return true;
  // a processor attached to the provider later: records created from then on reach it, records already in hand do not
  // `n`: a null processor (ignored); `z`: a processor whose MakeRecordable returns null (it is handed nothing)
  if (op.kind == "addproc" && t.size() == 2 && (t[1] == "s" || t[1] == "b" || t[1] == "n" || t[1] == "z"))
  {
    op.target = t[1];
    return true;
  }
  return false;
}

static Worker *workers[3];

struct Rec
{
  nostd::unique_ptr<logs_api::LogRecord> rec;
  bool enabled = true;
};

static std::string handle(const std::vector<std::string> &toks)
{
  if (toks.empty() || toks[0] != "log") return "bad-op";
  auto segs = vh::split_ops(toks, 1);
  auto &c   = segs[0];
  if (c.size() != 3) return "bad-op";
  const std::string &procs = c[0];
  if (procs.empty() || procs.size() > 8) return "bad-op";
  for (char k : procs)
    if (k != 's' && k != 'b') return "bad-op";
  std::string res, sname, sver, sschema;
  if (!vh::from_hex(c[1], res)) return "bad-op";
  auto sc = vh::split_on(c[2], '/');
  if (sc.size() != 3 || !vh::from_hex(sc[0], sname) || !vh::from_hex(sc[1], sver) || !vh::from_hex(sc[2], sschema))
    return "bad-op";
  if (sname.empty()) return "bad-op";
  std::vector<Op> ops(segs.size() - 1);
  std::set<long> bufs;
  for (size_t i = 1; i < segs.size(); i++)
  {
    if (!parse_op(segs[i], ops[i - 1])) return "bad-op";
    for (auto &a : ops[i - 1].args)
      if (a.buf >= 0 && !bufs.insert(a.buf).second) return "bad-op";
  }

  // ---- pipeline
  std::vector<std::shared_ptr<Log>> logs;
  std::vector<std::unique_ptr<logs_sdk::LogRecordProcessor>> processors;
  // which constructor / factory / GetLogger overload is used rotates with the case
  const size_t rot = res.size() + 3 * procs.size() + sname.size() + 5 * sver.size() + 7 * sschema.size() + ops.size();
  for (char k : procs)
  {
    auto log = std::make_shared<Log>();
    std::unique_ptr<logs_sdk::LogRecordExporter> exp(new LogExporter(log));
    auto inner = make_processor(k, std::move(exp), rot + logs.size());
    processors.emplace_back(new Counting(std::move(inner), log, k == 'b'));
    logs.push_back(log);
  }
  std::shared_ptr<logs_sdk::LoggerProvider> provider;
  logs_sdk::LoggerContext *raw_context = nullptr;  // known only when the harness built the context itself
  {
    Exact rtag(res);
    auto resource = opentelemetry::sdk::resource::Resource::Create(
        {{"verif.res", nostd::string_view(rtag.data(), rtag.size())}});
    using Cfgr = opentelemetry::sdk::instrumentationscope::ScopeConfigurator<logs_sdk::LoggerConfig>;
    auto cfgr  = std::unique_ptr<Cfgr>(new Cfgr(Cfgr::Builder(logs_sdk::LoggerConfig::Enabled())
                                                   .AddConditionNameEquals("verif.disabled", logs_sdk::LoggerConfig::Disabled())
                                                   .Build()));
    // two constructors, the factory overloads and a context: which one builds the provider depends on the case
    using F = logs_sdk::LoggerProviderFactory;
    const size_t how = (res.size() + 2 * procs.size() + sname.size()) % 5;
    if (how == 1) provider = F::Create(std::move(processors), resource, std::move(cfgr));
    else if (how == 2 && processors.size() == 1) provider = F::Create(std::move(processors[0]), resource, std::move(cfgr));
    else if (how == 3 && processors.size() == 1)
      provider = std::make_shared<logs_sdk::LoggerProvider>(std::move(processors[0]), resource, std::move(cfgr));
    else if (how == 4)
    {
      auto lc     = logs_sdk::LoggerContextFactory::Create(std::move(processors), resource, std::move(cfgr));
      raw_context = lc.get();
      provider    = F::Create(std::move(lc));
    }
    else provider = std::make_shared<logs_sdk::LoggerProvider>(std::move(processors), resource, std::move(cfgr));
  }
  nostd::shared_ptr<logs_api::Logger> on, off;
  {
    Exact a(sname), b(sver), d(sschema);
    nostd::string_view na(a.data(), a.size()), ve(b.data(), b.size()), su(d.data(), d.size());
    logs_api::LoggerProvider *api = provider.get();
    switch ((rot / 5) % 6)
    {
      case 1:  // no library name: the scope is named after the logger
        on = provider->GetLogger(na, "", ve, su);
        break;
      case 2:  // the second request for the same logger returns the logger made by the first (another one in between)
        provider->GetLogger("L", na, ve, su);
        provider->GetLogger("M", "verif.other", ve, su);
        on = provider->GetLogger("L", na, ve, su);
        break;
      case 3:  // scope attributes as an initializer list (api header overload)
        on = api->GetLogger("L", na, ve, su, {{"verif.scope.attr", static_cast<int32_t>(7)}, {"verif.scope.s", "x"}});
        break;
      case 4:  // scope attributes as a key-value container (api header template)
      {
        PairVec pv{{"verif.scope.attr", common::AttributeValue(true)}};
        on = api->GetLogger("L", na, ve, su, pv);
        break;
      }
      case 5:  // the same logger name under another scope first: the look-up must tell them apart
        provider->GetLogger("L", "verif.other", ve, su);
        on = provider->GetLogger("L", na, ve, su);
        break;
      default: on = provider->GetLogger("L", na, ve, su); break;
    }
    off = provider->GetLogger("L", "verif.disabled");
  }
  std::map<long, std::unique_ptr<Cell>> cells;
  std::map<long, Rec> records;
  std::string late_kinds;
  const bool has_batch = procs.find('b') != std::string::npos ||
                         std::any_of(ops.begin(), ops.end(), [](const Op &o) { return o.kind == "addproc" && o.target == "b"; });
  auto flush = [&]() {
    if (!has_batch) return;
    vh::wait_parked();  // so that the wake-up is not lost
    provider->ForceFlush();  // (the Counting wrappers do not forward a flush to a batch processor with nothing queued)
  };
  for (auto &op : ops)
  {
    std::function<void()> run = [&]() {
      Worker *w = workers[op.t];
      if (op.kind == "push" || op.kind == "pushc")
      {
        trace_api::SpanContext sc2(op.tid, op.sid, op.fl, false);
        context::Context ctx = context::RuntimeContext::GetCurrent();
        if (op.kind == "push")
          ctx = ctx.SetValue(trace_api::kSpanKey,
                             nostd::shared_ptr<trace_api::Span>(new trace_api::DefaultSpan(sc2)));
        else
          ctx = ctx.SetValue(trace_api::kSpanKey,
                             nostd::shared_ptr<trace_api::SpanContext>(new trace_api::SpanContext(sc2)));
        w->tokens.push_back(context::RuntimeContext::Attach(ctx));
      }
      else if (op.kind == "pushn" || op.kind == "pushnc" || op.kind == "pushx")
      {
        context::Context ctx = context::RuntimeContext::GetCurrent();
        if (op.kind == "pushn") ctx = ctx.SetValue(trace_api::kSpanKey, nostd::shared_ptr<trace_api::Span>(nullptr));
        else if (op.kind == "pushnc")
          ctx = ctx.SetValue(trace_api::kSpanKey, nostd::shared_ptr<trace_api::SpanContext>(nullptr));
        else ctx = ctx.SetValue(trace_api::kSpanKey, static_cast<int64_t>(0x0102030405060708));
        w->tokens.push_back(context::RuntimeContext::Attach(ctx));
      }
      else if (op.kind == "pop")
      {
        if (!w->tokens.empty())
        {
          context::RuntimeContext::Detach(*w->tokens.back());
          w->tokens.pop_back();
        }
      }
      else if (op.kind == "create")
      {
        Rec r;
        r.enabled = op.enabled;
        r.rec     = (op.enabled ? on : off)->CreateLogRecord();
        records[op.rid] = std::move(r);
      }
      else if (op.kind == "set")
      {
        materialise(op.args[0], cells);
        auto it = records.find(op.rid);
        if (it != records.end() && it->second.rec)
        {
          logs_api::LogRecord *rec = it->second.rec.get();
          // the typed setter the argument pack would select for this argument
          dispatch(
              [&](auto &&...a) {
                (void)std::initializer_list<int>{
                    (logs_api::detail::LogRecordSetterTrait<typename std::decay<decltype(a)>::type>::Set(
                         rec, std::forward<decltype(a)>(a)),
                     0)...};
              },
              op.args, 0);
        }
      }
      else if (op.kind == "emit")
      {
        // a batch worker that is not yet asleep would export the record at once instead of leaving it queued
        if (has_batch) vh::wait_parked();
        for (auto &a : op.args) materialise(a, cells);
        if (op.target == "new")
        {
          logs_api::Logger *lg = (op.enabled ? on : off).get();
          if (op.via.empty())
            dispatch([&](auto &&...a) { lg->EmitLogRecord(std::forward<decltype(a)>(a)...); }, op.args, 0);
          else
          {
            // the convenience entry points: they must emit exactly what EmitLogRecord(severity, …) would
            const logs_api::Severity sev = op.args[0].sev;
            auto sv = [&](size_t i) {
              auto &c = *op.args[i].cell->val;
              return nostd::string_view(c.str->data(), c.str->size());
            };
            auto at = [&](size_t i) -> const common::KeyValueIterable & {
              return common::MakeAttributes(static_cast<const common::KeyValueIterable &>(*op.args[i].cell->attrs));
            };
            // const: with a non-const lvalue the variadic template Trace(ArgumentType&&...) would be the better match
            auto ce = [&](size_t i) -> const logs_api::EventId & { return *op.args[i].eid; };
            const std::string &v = op.via;
            if (v == "v")
              dispatch1([&](auto &&...a) { BY_SEVERITY(sev, (std::forward<decltype(a)>(a)...)) }, op.args, 1);
            else if (v == "l4e") lg->Log(sev, *op.args[1].eid, sv(2), at(3));
            else if (v == "l4i") lg->Log(sev, op.args[1].eid->id_, sv(2), at(3));
            else if (v == "l3") lg->Log(sev, sv(1), at(2));
            else if (v == "l2") lg->Log(sev, sv(1));
            else if (v == "w4e") { BY_SEVERITY(sev, (ce(1), sv(2), at(3))) }
            else if (v == "w4i") { BY_SEVERITY(sev, (op.args[1].eid->id_, sv(2), at(3))) }
            else if (v == "w3") { BY_SEVERITY(sev, (sv(1), at(2))) }
            else { BY_SEVERITY(sev, (sv(1))) }
          }
        }
        else
        {
          nostd::unique_ptr<logs_api::LogRecord> rec;
          logs_api::Logger *lg = on.get();
          if (op.target != "null")
          {
            auto it = records.find(op.rid);
            if (it != records.end())
            {
              rec = std::move(it->second.rec);
              lg  = (it->second.enabled ? on : off).get();
              records.erase(it);
            }
          }
          // a null recordable handed to the provider's processor itself is ignored as well
          if (op.target == "null" && raw_context != nullptr)
            raw_context->GetProcessor().OnEmit(std::unique_ptr<logs_sdk::Recordable>());
          dispatch([&](auto &&...a) { lg->EmitLogRecord(std::move(rec), std::forward<decltype(a)>(a)...); }, op.args, 0);
        }
      }
      // an EventId handed to the call is the caller's: it dies as soon as the call has returned (a temporary in the
      // caller's expression); the record must have copied the id and the name
      for (auto &a : op.args) a.eid.reset();
    };
    if (op.kind == "scribble")
    {
      auto it = cells.find(op.buf);
      if (it != cells.end()) it->second->scribble();
    }
    else if (op.kind == "free") cells.erase(op.buf);  // destroys the caller's storage
    else if (op.kind == "flush") flush();
    else if (op.kind == "addproc" && op.target == "n")
      provider->AddProcessor(std::unique_ptr<logs_sdk::LogRecordProcessor>());
    else if (op.kind == "addproc")
    {
      auto log = std::make_shared<Log>();
      if (op.target == "z")
        provider->AddProcessor(std::unique_ptr<logs_sdk::LogRecordProcessor>(new NoRecordable(log)));
      else
      {
        std::unique_ptr<logs_sdk::LogRecordExporter> exp(new LogExporter(log));
        auto inner = make_processor(op.target[0], std::move(exp), rot + logs.size());
        provider->AddProcessor(
            std::unique_ptr<logs_sdk::LogRecordProcessor>(new Counting(std::move(inner), log, op.target == "b")));
      }
      logs.push_back(log);
      late_kinds.push_back(op.target[0]);
    }
    else workers[op.t]->run(run);
  }
  flush();
  std::string out;
  for (size_t i = 0; i < logs.size(); i++)
  {
    if (i) out += " | ";
    out += "p" + std::to_string(i) + ":" + (i < procs.size() ? procs[i] : late_kinds[i - procs.size()]) + ":n=" + std::to_string(logs[i]->on_emit) + ":x=[";
    for (size_t b = 0; b < logs[i]->batches.size(); b++)
    {
      if (b) out += ";";
      out += "[" + vh::join(logs[i]->batches[b], ";") + "]";
    }
    out += "]";
  }
  // clean up: records never emitted, contexts still attached, then the pipeline, last the caller memory
  records.clear();
  for (int t = 0; t < 3; t++)
  {
    std::function<void()> cleanup = [t]() {
      Worker *w = workers[t];
      while (!w->tokens.empty())
      {
        context::RuntimeContext::Detach(*w->tokens.back());
        w->tokens.pop_back();
      }
    };
    workers[t]->run(cleanup);
  }
  on  = nostd::shared_ptr<logs_api::Logger>(nullptr);
  off = nostd::shared_ptr<logs_api::Logger>(nullptr);
  provider.reset();
  cells.clear();
  return out;
}

int main()
{
  opentelemetry::sdk::common::internal_log::GlobalLogHandler::SetLogLevel(
      opentelemetry::sdk::common::internal_log::LogLevel::None);
  vh::register_own_thread();
  for (auto &w : workers) w = new Worker;
  std::this_thread::sleep_for(std::chrono::milliseconds(20));  // the workers have registered themselves
  int rc = vh::run_lines(handle);
  for (auto &w : workers) delete w;
  return rc;
}
