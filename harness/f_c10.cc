// Correspondence harness for C10 (Context immutability, per-thread runtime context stack, Scope):
// runs a program of context / attach / detach / scope operations on the real header-only API, on 1-3 real
// threads that are sequentialised by a baton (the interleaving is part of the input line; thread_local is real),
// re-queries EVERY earlier context after EVERY operation, and prints the canonical observation line the
// Lean model driver (lean/Driver/C10.lean) prints for the same line.
#include "common.h"

#include <stddef.h>
#include <algorithm>
#include <atomic>
#include <cerrno>
#include <functional>
#include <thread>

#include "opentelemetry/common/macros.h"
#include "opentelemetry/context/context.h"
#include "opentelemetry/context/context_value.h"
#include "opentelemetry/nostd/shared_ptr.h"
#include "opentelemetry/nostd/string_view.h"
#include "opentelemetry/nostd/unique_ptr.h"
#include "opentelemetry/nostd/variant.h"
#include "opentelemetry/version.h"

// the stack of ThreadLocalContextStorage is private: reached here (harness TU only) for depth and full dumps
// (`Stack` is a `class` without access specifier, hence the second define; the header has no templates)
#define private public
#define class struct
#include "opentelemetry/context/runtime_context.h"
#undef class
#undef private

#include "opentelemetry/baggage/baggage.h"
#include "opentelemetry/trace/context.h"
#include "opentelemetry/trace/default_span.h"
#include "opentelemetry/trace/scope.h"
#include "opentelemetry/trace/span_context.h"
#include "opentelemetry/trace/tracer.h"

namespace trace_api = opentelemetry::trace;
namespace nostd     = opentelemetry::nostd;
namespace context   = opentelemetry::context;
namespace baggage   = opentelemetry::baggage;
using context::Context;
using context::ContextValue;

static const size_t kPool = 4;
struct Pools
{
  nostd::shared_ptr<trace_api::Span> sp[kPool];
  nostd::shared_ptr<trace_api::SpanContext> sc[kPool];
  nostd::shared_ptr<baggage::Baggage> bg[kPool];
  Pools()
  {
    for (size_t i = 0; i < kPool; i++)
    {
      uint8_t tid[16] = {1, 2, 3, 4, 5, 6, 7, 8, 9, 10, 11, 12, 13, 14, 15, static_cast<uint8_t>(i + 1)};
      uint8_t sid[8]  = {1, 2, 3, 4, 5, 6, 7, static_cast<uint8_t>(i + 1)};
      trace_api::SpanContext c(trace_api::TraceId(nostd::span<const uint8_t, 16>(tid, 16)),
                               trace_api::SpanId(nostd::span<const uint8_t, 8>(sid, 8)), trace_api::TraceFlags(1), false);
      sp[i] = nostd::shared_ptr<trace_api::Span>(new trace_api::DefaultSpan(c));
      sc[i] = nostd::shared_ptr<trace_api::SpanContext>(new trace_api::SpanContext(c));
      bg[i] = nostd::shared_ptr<baggage::Baggage>(new baggage::Baggage());
    }
  }
};
static Pools *g_pools;

// ---- tokens of the line protocol -----------------------------------------------------------------
static bool nat_tok(const std::string &s, size_t &out)
{
  if (s.empty() || s.size() > 9) return false;
  for (char c : s)
    if (c < '0' || c > '9') return false;
  if (s.size() > 1 && s[0] == '0') return false;
  out = strtoul(s.c_str(), nullptr, 10);
  return true;
}

static std::vector<std::string> split_on(const std::string &s, char sep)
{
  std::vector<std::string> v(1);
  for (char c : s)
  {
    if (c == sep) v.emplace_back();
    else v.back().push_back(c);
  }
  return v;
}

static std::string hex16(uint64_t x)
{
  char b[17];
  snprintf(b, sizeof b, "%016llx", static_cast<unsigned long long>(x));
  return b;
}

static bool parse_val(const std::string &s, ContextValue &out)
{
  auto p = split_on(s, ':');
  if (p.size() == 1 && p[0] == "n")
  {
    out = ContextValue{};
    return true;
  }
  if (p.size() != 2) return false;
  const std::string &x = p[1];
  size_t i;
  if (p[0] == "b" && (x == "0" || x == "1"))
  {
    out = (x == "1");
    return true;
  }
  if (p[0] == "i")
  {
    if (x.empty() || x.size() > 20) return false;
    errno       = 0;
    char *e     = nullptr;
    long long v = strtoll(x.c_str(), &e, 10);
    if (errno || *e || std::to_string(v) != x) return false;
    out = static_cast<int64_t>(v);
    return true;
  }
  if (p[0] == "u")
  {
    if (x.empty() || x.size() > 20 || x[0] == '-' || x[0] == '+') return false;
    errno                = 0;
    char *e              = nullptr;
    unsigned long long v = strtoull(x.c_str(), &e, 10);
    if (errno || *e || std::to_string(v) != x) return false;
    out = static_cast<uint64_t>(v);
    return true;
  }
  if (p[0] == "d")
  {
    if (x.size() != 16) return false;
    uint64_t bits = 0;
    for (char c : x)
    {
      int h = vh::hexval(c);
      if (h < 0) return false;
      bits = bits * 16 + static_cast<uint64_t>(h);
    }
    double d;
    memcpy(&d, &bits, 8);
    out = d;
    return true;
  }
  if (p[0] == "sp" && nat_tok(x, i) && i < kPool)
  {
    out = g_pools->sp[i];
    return true;
  }
  if (p[0] == "sc" && nat_tok(x, i) && i < kPool)
  {
    out = g_pools->sc[i];
    return true;
  }
  if (p[0] == "bg" && nat_tok(x, i) && i < kPool)
  {
    out = g_pools->bg[i];
    return true;
  }
  return false;
}

template <class T>
static std::string pool_index(const char *tag, const nostd::shared_ptr<T> &p, const nostd::shared_ptr<T> *pool)
{
  for (size_t i = 0; i < kPool; i++)
    if (pool[i].get() == p.get()) return std::string(tag) + std::to_string(i);
  return std::string(tag) + "?";
}

static std::string show_val(const ContextValue &v)
{
  switch (v.index())
  {
    case 0:
      return "n";
    case 1:
      return nostd::get<bool>(v) ? "b:1" : "b:0";
    case 2:
      return "i:" + std::to_string(static_cast<long long>(nostd::get<int64_t>(v)));
    case 3:
      return "u:" + std::to_string(static_cast<unsigned long long>(nostd::get<uint64_t>(v)));
    case 4:
    {
      double d = nostd::get<double>(v);
      uint64_t bits;
      memcpy(&bits, &d, 8);
      return "d:" + hex16(bits);
    }
    case 5:
      return pool_index("sp:", nostd::get<nostd::shared_ptr<trace_api::Span>>(v), g_pools->sp);
    case 6:
      return pool_index("sc:", nostd::get<nostd::shared_ptr<trace_api::SpanContext>>(v), g_pools->sc);
    case 7:
      return pool_index("bg:", nostd::get<nostd::shared_ptr<baggage::Baggage>>(v), g_pools->bg);
    default:
      return "valueless";
  }
}

// a key in an exact-size heap block; "~" = default-constructed string_view (data() == nullptr)
struct Key
{
  std::unique_ptr<vh::Exact> buf;
  bool null_view = false;
  nostd::string_view view() const
  {
    return null_view ? nostd::string_view() : nostd::string_view(buf->data(), buf->size());
  }
};

static bool parse_key(const std::string &tok, Key &k)
{
  if (tok == "~")
  {
    k.null_view = true;
    return true;
  }
  std::string raw;
  if (!vh::from_hex(tok, raw)) return false;
  k.buf.reset(new vh::Exact(raw));
  return true;
}

// element type of the iterable handed to SetValues / Context(T): only .first / .second are required
struct KV
{
  nostd::string_view first;
  ContextValue second;
};

static bool parse_kvs(const std::string &tok, std::vector<Key> &keys, std::vector<KV> &kvs)
{
  if (tok == "{}") return true;
  for (auto &e : split_on(tok, ','))
  {
    auto kv = split_on(e, '=');
    if (kv.size() != 2) return false;
    Key k;
    ContextValue v;
    if (!parse_key(kv[0], k) || !parse_val(kv[1], v)) return false;
    keys.push_back(std::move(k));
    kvs.push_back(KV{nostd::string_view(), v});
  }
  for (size_t i = 0; i < keys.size(); i++) kvs[i].first = keys[i].view();
  return true;
}

// ---- baton: exactly one of {main, worker 0..n-1} runs at a time ------------------------------------
struct Baton
{
  std::atomic<int> turn{-1};
  std::atomic<bool> quit{false};
  std::function<void()> job;
  std::vector<std::thread> threads;

  void start(size_t n)
  {
    for (size_t t = 0; t < n; t++)
      threads.emplace_back([this, t] {
        int me = static_cast<int>(t);
        unsigned spins = 0;
        while (!quit.load(std::memory_order_acquire))
        {
          if (turn.load(std::memory_order_acquire) == me)
          {
            job();
            turn.store(-1, std::memory_order_release);
            spins = 0;
          }
          else if (++spins > 200)
          {
            std::this_thread::yield();
          }
        }
      });
  }
  void run_on(size_t t, std::function<void()> f)
  {
    job = std::move(f);
    turn.store(static_cast<int>(t), std::memory_order_release);
    unsigned spins = 0;
    while (turn.load(std::memory_order_acquire) != -1)
      if (++spins > 200) std::this_thread::yield();
  }
  void stop()
  {
    quit.store(true, std::memory_order_release);
    for (auto &th : threads) th.join();
    threads.clear();
  }
};

static context::ThreadLocalContextStorage::Stack &my_stack()
{
  auto storage = context::RuntimeContext::GetConstRuntimeContextStorage();
  auto *tls    = static_cast<context::ThreadLocalContextStorage *>(
      const_cast<context::RuntimeContextStorage *>(storage.get()));
  return tls->GetStack();
}

// a user-provided storage (RuntimeContext::SetRuntimeContextStorage): the thread-local one with every entry point counted
struct CountingStorage : public context::ThreadLocalContextStorage
{
  std::atomic<size_t> calls{0};
  Context GetCurrent() noexcept override
  {
    calls.fetch_add(1, std::memory_order_relaxed);
    return context::ThreadLocalContextStorage::GetCurrent();
  }
  nostd::unique_ptr<context::Token> Attach(const Context &c) noexcept override
  {
    calls.fetch_add(1, std::memory_order_relaxed);
    return context::ThreadLocalContextStorage::Attach(c);
  }
  bool Detach(context::Token &t) noexcept override
  {
    calls.fetch_add(1, std::memory_order_relaxed);
    return context::ThreadLocalContextStorage::Detach(t);
  }
};
static bool g_storage_replaced = false;

struct Program
{
  std::vector<Key> pool;
  std::vector<Context> ctxs;                    // handle -> context; every context ever obtained stays alive
  std::vector<std::vector<uint64_t>> recorded;  // handle -> its answers for the pool keys when it was created
  std::vector<nostd::unique_ptr<context::Token>> toks;
  std::vector<bool> tok_alive;
  std::vector<std::unique_ptr<trace_api::Scope>> scopes;
  std::vector<bool> scope_open;

  std::string handle_of(const Context &c) const
  {
    for (size_t h = 0; h < ctxs.size(); h++)
      if (ctxs[h] == c) return "c" + std::to_string(h);
    return "c?";
  }

  static void digest_val(const ContextValue &v, std::vector<uint64_t> &out)
  {
    out.push_back(v.index());
    uint64_t x = 0;
    switch (v.index())
    {
      case 1:
        x = nostd::get<bool>(v);
        break;
      case 2:
        x = static_cast<uint64_t>(nostd::get<int64_t>(v));
        break;
      case 3:
        x = nostd::get<uint64_t>(v);
        break;
      case 4:
      {
        double d = nostd::get<double>(v);
        memcpy(&x, &d, 8);
        break;
      }
      case 5:
        x = reinterpret_cast<uintptr_t>(nostd::get<nostd::shared_ptr<trace_api::Span>>(v).get());
        break;
      case 6:
        x = reinterpret_cast<uintptr_t>(nostd::get<nostd::shared_ptr<trace_api::SpanContext>>(v).get());
        break;
      case 7:
        x = reinterpret_cast<uintptr_t>(nostd::get<nostd::shared_ptr<baggage::Baggage>>(v).get());
        break;
      default:
        break;
    }
    out.push_back(x);
  }

  void digest(const Context &c, std::vector<uint64_t> &out) const
  {
    out.clear();
    for (auto &k : pool)
    {
      digest_val(c.GetValue(k.view()), out);
      out.push_back(c.HasKey(k.view()) ? 1 : 0);
    }
  }

  std::string answers(const Context &c) const
  {
    std::string s = "[";
    for (size_t i = 0; i < pool.size(); i++)
    {
      if (i) s += ",";
      s += show_val(c.GetValue(pool[i].view()));
      s += c.HasKey(pool[i].view()) ? "+" : "-";
    }
    return s + "]";
  }

  std::string add_ctx(const Context &c)
  {
    ctxs.push_back(c);
    recorded.emplace_back();
    digest(ctxs.back(), recorded.back());
    return "c" + std::to_string(ctxs.size() - 1) + answers(ctxs.back());
  }

  // one operation, executed on its thread; returns false for a reference to something that does not exist
  bool exec(const std::vector<std::string> &op, std::string &obs)
  {
    size_t t, p, m;
    const std::string &name = op[0];
    if (name == "set" && op.size() == 5)
    {
      Key k;
      ContextValue v;
      if (!nat_tok(op[2], p) || !parse_key(op[3], k) || !parse_val(op[4], v) || p >= ctxs.size()) return false;
      Context parent = ctxs[p];
      Context c      = parent.SetValue(k.view(), v);
      k.buf.reset();  // the context must own its key
      obs = add_ctx(c);
      return true;
    }
    if ((name == "setm" && op.size() == 4) || (name == "mk" && op.size() == 3))
    {
      bool derive = name == "setm";
      std::vector<Key> keys;
      std::vector<KV> kvs;
      if (derive && (!nat_tok(op[2], p) || p >= ctxs.size())) return false;
      if (!parse_kvs(op[derive ? 3 : 2], keys, kvs)) return false;
      Context c;
      if (derive)
      {
        Context parent = ctxs[p];
        c              = parent.SetValues(kvs);
      }
      else
      {
        c = Context(kvs);
      }
      keys.clear();
      kvs.clear();
      obs = add_ctx(c);
      return true;
    }
    if (name == "mk1" && op.size() == 4)
    {
      Key k;
      ContextValue v;
      if (!parse_key(op[2], k) || !parse_val(op[3], v)) return false;
      Context c(k.view(), v);
      k.buf.reset();
      obs = add_ctx(c);
      return true;
    }
    if (name == "get" && op.size() == 4)
    {
      Key k;
      if (!nat_tok(op[2], p) || !parse_key(op[3], k) || p >= ctxs.size()) return false;
      obs = show_val(ctxs[p].GetValue(k.view())) + (ctxs[p].HasKey(k.view()) ? "+" : "-");
      return true;
    }
    if (name == "rset" && (op.size() == 4 || op.size() == 5))
    {
      Key k;
      ContextValue v;
      if (!parse_key(op[2], k) || !parse_val(op[3], v)) return false;
      Context c;
      if (op.size() == 5)
      {
        if (!nat_tok(op[4], p) || p >= ctxs.size()) return false;
        Context explicit_ctx = ctxs[p];
        c                    = context::RuntimeContext::SetValue(k.view(), v, &explicit_ctx);
      }
      else
      {
        c = context::RuntimeContext::SetValue(k.view(), v);
      }
      k.buf.reset();
      obs = add_ctx(c);
      return true;
    }
    if (name == "rget" && (op.size() == 3 || op.size() == 4))
    {
      Key k;
      if (!parse_key(op[2], k)) return false;
      ContextValue v;
      bool has;
      if (op.size() == 4)
      {
        if (!nat_tok(op[3], p) || p >= ctxs.size()) return false;
        Context explicit_ctx = ctxs[p];
        v                    = context::RuntimeContext::GetValue(k.view(), &explicit_ctx);
        has                  = explicit_ctx.HasKey(k.view());
      }
      else
      {
        v   = context::RuntimeContext::GetValue(k.view());
        has = context::RuntimeContext::GetCurrent().HasKey(k.view());
      }
      obs = show_val(v) + (has ? "+" : "-");
      return true;
    }
    if (name == "attach" && op.size() == 3)
    {
      if (!nat_tok(op[2], p) || p >= ctxs.size()) return false;
      toks.push_back(context::RuntimeContext::Attach(ctxs[p]));
      tok_alive.push_back(true);
      obs = "k" + std::to_string(toks.size() - 1);
      return true;
    }
    if (name == "detach" && op.size() == 3)
    {
      if (!nat_tok(op[2], m) || m >= toks.size() || !tok_alive[m]) return false;
      obs = context::RuntimeContext::Detach(*toks[m]) ? "1" : "0";
      return true;
    }
    if (name == "drop" && op.size() == 3)
    {
      if (!nat_tok(op[2], m) || m >= toks.size() || !tok_alive[m]) return false;
      toks[m].reset();  // ~Token detaches
      tok_alive[m] = false;
      obs          = "ok";
      return true;
    }
    if (name == "sspan" && op.size() == 4)
    {
      // trace::SetSpan(context, span) = context.SetValue(kSpanKey, span)
      if (!nat_tok(op[2], p) || p >= ctxs.size() || !nat_tok(op[3], m) || m >= kPool) return false;
      Context parent = ctxs[p];
      obs            = add_ctx(trace_api::SetSpan(parent, g_pools->sp[m]));
      return true;
    }
    if (name == "gspan" && op.size() == 3)
    {
      // trace::GetSpan(context): the span under kSpanKey, else a fresh invalid DefaultSpan (never null)
      if (!nat_tok(op[2], p) || p >= ctxs.size()) return false;
      auto sp = trace_api::GetSpan(ctxs[p]);
      obs     = pool_index("sp:", sp, g_pools->sp);
      if (obs == "sp:?") obs = (sp.get() == nullptr) ? "null" : sp->GetContext().IsValid() ? "sp:unknown" : "invalid";
      return true;
    }
    if (name == "isroot" && op.size() == 3)
    {
      if (!nat_tok(op[2], p) || p >= ctxs.size()) return false;
      obs = trace_api::IsRootSpan(ctxs[p]) ? "root=1" : "root=0";
      return true;
    }
    if (name == "storage" && op.size() == 3)
    {
      // another storage behind RuntimeContext (documented use: before anything is attached - the generator puts it first;
      // the thread-local stacks are per thread, not per storage object, so nothing may change even later)
      if (!nat_tok(op[2], m) || m >= 3) return false;
      using Storage = context::RuntimeContextStorage;
      if (m == 0)
        context::RuntimeContext::SetRuntimeContextStorage(nostd::shared_ptr<Storage>(new context::ThreadLocalContextStorage()));
      else if (m == 1)
        context::RuntimeContext::SetRuntimeContextStorage(nostd::shared_ptr<Storage>(new CountingStorage()));
      else
        context::RuntimeContext::SetRuntimeContextStorage(context::RuntimeContext::GetRuntimeContextStorage());
      g_storage_replaced = true;
      size_t before      = 0;
      auto cur_storage   = context::RuntimeContext::GetConstRuntimeContextStorage();
      auto *counting     = m == 1 ? static_cast<CountingStorage *>(const_cast<Storage *>(cur_storage.get())) : nullptr;
      if (counting) before = counting->calls.load();
      obs = "cur=" + handle_of(context::RuntimeContext::GetCurrent());
      if (counting && counting->calls.load() == before) obs += "!storage-bypassed";
      return true;
    }
    if (name == "cur" && op.size() == 2)
    {
      obs = "cur=" + handle_of(context::RuntimeContext::GetCurrent());
      return true;
    }
    if (name == "span" && op.size() == 2)
    {
      auto sp = trace_api::Tracer::GetCurrentSpan();
      obs     = pool_index("sp:", sp, g_pools->sp);
      if (obs == "sp:?") obs = sp->GetContext().IsValid() ? "sp:unknown" : "invalid";
      return true;
    }
    if (name == "scope" && op.size() == 3)
    {
      if (!nat_tok(op[2], p) || p >= kPool) return false;
      nostd::shared_ptr<trace_api::Span> sp = g_pools->sp[p];
      if (scopes.size() % 2 == 0)
        scopes.emplace_back(new trace_api::Scope(sp));
      else
        scopes.emplace_back(new trace_api::Scope(trace_api::Tracer::WithActiveSpan(sp)));
      scope_open.push_back(true);
      // the context the scope attached: obtained through the public API and kept like every other context
      obs = "s" + std::to_string(scopes.size() - 1) + "=" + add_ctx(context::RuntimeContext::GetCurrent());
      return true;
    }
    if (name == "close" && op.size() == 3)
    {
      if (!nat_tok(op[2], m) || m >= scopes.size() || !scope_open[m]) return false;
      scopes[m].reset();
      scope_open[m] = false;
      obs           = "ok";
      return true;
    }
    if (name == "dump" && op.size() == 2)
    {
      auto &st = my_stack();
      obs      = "[";
      for (size_t i = st.size_; i > 0; i--)
      {
        if (i != st.size_) obs += ",";
        obs += handle_of(st.base_[i - 1]);
      }
      obs += "]";
      return true;
    }
    (void)t;
    return false;
  }
};

// ---- true concurrency: fresh OS threads run attach / scope / detach rounds at the same time over the shared contexts;
// every thread checks each of its own observations against a local reference of the stack rule
// (most recent occurrence, unwind above), so nothing another thread does may become visible
static std::string conc_thread(const Program &prog, size_t u, size_t rounds)
{
  const size_t nctx = prog.ctxs.size();
  auto fail = [&](size_t r, const char *what) {
    return "t" + std::to_string(u) + ":r" + std::to_string(r) + ":" + what;
  };
  for (size_t r = 0; r < rounds; r++)
  {
    std::vector<Context> ref;  // bottom .. top
    std::vector<nostd::unique_ptr<context::Token>> toks;
    std::vector<Context> tok_ctx;
    std::vector<std::unique_ptr<trace_api::Scope>> scopes;
    std::vector<Context> scope_ctx;
    size_t depth = 1 + (7 * u + 13 * r) % 40;
    for (size_t i = 0; i < depth; i++)
    {
      if (i % 5 == 4)
      {
        nostd::shared_ptr<trace_api::Span> sp = g_pools->sp[(u + i) % kPool];
        scopes.emplace_back(new trace_api::Scope(sp));
        Context cur = context::RuntimeContext::GetCurrent();
        if (trace_api::Tracer::GetCurrentSpan().get() != sp.get()) return fail(r, "scope-span");
        if (!ref.empty() && cur == ref.back()) return fail(r, "scope-context-not-new");
        ref.push_back(cur);
        scope_ctx.push_back(cur);
      }
      else
      {
        const Context &c = prog.ctxs[(u + r + 3 * i) % nctx];
        toks.push_back(context::RuntimeContext::Attach(c));
        tok_ctx.push_back(c);
        ref.push_back(c);
        if (!(context::RuntimeContext::GetCurrent() == c)) return fail(r, "attach-current");
      }
      if (my_stack().size_ != ref.size()) return fail(r, "depth");
    }
    auto ref_detach = [&](const Context &c) -> bool {
      for (size_t i = ref.size(); i > 0; i--)
        if (ref[i - 1] == c)
        {
          ref.resize(i - 1);
          return true;
        }
      return ref.empty() && c == Context();
    };
    auto check = [&]() {
      Context want = ref.empty() ? Context() : ref.back();
      return my_stack().size_ == ref.size() && context::RuntimeContext::GetCurrent() == want;
    };
    // odd rounds: first an out-of-order detach from the middle (unwinds everything above it)
    if (r % 2 == 1 && !toks.empty())
    {
      size_t m  = toks.size() / 2;
      bool want = ref_detach(tok_ctx[m]);
      if (context::RuntimeContext::Detach(*toks[m]) != want) return fail(r, "middle-detach-result");
      if (!check()) return fail(r, "middle-detach-state");
    }
    for (size_t i = toks.size(); i > 0; i--)
    {
      bool want = ref_detach(tok_ctx[i - 1]);
      if (context::RuntimeContext::Detach(*toks[i - 1]) != want) return fail(r, "detach-result");
      if (!check()) return fail(r, "detach-state");
    }
    for (size_t i = scopes.size(); i > 0; i--)
    {
      ref_detach(scope_ctx[i - 1]);
      scopes[i - 1].reset();
      if (!check()) return fail(r, "scope-release-state");
    }
    // the token destructors detach once more: their contexts are gone from the stack, so nothing may change
    toks.clear();
    if (!ref.empty() || !check()) return fail(r, "round-not-balanced");
  }
  return "";
}

static std::string run_conc(const Program &prog, size_t n, size_t rounds)
{
  std::vector<std::string> res(n);
  std::atomic<size_t> ready{0};
  std::atomic<bool> go{false};
  std::vector<std::thread> ths;
  for (size_t u = 0; u < n; u++)
    ths.emplace_back([&, u] {
      ready.fetch_add(1);
      while (!go.load(std::memory_order_acquire)) std::this_thread::yield();
      res[u] = conc_thread(prog, u, rounds);
    });
  while (ready.load() < n) std::this_thread::yield();
  go.store(true, std::memory_order_release);
  for (auto &th : ths) th.join();
  for (auto &r : res)
    if (!r.empty()) return "conc=FAIL:" + r;
  return "conc=ok";
}

static std::string handle_ctx(const std::vector<std::string> &toks)
{
  auto ops = vh::split_ops(toks, 1);
  size_t n;
  if (ops.empty() || ops[0].size() != 2 || !nat_tok(ops[0][0], n) || n == 0 || n > 3) return "bad-op";
  Program prog;
  for (auto &k : split_on(ops[0][1], ','))
  {
    Key key;
    if (!parse_key(k, key)) return "bad-op";
    prog.pool.push_back(std::move(key));
  }
  Baton baton;
  baton.start(n);
  bool ok = true;
  std::vector<std::string> outs;
  struct Known
  {
    size_t depth = 0;
    std::string top = "c0";
  };
  std::vector<Known> known(n);
  // handle 0 = the default context
  baton.run_on(0, [&] { prog.add_ctx(Context()); });
  std::vector<uint64_t> scratch;
  for (size_t i = 1; i < ops.size() && ok; i++)
  {
    auto &op = ops[i];
    size_t t;
    if (op.size() < 2 || !nat_tok(op[1], t) || t >= n)
    {
      ok = false;
      break;
    }
    std::string line;
    std::string conc_obs;
    if (op[0] == "conc")
    {
      size_t rounds;
      if (op.size() != 3 || !nat_tok(op[2], rounds) || rounds > 50)
      {
        ok = false;
        break;
      }
      conc_obs = run_conc(prog, n, rounds);  // the baton workers idle meanwhile
    }
    baton.run_on(t, [&] {
      size_t before = prog.ctxs.size();
      std::string obs = conc_obs;
      if (conc_obs.empty() && !prog.exec(op, obs))
      {
        ok = false;
        return;
      }
      known[t].depth = my_stack().size_;
      known[t].top   = prog.handle_of(context::RuntimeContext::GetCurrent());
      line           = obs + " @" + std::to_string(known[t].depth) + ":" + known[t].top;
      // every earlier context must answer exactly as it did when it was created
      std::string changed;
      for (size_t h = 0; h < before; h++)
      {
        prog.digest(prog.ctxs[h], scratch);
        if (scratch != prog.recorded[h])
        {
          changed = " CHANGED:c" + std::to_string(h);
          break;
        }
      }
      line += changed.empty() ? " chk=" + std::to_string(before) : changed;
    });
    if (!ok) break;
    // what one thread did must not be visible to another
    for (size_t u = 0; u < n; u++)
    {
      if (u == t) continue;
      baton.run_on(u, [&] {
        size_t d        = my_stack().size_;
        std::string top = prog.handle_of(context::RuntimeContext::GetCurrent());
        if (d != known[u].depth || top != known[u].top)
        {
          line += " LEAK:t" + std::to_string(u);
          known[u].depth = d;
          known[u].top   = top;
        }
      });
    }
    outs.push_back(line);
  }
  baton.stop();
  // whatever is still open is released here, on a thread that never attached anything
  prog.scopes.clear();
  prog.toks.clear();
  if (g_storage_replaced)
  {
    // back to a plain thread-local storage for the next case
    context::RuntimeContext::SetRuntimeContextStorage(
        nostd::shared_ptr<context::RuntimeContextStorage>(new context::ThreadLocalContextStorage()));
    g_storage_replaced = false;
  }
  if (!ok) return "bad-op";
  return vh::join(outs, " ; ");
}

int main()
{
  Pools pools;
  g_pools = &pools;
  return vh::run_lines([](const std::vector<std::string> &t) -> std::string {
    if (t.empty()) return "bad-op";
    if (t[0] == "ctx") return handle_ctx(t);
    return "bad-op";
  });
}
