// Engine D harness for the periodic metric reader clauses of C02 / C03: the UNMODIFIED
// periodic_exporting_metric_reader.cc + metric_reader.cc under the scheduler shim (std::thread, mutex, condition_variable,
// atomic, promise/future, steady_clock token-renamed), a scripted MetricProducer and a harness PushMetricExporter.
//
//   pmr <nrec> <recs each> <flushers e.g. i2> <nshut> <exporter script> ; <action> ; ...
//     nrec suffix = how the reader is built: none = (exporter, options) constructor, r = (exporter, options, runtime options)
//       constructor, f / g = the factory's Create with two / three arguments, x / y = options the two- / three-argument
//       constructor refuses (export_interval <= export_timeout: it falls back to its defaults) - all must behave as the same reader.
//     flushers: 'i' = max, digit k = k * interval, 'h' = half an interval (the wait is clipped to the caller's timeout),
//       'u' = one microsecond.   nshut suffix: none = Shutdown() (max), 't' finite, 'z' zero, 'u' one microsecond.
//     threads: 0 = the reader's worker, 1..nrec recorders, then ForceFlush callers, then Shutdown callers; collect threads
//     get the next free ids as the worker spawns them.  actions as in d_batch.cc (t<i>, o<i>, w<i>).
#include "common.h"

#define private public
#define protected public
#include "opentelemetry/sdk/metrics/export/metric_producer.h"
#include "opentelemetry/sdk/metrics/export/periodic_exporting_metric_reader.h"
#include "opentelemetry/sdk/metrics/export/periodic_exporting_metric_reader_factory.h"
#include "opentelemetry/sdk/metrics/export/periodic_exporting_metric_reader_runtime_options.h"
#include "opentelemetry/sdk/metrics/export/periodic_exporting_metric_reader_options.h"
#include "opentelemetry/sdk/metrics/push_metric_exporter.h"
#undef private
#undef protected

namespace sdkm = opentelemetry::sdk::metrics;
namespace sdkc = opentelemetry::sdk::common;

struct Shared
{
  int recorded     = 0;  // measurements "recorded" so far (harness-level counter)
  int produced     = 0;  // value of `recorded` at the last Produce
  int inflight     = 0;
  int reentrant    = 0;
  bool ff_fails    = false;
  bool sd_fails    = false;
  std::string script;
  size_t n_export = 0;
};

class HProducer final : public sdkm::MetricProducer
{
public:
  explicit HProducer(Shared *s) : s_(s) {}
  Result Produce() noexcept override
  {
    detsched::point("produce", this);
    s_->produced = s_->recorded;
    detsched::note("produce " + std::to_string(s_->produced));
    return Result{sdkm::ResourceMetrics{}, Status::kSuccess};
  }

private:
  Shared *s_;
};

class HExporter final : public sdkm::PushMetricExporter
{
public:
  explicit HExporter(Shared *s) : s_(s) {}
  sdkc::ExportResult Export(const sdkm::ResourceMetrics &) noexcept override
  {
    detsched::point("export", this);
    s_->inflight++;
    if (s_->inflight != 1) s_->reentrant++;
    detsched::note("export-begin " + std::to_string(s_->produced) + " inflight=" + std::to_string(s_->inflight));
    detsched::point("export-end", this);
    char c = s_->script.empty() ? 's' : s_->script[s_->n_export % s_->script.size()];
    s_->n_export++;
    s_->inflight--;
    detsched::note(std::string("export-end ") + (c == 's' ? "ok" : "fail"));
    return c == 'f' ? sdkc::ExportResult::kFailure
         : c == 'u' ? sdkc::ExportResult::kFailureFull
         : c == 'v' ? sdkc::ExportResult::kFailureInvalidArgument
                    : sdkc::ExportResult::kSuccess;
  }
  sdkm::AggregationTemporality GetAggregationTemporality(sdkm::InstrumentType) const noexcept override
  {
    return sdkm::AggregationTemporality::kCumulative;
  }
  bool ForceFlush(std::chrono::microseconds) noexcept override
  {
    detsched::point("xflush", this);
    detsched::note("xflush-begin");
    detsched::point("xflush-end", this);
    detsched::note(std::string("xflush-end ") + (s_->ff_fails ? "fail" : "ok"));
    return !s_->ff_fails;
  }
  bool Shutdown(std::chrono::microseconds) noexcept override
  {
    detsched::point("xshutdown", this);
    detsched::note("xshutdown-begin");
    detsched::point("xshutdown-end", this);
    detsched::note(std::string("xshutdown-end ") + (s_->sd_fails ? "fail" : "ok"));
    return !s_->sd_fails;
  }

private:
  Shared *s_;
};

static std::string handle(const std::vector<std::string> &t)
{
  auto ops = vh::split_ops(t, 1);
  if (ops.empty() || ops[0].size() != 5) return "bad-op";
  auto num = [](const std::string &s, unsigned long &v) {
    char *e = nullptr;
    v       = strtoul(s.c_str(), &e, 10);
    return !s.empty() && *e == 0;
  };
  unsigned long nrec, recs, nshut;
  char ctor = 0, shut_to = 0;
  if (!ops[0][0].empty() && std::string("rfgxy").find(ops[0][0].back()) != std::string::npos) { ctor = ops[0][0].back(); ops[0][0].pop_back(); }
  if (!ops[0][3].empty() && std::string("tzu").find(ops[0][3].back()) != std::string::npos) { shut_to = ops[0][3].back(); ops[0][3].pop_back(); }
  if (!num(ops[0][0], nrec) || !num(ops[0][1], recs) || !num(ops[0][3], nshut)) return "bad-op";
  std::string fl = ops[0][2] == "-" ? "" : ops[0][2];
  std::string xs = ops[0][4] == "-" ? "" : ops[0][4];
  for (char c : fl)
    if (c != 'i' && c != 'h' && c != 'u' && !(c >= '0' && c <= '9')) return "bad-op";
  if (nrec > 4 || recs > 6 || fl.size() > 3 || nshut > 2) return "bad-op";
  Shared sh;
  for (char c : xs)
  {
    if (c == 's' || c == 'f' || c == 'u' || c == 'v') sh.script.push_back(c);
    else if (c == 'F') sh.ff_fails = true;
    else if (c == 'S') sh.sd_fails = true;
    else return "bad-op";
  }
  struct A { char kind; int tid; };
  std::vector<A> acts;
  for (size_t i = 1; i < ops.size(); i++)
  {
    if (ops[i].size() != 1 || ops[i][0].size() < 2) return "bad-op";
    std::string a = ops[i][0];
    char k        = a[0];
    if (k != 't' && k != 'o' && k != 'w') return "bad-op";
    unsigned long v;
    if (!num(a.substr(1), v) || v > 64) return "bad-op";
    acts.push_back({k, (int)v});
  }

  detsched::reset();
  std::vector<std::string> outs;
  sdkm::PeriodicExportingMetricReaderOptions opt;
  opt.export_interval_millis = std::chrono::milliseconds(1000);
  opt.export_timeout_millis  = std::chrono::milliseconds(500);
  HProducer producer(&sh);
  if (ctor == 'x' || ctor == 'y') opt.export_interval_millis = std::chrono::milliseconds(400);  // <= timeout: refused, defaults are used
  sdkm::PeriodicExportingMetricReaderRuntimeOptions ropt;
  std::unique_ptr<sdkm::PushMetricExporter> hex(new HExporter(&sh));
  sdkm::PeriodicExportingMetricReader *reader =
      (ctor == 'r' || ctor == 'y') ? new sdkm::PeriodicExportingMetricReader(std::move(hex), opt, ropt)
      : ctor == 'f' ? static_cast<sdkm::PeriodicExportingMetricReader *>(sdkm::PeriodicExportingMetricReaderFactory::Create(std::move(hex), opt).release())
      : ctor == 'g' ? static_cast<sdkm::PeriodicExportingMetricReader *>(sdkm::PeriodicExportingMetricReaderFactory::Create(std::move(hex), opt, ropt).release())
                    : new sdkm::PeriodicExportingMetricReader(std::move(hex), opt);
  const std::string cfg_seen = std::to_string(reader->export_interval_millis_.count()) + "/" + std::to_string(reader->export_timeout_millis_.count());
  detsched::name_object(&reader->shutdown_, "shutdown");
  detsched::name_object(&reader->is_force_wakeup_background_worker_, "wake");
  detsched::name_object(&reader->force_flush_pending_sequence_, "pending");
  detsched::name_object(&reader->force_flush_notified_sequence_, "notified");
  detsched::name_object(&reader->cv_, "cv");
  detsched::name_object(&reader->force_flush_cv_, "ffcv");
  detsched::name_object(&reader->cv_m_, "cv_m");
  detsched::name_object(&reader->force_flush_m_, "ff_m");
  detsched::name_object(&reader->shutdown_m_, "sd_m");
  reader->SetMetricProducer(&producer);  // OnInitialized(): spawns the worker = T0
  for (size_t r = 0; r < nrec; r++)
  {
    detsched::spawn([&] {
      for (unsigned long j = 0; j < recs; j++)
      {
        detsched::point("record", nullptr);
        sh.recorded++;
        detsched::note("record " + std::to_string(sh.recorded));
      }
    });
  }
  const auto delay = std::chrono::milliseconds(1000);
  for (char c : fl)
  {
    detsched::spawn([&, c] {
      detsched::point("begin", nullptr);
      detsched::note("flush-begin " + std::to_string(sh.recorded));
      auto to = c == 'i'   ? (std::chrono::microseconds::max)()
                : c == 'h' ? std::chrono::duration_cast<std::chrono::microseconds>(delay) / 2
                : c == 'u' ? std::chrono::microseconds(1)
                           : std::chrono::duration_cast<std::chrono::microseconds>(delay * (c - '0'));
      bool r  = reader->ForceFlush(to);
      detsched::note(std::string("flush-ret ") + (r ? "1" : "0"));
    });
  }
  for (size_t s = 0; s < nshut; s++)
  {
    detsched::spawn([&] {
      detsched::point("begin", nullptr);
      detsched::note("shutdown-begin");
      bool r = shut_to == 0     ? reader->Shutdown()
               : shut_to == 't' ? reader->Shutdown(std::chrono::duration_cast<std::chrono::microseconds>(delay * 3))
               : shut_to == 'z' ? reader->Shutdown(std::chrono::microseconds::zero())
                                : reader->Shutdown(std::chrono::microseconds(1));
      detsched::note(std::string("shutdown-ret ") + (r ? "1" : "0"));
    });
  }
  for (auto &a : acts)
  {
    if (a.tid >= detsched::nthreads()) { outs.push_back("x"); continue; }
    if (a.kind == 't') outs.push_back(detsched::run(a.tid));
    else if (a.kind == 'o') outs.push_back(detsched::wake_timeout(a.tid));
    else outs.push_back(detsched::wake_spurious(a.tid));
  }
  std::string dtrace;
  bool done = detsched::drain(4000, &dtrace, /*ignore=*/0);
  if (done)
  {
    // final Shutdown + destruction from a managed thread
    detsched::spawn([&] {
      detsched::point("begin", nullptr);
      detsched::note("final-shutdown-begin");
      if (!reader->IsShutdown()) reader->Shutdown();
      detsched::note("final-shutdown-ret");
    });
    done = detsched::drain(4000, &dtrace, -1);
  }
  if (!dtrace.empty()) outs.push_back(dtrace.substr(0, dtrace.size() - 3));
  // what the reader was configured with: under the scheduler durations are schedule actions, so the VALUES the constructor /
  // factory kept are not visible in the trace; print them (read right after construction)
  std::string sum = std::string("done=") + (done ? "1" : "0") + " reentrant=" + std::to_string(sh.reentrant) + " cfg=" + cfg_seen;
  outs.push_back(sum);
  if (!done)
  {
    std::string o = vh::join(outs, " ; ");
    fputs(o.c_str(), stdout);
    fputc('\n', stdout);
    fflush(stdout);
    _exit(77);
  }
  detsched::reset();
  delete reader;
  return vh::join(outs, " ; ");
}

int main()
{
  return vh::run_lines([](const std::vector<std::string> &t) -> std::string {
    if (t.empty()) return "bad-op";
    if (t[0] == "pmr") return handle(t);
    return "bad-op";
  });
}
