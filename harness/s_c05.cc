// Correspondence harness for C05 (identity, parentage, flags and trace state of new spans): a real TracerProvider
// with a counter-based IdGenerator, any sampler configuration, a simple processor and a recording exporter; the
// operations of one case run on 1..8 real threads, one at a time (baton), so that every thread has its own
// RuntimeContext stack.
#include "sampler_spec.h"

#include <condition_variable>
#include <functional>
#include <mutex>
#include <thread>

#include "opentelemetry/context/context.h"
#include "opentelemetry/context/runtime_context.h"
#include "opentelemetry/sdk/resource/resource.h"
#include "opentelemetry/sdk/trace/exporter.h"
#include "opentelemetry/sdk/trace/id_generator.h"
#include "opentelemetry/sdk/trace/simple_processor.h"
#include "opentelemetry/sdk/trace/span_data.h"
#include "opentelemetry/sdk/instrumentationscope/scope_configurator.h"
#include "opentelemetry/sdk/trace/provider.h"
#include "opentelemetry/sdk/trace/tracer_config.h"
#include "opentelemetry/sdk/trace/tracer_context.h"
#include "opentelemetry/sdk/trace/tracer_provider.h"
#include "opentelemetry/sdk/trace/tracer_provider_factory.h"
#include "opentelemetry/trace/noop.h"
#include "opentelemetry/trace/provider.h"
#include "opentelemetry/trace/context.h"
#include "opentelemetry/trace/default_span.h"
#include "opentelemetry/trace/scope.h"
#include "opentelemetry/trace/span_startoptions.h"
#include "opentelemetry/trace/tracer.h"

namespace context = opentelemetry::context;

// ---- deterministic id generator: the n-th span id is the big-endian encoding of base+n -------------------------------
static void be_bytes(unsigned __int128 v, uint8_t *out, size_t n)
{
  for (size_t i = 0; i < n; i++) out[n - 1 - i] = static_cast<uint8_t>(v >> (8 * i));
}

class CounterIdGenerator : public trace_sdk::IdGenerator
{
public:
  CounterIdGenerator(bool random, uint64_t span_base, unsigned __int128 trace_base)
      : trace_sdk::IdGenerator(random), span_next_(span_base), trace_next_(trace_base)
  {}
  trace_api::SpanId GenerateSpanId() noexcept override
  {
    uint8_t b[8];
    be_bytes(span_next_++, b, 8);
    return trace_api::SpanId(b);
  }
  trace_api::TraceId GenerateTraceId() noexcept override
  {
    uint8_t b[16];
    be_bytes(trace_next_++, b, 16);
    return trace_api::TraceId(b);
  }

private:
  uint64_t span_next_;
  unsigned __int128 trace_next_;
};

// ---- exporter that writes down the identity of what it is given ------------------------------------------------------
struct Exported
{
  std::string text;
};

static std::string entries_plain(const nostd::shared_ptr<trace_api::TraceState> &ts)
{
  std::string s = show_ts(ts);   // "[..]" or "null"
  if (s == "null") return "null";
  s = s.substr(1, s.size() - 2);
  return s.empty() ? "-" : s;
}

static std::string id_hex(const trace_api::TraceId &id)
{
  char b[16];
  id.CopyBytesTo(nostd::span<uint8_t, 16>(reinterpret_cast<uint8_t *>(b), 16));
  return vh::to_hex(b, 16);
}
static std::string id_hex(const trace_api::SpanId &id)
{
  char b[8];
  id.CopyBytesTo(nostd::span<uint8_t, 8>(reinterpret_cast<uint8_t *>(b), 8));
  return vh::to_hex(b, 8);
}
static std::string flags_hex(trace_api::TraceFlags f)
{
  char c = static_cast<char>(f.flags());
  return vh::to_hex(&c, 1);
}

class RecordingExporter : public trace_sdk::SpanExporter
{
public:
  explicit RecordingExporter(std::shared_ptr<std::vector<Exported>> sink) : sink_(sink) {}
  std::unique_ptr<trace_sdk::Recordable> MakeRecordable() noexcept override
  {
    return std::unique_ptr<trace_sdk::Recordable>(new trace_sdk::SpanData);
  }
  opentelemetry::sdk::common::ExportResult Export(
      const nostd::span<std::unique_ptr<trace_sdk::Recordable>> &spans) noexcept override
  {
    for (auto &r : spans)
    {
      auto *d = static_cast<trace_sdk::SpanData *>(r.get());
      const auto &sc = d->GetSpanContext();
      std::string t  = "exp=" + id_hex(d->GetTraceId()) + "." + id_hex(d->GetSpanId()) + "." + id_hex(d->GetParentSpanId()) +
                      "." + flags_hex(d->GetFlags()) + "." + entries_plain(sc.trace_state());
      if (sc.trace_id() != d->GetTraceId() || sc.span_id() != d->GetSpanId() || sc.trace_flags().flags() != d->GetFlags().flags())
        t += "!context-mismatch";
      sink_->push_back({t});
    }
    return opentelemetry::sdk::common::ExportResult::kSuccess;
  }
  bool ForceFlush(std::chrono::microseconds) noexcept override { return true; }
  bool Shutdown(std::chrono::microseconds) noexcept override { return true; }

private:
  std::shared_ptr<std::vector<Exported>> sink_;
};

class ForwardSampler : public trace_sdk::Sampler
{
public:
  explicit ForwardSampler(std::shared_ptr<trace_sdk::Sampler> s) : s_(s) {}
  trace_sdk::SamplingResult ShouldSample(const trace_api::SpanContext &p, trace_api::TraceId id, nostd::string_view name,
                                         trace_api::SpanKind k, const common::KeyValueIterable &a,
                                         const trace_api::SpanContextKeyValueIterable &l) noexcept override
  {
    // a sampler may hand attributes back (tracer.cc copies them onto the new span): done for every server-kind span;
    // decision and trace state stay the wrapped sampler's
    trace_sdk::SamplingResult r = s_->ShouldSample(p, id, name, k, a, l);
    if (k == trace_api::SpanKind::kServer && !r.attributes)
      r.attributes.reset(new std::map<std::string, opentelemetry::common::AttributeValue>{{"sampled.by", "c05"}, {"n", int64_t{1}}});
    return r;
  }
  nostd::string_view GetDescription() const noexcept override { return s_->GetDescription(); }

private:
  std::shared_ptr<trace_sdk::Sampler> s_;
};

// ---- worker threads, one operation at a time ---------------------------------------------------------------------------
class Workers
{
public:
  explicit Workers(size_t n) : scopes(n)
  {
    for (size_t i = 0; i < n; i++) threads_.emplace_back([this, i] { loop(i); });
  }
  void run_on(size_t t, std::function<void()> f)
  {
    std::unique_lock<std::mutex> lk(m_);
    task_   = std::move(f);
    target_ = static_cast<int>(t);
    cv_.notify_all();
    cv_.wait(lk, [this] { return target_ == -1; });
  }
  void stop()
  {
    {
      std::unique_lock<std::mutex> lk(m_);
      quit_ = true;
      cv_.notify_all();
    }
    for (auto &t : threads_) t.join();
  }
  // per thread: the Scope objects it holds (destroyed on that thread only)
  std::vector<std::vector<std::unique_ptr<trace_api::Scope>>> scopes;

private:
  void loop(size_t me)
  {
    std::unique_lock<std::mutex> lk(m_);
    for (;;)
    {
      cv_.wait(lk, [&] { return quit_ || target_ == static_cast<int>(me); });
      if (quit_) return;
      task_();
      target_ = -1;
      cv_.notify_all();
    }
  }
  std::mutex m_;
  std::condition_variable cv_;
  std::function<void()> task_;
  int target_ = -1;
  bool quit_  = false;
  std::vector<std::thread> threads_;
};

// ---- arguments -------------------------------------------------------------------------------------------------------------
static bool parse_sc_lit(const std::string &s, trace_api::SpanContext &out)
{
  auto p = split_on(s, '.');
  if (p.size() != 5) return false;
  return parse_parent(p[0] + "/" + p[1] + "/" + p[2] + "/" + p[3] + "/" + p[4], out);
}

// every other accessor of the context must tell the same story as the fields printed (TraceFlags::IsSampled / IsRandom /
// ToLowerBase16 / CopyBytesTo / == / !=, SpanContext::IsSampled / IsValid / ==, SpanId::Id, TraceId::Id): "" or "!<what>"
static std::string accessor_check(const trace_api::SpanContext &sc)
{
  std::string bad;
  trace_api::TraceFlags f = sc.trace_flags();
  char hx[2];
  f.ToLowerBase16(nostd::span<char, 2>(hx, 2));
  uint8_t fb[1];
  f.CopyBytesTo(nostd::span<uint8_t, 1>(fb, 1));
  if (std::string(hx, 2) != flags_hex(f)) bad += "!flags-base16";
  if (fb[0] != f.flags()) bad += "!flags-bytes";
  if (f.IsSampled() != ((f.flags() & 1) != 0) || sc.IsSampled() != f.IsSampled()) bad += "!is-sampled";
  if (f.IsRandom() != ((f.flags() & 2) != 0)) bad += "!is-random";
  trace_api::TraceFlags same(f.flags()), other(static_cast<uint8_t>(f.flags() ^ 1));
  if (!(f == same) || (f != same) || (f == other) || !(f != other)) bad += "!flags-eq";
  uint8_t sb[8], tb[16];
  sc.span_id().CopyBytesTo(nostd::span<uint8_t, 8>(sb, 8));
  sc.trace_id().CopyBytesTo(nostd::span<uint8_t, 16>(tb, 16));
  if (memcmp(sc.span_id().Id().data(), sb, 8) != 0 || memcmp(sc.trace_id().Id().data(), tb, 16) != 0) bad += "!id-bytes";
  bool sz = true, tz = true;
  for (uint8_t b : sb) sz = sz && b == 0;
  for (uint8_t b : tb) tz = tz && b == 0;
  if (sc.IsValid() != (!sz && !tz) || sc.span_id().IsValid() == sz || sc.trace_id().IsValid() == tz) bad += "!is-valid";
  trace_api::SpanContext copy(sc.trace_id(), sc.span_id(), f, sc.IsRemote(), sc.trace_state());
  trace_api::SpanContext flipped(sc.trace_id(), sc.span_id(), other, sc.IsRemote(), sc.trace_state());
  if (!(copy == sc) || (flipped == sc)) bad += "!context-eq";
  return bad;
}

static std::string show_sc(const trace_api::SpanContext &sc)
{
  return id_hex(sc.trace_id()) + "." + id_hex(sc.span_id()) + "." + flags_hex(sc.trace_flags()) + "." +
         (sc.IsRemote() ? "1" : "0") + "." + entries_plain(sc.trace_state()) + accessor_check(sc);
}

static bool parse_uint(const std::string &s, size_t &out)
{
  if (s.empty() || s.size() > 9) return false;
  out = 0;
  for (char c : s)
  {
    if (c < '0' || c > '9') return false;
    out = out * 10 + static_cast<size_t>(c - '0');
  }
  return true;
}

static bool parse_hex_u128(const std::string &s, unsigned __int128 &out)
{
  out = 0;
  for (char c : s)
  {
    int v = vh::hexval(c);
    if (v < 0) return false;
    out = (out << 4) | static_cast<unsigned>(v);
  }
  return true;
}

struct ParentSpec
{
  enum Kind { kDefault, kLit, kOfSpan, kCtx } kind = kDefault;
  trace_api::SpanContext lit{false, false};
  size_t k          = 0;
  bool from_current = false;
  int root          = -1;   // -1 none, 0 false, 1 true
  enum SpanRef { kKeep, kRefOf, kRefLit } ref = kKeep;
};

static bool starts_with(const std::string &s, const char *p) { return s.compare(0, strlen(p), p) == 0; }

static bool parse_parent_spec(const std::string &s, ParentSpec &out)
{
  if (s == "def") return true;
  if (starts_with(s, "sc:"))
  {
    out.kind = ParentSpec::kLit;
    return parse_sc_lit(s.substr(3), out.lit);
  }
  if (starts_with(s, "scof:"))
  {
    out.kind = ParentSpec::kOfSpan;
    return parse_uint(s.substr(5), out.k);
  }
  if (starts_with(s, "ctx:"))
  {
    out.kind  = ParentSpec::kCtx;
    auto rest = s.substr(4);
    auto p1   = rest.find(':');
    if (p1 == std::string::npos) return false;
    auto p2 = rest.find(':', p1 + 1);
    if (p2 == std::string::npos) return false;
    std::string base = rest.substr(0, p1), root = rest.substr(p1 + 1, p2 - p1 - 1), sp = rest.substr(p2 + 1);
    if (base == "c") out.from_current = true;
    else if (base == "e") out.from_current = false;
    else return false;
    if (root == "n") out.root = -1;
    else if (root == "0") out.root = 0;
    else if (root == "1") out.root = 1;
    else return false;
    if (sp == "keep") out.ref = ParentSpec::kKeep;
    else if (starts_with(sp, "of"))
    {
      out.ref = ParentSpec::kRefOf;
      return parse_uint(sp.substr(2), out.k);
    }
    else if (starts_with(sp, "lit"))
    {
      out.ref = ParentSpec::kRefLit;
      return parse_sc_lit(sp.substr(3), out.lit);
    }
    else return false;
    return true;
  }
  return false;
}

struct Op
{
  enum Kind { kStart, kScope, kEndScope, kEnd } kind;
  size_t t = 0, k = 0;
  ParentSpec parent;
  std::string name;
  bool disabled = false;   // `startx`: StartSpan on the tracer that the provider's ScopeConfigurator disables
};

static std::string handle_tr(const std::vector<std::string> &toks)
{
  auto groups = vh::split_ops(toks, 1);
  if (groups.empty() || groups[0].size() != 5) return "bad-op";
  auto &h = groups[0];
  std::shared_ptr<trace_sdk::Sampler> sampler;
  std::shared_ptr<CustomSampler> custom;
  bool nan = false;
  unsigned __int128 sbase, tbase;
  size_t nthreads;
  if (!parse_sampler(h[0], sampler, custom, nan, true) || nan) return "bad-op";
  if (h[1] != "0" && h[1] != "1") return "bad-op";
  if (!parse_hex_u128(h[2], sbase) || !parse_hex_u128(h[3], tbase) || !parse_uint(h[4], nthreads)) return "bad-op";
  if (nthreads == 0 || nthreads > 8) return "bad-op";
  // parse and validate the whole program first (a malformed program is rejected as a whole, like the model does)
  std::vector<Op> ops;
  size_t nspans = 0;
  std::vector<size_t> depth(nthreads, 0);
  for (size_t i = 1; i < groups.size(); i++)
  {
    auto &g = groups[i];
    Op op;
    if (g.size() == 4 && (g[0] == "start" || g[0] == "startx"))
    {
      op.kind     = Op::kStart;
      op.disabled = g[0] == "startx";
      if (!parse_uint(g[1], op.t) || op.t >= nthreads || !parse_parent_spec(g[2], op.parent)) return "bad-op";
      if ((op.parent.kind == ParentSpec::kOfSpan || (op.parent.kind == ParentSpec::kCtx && op.parent.ref == ParentSpec::kRefOf)) &&
          op.parent.k >= nspans)
        return "bad-op";
      op.name = g[3];
      nspans++;
    }
    else if (g.size() == 3 && g[0] == "scope")
    {
      op.kind = Op::kScope;
      if (!parse_uint(g[1], op.t) || op.t >= nthreads || !parse_uint(g[2], op.k) || op.k >= nspans) return "bad-op";
      depth[op.t]++;
    }
    else if (g.size() == 2 && g[0] == "endscope")
    {
      op.kind = Op::kEndScope;
      if (!parse_uint(g[1], op.t) || op.t >= nthreads || depth[op.t] == 0) return "bad-op";
      depth[op.t]--;
    }
    else if (g.size() == 2 && g[0] == "end")
    {
      op.kind = Op::kEnd;
      if (!parse_uint(g[1], op.k) || op.k >= nspans) return "bad-op";
    }
    else return "bad-op";
    ops.push_back(op);
  }

  auto sink = std::make_shared<std::vector<Exported>>();
  std::vector<std::string> outs;
  std::vector<size_t> final_exported;
  {
    // The provider is built through a different constructor / factory per case and the tracer is obtained either from it
    // directly or through the global API provider (api Provider::SetTracerProvider or the SDK's wrapper of it); which
    // one is a function of the case (number of operations) - the observation must not depend on it.
    auto mk_proc = [&] {
      return std::unique_ptr<trace_sdk::SpanProcessor>(
          new trace_sdk::SimpleSpanProcessor(std::unique_ptr<trace_sdk::SpanExporter>(new RecordingExporter(sink))));
    };
    auto mk_procs = [&] {
      std::vector<std::unique_ptr<trace_sdk::SpanProcessor>> v;
      v.push_back(mk_proc());
      return v;
    };
    using Cfgr = opentelemetry::sdk::instrumentationscope::ScopeConfigurator<trace_sdk::TracerConfig>;
    auto mk_conf = [&] {
      return std::unique_ptr<Cfgr>(new Cfgr(Cfgr::Builder(trace_sdk::TracerConfig::Default())
                                                .AddConditionNameEquals("c05.off", trace_sdk::TracerConfig::Disabled())
                                                .Build()));
    };
    auto mk_sampler = [&] { return std::unique_ptr<trace_sdk::Sampler>(new ForwardSampler(sampler)); };
    auto mk_gen     = [&] {
      return std::unique_ptr<trace_sdk::IdGenerator>(new CounterIdGenerator(h[1] == "1", static_cast<uint64_t>(sbase), tbase));
    };
    auto resource = opentelemetry::sdk::resource::Resource::Create({});
    std::shared_ptr<trace_sdk::TracerProvider> provider;
    switch (ops.size() % 5)
    {
      case 1:
        provider = trace_sdk::TracerProviderFactory::Create(mk_proc(), resource, mk_sampler(), mk_gen(), mk_conf());
        break;
      case 2:
        provider.reset(new trace_sdk::TracerProvider(mk_procs(), resource, mk_sampler(), mk_gen(), mk_conf()));
        break;
      case 3:
        provider = trace_sdk::TracerProviderFactory::Create(mk_procs(), resource, mk_sampler(), mk_gen(), mk_conf());
        break;
      case 4:
        provider.reset(new trace_sdk::TracerProvider(std::unique_ptr<trace_sdk::TracerContext>(
            new trace_sdk::TracerContext(mk_procs(), resource, mk_sampler(), mk_gen(), mk_conf()))));
        break;
      default:
        provider.reset(new trace_sdk::TracerProvider(mk_proc(), resource, mk_sampler(), mk_gen(), mk_conf()));
        break;
    }
    nostd::shared_ptr<trace_api::Tracer> tracer, tracer_off;
    const size_t via_global = (ops.size() / 5) % 3;   // 0 direct, 1 api Provider, 2 sdk Provider
    if (via_global != 0)
    {
      nostd::shared_ptr<trace_api::TracerProvider> api_provider{std::shared_ptr<trace_api::TracerProvider>(provider)};
      if (via_global == 1) trace_api::Provider::SetTracerProvider(api_provider);
      else trace_sdk::Provider::SetTracerProvider(api_provider);
      tracer     = trace_api::Provider::GetTracerProvider()->GetTracer("c05", "1");
      tracer_off = trace_api::Provider::GetTracerProvider()->GetTracer("c05.off", "1");
      // the global slot goes back to the API's no-op provider right away: tracers and spans keep the SDK objects alive
      trace_api::Provider::SetTracerProvider(
          nostd::shared_ptr<trace_api::TracerProvider>(new trace_api::NoopTracerProvider));
    }
    else
    {
      tracer     = provider->GetTracer("c05", "1");
      tracer_off = provider->GetTracer("c05.off", "1");
    }
    provider.reset();   // the tracers own the context from here on
    std::vector<nostd::shared_ptr<trace_api::Span>> spans;
    std::vector<bool> ended;
    std::vector<std::string> started_ctx;   // what GetContext() said when the span was started
    Workers w(nthreads);
    for (auto &op : ops)
    {
      std::string out;
      switch (op.kind)
      {
        case Op::kStart:
          w.run_on(op.t, [&] {
            trace_api::StartSpanOptions opts;
            const ParentSpec &p = op.parent;
            if (p.kind == ParentSpec::kLit) opts.parent = p.lit;
            else if (p.kind == ParentSpec::kOfSpan) opts.parent = spans[p.k]->GetContext();
            else if (p.kind == ParentSpec::kCtx)
            {
              context::Context c = p.from_current ? context::RuntimeContext::GetCurrent() : context::Context{};
              if (p.root >= 0) c = c.SetValue(trace_api::kIsRootSpanKey, p.root == 1);
              if (p.ref == ParentSpec::kRefOf) c = trace_api::SetSpan(c, spans[p.k]);
              else if (p.ref == ParentSpec::kRefLit)
              {
                nostd::shared_ptr<trace_api::Span> ds{new trace_api::DefaultSpan(p.lit)};
                c = trace_api::SetSpan(c, ds);
              }
              opts.parent = c;
            }
            // the name lives in an exact-size block that is released right after the call
            std::unique_ptr<vh::Exact> nm(new vh::Exact(op.name));
            // the overloads of the API header that take attributes and / or links funnel into the same virtual call: which
            // one is used rotates with the number of spans started so far - parent, kind and times must get through all.
            // Attributes are non-empty and the link target is a valid context of another trace: it must never be taken for
            // the parent.  Kind and explicit start times rotate too: none of them may touch the identity.
            nostd::string_view nsv(nm->data(), nm->size());
            nostd::shared_ptr<trace_api::Span> sp;
            const size_t n = spans.size();
            opts.kind      = static_cast<trace_api::SpanKind>(n % 5);
            if (n % 3 == 1)
            {
              opts.start_system_time = opentelemetry::common::SystemTimestamp(std::chrono::nanoseconds(1000000 + n));
              opts.start_steady_time = opentelemetry::common::SteadyTimestamp(std::chrono::nanoseconds(2000000 + n));
            }
            static const uint8_t ltid[16] = {0xaa, 0xaa, 0xaa, 0xaa, 0xaa, 0xaa, 0xaa, 0xaa, 0xaa, 0xaa, 0xaa, 0xaa, 0xaa, 0xaa, 0xaa, 0xa1};
            static const uint8_t lsid[8]  = {0xbb, 0xbb, 0xbb, 0xbb, 0xbb, 0xbb, 0xbb, 0xb1};
            trace_api::SpanContext link_target(trace_api::TraceId(ltid), trace_api::SpanId(lsid), trace_api::TraceFlags(0xff), true);
            using AttrVec = std::vector<std::pair<nostd::string_view, opentelemetry::common::AttributeValue>>;
            trace_api::Tracer &tr = op.disabled ? *tracer_off : *tracer;
            switch (n % 9)
            {
              case 1:
              {
                std::map<std::string, int64_t> m{{"k", 1}};
                opentelemetry::common::KeyValueIterableView<std::map<std::string, int64_t>> kv(m);
                sp = tr.StartSpan(nsv, static_cast<const opentelemetry::common::KeyValueIterable &>(kv), opts);
                break;
              }
              case 2:
              {
                AttrVec av{{"a", int64_t{7}}};
                sp = tr.StartSpan(nsv, av, opts);
                break;
              }
              case 3:
                sp = tr.StartSpan(nsv, {}, opts);
                break;
              case 4:
              {
                AttrVec av{{"a", true}};
                std::vector<std::pair<trace_api::SpanContext, AttrVec>> links{{link_target, AttrVec{{"l", 1.5}}}};
                sp = tr.StartSpan(nsv, av, links, opts);
                break;
              }
              case 5:
                sp = tr.StartSpan(nsv, {{"a", int64_t{1}}, {"b", "x"}}, opts);
                break;
              case 6:
              {
                AttrVec av{{"a", int64_t{2}}};
                sp = tr.StartSpan(nsv, av, {{link_target, {{"l", int64_t{3}}}}}, opts);
                break;
              }
              case 7:
                sp = tr.StartSpan(nsv, {{"a", int64_t{4}}}, {{link_target, {{"l", int64_t{5}}}}, {link_target, {}}}, opts);
                break;
              case 8:
              {
                std::map<std::string, int64_t> m{{"k", 2}};
                opentelemetry::common::KeyValueIterableView<std::map<std::string, int64_t>> kv(m);
                std::vector<std::pair<trace_api::SpanContext, AttrVec>> links{{link_target, AttrVec{}}};
                trace_api::SpanContextKeyValueIterableView<std::vector<std::pair<trace_api::SpanContext, AttrVec>>> lv(links);
                sp = tr.StartSpan(nsv, static_cast<const opentelemetry::common::KeyValueIterable &>(kv),
                                  static_cast<const trace_api::SpanContextKeyValueIterable &>(lv), opts);
                break;
              }
              default:
                sp = tr.StartSpan(nsv, opts);
                break;
            }
            nm.reset();
            spans.push_back(sp);
            ended.push_back(false);
            started_ctx.push_back(show_sc(sp->GetContext()));
            out = "s=" + started_ctx.back() + " rec=" + (sp->IsRecording() ? "1" : "0");
          });
          break;
        case Op::kScope:
          w.run_on(op.t, [&] {
            // `Scope(span)` and `Tracer::WithActiveSpan(span)` alternate
            if ((w.scopes[op.t].size() + op.k) % 2 == 0) w.scopes[op.t].emplace_back(new trace_api::Scope(spans[op.k]));
            else w.scopes[op.t].emplace_back(new trace_api::Scope(trace_api::Tracer::WithActiveSpan(spans[op.k])));
            out = "act=" + id_hex(trace_api::Tracer::GetCurrentSpan()->GetContext().span_id());
          });
          break;
        case Op::kEndScope:
          w.run_on(op.t, [&] {
            w.scopes[op.t].pop_back();
            out = "act=" + id_hex(trace_api::Tracer::GetCurrentSpan()->GetContext().span_id());
          });
          break;
        case Op::kEnd:
          w.run_on(0, [&] {
            size_t before = sink->size();
            // whatever else is done to a span (recording Span, NoopSpan of a dropped span or of the disabled tracer) - its
            // identity stays what it was at the start, before and after End
            auto &spn = spans[op.k];
            std::map<std::string, int64_t> m{{"e", 1}};
            opentelemetry::common::KeyValueIterableView<std::map<std::string, int64_t>> ekv(m);
            opentelemetry::common::SystemTimestamp ts(std::chrono::nanoseconds(3000000 + op.k));
            switch ((op.k + outs.size()) % 8)
            {
              case 1: spn->SetAttribute("late", int64_t{1}); break;
              case 2: spn->AddEvent("ev"); break;
              case 3: spn->AddEvent("ev", ts); break;
              case 4: spn->AddEvent("ev", ekv); break;
              case 5: spn->AddEvent("ev", ts, ekv); break;
              case 6: spn->SetStatus(trace_api::StatusCode::kError, "why"); break;
              case 7: spn->UpdateName("0=null"); break;
              default: break;
            }
            std::string mid = show_sc(spn->GetContext());
            spn->End();
            ended[op.k] = true;
            if (sink->size() == before) out = "noexp";
            else if (sink->size() == before + 1) out = sink->back().text;
            else out = "exp=!more-than-one";
            if (mid != started_ctx[op.k] || show_sc(spn->GetContext()) != started_ctx[op.k]) out += "!context-changed-after-start";
          });
          break;
      }
      outs.push_back(out);
    }
    // teardown: scopes are destroyed on their own threads (innermost first), then every span not yet ended is ended
    for (size_t t = 0; t < nthreads; t++)
      w.run_on(t, [&] {
        while (!w.scopes[t].empty()) w.scopes[t].pop_back();
      });
    w.run_on(0, [&] {
      for (size_t k = 0; k < spans.size(); k++)
      {
        if (ended[k]) continue;
        size_t before = sink->size();
        spans[k]->End();
        if (sink->size() != before) final_exported.push_back(k);
      }
      size_t before = sink->size();
      spans.clear();   // destructors must not export anything again
      if (sink->size() != before) final_exported.push_back(999999);
    });
    w.stop();
  }
  std::string fin;
  for (size_t i = 0; i < final_exported.size(); i++) fin += (i ? "," : "") + std::to_string(final_exported[i]);
  outs.push_back("final=" + (fin.empty() ? std::string("-") : fin));
  return vh::join(outs, " ; ");
}

// rid <nthreads> <k> <fork 0|1>: the REAL RandomIdGenerator (sdk/src/trace/random_id_generator.cc + sdk/src/common/random.cc)
// sampled from several threads and across fork(): ids must be non-zero and never repeat (a repeated 64-bit random id is
// a defect, not bad luck).  This samples the "generator returns fresh ids" hypothesis of the C05 theorems.
#include <set>
#include <sys/wait.h>
#include <thread>
#include <unistd.h>
#include "opentelemetry/sdk/trace/random_id_generator.h"
#include "opentelemetry/sdk/trace/random_id_generator_factory.h"
#include "opentelemetry/sdk/trace/samplers/always_on.h"
static std::string handle_rid(const std::vector<std::string> &t)
{
  if (t.size() != 4) return "bad-op";
  char *e1 = nullptr, *e2 = nullptr;
  unsigned long nt = strtoul(t[1].c_str(), &e1, 10), k = strtoul(t[2].c_str(), &e2, 10);
  if (*e1 || *e2 || nt == 0 || nt > 8 || k == 0 || k > 64 || (t[3] != "0" && t[3] != "1")) return "bad-op";
  // which way the real generator is built is a function of the case text (FNV-1a), so a case replays the same way: half of
  // the cases through RandomIdGeneratorFactory::Create(), half through the constructor
  uint64_t hsh = 1469598103934665603ull;
  for (size_t i = 1; i < 4; i++)
  {
    for (char c : t[i]) hsh = (hsh ^ static_cast<uint8_t>(c)) * 1099511628211ull;
    hsh = (hsh ^ ' ') * 1099511628211ull;
  }
  const bool via_factory = (hsh >> 7) & 1;
  std::unique_ptr<trace_sdk::IdGenerator> gen_owner =
      via_factory ? trace_sdk::RandomIdGeneratorFactory::Create()
                  : std::unique_ptr<trace_sdk::IdGenerator>(new trace_sdk::RandomIdGenerator());
  if (!gen_owner) return "dups=0 zero=0 forkclash=0!no-generator";
  trace_sdk::IdGenerator &gen = *gen_owner;
  auto span_hex = [&](void) {
    auto id = gen.GenerateSpanId();
    char b[16];
    id.ToLowerBase16(opentelemetry::nostd::span<char, 16>(b, 16));
    return std::string(b, 16);
  };
  auto trace_hex = [&](void) {
    auto id = gen.GenerateTraceId();
    char b[32];
    id.ToLowerBase16(opentelemetry::nostd::span<char, 32>(b, 32));
    return std::string(b, 32);
  };
  std::vector<std::vector<std::string>> per(nt);
  std::vector<std::thread> th;
  for (unsigned long i = 0; i < nt; i++)
    th.emplace_back([&, i] {
      for (unsigned long j = 0; j < k; j++)
      {
        per[i].push_back(span_hex());
        per[i].push_back(trace_hex());
      }
    });
  for (auto &x : th) x.join();
  // ... and a provider that is given no generator (the default one of the constructor, the factory forms that call
  // RandomIdGeneratorFactory::Create themselves) or the one built above: k root spans, whose span and trace ids join the sample
  {
    auto sink = std::make_shared<std::vector<Exported>>();
    std::unique_ptr<trace_sdk::SpanProcessor> proc(
        new trace_sdk::SimpleSpanProcessor(std::unique_ptr<trace_sdk::SpanExporter>(new RecordingExporter(sink))));
    auto res = opentelemetry::sdk::resource::Resource::Create({});
    std::unique_ptr<trace_sdk::TracerProvider> prov;
    switch ((hsh >> 11) % 4)
    {
      case 0:
        prov.reset(new trace_sdk::TracerProvider(std::move(proc)));
        break;
      case 1:
        prov = trace_sdk::TracerProviderFactory::Create(std::move(proc));
        break;
      case 2:
        prov = trace_sdk::TracerProviderFactory::Create(std::move(proc), res,
                                                        std::unique_ptr<trace_sdk::Sampler>(new trace_sdk::AlwaysOnSampler));
        break;
      default:
        prov = trace_sdk::TracerProviderFactory::Create(
            std::move(proc), res, std::unique_ptr<trace_sdk::Sampler>(new trace_sdk::AlwaysOnSampler),
            via_factory ? trace_sdk::RandomIdGeneratorFactory::Create()
                        : std::unique_ptr<trace_sdk::IdGenerator>(new trace_sdk::RandomIdGenerator()));
        break;
    }
    auto tr = prov->GetTracer("rid", "1");
    for (unsigned long j = 0; j < k; j++)
    {
      auto sp = tr->StartSpan("r");
      auto sc = sp->GetContext();
      per[0].push_back(id_hex(sc.span_id()));
      per[0].push_back(id_hex(sc.trace_id()));
      if (!sp->IsRecording() || !sc.IsValid() || (sc.trace_flags().flags() & ~1) != 0) per[0].push_back("0");   // counted as a zero id
      sp->End();
    }
    if (sink->size() != k) per[0].push_back("0");
  }
  std::set<std::string> seen;
  int dups = 0, zero = 0;
  for (auto &v : per)
    for (auto &id : v)
    {
      if (id.find_first_not_of('0') == std::string::npos) zero++;
      if (!seen.insert(id).second) dups++;
    }
  int forkclash = 0;
  if (t[3] == "1")
  {
    for (unsigned long j = 0; j < k; j++) span_hex();  // the parent's engine is in use before the fork
    int fd[2];
    if (pipe(fd) != 0) return "ERR pipe";
    fflush(stdout);
    pid_t pid = fork();
    if (pid == 0)
    {
      std::string out;
      for (unsigned long j = 0; j < k; j++) out += span_hex();
      ssize_t w = write(fd[1], out.data(), out.size());
      (void)w;
      _exit(0);
    }
    close(fd[1]);
    std::set<std::string> mine;
    for (unsigned long j = 0; j < k; j++) mine.insert(span_hex());
    std::string buf(16 * k, ' ');
    size_t got = 0;
    while (got < buf.size())
    {
      ssize_t r = read(fd[0], &buf[got], buf.size() - got);
      if (r <= 0) break;
      got += static_cast<size_t>(r);
    }
    close(fd[0]);
    int st = 0;
    waitpid(pid, &st, 0);
    for (size_t j = 0; j + 16 <= got; j += 16)
      if (mine.count(buf.substr(j, 16))) forkclash++;
  }
  return "dups=" + std::to_string(dups) + " zero=" + std::to_string(zero) + " forkclash=" + std::to_string(forkclash);
}

int main()
{
  return vh::run_lines([](const std::vector<std::string> &t) -> std::string {
    if (t.empty()) return "bad-op";
    if (t[0] == "tr") return handle_tr(t);
    if (t[0] == "rid") return handle_rid(t);
    return "bad-op";
  });
}
