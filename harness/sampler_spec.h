// Shared by the sampler/tracer harnesses (C12, C05): sampler specs, span-context and trace-state arguments.
#pragma once
#include "common.h"

#include <map>
#include <memory>
#include <string>

#include "opentelemetry/common/key_value_iterable_view.h"
#include "opentelemetry/sdk/trace/sampler.h"
#include "opentelemetry/sdk/trace/samplers/always_off.h"
#include "opentelemetry/sdk/trace/samplers/always_off_factory.h"
#include "opentelemetry/sdk/trace/samplers/always_on_factory.h"
#include "opentelemetry/sdk/trace/samplers/parent_factory.h"
#include "opentelemetry/sdk/trace/samplers/trace_id_ratio_factory.h"
#include "opentelemetry/sdk/trace/samplers/always_on.h"
#include "opentelemetry/sdk/trace/samplers/parent.h"
#include "opentelemetry/sdk/trace/samplers/trace_id_ratio.h"
#include "opentelemetry/trace/span_context.h"
#include "opentelemetry/trace/span_context_kv_iterable_view.h"
#include "opentelemetry/trace/trace_state.h"

namespace trace_api = opentelemetry::trace;
namespace trace_sdk = opentelemetry::sdk::trace;
namespace nostd     = opentelemetry::nostd;
namespace common    = opentelemetry::common;

inline bool parse_bits(const std::string &s, double &out, bool &is_nan)
{
  if (s.size() != 16) return false;
  uint64_t b = 0;
  for (char c : s)
  {
    int v = vh::hexval(c);
    if (v < 0) return false;
    b = (b << 4) | static_cast<uint64_t>(v);
  }
  memcpy(&out, &b, 8);
  is_nan = ((b >> 52) & 0x7ff) == 0x7ff && (b & ((1ULL << 52) - 1)) != 0;
  return true;
}

inline std::string hex16(uint64_t v)
{
  char buf[17];
  snprintf(buf, sizeof buf, "%016llx", static_cast<unsigned long long>(v));
  return buf;
}

inline bool parse_trace_id(const std::string &s, trace_api::TraceId &out)
{
  std::string b;
  if (!vh::from_hex(s, b) || b.size() != 16) return false;
  out = trace_api::TraceId(nostd::span<const uint8_t, 16>(reinterpret_cast<const uint8_t *>(b.data()), 16));
  return true;
}

inline std::vector<std::string> split_on(const std::string &s, char sep)
{
  std::vector<std::string> v(1);
  for (char c : s)
  {
    if (c == sep) v.emplace_back();
    else v.back().push_back(c);
  }
  return v;
}

// entries "k:v,k:v" (hex) -> a TraceState parsed by the real FromHeader from the header "k=v,k=v"
inline bool parse_entries(const std::string &s, nostd::shared_ptr<trace_api::TraceState> &out)
{
  std::string header;
  if (s != "-")
  {
    bool first = true;
    for (auto &m : split_on(s, ','))
    {
      auto kv = split_on(m, ':');
      std::string k, v;
      if (kv.size() != 2 || !vh::from_hex(kv[0], k) || !vh::from_hex(kv[1], v)) return false;
      if (!first) header += ",";
      first = false;
      header += k + "=" + v;
    }
  }
  vh::Exact hx(header);
  out = trace_api::TraceState::FromHeader(nostd::string_view(hx.data(), hx.size()));
  return true;
}

inline std::string show_ts(const nostd::shared_ptr<trace_api::TraceState> &ts)
{
  if (!ts) return "null";
  std::string s = "[";
  bool first    = true;
  ts->GetAllEntries([&](nostd::string_view k, nostd::string_view v) {
    if (!first) s += ",";
    first = false;
    s += vh::to_hex(k.data(), k.size()) + ":" + vh::to_hex(v.data(), v.size());
    return true;
  });
  return s + "]";
}

// a user-provided sampler: constant answer, counts its invocations
class CustomSampler : public trace_sdk::Sampler
{
public:
  CustomSampler(trace_sdk::Decision d, nostd::shared_ptr<trace_api::TraceState> ts) : d_(d), ts_(ts) {}
  trace_sdk::SamplingResult ShouldSample(const trace_api::SpanContext &, trace_api::TraceId, nostd::string_view,
                                         trace_api::SpanKind, const common::KeyValueIterable &,
                                         const trace_api::SpanContextKeyValueIterable &) noexcept override
  {
    ++calls;
    return {d_, nullptr, ts_};
  }
  nostd::string_view GetDescription() const noexcept override { return "Custom"; }
  int calls = 0;

private:
  trace_sdk::Decision d_;
  nostd::shared_ptr<trace_api::TraceState> ts_;
};

// a user-provided sampler whose answer is spelled out in the span name: "<dec>=<null|entries>"; anything else -> (2, null)
class ByNameSampler : public trace_sdk::Sampler
{
public:
  trace_sdk::SamplingResult ShouldSample(const trace_api::SpanContext &, trace_api::TraceId, nostd::string_view name,
                                         trace_api::SpanKind, const common::KeyValueIterable &,
                                         const trace_api::SpanContextKeyValueIterable &) noexcept override
  {
    auto parts = split_on(std::string(name.data(), name.size()), '=');
    if (parts.size() == 2 && parts[0].size() == 1 && parts[0][0] >= '0' && parts[0][0] <= '2')
    {
      trace_sdk::Decision d = parts[0] == "0"   ? trace_sdk::Decision::DROP
                              : parts[0] == "1" ? trace_sdk::Decision::RECORD_ONLY
                                                : trace_sdk::Decision::RECORD_AND_SAMPLE;
      nostd::shared_ptr<trace_api::TraceState> ts;
      if (parts[1] == "null" || parse_entries(parts[1], ts)) return {d, nullptr, ts};
    }
    return {trace_sdk::Decision::RECORD_AND_SAMPLE, nullptr, {}};
  }
  nostd::string_view GetDescription() const noexcept override { return "ByName"; }
};

inline bool parse_sampler(const std::string &spec, std::shared_ptr<trace_sdk::Sampler> &out,
                          std::shared_ptr<CustomSampler> &custom, bool &nan, bool allow_byname = false)
{
  auto parts = split_on(spec, '/');
  auto leaf  = split_on(parts.back(), '=');
  std::shared_ptr<trace_sdk::Sampler> s;
  // every other spec (by a hash of its text, so that a case replays the same way) builds the built-in samplers through
  // their factories - the way applications and the configuration code get them - instead of the constructors
  unsigned h = 2166136261u;
  for (char c : spec) h = (h ^ static_cast<unsigned char>(c)) * 16777619u;
  const bool via_factory = (h >> 7) & 1;
  if (leaf.size() == 1 && leaf[0] == "on")
    s = via_factory ? std::shared_ptr<trace_sdk::Sampler>(trace_sdk::AlwaysOnSamplerFactory::Create())
                    : std::make_shared<trace_sdk::AlwaysOnSampler>();
  else if (leaf.size() == 1 && leaf[0] == "off")
    s = via_factory ? std::shared_ptr<trace_sdk::Sampler>(trace_sdk::AlwaysOffSamplerFactory::Create())
                    : std::make_shared<trace_sdk::AlwaysOffSampler>();
  else if (allow_byname && leaf.size() == 1 && leaf[0] == "byname") s = std::make_shared<ByNameSampler>();
  else if (leaf.size() == 2 && leaf[0] == "ratio")
  {
    double r;
    if (!parse_bits(leaf[1], r, nan)) return false;
    if (nan) return true;
    s = via_factory ? std::shared_ptr<trace_sdk::Sampler>(trace_sdk::TraceIdRatioBasedSamplerFactory::Create(r))
                    : std::make_shared<trace_sdk::TraceIdRatioBasedSampler>(r);
  }
  else if (leaf.size() == 3 && leaf[0] == "custom")
  {
    trace_sdk::Decision d;
    if (leaf[1] == "0") d = trace_sdk::Decision::DROP;
    else if (leaf[1] == "1") d = trace_sdk::Decision::RECORD_ONLY;
    else if (leaf[1] == "2") d = trace_sdk::Decision::RECORD_AND_SAMPLE;
    else return false;
    nostd::shared_ptr<trace_api::TraceState> ts;
    if (leaf[2] != "null" && !parse_entries(leaf[2], ts)) return false;
    custom = std::make_shared<CustomSampler>(d, ts);
    s      = custom;
  }
  else return false;
  for (size_t i = parts.size() - 1; i-- > 0;)
  {
    if (parts[i] != "pb") return false;
    s = via_factory ? std::shared_ptr<trace_sdk::Sampler>(trace_sdk::ParentBasedSamplerFactory::Create(s))
                    : std::make_shared<trace_sdk::ParentBasedSampler>(s);
  }
  out = s;
  return true;
}

inline bool parse_parent(const std::string &s, trace_api::SpanContext &out)
{
  if (s == "none")
  {
    out = trace_api::SpanContext::GetInvalid();
    return true;
  }
  auto p = split_on(s, '/');
  if (p.size() != 5) return false;
  std::string tid, sid, fl;
  if (!vh::from_hex(p[0], tid) || !vh::from_hex(p[1], sid) || !vh::from_hex(p[2], fl)) return false;
  if (tid.size() != 16 || sid.size() != 8 || fl.size() != 1 || (p[3] != "0" && p[3] != "1")) return false;
  nostd::shared_ptr<trace_api::TraceState> ts;
  if (!parse_entries(p[4], ts)) return false;
  out = trace_api::SpanContext(
      trace_api::TraceId(nostd::span<const uint8_t, 16>(reinterpret_cast<const uint8_t *>(tid.data()), 16)),
      trace_api::SpanId(nostd::span<const uint8_t, 8>(reinterpret_cast<const uint8_t *>(sid.data()), 8)),
      trace_api::TraceFlags(static_cast<uint8_t>(fl[0])), p[3] == "1", ts);
  return true;
}

inline int dec_code(trace_sdk::Decision d)
{
  switch (d)
  {
    case trace_sdk::Decision::DROP: return 0;
    case trace_sdk::Decision::RECORD_ONLY: return 1;
    case trace_sdk::Decision::RECORD_AND_SAMPLE: return 2;
  }
  return 9;
}

