// Second translation unit for C19: the hand-written (non-std::regex) variants of InstrumentMetaDataValidator, which the
// build only uses with g++ 4.8/4.9 and which the repo's tests therefore never run.  OPENTELEMETRY_HAVE_WORKING_REGEX is
// defined unconditionally by common/macros.h; it is redefined here *after* that header (include guards keep it so) and
// the unmodified source file is compiled into this TU.
//
//   val2 name <hex> | val2 unit <hex>      -> 1 | 0      (exact-size unterminated buffers, as in s_c19)
#include "common.h"
#include "supervised.h"

#include "opentelemetry/common/macros.h"
#undef OPENTELEMETRY_HAVE_WORKING_REGEX
#define OPENTELEMETRY_HAVE_WORKING_REGEX 0
#include "opentelemetry/sdk/metrics/instrument_metadata_validator.h"

#include "src/metrics/instrument_metadata_validator.cc"  // NOLINT: the repo's source, through -I<repo>/sdk

int main()
{
  return vh::run_lines_supervised([](const std::vector<std::string> &t) -> std::string {
    std::string s;
    if (t.size() != 3 || t[0] != "val2" || !vh::from_hex(t[2], s)) return "bad-op";
    static opentelemetry::sdk::metrics::InstrumentMetaDataValidator validator;
    vh::Exact x(s);
    opentelemetry::nostd::string_view v(x.data(), x.size());
    if (t[1] == "name") return validator.ValidateName(v) ? "1" : "0";
    if (t[1] == "unit") return validator.ValidateUnit(v) ? "1" : "0";
    return "bad-op";
  });
}
