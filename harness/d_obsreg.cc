// Engine D harness for the concurrency reading of C17's "a removed callback (or one whose instrument was destroyed) is never
// invoked again" / "every registered callback is invoked exactly once per collection": the UNMODIFIED
// sdk/src/metrics/state/observable_registry.cc and async_instruments.cc under the scheduler shim; real
// sdk::metrics::ObservableInstrument objects over a logging stub AsyncWritableMetricStorage, one shared ObservableRegistry.
//
//   obr <ninst 1..2> <init: digits of the callbacks registered at the start, or -> <script0> [.. <script3>] ; t<i> ; ...
//     callback ids 0..3, callback c belongs to instrument c % ninst.  script = comma separated ops of one managed thread:
//       o  registry.Observe()     a<c>  instrument->AddCallback(c)     r<c>  instrument->RemoveCallback(c)
//       d<i>  destroy instrument i (~ObservableInstrument -> CleanupCallback)
//     A well-formed application (anything else is `bad-op`): every callback is added / removed by ONE thread and added only
//     while it is not registered; an instrument is destroyed once, by the only thread that touches its callbacks, after
//     its last add / remove.  Each callback has a scheduling point at its begin and at its end, so a schedule can park a
//     collector inside a callback.  After the schedule everything is drained, then one more managed thread observes once.
// Output: per action the trace of the step (`observe begin`, `lock m`, `cb <c> begin`, `cb <c> end`, `st <inst> <value>` =
// the storage was given the observation, `unlock m`, `observe end`, `add <c> call|ret`, `remove <c> call|ret`,
// `cleanup <i> call|ret`), the drain, then   done=<0|1> calls=[invocations per callback] cbs=[registered at the end]
#include "common.h"

#define private public
#include "opentelemetry/sdk/metrics/state/observable_registry.h"
#undef private
#include "opentelemetry/metrics/observer_result.h"
#include "opentelemetry/sdk/metrics/async_instruments.h"
#include "opentelemetry/sdk/metrics/instruments.h"
#include "opentelemetry/sdk/metrics/state/metric_storage.h"

namespace sm     = opentelemetry::sdk::metrics;
namespace mapi   = opentelemetry::metrics;
namespace nostd  = opentelemetry::nostd;
namespace common = opentelemetry::common;

struct CbState
{
  int id;
  int calls;
};

static void callback(mapi::ObserverResult res, void *state)
{
  auto *cs = static_cast<CbState *>(state);
  detsched::point("cb", state);
  cs->calls++;
  detsched::note("cb " + std::to_string(cs->id) + " begin");
  if (nostd::holds_alternative<nostd::shared_ptr<mapi::ObserverResultT<int64_t>>>(res))
    nostd::get<nostd::shared_ptr<mapi::ObserverResultT<int64_t>>>(res)->Observe(static_cast<int64_t>(cs->id));
  detsched::point("cbend", state);
  detsched::note("cb " + std::to_string(cs->id) + " end");
}

class HStorage final : public sm::AsyncWritableMetricStorage
{
public:
  explicit HStorage(int inst) : inst_(inst) {}
  void RecordLong(const std::unordered_map<sm::MetricAttributes, int64_t, sm::AttributeHashGenerator> &m,
                  common::SystemTimestamp) noexcept override
  {
    long long v = -1;
    for (auto &kv : m) v = kv.second;  // one measurement (empty attribute set) per callback
    detsched::note("st " + std::to_string(inst_) + " " + std::to_string(v));
  }
  void RecordDouble(const std::unordered_map<sm::MetricAttributes, double, sm::AttributeHashGenerator> &,
                    common::SystemTimestamp) noexcept override
  {
    detsched::note("st " + std::to_string(inst_) + " double");
  }

private:
  int inst_;
};

struct Op
{
  char kind;
  int arg;
};

static bool parse_script(const std::string &s, std::vector<Op> &ops)
{
  if (s == "-") return true;
  size_t i = 0;
  while (i <= s.size())
  {
    size_t j        = s.find(',', i);
    std::string tok = s.substr(i, j == std::string::npos ? std::string::npos : j - i);
    if (tok.empty()) return false;
    char k = tok[0];
    if (k == 'o')
    {
      if (tok.size() != 1) return false;
      ops.push_back({k, 0});
    }
    else if (k == 'a' || k == 'r' || k == 'd')
    {
      if (tok.size() != 2 || tok[1] < '0' || tok[1] > '3') return false;
      ops.push_back({k, tok[1] - '0'});
    }
    else
      return false;
    if (j == std::string::npos) break;
    i = j + 1;
  }
  return ops.size() <= 8;
}

static std::string handle(const std::vector<std::string> &t)
{
  auto ops = vh::split_ops(t, 1);
  if (ops.empty() || ops[0].size() < 3 || ops[0].size() > 6) return "bad-op";
  if (ops[0][0] != "1" && ops[0][0] != "2") return "bad-op";
  const int ninst = ops[0][0][0] - '0';
  bool reg0[4]    = {false, false, false, false};
  std::vector<int> init;
  if (ops[0][1] != "-")
  {
    for (char c : ops[0][1])
    {
      if (c < '0' || c > '3' || reg0[c - '0']) return "bad-op";
      reg0[c - '0'] = true;
      init.push_back(c - '0');
    }
  }
  std::vector<std::vector<Op>> scripts;
  for (size_t i = 2; i < ops[0].size(); i++)
  {
    scripts.emplace_back();
    if (!parse_script(ops[0][i], scripts.back())) return "bad-op";
  }
  // the application is well-formed
  {
    int owner[4]      = {-1, -1, -1, -1};  // thread that adds / removes callback c
    int toucher[2]    = {-1, -1};          // thread that touches callbacks of instrument i, -2 = several
    int destroyer[2]  = {-1, -1};
    for (size_t th = 0; th < scripts.size(); th++)
    {
      bool reg[4]  = {reg0[0], reg0[1], reg0[2], reg0[3]};
      bool dead[2] = {false, false};
      for (auto &op : scripts[th])
      {
        if (op.kind == 'a' || op.kind == 'r')
        {
          int c = op.arg, i = c % ninst;
          if (owner[c] >= 0 && owner[c] != (int)th) return "bad-op";
          owner[c] = (int)th;
          if (dead[i]) return "bad-op";
          if (op.kind == 'a' && reg[c]) return "bad-op";
          reg[c] = op.kind == 'a';
          if (toucher[i] == -1) toucher[i] = (int)th;
          else if (toucher[i] != (int)th) toucher[i] = -2;
        }
        else if (op.kind == 'd')
        {
          if (op.arg >= ninst || destroyer[op.arg] >= 0) return "bad-op";
          destroyer[op.arg] = (int)th;
          dead[op.arg]      = true;
        }
      }
    }
    for (int i = 0; i < ninst; i++)
      if (destroyer[i] >= 0 && toucher[i] != -1 && toucher[i] != destroyer[i]) return "bad-op";
  }
  std::vector<int> acts;
  const size_t nth = scripts.size();
  for (size_t i = 1; i < ops.size(); i++)
  {
    if (ops[i].size() != 1 || ops[i][0].size() < 2 || ops[i][0].size() > 4 || ops[i][0][0] != 't') return "bad-op";
    char *e         = nullptr;
    unsigned long v = strtoul(ops[i][0].c_str() + 1, &e, 10);
    if (*e != 0) return "bad-op";
    acts.push_back(v >= nth ? -1 : (int)v);
  }

  detsched::reset();
  std::vector<std::string> outs;
  CbState states[4] = {{0, 0}, {1, 0}, {2, 0}, {3, 0}};
  {
    auto registry = std::make_shared<sm::ObservableRegistry>();
    detsched::name_object(&registry->callbacks_m_, "m");
    std::unique_ptr<sm::ObservableInstrument> inst[2];
    for (int i = 0; i < ninst; i++)
    {
      sm::InstrumentDescriptor d = {"i" + std::to_string(i), "", "", sm::InstrumentType::kObservableCounter, sm::InstrumentValueType::kLong};
      inst[i].reset(new sm::ObservableInstrument(d, std::unique_ptr<sm::AsyncWritableMetricStorage>(new HStorage(i)), registry));
    }
    for (int c : init) inst[c % ninst]->AddCallback(callback, &states[c]);
    auto observe = [&] {
      detsched::note("observe begin");
      registry->Observe(common::SystemTimestamp(std::chrono::system_clock::now()));
      detsched::note("observe end");
    };
    for (size_t th = 0; th < nth; th++)
    {
      detsched::spawn([&, th] {
        for (auto &op : scripts[th])
        {
          detsched::point("begin", nullptr);
          std::string a = std::to_string(op.arg);
          switch (op.kind)
          {
            case 'o':
              observe();
              break;
            case 'a':
              detsched::note("add " + a + " call");
              inst[op.arg % ninst]->AddCallback(callback, &states[op.arg]);
              detsched::note("add " + a + " ret");
              break;
            case 'r':
              detsched::note("remove " + a + " call");
              inst[op.arg % ninst]->RemoveCallback(callback, &states[op.arg]);
              detsched::note("remove " + a + " ret");
              break;
            default:
              detsched::note("cleanup " + a + " call");
              inst[op.arg].reset();
              detsched::note("cleanup " + a + " ret");
              break;
          }
        }
      });
    }
    for (int a : acts) outs.push_back(a < 0 ? std::string("x") : detsched::run(a));
    std::string dtrace;
    bool done = detsched::drain(4000, &dtrace);
    if (done)
    {
      detsched::spawn([&] {
        detsched::point("begin", nullptr);
        observe();
      });
      done = detsched::drain(4000, &dtrace);
    }
    if (!dtrace.empty()) outs.push_back(dtrace.substr(0, dtrace.size() - 3));
    std::string sum = std::string("done=") + (done ? "1" : "0") + " calls=[";
    for (int c = 0; c < 4; c++) sum += (c ? "," : "") + std::to_string(states[c].calls);
    sum += "] cbs=[";
    if (done)
    {
      bool first = true;
      for (auto &r : registry->callbacks_)
      {
        sum += (first ? "" : ",") + std::to_string(static_cast<CbState *>(r->state)->id);
        first = false;
      }
    }
    sum += "]";
    outs.push_back(sum);
    if (!done)
    {
      std::string o = vh::join(outs, " ; ");
      fputs(o.c_str(), stdout);
      fputc('\n', stdout);
      fflush(stdout);
      _exit(77);
    }
    detsched::reset();
  }
  return vh::join(outs, " ; ");
}

int main()
{
  return vh::run_lines([](const std::vector<std::string> &t) -> std::string {
    if (t.empty()) return "bad-op";
    if (t[0] == "obr") return handle(t);
    return "bad-op";
  });
}
