// Correspondence harness for C09 (W3C trace context) and C14 (TraceState): calls the real
// header-only API of /repo in-process on the lines the Lean model driver also reads.
#include "common.h"

#include "opentelemetry/context/context.h"
#include "opentelemetry/context/propagation/text_map_propagator.h"
#include "opentelemetry/trace/context.h"
#include "opentelemetry/trace/default_span.h"
#include "opentelemetry/trace/propagation/http_trace_context.h"
#include "opentelemetry/trace/span_context.h"
#include "opentelemetry/trace/trace_state.h"

#include <map>

namespace trace_api = opentelemetry::trace;
namespace nostd     = opentelemetry::nostd;
namespace context   = opentelemetry::context;

// carrier whose values live in exact-size heap blocks
class ExactCarrier : public context::propagation::TextMapCarrier
{
public:
  nostd::string_view Get(nostd::string_view key) const noexcept override
  {
    auto it = in_.find(std::string(key));
    if (it == in_.end()) return "";
    return nostd::string_view(it->second->data(), it->second->size());
  }
  void Set(nostd::string_view key, nostd::string_view value) noexcept override
  {
    out_[std::string(key)] = std::string(value.data(), value.size());
  }
  void Put(const std::string &k, const std::string &v) { in_[k].reset(new vh::Exact(v)); }
  std::map<std::string, std::unique_ptr<vh::Exact>> in_;
  std::map<std::string, std::string> out_;
};

static std::string show_entries(const trace_api::TraceState &ts)
{
  std::string s = "[";
  bool first    = true;
  ts.GetAllEntries([&](nostd::string_view k, nostd::string_view v) {
    if (!first) s += ",";
    first = false;
    s += vh::to_hex(k.data(), k.size()) + ":" + vh::to_hex(v.data(), v.size());
    return true;
  });
  return s + "]";
}

static std::string show_ctx(const trace_api::SpanContext &sc)
{
  char tid[16], sid[8];
  sc.trace_id().CopyBytesTo(nostd::span<uint8_t, 16>(reinterpret_cast<uint8_t *>(tid), 16));
  sc.span_id().CopyBytesTo(nostd::span<uint8_t, 8>(reinterpret_cast<uint8_t *>(sid), 8));
  char fl = static_cast<char>(sc.trace_flags().flags());
  return "tid=" + vh::to_hex(tid, 16) + " sid=" + vh::to_hex(sid, 8) + " fl=" + vh::to_hex(&fl, 1) +
         " remote=" + (sc.IsRemote() ? "1" : "0") + " ts=" + show_entries(*sc.trace_state());
}

static std::string handle_tc(const std::vector<std::string> &t)
{
  trace_api::propagation::HttpTraceContext prop;
  if (t.size() == 6 && (t[1] == "inject" || t[1] == "roundtrip"))
  {
    std::string tid, sid, fl, ts;
    if (!vh::from_hex(t[2], tid) || !vh::from_hex(t[3], sid) || !vh::from_hex(t[4], fl) ||
        !vh::from_hex(t[5], ts) || tid.size() != 16 || sid.size() != 8 || fl.size() != 1)
      return "bad-op";
    vh::Exact tsx(ts);
    auto state = trace_api::TraceState::FromHeader(nostd::string_view(tsx.data(), tsx.size()));
    trace_api::SpanContext sc(
        trace_api::TraceId(nostd::span<const uint8_t, 16>(reinterpret_cast<const uint8_t *>(tid.data()), 16)),
        trace_api::SpanId(nostd::span<const uint8_t, 8>(reinterpret_cast<const uint8_t *>(sid.data()), 8)),
        trace_api::TraceFlags(static_cast<uint8_t>(fl[0])), false, state);
    nostd::shared_ptr<trace_api::Span> sp{new trace_api::DefaultSpan(sc)};
    context::Context ctx;
    ctx = trace_api::SetSpan(ctx, sp);
    ExactCarrier c;
    prop.Inject(c, ctx);
    if (c.out_.empty()) return "none";
    if (t[1] == "roundtrip")
    {
      // feed exactly what was injected into a fresh carrier (exact-size blocks) and extract
      ExactCarrier c2;
      for (auto &kv : c.out_) c2.Put(kv.first, kv.second);
      context::Context ctx2;
      auto out2 = prop.Extract(c2, ctx2);
      if (out2 == ctx2) return "none";
      return show_ctx(trace_api::GetSpan(out2)->GetContext());
    }
    std::string r = "tp=" + (c.out_.count("traceparent") ? vh::to_hex(c.out_["traceparent"]) : std::string("unset"));
    r += " ts=" + (c.out_.count("tracestate") ? vh::to_hex(c.out_["tracestate"]) : std::string("unset"));
    for (auto &kv : c.out_)
      if (kv.first != "traceparent" && kv.first != "tracestate") r += " extra=" + vh::to_hex(kv.first);
    return r;
  }
  if (t.size() == 4 && t[1] == "extract")
  {
    std::string tp, ts;
    if (!vh::from_hex(t[2], tp) || !vh::from_hex(t[3], ts)) return "bad-op";
    ExactCarrier c;
    // "-" stands for an absent header as well as an empty one: Get returns "" for both
    if (t[2] != "-") c.Put("traceparent", tp);
    if (t[3] != "-") c.Put("tracestate", ts);
    context::Context ctx;  // the caller's context: empty
    // a marker binding, to see that "unchanged" really is the caller's context
    ctx          = ctx.SetValue("marker", static_cast<int64_t>(77));
    auto out     = prop.Extract(c, ctx);
    bool same    = (out == ctx);
    auto span    = trace_api::GetSpan(out);
    auto sc      = span->GetContext();
    bool has_key = out.HasKey(trace_api::kSpanKey);
    if (same)
    {
      if (has_key) return "ERR caller-context-has-span";
      return "none";
    }
    if (!sc.IsValid()) return "installed-invalid " + show_ctx(sc);
    auto mk = out.GetValue("marker");
    if (!nostd::holds_alternative<int64_t>(mk) || nostd::get<int64_t>(mk) != 77) return "ERR marker-lost";
    return show_ctx(sc);
  }
  return "bad-op";
}

static std::string handle_ts(const std::vector<std::string> &t)
{
  using TS = nostd::shared_ptr<trace_api::TraceState>;
  std::vector<TS> states;
  std::vector<std::string> shown;  // what each state printed when it was created
  states.push_back(trace_api::TraceState::GetDefault());
  shown.push_back(show_entries(*states[0]));
  std::vector<std::string> outs;
  auto push = [&](TS s) {
    states.push_back(s);
    shown.push_back(show_entries(*s));
    return shown.back();
  };
  for (auto &op : vh::split_ops(t, 1))
  {
    std::string o = "bad-op";
    std::string a, b;
    auto idx = [&](const std::string &s, size_t &i) {
      char *e = nullptr;
      i       = strtoul(s.c_str(), &e, 10);
      return *e == 0 && !s.empty() && i < states.size();
    };
    size_t i = 0;
    if (op.size() == 2 && op[0] == "from" && vh::from_hex(op[1], a))
    {
      vh::Exact x(a);
      o = push(trace_api::TraceState::FromHeader(nostd::string_view(x.data(), x.size())));
    }
    else if (op.size() == 4 && op[0] == "set" && idx(op[1], i) && vh::from_hex(op[2], a) && vh::from_hex(op[3], b))
    {
      vh::Exact k(a), v(b);
      o = push(states[i]->Set(nostd::string_view(k.data(), k.size()), nostd::string_view(v.data(), v.size())));
    }
    else if (op.size() == 3 && op[0] == "del" && idx(op[1], i) && vh::from_hex(op[2], a))
    {
      vh::Exact k(a);
      o = push(states[i]->Delete(nostd::string_view(k.data(), k.size())));
    }
    else if (op.size() == 3 && op[0] == "get" && idx(op[1], i) && vh::from_hex(op[2], a))
    {
      vh::Exact k(a);
      std::string val = "stale";
      bool ok         = states[i]->Get(nostd::string_view(k.data(), k.size()), val);
      o               = ok ? "v=" + vh::to_hex(val) : std::string("none");
    }
    else if (op.size() == 2 && op[0] == "hdr" && idx(op[1], i))
    {
      o = "h=" + vh::to_hex(states[i]->ToHeader());
    }
    else if (op.size() == 2 && op[0] == "vk" && vh::from_hex(op[1], a))
    {
      vh::Exact k(a);
      o = trace_api::TraceState::IsValidKey(nostd::string_view(k.data(), k.size())) ? "1" : "0";
    }
    else if (op.size() == 2 && op[0] == "vv" && vh::from_hex(op[1], a))
    {
      vh::Exact k(a);
      o = trace_api::TraceState::IsValidValue(nostd::string_view(k.data(), k.size())) ? "1" : "0";
    }
    // "the original object is never modified": every earlier state must still print as it did
    for (size_t j = 0; j < states.size(); j++)
      if (show_entries(*states[j]) != shown[j]) o += " MUTATED" + std::to_string(j);
    outs.push_back(o);
  }
  return vh::join(outs, " ; ");
}

int main()
{
  return vh::run_lines([](const std::vector<std::string> &t) -> std::string {
    if (t.empty()) return "bad-op";
    if (t[0] == "tc") return handle_tc(t);
    if (t[0] == "ts") return handle_ts(t);
    return "bad-op";
  });
}
