// Correspondence harness for C09 (W3C trace context) and C14 (TraceState): calls the real
// header-only API of /repo in-process on the lines the Lean model driver also reads.
#include "common.h"

#include "opentelemetry/context/context.h"
#include "opentelemetry/context/propagation/text_map_propagator.h"
#include "opentelemetry/trace/context.h"
#include "opentelemetry/trace/default_span.h"
#include "opentelemetry/trace/propagation/http_trace_context.h"
#include "opentelemetry/trace/span_context.h"
#include "opentelemetry/trace/trace_state.h"

#include <map>

namespace trace_api = opentelemetry::trace;
namespace nostd     = opentelemetry::nostd;
namespace context   = opentelemetry::context;

// carrier whose values live in exact-size heap blocks
class ExactCarrier : public context::propagation::TextMapCarrier
{
public:
  nostd::string_view Get(nostd::string_view key) const noexcept override
  {
    auto it = in_.find(std::string(key));
    if (it == in_.end()) return "";
    return nostd::string_view(it->second->data(), it->second->size());
  }
  void Set(nostd::string_view key, nostd::string_view value) noexcept override
  {
    out_[std::string(key)] = std::string(value.data(), value.size());
  }
  void Put(const std::string &k, const std::string &v) { in_[k].reset(new vh::Exact(v)); }
  std::map<std::string, std::unique_ptr<vh::Exact>> in_;
  std::map<std::string, std::string> out_;
};

static std::string show_entries(const trace_api::TraceState &ts)
{
  std::string s = "[";
  bool first    = true;
  ts.GetAllEntries([&](nostd::string_view k, nostd::string_view v) {
    if (!first) s += ",";
    first = false;
    s += vh::to_hex(k.data(), k.size()) + ":" + vh::to_hex(v.data(), v.size());
    return true;
  });
  return s + "]";
}

// "the same trace id, span id, flags byte": every accessor of the ids / flags / context must tell the same story as
// CopyBytesTo + flags() (which show_ctx prints).  Returns "" or " ACC:<accessor>" (never printed by the model).
static std::string acc_check(const trace_api::SpanContext &sc)
{
  uint8_t tid[16], sid[8], fb[1] = {0x5a};
  sc.trace_id().CopyBytesTo(nostd::span<uint8_t, 16>(tid, 16));
  sc.span_id().CopyBytesTo(nostd::span<uint8_t, 8>(sid, 8));
  const uint8_t fl = sc.trace_flags().flags();
  std::string bad;
  auto chk = [&](bool ok, const char *what) {
    if (!ok) bad += std::string(" ACC:") + what;
  };
  auto tspan = sc.trace_id().Id();
  auto sspan = sc.span_id().Id();
  chk(tspan.size() == 16 && memcmp(tspan.data(), tid, 16) == 0, "TraceId::Id");
  chk(sspan.size() == 8 && memcmp(sspan.data(), sid, 8) == 0, "SpanId::Id");
  sc.trace_flags().CopyBytesTo(nostd::span<uint8_t, 1>(fb, 1));
  chk(fb[0] == fl, "TraceFlags::CopyBytesTo");
  chk(sc.trace_flags().IsSampled() == ((fl & 1) != 0), "TraceFlags::IsSampled");
  chk(sc.trace_flags().IsRandom() == ((fl & 2) != 0), "TraceFlags::IsRandom");
  chk(sc.IsSampled() == ((fl & 1) != 0), "SpanContext::IsSampled");
  // lower-case base16 of each part
  char th[32], sh[16], fh[2];
  sc.trace_id().ToLowerBase16(nostd::span<char, 32>(th, 32));
  sc.span_id().ToLowerBase16(nostd::span<char, 16>(sh, 16));
  sc.trace_flags().ToLowerBase16(nostd::span<char, 2>(fh, 2));
  chk(std::string(th, 32) == vh::to_hex(reinterpret_cast<char *>(tid), 16), "TraceId::ToLowerBase16");
  chk(std::string(sh, 16) == vh::to_hex(reinterpret_cast<char *>(sid), 8), "SpanId::ToLowerBase16");
  chk(std::string(fh, 2) == vh::to_hex(reinterpret_cast<const char *>(&fl), 1), "TraceFlags::ToLowerBase16");
  // equality operators: a context rebuilt from the bytes is equal, one differing in a single bit is not
  trace_api::TraceId t2(nostd::span<const uint8_t, 16>(tid, 16));
  trace_api::SpanId s2(nostd::span<const uint8_t, 8>(sid, 8));
  trace_api::TraceFlags f2(fl);
  chk(t2 == sc.trace_id() && !(t2 != sc.trace_id()), "TraceId::operator==");
  chk(s2 == sc.span_id() && !(s2 != sc.span_id()), "SpanId::operator==");
  chk(f2 == sc.trace_flags() && !(f2 != sc.trace_flags()), "TraceFlags::operator==");
  chk((trace_api::TraceFlags() == sc.trace_flags()) == (fl == 0), "TraceFlags()");
  chk((trace_api::TraceFlags() != sc.trace_flags()) == (fl != 0), "TraceFlags::operator!=");
  trace_api::SpanContext same(t2, s2, f2, !sc.IsRemote());
  chk(same == sc && sc == same, "SpanContext::operator==");
  uint8_t sid3[8], tid3[16];
  memcpy(sid3, sid, 8);
  memcpy(tid3, tid, 16);
  sid3[7] ^= 1;
  tid3[0] ^= 0x80;
  trace_api::SpanId s3(nostd::span<const uint8_t, 8>(sid3, 8));
  trace_api::TraceId t3(nostd::span<const uint8_t, 16>(tid3, 16));
  chk(s3 != sc.span_id() && !(s3 == sc.span_id()), "SpanId::operator!=");
  chk(t3 != sc.trace_id() && !(t3 == sc.trace_id()), "TraceId::operator!=");
  chk(!(trace_api::SpanContext(t2, s3, f2, sc.IsRemote()) == sc), "SpanContext::operator==/span");
  chk(!(trace_api::SpanContext(t3, s2, f2, sc.IsRemote()) == sc), "SpanContext::operator==/trace");
  chk(!(trace_api::SpanContext(t2, s2, trace_api::TraceFlags(static_cast<uint8_t>(fl ^ 0x10)), sc.IsRemote()) == sc),
      "SpanContext::operator==/flags");
  // Empty() of the trace state agrees with the enumeration, and Get(key) answers the (first) listed value of every key
  chk(sc.trace_state()->Empty() == (show_entries(*sc.trace_state()) == "[]"), "TraceState::Empty");
  std::vector<std::pair<std::string, std::string>> ents;
  sc.trace_state()->GetAllEntries([&](nostd::string_view k, nostd::string_view v) {
    ents.emplace_back(std::string(k.data(), k.size()), std::string(v.data(), v.size()));
    return true;
  });
  for (size_t i = 0; i < ents.size(); i++)
  {
    bool first = true;
    for (size_t j = 0; j < i; j++) first = first && ents[j].first != ents[i].first;
    if (!first) continue;
    vh::Exact k(ents[i].first);
    std::string val = "stale";
    bool ok         = sc.trace_state()->Get(nostd::string_view(k.data(), k.size()), val);
    chk(ok && val == ents[i].second, "TraceState::Get");
  }
  return bad;
}

static std::string show_ctx(const trace_api::SpanContext &sc)
{
  char tid[16], sid[8];
  sc.trace_id().CopyBytesTo(nostd::span<uint8_t, 16>(reinterpret_cast<uint8_t *>(tid), 16));
  sc.span_id().CopyBytesTo(nostd::span<uint8_t, 8>(reinterpret_cast<uint8_t *>(sid), 8));
  char fl = static_cast<char>(sc.trace_flags().flags());
  return "tid=" + vh::to_hex(tid, 16) + " sid=" + vh::to_hex(sid, 8) + " fl=" + vh::to_hex(&fl, 1) +
         " remote=" + (sc.IsRemote() ? "1" : "0") + " ts=" + show_entries(*sc.trace_state()) + acc_check(sc);
}

static std::string handle_tc(const std::vector<std::string> &t)
{
  trace_api::propagation::HttpTraceContext prop;
  const bool by_set = t.size() == 6 && (t[1] == "injects" || t[1] == "roundtrips");
  if (t.size() == 6 && (t[1] == "inject" || t[1] == "roundtrip" || by_set))
  {
    std::string tid, sid, fl, ts;
    if (!vh::from_hex(t[2], tid) || !vh::from_hex(t[3], sid) || !vh::from_hex(t[4], fl) ||
        !vh::from_hex(t[5], ts) || tid.size() != 16 || sid.size() != 8 || fl.size() != 1)
      return "bad-op";
    vh::Exact tsx(ts);
    nostd::shared_ptr<trace_api::TraceState> state;
    if (!by_set)
      state = trace_api::TraceState::FromHeader(nostd::string_view(tsx.data(), tsx.size()));
    else
    {
      // the same list built member by member with Set, last member first (Set places the new member first);
      // the caller's key / value buffers are released right after each call
      std::vector<std::pair<std::string, std::string>> mem;
      size_t b = 0;
      while (b <= ts.size() && !ts.empty())
      {
        size_t e = ts.find(',', b);
        if (e == std::string::npos) e = ts.size();
        std::string m = ts.substr(b, e - b);
        size_t q      = m.find('=');
        if (q == std::string::npos) return "bad-op";
        mem.emplace_back(m.substr(0, q), m.substr(q + 1));
        b = e + 1;
      }
      state = trace_api::TraceState::GetDefault();
      for (size_t j = mem.size(); j-- > 0;)
      {
        vh::Exact k(mem[j].first), v(mem[j].second);
        state = state->Set(nostd::string_view(k.data(), k.size()), nostd::string_view(v.data(), v.size()));
      }
    }
    const trace_api::TraceId the_tid(nostd::span<const uint8_t, 16>(reinterpret_cast<const uint8_t *>(tid.data()), 16));
    const trace_api::SpanId the_sid(nostd::span<const uint8_t, 8>(reinterpret_cast<const uint8_t *>(sid.data()), 8));
    const trace_api::TraceFlags the_fl(static_cast<uint8_t>(fl[0]));
    // `injects` with an empty list: the constructor's defaulted trace-state argument
    trace_api::SpanContext sc = (by_set && ts.empty()) ? trace_api::SpanContext(the_tid, the_sid, the_fl, false)
                                                       : trace_api::SpanContext(the_tid, the_sid, the_fl, false, state);
    nostd::shared_ptr<trace_api::Span> sp{new trace_api::DefaultSpan(sc)};
    context::Context ctx;
    ctx = trace_api::SetSpan(ctx, sp);
    ExactCarrier c;
    prop.Inject(c, ctx);
    if (c.out_.empty()) return "none";
    if (t[1] == "roundtrip" || t[1] == "roundtrips")
    {
      // feed exactly what was injected into a fresh carrier (exact-size blocks) and extract
      ExactCarrier c2;
      for (auto &kv : c.out_) c2.Put(kv.first, kv.second);
      context::Context ctx2;
      auto out2 = prop.Extract(c2, ctx2);
      if (out2 == ctx2) return "none";
      return show_ctx(trace_api::GetSpan(out2)->GetContext());
    }
    std::string r = "tp=" + (c.out_.count("traceparent") ? vh::to_hex(c.out_["traceparent"]) : std::string("unset"));
    r += " ts=" + (c.out_.count("tracestate") ? vh::to_hex(c.out_["tracestate"]) : std::string("unset"));
    for (auto &kv : c.out_)
      if (kv.first != "traceparent" && kv.first != "tracestate") r += " extra=" + vh::to_hex(kv.first);
    return r;
  }
  if (t.size() == 2 && t[1] == "inject0")
  {
    // a context that holds no span at all: GetSpan yields the invalid default span, nothing may be written
    context::Context ctx;
    ctx = ctx.SetValue("marker", static_cast<int64_t>(77));
    ExactCarrier c;
    prop.Inject(c, ctx);
    if (c.out_.empty()) return "none";
    std::string r = "wrote";
    for (auto &kv : c.out_) r += " " + vh::to_hex(kv.first) + "=" + vh::to_hex(kv.second);
    return r;
  }
  if (t.size() == 3 && t[1] == "fields")
  {
    // Fields(): the header names this propagator reads / writes; <n> = the callback answers false on its n-th call
    char *e  = nullptr;
    size_t n = strtoul(t[2].c_str(), &e, 10);
    if (*e != 0 || t[2].empty()) return "bad-op";
    std::vector<std::string> seen;
    size_t calls = 0;
    const context::propagation::TextMapPropagator &base = prop;
    bool r = base.Fields([&](nostd::string_view f) {
      seen.push_back(vh::to_hex(f.data(), f.size()));
      return ++calls != n;
    });
    return "f=[" + vh::join(seen, ",") + "] r=" + (r ? "1" : "0");
  }
  if (t.size() == 4 && t[1] == "idhex" && (t[2] == "t" || t[2] == "s" || t[2] == "f"))
  {
    // the public static helpers TraceIdFromHex / SpanIdFromHex / TraceFlagsFromHex on an exact-size buffer
    std::string h;
    if (!vh::from_hex(t[3], h)) return "bad-op";
    vh::Exact x(h);
    nostd::string_view sv(x.data(), x.size());
    using P = trace_api::propagation::HttpTraceContext;
    if (t[2] == "t")
    {
      char b[16];
      P::TraceIdFromHex(sv).CopyBytesTo(nostd::span<uint8_t, 16>(reinterpret_cast<uint8_t *>(b), 16));
      return "id=" + vh::to_hex(b, 16);
    }
    if (t[2] == "s")
    {
      char b[8];
      P::SpanIdFromHex(sv).CopyBytesTo(nostd::span<uint8_t, 8>(reinterpret_cast<uint8_t *>(b), 8));
      return "id=" + vh::to_hex(b, 8);
    }
    char b = static_cast<char>(P::TraceFlagsFromHex(sv).flags());
    return "id=" + vh::to_hex(&b, 1);
  }
  if (t.size() == 4 && t[1] == "hex2bin")
  {
    // detail::HexToBinary into an exact-size heap buffer pre-filled with 0xaa
    char *e  = nullptr;
    size_t n = strtoul(t[2].c_str(), &e, 10);
    std::string h;
    if (*e != 0 || t[2].empty() || n > 64 || !vh::from_hex(t[3], h)) return "bad-op";
    vh::Exact x(h);
    std::unique_ptr<uint8_t[]> buf(new uint8_t[n ? n : 1]);
    memset(buf.get(), 0xaa, n ? n : 1);
    bool r = trace_api::propagation::detail::HexToBinary(nostd::string_view(x.data(), x.size()), buf.get(), n);
    return std::string("r=") + (r ? "1" : "0") + " buf=" + vh::to_hex(reinterpret_cast<char *>(buf.get()), n);
  }
  if (t.size() == 3 && t[1] == "ishex")
  {
    std::string h;
    if (!vh::from_hex(t[2], h)) return "bad-op";
    vh::Exact x(h);
    return trace_api::propagation::detail::IsValidHex(nostd::string_view(x.data(), x.size())) ? "1" : "0";
  }
  if (t.size() == 5 && t[1] == "split")
  {
    // detail::SplitString into an array of exactly <count> views (heap, so writing a (count+1)-th is an ASan report)
    std::string sep, h;
    char *e  = nullptr;
    size_t n = strtoul(t[3].c_str(), &e, 10);
    if (*e != 0 || t[3].empty() || n > 64 || !vh::from_hex(t[2], sep) || sep.size() != 1 || !vh::from_hex(t[4], h))
      return "bad-op";
    vh::Exact x(h);
    std::unique_ptr<nostd::string_view[]> res(new nostd::string_view[n]);
    size_t k = trace_api::propagation::detail::SplitString(nostd::string_view(x.data(), x.size()), sep[0], res.get(), n);
    if (k > n) return "ERR split-count " + std::to_string(k);
    std::vector<std::string> toks;
    for (size_t i = 0; i < k; i++) toks.push_back(vh::to_hex(res[i].data(), res[i].size()));
    return "n=" + std::to_string(k) + " [" + vh::join(toks, ",") + "]";
  }
  if (t.size() == 4 && t[1] == "extractp")
  {
    // the caller's context already holds a (valid, local) span: a rejected header must leave exactly that span in
    // place, an accepted one must replace it in the returned context only
    std::string tp, ts;
    if (!vh::from_hex(t[2], tp) || !vh::from_hex(t[3], ts)) return "bad-op";
    ExactCarrier c;
    if (t[2] != "-") c.Put("traceparent", tp);
    if (t[3] != "-") c.Put("tracestate", ts);
    uint8_t ptid[16], psid[8];
    memset(ptid, 0x11, 16);
    memset(psid, 0x22, 8);
    const trace_api::SpanContext prior(trace_api::TraceId(nostd::span<const uint8_t, 16>(ptid, 16)),
                                       trace_api::SpanId(nostd::span<const uint8_t, 8>(psid, 8)),
                                       trace_api::TraceFlags(1), false);
    context::Context ctx;
    ctx = ctx.SetValue("marker", static_cast<int64_t>(77));
    ctx = trace_api::SetSpan(ctx, nostd::shared_ptr<trace_api::Span>(new trace_api::DefaultSpan(prior)));
    auto out  = prop.Extract(c, ctx);
    bool same = (out == ctx);
    auto now  = trace_api::GetSpan(ctx)->GetContext();
    if (!(now == prior) || now.IsRemote()) return "ERR caller-context-mutated " + show_ctx(now);
    auto sc = trace_api::GetSpan(out)->GetContext();
    auto mk = out.GetValue("marker");
    if (!nostd::holds_alternative<int64_t>(mk) || nostd::get<int64_t>(mk) != 77) return "ERR marker-lost";
    if (same) return "none";
    if (!sc.IsValid()) return "installed-invalid " + show_ctx(sc);
    return show_ctx(sc);
  }
  if (t.size() == 4 && t[1] == "extract")
  {
    std::string tp, ts;
    if (!vh::from_hex(t[2], tp) || !vh::from_hex(t[3], ts)) return "bad-op";
    ExactCarrier c;
    // "-" stands for an absent header as well as an empty one: Get returns "" for both
    if (t[2] != "-") c.Put("traceparent", tp);
    if (t[3] != "-") c.Put("tracestate", ts);
    context::Context ctx;  // the caller's context: empty
    // a marker binding, to see that "unchanged" really is the caller's context
    ctx          = ctx.SetValue("marker", static_cast<int64_t>(77));
    auto out     = prop.Extract(c, ctx);
    bool same    = (out == ctx);
    auto span    = trace_api::GetSpan(out);
    auto sc      = span->GetContext();
    bool has_key = out.HasKey(trace_api::kSpanKey);
    if (same)
    {
      if (has_key) return "ERR caller-context-has-span";
      return "none";
    }
    if (!sc.IsValid()) return "installed-invalid " + show_ctx(sc);
    auto mk = out.GetValue("marker");
    if (!nostd::holds_alternative<int64_t>(mk) || nostd::get<int64_t>(mk) != 77) return "ERR marker-lost";
    return show_ctx(sc);
  }
  return "bad-op";
}

static std::string handle_ts(const std::vector<std::string> &t)
{
  using TS = nostd::shared_ptr<trace_api::TraceState>;
  std::vector<TS> states;
  std::vector<std::string> shown;  // what each state printed when it was created
  states.push_back(trace_api::TraceState::GetDefault());
  shown.push_back(show_entries(*states[0]));
  std::vector<std::string> outs;
  auto push = [&](TS s) {
    states.push_back(s);
    shown.push_back(show_entries(*s));
    return shown.back();
  };
  for (auto &op : vh::split_ops(t, 1))
  {
    std::string o = "bad-op";
    std::string a, b;
    auto idx = [&](const std::string &s, size_t &i) {
      char *e = nullptr;
      i       = strtoul(s.c_str(), &e, 10);
      return *e == 0 && !s.empty() && i < states.size();
    };
    size_t i = 0;
    if (op.size() == 2 && op[0] == "from" && vh::from_hex(op[1], a))
    {
      vh::Exact x(a);
      o = push(trace_api::TraceState::FromHeader(nostd::string_view(x.data(), x.size())));
    }
    else if (op.size() == 4 && op[0] == "set" && idx(op[1], i) && vh::from_hex(op[2], a) && vh::from_hex(op[3], b))
    {
      vh::Exact k(a), v(b);
      o = push(states[i]->Set(nostd::string_view(k.data(), k.size()), nostd::string_view(v.data(), v.size())));
    }
    else if (op.size() == 3 && op[0] == "del" && idx(op[1], i) && vh::from_hex(op[2], a))
    {
      vh::Exact k(a);
      o = push(states[i]->Delete(nostd::string_view(k.data(), k.size())));
    }
    else if (op.size() == 3 && op[0] == "get" && idx(op[1], i) && vh::from_hex(op[2], a))
    {
      vh::Exact k(a);
      std::string val = "stale";
      bool ok         = states[i]->Get(nostd::string_view(k.data(), k.size()), val);
      o               = ok ? "v=" + vh::to_hex(val) : std::string("none");
    }
    else if (op.size() == 2 && op[0] == "hdr" && idx(op[1], i))
    {
      o = "h=" + vh::to_hex(states[i]->ToHeader());
    }
    else if (op.size() == 2 && op[0] == "vk" && vh::from_hex(op[1], a))
    {
      vh::Exact k(a);
      o = trace_api::TraceState::IsValidKey(nostd::string_view(k.data(), k.size())) ? "1" : "0";
    }
    else if (op.size() == 2 && op[0] == "vv" && vh::from_hex(op[1], a))
    {
      vh::Exact k(a);
      o = trace_api::TraceState::IsValidValue(nostd::string_view(k.data(), k.size())) ? "1" : "0";
    }
    else if (op.size() == 2 && op[0] == "emp" && idx(op[1], i))
    {
      o = states[i]->Empty() ? "1" : "0";
    }
    else if (op.size() == 3 && op[0] == "ents" && idx(op[1], i))
    {
      // GetAllEntries with a callback that declines on its n-th call (0 = never)
      char *e  = nullptr;
      size_t n = strtoul(op[2].c_str(), &e, 10), calls = 0;
      if (*e == 0 && !op[2].empty())
      {
        std::vector<std::string> seen;
        bool r = states[i]->GetAllEntries([&](nostd::string_view k, nostd::string_view v) {
          seen.push_back(vh::to_hex(k.data(), k.size()) + ":" + vh::to_hex(v.data(), v.size()));
          return ++calls != n;
        });
        o = std::string("r=") + (r ? "1" : "0") + " [" + vh::join(seen, ",") + "]";
      }
    }
    else if (op.size() == 5 && op[0] == "tok" && vh::from_hex(op[1], a) && vh::from_hex(op[2], b) && a.size() == 1 &&
             b.size() == 1 && (op[3] == "0" || op[3] == "1"))
    {
      // the tokenizer itself, with explicit options: NumTokens, every next(), then reset() and every next() again
      std::string h;
      if (vh::from_hex(op[4], h))
      {
        vh::Exact x(h);
        opentelemetry::common::KeyValueStringTokenizerOptions opts;
        opts.member_separator     = a[0];
        opts.key_value_separator  = b[0];
        opts.ignore_empty_members = op[3] == "1";
        opentelemetry::common::KeyValueStringTokenizer tk(nostd::string_view(x.data(), x.size()), opts);
        auto pass = [&]() {
          std::vector<std::string> toks;
          bool valid;
          nostd::string_view k, v;
          size_t guard = 0;
          while (tk.next(valid, k, v) && guard++ < 100000)
            toks.push_back(valid ? vh::to_hex(k.data(), k.size()) + ":" + vh::to_hex(v.data(), v.size()) : std::string("!"));
          return vh::join(toks, ",");
        };
        size_t cnt        = tk.NumTokens();
        std::string first = pass();
        tk.reset();
        std::string again = pass();
        o = "n=" + std::to_string(cnt) + " t=[" + first + "]" + (again == first ? "" : " RESET-DIFF[" + again + "]");
      }
    }
    else if (op.size() >= 2 && op.size() % 2 == 0 && op[0] == "kvp")
    {
      // KeyValueProperties(capacity) directly: AddEntry beyond the capacity is dropped; owned copies; GetValue;
      // Entry copy / assignment / SetValue; the constructor from a key-value iterable when everything fits
      char *e    = nullptr;
      size_t cap = strtoul(op[1].c_str(), &e, 10);
      std::vector<std::pair<std::string, std::string>> kv;
      bool ok = *e == 0 && !op[1].empty() && cap <= 64;
      for (size_t j = 2; ok && j + 1 < op.size(); j += 2)
      {
        ok = vh::from_hex(op[j], a) && vh::from_hex(op[j + 1], b);
        kv.emplace_back(a, b);
      }
      if (ok)
      {
        namespace common = opentelemetry::common;
        common::KeyValueProperties props(cap);
        for (auto &p : kv)
        {
          vh::Exact k(p.first), v(p.second);
          props.AddEntry(nostd::string_view(k.data(), k.size()), nostd::string_view(v.data(), v.size()));
        }
        auto list = [](const common::KeyValueProperties &q) {
          std::vector<std::string> seen;
          q.GetAllEntries([&](nostd::string_view k, nostd::string_view v) {
            seen.push_back(vh::to_hex(k.data(), k.size()) + ":" + vh::to_hex(v.data(), v.size()));
            return true;
          });
          return "[" + vh::join(seen, ",") + "]";
        };
        o = "s=" + std::to_string(props.Size()) + " " + list(props);
        // GetValue: the first stored entry with that key (keys / values are stored NUL-terminated: compare up to a NUL)
        for (size_t j = 0; j < kv.size(); j++)
        {
          std::string want;
          bool found = false;
          for (size_t q = 0; q < kv.size() && q < cap && !found; q++)
            if (std::string(kv[q].first.c_str()) == std::string(kv[j].first.c_str()))
            {
              found = true;
              want  = kv[q].second.c_str();
            }
          if (kv[j].first.find('\0') != std::string::npos) continue;
          vh::Exact k(kv[j].first);
          std::string val = "stale";
          bool got        = props.GetValue(nostd::string_view(k.data(), k.size()), val);
          if (got != found || (got && val != want)) o += " GETVALUE-DIFF" + std::to_string(j);
        }
        // Entry: copies are deep, SetValue touches only its own entry
        if (!kv.empty())
        {
          common::KeyValueProperties::Entry e1(kv[0].first.c_str(), kv[0].second.c_str());
          common::KeyValueProperties::Entry e2(e1);
          common::KeyValueProperties::Entry e3;
          e3 = e1;
          e2.SetValue("changed-2");
          e3.SetValue("changed-3");
          if (e1.GetKey() != e2.GetKey() || e1.GetKey() != e3.GetKey() || e1.GetValue() != nostd::string_view(kv[0].second.c_str()) ||
              e2.GetValue() != "changed-2" || e3.GetValue() != "changed-3" || e1.GetKey().data() == e2.GetKey().data() ||
              e1.GetKey().data() == e3.GetKey().data())
            o += " ENTRY-COPY-DIFF";
        }
        // from an iterable of pairs (capacity = its size): the same list as AddEntry one by one
        if (cap == kv.size())
        {
          std::vector<std::unique_ptr<vh::Exact>> keep;
          std::vector<std::pair<nostd::string_view, nostd::string_view>> views;
          for (auto &p : kv)
          {
            keep.emplace_back(new vh::Exact(p.first));
            auto *k = keep.back().get();
            keep.emplace_back(new vh::Exact(p.second));
            auto *v = keep.back().get();
            views.emplace_back(nostd::string_view(k->data(), k->size()), nostd::string_view(v->data(), v->size()));
          }
          std::unique_ptr<common::KeyValueProperties> q(new common::KeyValueProperties(views));
          keep.clear();
          views.clear();
          if (q->Size() != props.Size() || list(*q) != list(props)) o += " ITERABLE-CTOR-DIFF" + list(*q);
        }
      }
    }
    // "the original object is never modified": every earlier state must still print as it did
    for (size_t j = 0; j < states.size(); j++)
      if (show_entries(*states[j]) != shown[j]) o += " MUTATED" + std::to_string(j);
    outs.push_back(o);
  }
  return vh::join(outs, " ; ");
}

int main()
{
  return vh::run_lines([](const std::vector<std::string> &t) -> std::string {
    if (t.empty()) return "bad-op";
    if (t[0] == "tc") return handle_tc(t);
    if (t[0] == "ts") return handle_ts(t);
    return "bad-op";
  });
}
