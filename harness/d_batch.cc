// Engine D harness for C01/C02/C03: the UNMODIFIED batch_span_processor.cc / batch_log_record_processor.cc (compiled as
// sdk sources with `-include shim/detsched.h`) driven by an explicit schedule.  Threads: the processor's own worker
// (spawned by its constructor through the shimmed std::thread), producers, ForceFlush callers, Shutdown callers.
// The exporter is a harness class whose Export / ForceFlush / Shutdown are scheduling points.
//
//   bsp|blp <maxq>[r|f|g|a] <maxb> <nprod> <adds> <flushers: e.g. i2f> <nshut>[:<timeouts, e.g. i1>] <exporter script> ; <action> ; ...
//     maxq suffix = how the processor is built: none = (exporter, options) constructor, r = (exporter, options, runtime
//       options) constructor, f / g = the factory's Create with two / three arguments, a = (logs only) the constructor
//       taking the three numbers.  They must all configure the same processor.
//     flushers: one char per ForceFlush caller: 'i' = indefinite timeout (max), digit k = timeout of k * schedule_delay,
//       'h' = half a schedule_delay (the wait is clipped to the caller's timeout), 'u' = one microsecond
//     nshut[:<chars>]: one char per Shutdown caller: 'i' = Shutdown() (max), digit k = k * schedule_delay / 4 (0 = zero),
//       'u' = one microsecond
//     records with an odd id are obtained through Processor::MakeRecordable() (and, for spans, announced with OnStart)
//       instead of being built by the caller: both are pass-throughs that must not change anything
//     exporter script: chars 's' (Export succeeds) / 'f' 'u' 'v' (Export reports kFailure / kFailureFull / kFailureInvalidArgument), cycled; 'F' = ForceFlush fails; 'S' = Shutdown fails
//     actions: t<i> run thread i | t<i>! run with a spurious weak-CAS failure | o<i> timer of thread i's timed wait expires
//              | w<i> spurious wake-up of thread i's wait
//   thread numbering: 0 = worker, 1..nprod = producers, then flushers, then shutdown callers.
#include "common.h"

#define private public
#define protected public
#include "opentelemetry/sdk/common/atomic_unique_ptr.h"
#include "opentelemetry/sdk/common/circular_buffer.h"
#ifdef BATCH_LOGS
#  include "opentelemetry/sdk/logs/batch_log_record_processor.h"
#  include "opentelemetry/sdk/logs/batch_log_record_processor_factory.h"
#  include "opentelemetry/sdk/logs/batch_log_record_processor_options.h"
#  include "opentelemetry/sdk/logs/batch_log_record_processor_runtime_options.h"
#  include "opentelemetry/sdk/logs/exporter.h"
#  include "opentelemetry/sdk/logs/recordable.h"
#else
#  include "opentelemetry/sdk/trace/batch_span_processor.h"
#  include "opentelemetry/sdk/trace/batch_span_processor_factory.h"
#  include "opentelemetry/sdk/trace/batch_span_processor_options.h"
#  include "opentelemetry/sdk/trace/batch_span_processor_runtime_options.h"
#  include "opentelemetry/sdk/trace/exporter.h"
#  include "opentelemetry/sdk/trace/recordable.h"
#endif
#undef private
#undef protected

namespace nostd  = opentelemetry::nostd;
namespace common = opentelemetry::common;
namespace sdkc   = opentelemetry::sdk::common;

static int g_live = 0;

#ifdef BATCH_LOGS
namespace sdkx = opentelemetry::sdk::logs;
struct Rec final : public sdkx::Recordable
{
  int id;
  explicit Rec(int i) : id(i) { g_live++; }
  ~Rec() override { g_live--; }
  void SetTimestamp(common::SystemTimestamp) noexcept override {}
  void SetObservedTimestamp(common::SystemTimestamp) noexcept override {}
  void SetSeverity(opentelemetry::logs::Severity) noexcept override {}
  void SetBody(const common::AttributeValue &) noexcept override {}
  void SetAttribute(nostd::string_view, const common::AttributeValue &) noexcept override {}
  void SetEventId(int64_t, nostd::string_view) noexcept override {}
  void SetTraceId(const opentelemetry::trace::TraceId &) noexcept override {}
  void SetSpanId(const opentelemetry::trace::SpanId &) noexcept override {}
  void SetTraceFlags(const opentelemetry::trace::TraceFlags &) noexcept override {}
  void SetResource(const opentelemetry::sdk::resource::Resource &) noexcept override {}
  void SetInstrumentationScope(const opentelemetry::sdk::instrumentationscope::InstrumentationScope &) noexcept override {}
};
using Processor = sdkx::BatchLogRecordProcessor;
using Options   = sdkx::BatchLogRecordProcessorOptions;
using ROptions  = sdkx::BatchLogRecordProcessorRuntimeOptions;
using Factory   = sdkx::BatchLogRecordProcessorFactory;
using Exporter  = sdkx::LogRecordExporter;
#  define ONEND OnEmit
#else
namespace sdkx = opentelemetry::sdk::trace;
struct Rec final : public sdkx::Recordable
{
  int id;
  explicit Rec(int i) : id(i) { g_live++; }
  ~Rec() override { g_live--; }
  void SetIdentity(const opentelemetry::trace::SpanContext &, opentelemetry::trace::SpanId) noexcept override {}
  void SetAttribute(nostd::string_view, const common::AttributeValue &) noexcept override {}
  void AddEvent(nostd::string_view, common::SystemTimestamp, const common::KeyValueIterable &) noexcept override {}
  void AddLink(const opentelemetry::trace::SpanContext &, const common::KeyValueIterable &) noexcept override {}
  void SetStatus(opentelemetry::trace::StatusCode, nostd::string_view) noexcept override {}
  void SetName(nostd::string_view) noexcept override {}
  void SetSpanKind(opentelemetry::trace::SpanKind) noexcept override {}
  void SetResource(const opentelemetry::sdk::resource::Resource &) noexcept override {}
  void SetStartTime(common::SystemTimestamp) noexcept override {}
  void SetDuration(std::chrono::nanoseconds) noexcept override {}
  void SetInstrumentationScope(const opentelemetry::sdk::instrumentationscope::InstrumentationScope &) noexcept override {}
};
using Processor = sdkx::BatchSpanProcessor;
using Options   = sdkx::BatchSpanProcessorOptions;
using ROptions  = sdkx::BatchSpanProcessorRuntimeOptions;
using Factory   = sdkx::BatchSpanProcessorFactory;
using Exporter  = sdkx::SpanExporter;
#  define ONEND OnEnd
#endif

struct ExpState
{
  std::string script;  // s/f cycled for Export
  bool ff_fails = false, sd_fails = false;
  size_t n_export = 0;
  int inflight    = 0;
  int reentrant   = 0;
};

class HExporter final : public Exporter
{
public:
  explicit HExporter(ExpState *st) : st_(st) {}
  std::unique_ptr<sdkx::Recordable> MakeRecordable() noexcept override { return std::unique_ptr<sdkx::Recordable>(new Rec(-1)); }
  sdkc::ExportResult Export(const nostd::span<std::unique_ptr<sdkx::Recordable>> &batch) noexcept override
  {
    detsched::point("export", this);
    std::string ids;
    for (auto &r : batch)
    {
      if (!ids.empty()) ids += ".";
      ids += r ? "r" + std::to_string(static_cast<Rec *>(r.get())->id) : std::string("null");
    }
    st_->inflight++;
    if (st_->inflight != 1) st_->reentrant++;
    detsched::note("export-begin " + std::to_string(batch.size()) + " " + (ids.empty() ? "-" : ids) + " inflight=" + std::to_string(st_->inflight));
    detsched::point("export-end", this);
    char c = st_->script.empty() ? 's' : st_->script[st_->n_export % st_->script.size()];
    st_->n_export++;
    st_->inflight--;
    detsched::note(std::string("export-end ") + (c == 's' ? "ok" : "fail"));
    // every failure code of ExportResult: a batch handed to Export is gone whatever the exporter answers
    return c == 'f' ? sdkc::ExportResult::kFailure
         : c == 'u' ? sdkc::ExportResult::kFailureFull
         : c == 'v' ? sdkc::ExportResult::kFailureInvalidArgument
                    : sdkc::ExportResult::kSuccess;
  }
  bool ForceFlush(std::chrono::microseconds) noexcept override
  {
    detsched::point("xflush", this);
    detsched::note("xflush-begin");
    detsched::point("xflush-end", this);
    detsched::note(std::string("xflush-end ") + (st_->ff_fails ? "fail" : "ok"));
    return !st_->ff_fails;
  }
  bool Shutdown(std::chrono::microseconds) noexcept override
  {
    detsched::point("xshutdown", this);
    detsched::note("xshutdown-begin");
    detsched::point("xshutdown-end", this);
    detsched::note(std::string("xshutdown-end ") + (st_->sd_fails ? "fail" : "ok"));
    return !st_->sd_fails;
  }

private:
  ExpState *st_;
};

static std::string handle(const std::vector<std::string> &t)
{
  auto ops = vh::split_ops(t, 1);
  if (ops.empty() || ops[0].size() != 7) return "bad-op";
  auto num = [](const std::string &s, unsigned long &v) {
    char *e = nullptr;
    v       = strtoul(s.c_str(), &e, 10);
    return !s.empty() && *e == 0;
  };
  unsigned long maxq, maxb, nprod, adds, nshut;
  char ctor = 0;
  if (!ops[0][0].empty() && !(ops[0][0].back() >= '0' && ops[0][0].back() <= '9'))
  {
    ctor = ops[0][0].back();
    ops[0][0].pop_back();
  }
  // <nshut> or <nshut>:<one char per Shutdown caller>: 'i' = Shutdown() (no timeout), digit k = Shutdown(k * schedule_delay / 4),
  // 'u' = Shutdown(1 us)
  std::string shspec;
  {
    auto colon = ops[0][5].find(':');
    if (colon != std::string::npos)
    {
      shspec = ops[0][5].substr(colon + 1);
      ops[0][5].resize(colon);
    }
  }
  if (!num(ops[0][0], maxq) || !num(ops[0][1], maxb) || !num(ops[0][2], nprod) || !num(ops[0][3], adds) ||
      !num(ops[0][5], nshut))
    return "bad-op";
  if (!shspec.empty() && shspec.size() != nshut) return "bad-op";
  for (char c : shspec)
    if (c != 'i' && c != 'u' && !(c >= '0' && c <= '9')) return "bad-op";
  std::string fl = ops[0][4] == "-" ? "" : ops[0][4];
  std::string xs = ops[0][6] == "-" ? "" : ops[0][6];
  for (char c : fl)
    if (c != 'i' && c != 'h' && c != 'u' && !(c >= '0' && c <= '9')) return "bad-op";
  if (maxq == 0 || maxb == 0 || maxb > maxq || nprod > 6 || fl.size() > 4 || nshut > 3) return "bad-op";
  ExpState est;
  for (char c : xs)
  {
    if (c == 's' || c == 'f' || c == 'u' || c == 'v') est.script.push_back(c);
    else if (c == 'F') est.ff_fails = true;
    else if (c == 'S') est.sd_fails = true;
    else return "bad-op";
  }
  struct A { char kind; int tid; int dir; };
  std::vector<A> acts;
  size_t nthreads = 1 + nprod + fl.size() + nshut;
  for (size_t i = 1; i < ops.size(); i++)
  {
    if (ops[i].size() != 1 || ops[i][0].size() < 2) return "bad-op";
    std::string a = ops[i][0];
    char k        = a[0];
    if (k != 't' && k != 'o' && k != 'w') return "bad-op";
    int dir = 0;
    if (a.back() == '!') { dir = 1; a.pop_back(); }
    unsigned long v;
    if (!num(a.substr(1), v)) return "bad-op";
    acts.push_back({k, v >= nthreads ? -1 : (int)v, dir});
  }

  detsched::reset();
  g_live = 0;
  std::vector<std::string> outs;
  const auto delay = std::chrono::milliseconds(1000);
  Options opt;
  opt.max_queue_size        = maxq;
  opt.max_export_batch_size = maxb;
  opt.schedule_delay_millis = delay;
  // the processor is leaked on purpose if threads are left parked inside it
  Processor *proc = nullptr;
  {
    std::unique_ptr<Exporter> ex(new HExporter(&est));
    ROptions ropt;
    switch (ctor)
    {
      case 0:
        proc = new Processor(std::move(ex), opt);
        break;
      case 'r':
        proc = new Processor(std::move(ex), opt, ropt);
        break;
      case 'f':
        proc = static_cast<Processor *>(Factory::Create(std::move(ex), opt).release());
        break;
      case 'g':
        proc = static_cast<Processor *>(Factory::Create(std::move(ex), opt, ropt).release());
        break;
#ifdef BATCH_LOGS
      case 'a':
        proc = new Processor(std::move(ex), maxq, delay, maxb);
        break;
#endif
      default:
        return "bad-op";
    }
  }
  {
    auto &sd = *proc->synchronization_data_;
    detsched::name_object(&sd.is_force_wakeup_background_worker, "wake");
    detsched::name_object(&sd.is_shutdown, "is_shutdown");
    detsched::name_object(&sd.force_flush_pending_sequence, "pending");
    detsched::name_object(&sd.force_flush_notified_sequence, "notified");
    detsched::name_object(&sd.force_flush_timeout_us, "timeout_us");
    detsched::name_object(&sd.cv, "cv");
    detsched::name_object(&sd.force_flush_cv, "ffcv");
    detsched::name_object(&sd.cv_m, "cv_m");
    detsched::name_object(&sd.force_flush_cv_m, "ff_m");
    detsched::name_object(&sd.shutdown_m, "sd_m");
    detsched::name_object(&proc->buffer_.head_, "head");
    detsched::name_object(&proc->buffer_.tail_, "tail");
    for (size_t k = 0; k <= maxq; k++) detsched::name_object(&proc->buffer_.data_[k].ptr_, "s" + std::to_string(k));
  }
  int next_id = 0;
  for (size_t p = 0; p < nprod; p++)
  {
    detsched::spawn([&, p] {
      for (size_t j = 0; j < adds; j++)
      {
        detsched::point("begin", nullptr);
        int id = next_id++;
        std::unique_ptr<sdkx::Recordable> r;
        if (id % 2)
        {
          r = proc->MakeRecordable();  // the exporter's recordable, handed through by the processor
          if (!r) { detsched::note("MAKERECORDABLE-NULL"); r.reset(new Rec(id)); }
          static_cast<Rec *>(r.get())->id = id;
#ifndef BATCH_LOGS
          proc->OnStart(*r, opentelemetry::trace::SpanContext::GetInvalid());
#endif
        }
        else
          r.reset(new Rec(id));
        detsched::name_value(reinterpret_cast<uint64_t>(r.get()), "r" + std::to_string(id));
        detsched::note("onend-begin r" + std::to_string(id));
        proc->ONEND(std::move(r));
        detsched::note("onend-ret");
      }
    });
  }
  for (size_t f = 0; f < fl.size(); f++)
  {
    char c = fl[f];
    detsched::spawn([&, c] {
      detsched::point("begin", nullptr);
      detsched::note("flush-begin");
      auto to = c == 'i'   ? (std::chrono::microseconds::max)()
                : c == 'h' ? std::chrono::duration_cast<std::chrono::microseconds>(delay) / 2
                : c == 'u' ? std::chrono::microseconds(1)
                           : std::chrono::duration_cast<std::chrono::microseconds>(delay * (c - '0'));
      bool r  = proc->ForceFlush(to);
      detsched::note(std::string("flush-ret ") + (r ? "1" : "0"));
    });
  }
  for (size_t s = 0; s < nshut; s++)
  {
    char c = s < shspec.size() ? shspec[s] : 'i';
    detsched::spawn([&, c] {
      detsched::point("begin", nullptr);
      detsched::note("shutdown-begin");
      // a finite timeout bounds how long the caller is prepared to wait; it must not make Shutdown lose what was queued
      bool r = c == 'i'   ? proc->Shutdown()
               : c == 'u' ? proc->Shutdown(std::chrono::microseconds(1))
                          : proc->Shutdown(std::chrono::duration_cast<std::chrono::microseconds>(delay * (c - '0')) / 4);
      detsched::note(std::string("shutdown-ret ") + (r ? "1" : "0"));
    });
  }
  for (auto &a : acts)
  {
    if (a.tid < 0) { outs.push_back("x"); continue; }
    if (a.kind == 't') outs.push_back(detsched::run(a.tid, a.dir));
    else if (a.kind == 'o') outs.push_back(detsched::wake_timeout(a.tid));
    else outs.push_back(detsched::wake_spurious(a.tid));
  }
  // end of the explicit schedule: run everything to completion round-robin (timers fire only when nothing else can run);
  // then destroy the processor from a managed thread (its destructor shuts down if nobody did)
  std::string dtrace;
  bool done = detsched::drain(4000, &dtrace, /*skip_thread=*/0);
  int dtor  = -1;
  if (done)
  {
    dtor = detsched::spawn([&] {
      detsched::point("begin", nullptr);
      detsched::note("dtor-begin");
      delete proc;
      detsched::note("dtor-ret");
    });
    done = detsched::drain(4000, &dtrace, -1);
  }
  (void)dtor;
  if (!dtrace.empty()) outs.push_back(dtrace.substr(0, dtrace.size() - 3));
  std::string sum = std::string("done=") + (done ? "1" : "0") + " reentrant=" + std::to_string(est.reentrant);
  if (!done)
  {
    outs.push_back(sum + " live=?");
    std::string o = vh::join(outs, " ; ");
    fputs(o.c_str(), stdout);
    fputc('\n', stdout);
    fflush(stdout);
    _exit(77);
  }
  detsched::reset();
  outs.push_back(sum + " live=" + std::to_string(g_live));
  return vh::join(outs, " ; ");
}

int main()
{
  return vh::run_lines([](const std::vector<std::string> &t) -> std::string {
    if (t.empty()) return "bad-op";
#ifdef BATCH_LOGS
    if (t[0] == "blp") return handle(t);
#else
    if (t[0] == "bsp") return handle(t);
#endif
    return "bad-op";
  });
}
