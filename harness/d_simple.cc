// Engine D harness for C03 (simple processors): the UNMODIFIED SimpleSpanProcessor / SimpleLogRecordProcessor (and the
// SpinLockMutex they lock around exporter_->Export) under the scheduler shim.  The trace has exactly the format of the
// C11 spin-lock harness, with the exporter call as the critical section, so the same Lean model steps it.
//   ssp|slp <n0>[f] <n1> ... [S] ; t<i> ; ...     n_i = number of OnEnd/OnEmit calls of thread i; S = after Shutdown(); suffix
//   f on the first count = the processor is built by its factory's Create instead of the constructor.  Every second record
//   of a thread is obtained through Processor::MakeRecordable() (and, for spans, announced with OnStart): pass-throughs.
#include "common.h"

#define private public
#ifdef SIMPLE_LOGS
#  include "opentelemetry/sdk/logs/exporter.h"
#  include "opentelemetry/sdk/logs/recordable.h"
#  include "opentelemetry/sdk/logs/simple_log_record_processor.h"
#  include "opentelemetry/sdk/logs/simple_log_record_processor_factory.h"
#else
#  include "opentelemetry/sdk/trace/exporter.h"
#  include "opentelemetry/sdk/trace/recordable.h"
#  include "opentelemetry/sdk/trace/simple_processor.h"
#  include "opentelemetry/sdk/trace/simple_processor_factory.h"
#endif
#undef private

namespace nostd  = opentelemetry::nostd;
namespace common = opentelemetry::common;
namespace sdkc   = opentelemetry::sdk::common;

#ifdef SIMPLE_LOGS
namespace sdkx = opentelemetry::sdk::logs;
struct Rec final : public sdkx::Recordable
{
  void SetTimestamp(common::SystemTimestamp) noexcept override {}
  void SetObservedTimestamp(common::SystemTimestamp) noexcept override {}
  void SetSeverity(opentelemetry::logs::Severity) noexcept override {}
  void SetBody(const common::AttributeValue &) noexcept override {}
  void SetAttribute(nostd::string_view, const common::AttributeValue &) noexcept override {}
  void SetEventId(int64_t, nostd::string_view) noexcept override {}
  void SetTraceId(const opentelemetry::trace::TraceId &) noexcept override {}
  void SetSpanId(const opentelemetry::trace::SpanId &) noexcept override {}
  void SetTraceFlags(const opentelemetry::trace::TraceFlags &) noexcept override {}
  void SetResource(const opentelemetry::sdk::resource::Resource &) noexcept override {}
  void SetInstrumentationScope(const opentelemetry::sdk::instrumentationscope::InstrumentationScope &) noexcept override {}
};
using Processor = sdkx::SimpleLogRecordProcessor;
using Factory   = sdkx::SimpleLogRecordProcessorFactory;
using Exporter  = sdkx::LogRecordExporter;
#  define ONEND OnEmit
#else
namespace sdkx = opentelemetry::sdk::trace;
struct Rec final : public sdkx::Recordable
{
  void SetIdentity(const opentelemetry::trace::SpanContext &, opentelemetry::trace::SpanId) noexcept override {}
  void SetAttribute(nostd::string_view, const common::AttributeValue &) noexcept override {}
  void AddEvent(nostd::string_view, common::SystemTimestamp, const common::KeyValueIterable &) noexcept override {}
  void AddLink(const opentelemetry::trace::SpanContext &, const common::KeyValueIterable &) noexcept override {}
  void SetStatus(opentelemetry::trace::StatusCode, nostd::string_view) noexcept override {}
  void SetName(nostd::string_view) noexcept override {}
  void SetSpanKind(opentelemetry::trace::SpanKind) noexcept override {}
  void SetResource(const opentelemetry::sdk::resource::Resource &) noexcept override {}
  void SetStartTime(common::SystemTimestamp) noexcept override {}
  void SetDuration(std::chrono::nanoseconds) noexcept override {}
  void SetInstrumentationScope(const opentelemetry::sdk::instrumentationscope::InstrumentationScope &) noexcept override {}
};
using Processor = sdkx::SimpleSpanProcessor;
using Factory   = sdkx::SimpleSpanProcessorFactory;
using Exporter  = sdkx::SpanExporter;
#  define ONEND OnEnd
#endif

struct XState { int inflight = 0; int viol = 0; };

class HExporter final : public Exporter
{
public:
  explicit HExporter(XState *st) : st_(st) {}
  std::unique_ptr<sdkx::Recordable> MakeRecordable() noexcept override { return std::unique_ptr<sdkx::Recordable>(new Rec()); }
  sdkc::ExportResult Export(const nostd::span<std::unique_ptr<sdkx::Recordable>> &) noexcept override
  {
    // entering Export = having acquired lock_: the note lands in the trace of the acquiring step
    detsched::note("acq");
    st_->inflight++;
    detsched::point("cs", nullptr);
    detsched::note("cs " + std::to_string(st_->inflight));
    if (st_->inflight != 1) st_->viol++;
    st_->inflight--;
    return sdkc::ExportResult::kSuccess;
  }
  bool ForceFlush(std::chrono::microseconds) noexcept override { return true; }
  bool Shutdown(std::chrono::microseconds) noexcept override { return true; }

private:
  XState *st_;
};

static std::string handle(const std::vector<std::string> &t)
{
  auto ops = vh::split_ops(t, 1);
  if (ops.empty() || ops[0].empty() || ops[0].size() > 6) return "bad-op";
  std::vector<unsigned long> counts;
  bool by_factory = false;
  if (!ops[0][0].empty() && ops[0][0].back() == 'f') { by_factory = true; ops[0][0].pop_back(); }
  // a trailing `S`: the processor has been shut down before the threads start (OnEnd / OnEmit after Shutdown still go
  // through the lock and hand the record to the exporter, which may turn it away - Export is never re-entered)
  bool pre_shutdown = false;
  if (ops[0].back() == "S")
  {
    pre_shutdown = true;
    ops[0].pop_back();
    if (ops[0].empty()) return "bad-op";
  }
  for (auto &c : ops[0])
  {
    char *e = nullptr;
    unsigned long v = strtoul(c.c_str(), &e, 10);
    if (*e || c.empty() || v > 8) return "bad-op";
    counts.push_back(v);
  }
  std::vector<int> acts;
  for (size_t i = 1; i < ops.size(); i++)
  {
    if (ops[i].size() != 1 || ops[i][0].size() < 2 || ops[i][0][0] != 't') return "bad-op";
    char *e = nullptr;
    unsigned long v = strtoul(ops[i][0].c_str() + 1, &e, 10);
    if (*e) return "bad-op";
    acts.push_back(v >= counts.size() ? -1 : (int)v);
  }
  detsched::reset();
  std::vector<std::string> outs;
  XState xs;
  auto *proc = by_factory ? static_cast<Processor *>(Factory::Create(std::unique_ptr<Exporter>(new HExporter(&xs))).release())
                          : new Processor(std::unique_ptr<Exporter>(new HExporter(&xs)));
  detsched::name_object(&proc->lock_, "flag");
  if (pre_shutdown) proc->Shutdown();
  for (size_t p = 0; p < counts.size(); p++)
  {
    detsched::spawn([&, p] {
      for (unsigned long j = 0; j < counts[p]; j++)
      {
        detsched::point("op", nullptr);
        detsched::note("lock");
        std::unique_ptr<sdkx::Recordable> r;
        if (j % 2)
        {
          r = proc->MakeRecordable();
#ifndef SIMPLE_LOGS
          if (r) proc->OnStart(*r, opentelemetry::trace::SpanContext::GetInvalid());
#endif
        }
        if (!r) r.reset(new Rec());
        proc->ONEND(std::move(r));
      }
    });
  }
  for (int a : acts) outs.push_back(a < 0 ? std::string("x") : detsched::run(a));
  std::string dtrace;
  bool done = detsched::drain(3000, &dtrace);
  if (!dtrace.empty()) outs.push_back(dtrace.substr(0, dtrace.size() - 3));
  bool flag = proc->lock_.try_lock() ? false : true;
  outs.push_back(std::string("done=") + (done ? "1" : "0") + " viol=" + std::to_string(xs.viol) + " try=[] flag=" + (flag ? "1" : "0"));
  if (!done)
  {
    std::string o = vh::join(outs, " ; ");
    fputs(o.c_str(), stdout);
    fputc('\n', stdout);
    fflush(stdout);
    _exit(77);
  }
  proc->lock_.unlock();
  delete proc;
  detsched::reset();
  return vh::join(outs, " ; ");
}

int main()
{
  return vh::run_lines([](const std::vector<std::string> &t) -> std::string {
    if (t.empty()) return "bad-op";
#ifdef SIMPLE_LOGS
    if (t[0] == "slp") return handle(t);
#else
    if (t[0] == "ssp") return handle(t);
#endif
    return "bad-op";
  });
}
