// C04 harness (Engine S): one span per case, driven through the real TracerProvider / Tracer / Span with 1..8 real
// processors (SimpleSpanProcessor / BatchSpanProcessor, each wrapped only to count notifications) and harness exporters
// that render the complete SpanData they receive at Export time.  Every caller-side buffer (names, keys, values, arrays,
// the attribute iterables themselves) lives in an exactly-sized heap block that is FREED as soon as the API call returns,
// so any pointer the SDK kept is a heap-use-after-free under ASan at export time.
//
// `par … seq` sections run their (thread-tagged) mutators on real threads CONCURRENTLY (released together); inside a section
// every attribute key / event name starts with the digit of its thread, so the outcome is the same for every interleaving
// up to the relative order of events of different threads — cases with a section print events grouped by that first
// byte (stable), on both sides.
//
// Built twice from this file: `s_c04` (ABI v1, engine word `span`) and `s_c04_v2` (OPENTELEMETRY_ABI_VERSION_NO=2, engine
// word `span2`), which additionally understands `link` / `links` (Span::AddLink / Span::AddLinks).
//
// Line syntax and output: see lean/Driver/C04.lean.
#include <algorithm>
#include <atomic>
#include <thread>
#include "attr_util.h"
#include "park.h"
#include "opentelemetry/sdk/common/global_log_handler.h"
#include "opentelemetry/sdk/resource/resource.h"
#include "opentelemetry/sdk/trace/batch_span_processor.h"
#include "opentelemetry/sdk/trace/batch_span_processor_factory.h"
#include "opentelemetry/sdk/trace/batch_span_processor_options.h"
#include "opentelemetry/sdk/trace/batch_span_processor_runtime_options.h"
#include "opentelemetry/sdk/trace/exporter.h"
#include "opentelemetry/sdk/trace/processor.h"
#include "opentelemetry/sdk/trace/random_id_generator.h"
#include "opentelemetry/sdk/trace/samplers/always_on.h"
#include "opentelemetry/sdk/trace/simple_processor.h"
#include "opentelemetry/sdk/trace/simple_processor_factory.h"
#include "opentelemetry/sdk/trace/span_data.h"
#include "opentelemetry/sdk/trace/tracer_context_factory.h"
#include "opentelemetry/sdk/trace/tracer_provider.h"
#include "opentelemetry/sdk/trace/tracer_provider_factory.h"
#include "opentelemetry/context/context.h"
#include "opentelemetry/trace/context.h"
#include "opentelemetry/trace/default_span.h"
#include "opentelemetry/trace/span_context_kv_iterable.h"
#include "opentelemetry/trace/span_metadata.h"
#include "opentelemetry/trace/span_startoptions.h"

namespace trace_api = opentelemetry::trace;
namespace trace_sdk = opentelemetry::sdk::trace;
namespace nostd     = opentelemetry::nostd;
namespace common    = opentelemetry::common;
using vh::Exact;

// which durations are not clock readings: (explicit end) - (explicit start) for some End of the case
struct Canon
{
  bool group_events   = false;  // the case has a concurrent section: print events grouped by first name byte (stable)
  bool scope_attrs    = false;  // the tracer was requested with scope attributes (ABI v2): print them behind the scope
  bool start_explicit = false;
  int64_t start       = 0;
  std::vector<int64_t> ends;
  std::string dur(int64_t d) const
  {
    if (start_explicit)
      for (int64_t e : ends)
        if (static_cast<__int128>(e) - start == d) return std::to_string(d);
    return "auto";
  }
};

static std::string show_sys(common::SystemTimestamp t)
{
  int64_t ns = t.time_since_epoch().count();
  // explicit times of the cases are below 10^18 ns; the wall clock is above
  return ns >= 1000000000000000000LL ? "now" : std::to_string(ns);
}

static std::string show_span(const trace_sdk::SpanData &sd, const Canon &canon)
{
  std::string s = "{name=" + vh::to_hex(sd.GetName().data(), sd.GetName().size());
  s += " kind=" + std::to_string(static_cast<int>(sd.GetSpanKind()));
  s += " start=" + show_sys(sd.GetStartTime());
  s += " dur=" + canon.dur(sd.GetDuration().count());
  s += " attrs=" + vh::show_map(sd.GetAttributes());
  s += " events=[";
  bool first = true;
  std::vector<std::pair<int, std::string>> evs;
  for (auto &e : sd.GetEvents())
  {
    std::string nm = e.GetName();
    evs.emplace_back(nm.empty() ? -1 : static_cast<unsigned char>(nm[0]),
                     vh::to_hex(nm) + "@" + show_sys(e.GetTimestamp()) + vh::show_map(e.GetAttributes()));
  }
  if (canon.group_events)
    std::stable_sort(evs.begin(), evs.end(),
                     [](const std::pair<int, std::string> &a, const std::pair<int, std::string> &b) { return a.first < b.first; });
  for (auto &e : evs)
  {
    if (!first) s += ";";
    first = false;
    s += e.second;
  }
  s += "] links=[";
  first = true;
  for (auto &l : sd.GetLinks())
  {
    if (!first) s += ";";
    first     = false;
    auto &ctx = l.GetSpanContext();
    s += vh::to_hex(reinterpret_cast<const char *>(ctx.trace_id().Id().data()), 16) + "/" +
         vh::to_hex(reinterpret_cast<const char *>(ctx.span_id().Id().data()), 8) + "/";
    char fl = static_cast<char>(ctx.trace_flags().flags());
    s += vh::to_hex(&fl, 1) + vh::show_map(l.GetAttributes());
  }
  s += "] status=" + std::to_string(static_cast<int>(sd.GetStatus())) + "/" +
       vh::to_hex(sd.GetDescription().data(), sd.GetDescription().size());
  auto &ra = sd.GetResource().GetAttributes();
  auto it  = ra.find("verif.res");
  if (it == ra.end() || !nostd::holds_alternative<std::string>(it->second)) s += " res=null";
  else s += " res=" + vh::to_hex(nostd::get<std::string>(it->second));
  auto &sc = sd.GetInstrumentationScope();
  s += " scope=" + vh::to_hex(sc.GetName()) + "/" + vh::to_hex(sc.GetVersion()) + "/" + vh::to_hex(sc.GetSchemaURL());
  if (canon.scope_attrs) s += vh::show_map(sc.GetAttributes().GetAttributes());
  s += "}";
  return s;
}

struct Log
{
  int on_start = 0, on_end = 0;
  std::vector<std::vector<std::string>> batches;
};

class LogExporter final : public trace_sdk::SpanExporter
{
public:
  LogExporter(std::shared_ptr<Log> log, const Canon *canon) : log_(std::move(log)), canon_(canon) {}
  std::unique_ptr<trace_sdk::Recordable> MakeRecordable() noexcept override
  {
    return std::unique_ptr<trace_sdk::Recordable>(new trace_sdk::SpanData);
  }
  opentelemetry::sdk::common::ExportResult Export(
      const nostd::span<std::unique_ptr<trace_sdk::Recordable>> &spans) noexcept override
  {
    std::vector<std::string> b;
    for (auto &r : spans) b.push_back(show_span(*static_cast<trace_sdk::SpanData *>(r.get()), *canon_));
    std::lock_guard<std::mutex> g(m_);
    log_->batches.push_back(std::move(b));
    // the answer rotates through every ExportResult: what a processor hands to Export is gone whatever the exporter says
    static const opentelemetry::sdk::common::ExportResult kAnswers[] = {
        opentelemetry::sdk::common::ExportResult::kSuccess, opentelemetry::sdk::common::ExportResult::kFailure,
        opentelemetry::sdk::common::ExportResult::kSuccess, opentelemetry::sdk::common::ExportResult::kFailureFull,
        opentelemetry::sdk::common::ExportResult::kSuccess, opentelemetry::sdk::common::ExportResult::kFailureInvalidArgument};
    return kAnswers[(n_answers_++) % 6];
  }
  unsigned n_answers_ = 0;
  bool ForceFlush(std::chrono::microseconds) noexcept override { return true; }
  bool Shutdown(std::chrono::microseconds) noexcept override { return true; }

private:
  std::shared_ptr<Log> log_;
  const Canon *canon_;
  std::mutex m_;
};

// forwards everything to the real processor; only counts the notifications
class Counting final : public trace_sdk::SpanProcessor
{
public:
  Counting(std::unique_ptr<trace_sdk::SpanProcessor> inner, std::shared_ptr<Log> log)
      : inner_(std::move(inner)), log_(std::move(log))
  {}
  std::unique_ptr<trace_sdk::Recordable> MakeRecordable() noexcept override { return inner_->MakeRecordable(); }
  void OnStart(trace_sdk::Recordable &span, const trace_api::SpanContext &parent) noexcept override
  {
    log_->on_start++;
    inner_->OnStart(span, parent);
  }
  void OnEnd(std::unique_ptr<trace_sdk::Recordable> &&span) noexcept override
  {
    log_->on_end++;
    inner_->OnEnd(std::move(span));
  }
  bool ForceFlush(std::chrono::microseconds t) noexcept override { return inner_->ForceFlush(t); }
  bool Shutdown(std::chrono::microseconds t) noexcept override { return inner_->Shutdown(t); }

private:
  std::unique_ptr<trace_sdk::SpanProcessor> inner_;
  std::shared_ptr<Log> log_;
};

// a processor that hands out no recordable (MakeRecordable() == nullptr): kind `z`, used by the candidate-finding cases only
class NoRecordable final : public trace_sdk::SpanProcessor
{
public:
  std::unique_ptr<trace_sdk::Recordable> MakeRecordable() noexcept override { return nullptr; }
  void OnStart(trace_sdk::Recordable &, const trace_api::SpanContext &) noexcept override {}
  void OnEnd(std::unique_ptr<trace_sdk::Recordable> &&) noexcept override {}
  bool ForceFlush(std::chrono::microseconds) noexcept override { return true; }
  bool Shutdown(std::chrono::microseconds) noexcept override { return true; }
};

// the real processor of kind `s` / `b`: built through its constructor or through its factory (both Create overloads of the batch
// factory), chosen by `how` (a hash of the case text plus the processor's index, so that a case replays the same way)
static std::unique_ptr<trace_sdk::SpanProcessor> make_processor(char kind,
                                                                std::unique_ptr<trace_sdk::SpanExporter> exp,
                                                                size_t how)
{
  if (kind == 's')
  {
    if (how % 2 == 1) return trace_sdk::SimpleSpanProcessorFactory::Create(std::move(exp));
    return std::unique_ptr<trace_sdk::SpanProcessor>(new trace_sdk::SimpleSpanProcessor(std::move(exp)));
  }
  trace_sdk::BatchSpanProcessorOptions o;
  // exports when flushed; the timer is only a safety net: BatchSpanProcessor::ForceFlush re-polls with this period
  // when its wake-up of the worker is lost (the worker was between its predicate check and its wait)
  o.schedule_delay_millis = std::chrono::milliseconds(2000);
  if (how % 3 == 1) return trace_sdk::BatchSpanProcessorFactory::Create(std::move(exp), o);
  if (how % 3 == 2)
  {
    trace_sdk::BatchSpanProcessorRuntimeOptions ro;
    return trace_sdk::BatchSpanProcessorFactory::Create(std::move(exp), o, ro);
  }
  return std::unique_ptr<trace_sdk::SpanProcessor>(new trace_sdk::BatchSpanProcessor(std::move(exp), o));
}

struct LinkArg
{
  trace_api::SpanContext ctx{false, false};
  std::unique_ptr<vh::Attrs> attrs;
};

struct Links : public trace_api::SpanContextKeyValueIterable
{
  std::vector<LinkArg> links;
  bool ForEachKeyValue(nostd::function_ref<bool(trace_api::SpanContext, const common::KeyValueIterable &)> callback)
      const noexcept override
  {
    for (auto &l : links)
      if (!callback(l.ctx, *l.attrs)) return false;
    return true;
  }
  size_t size() const noexcept override { return links.size(); }
};

// ---- the container / initializer-list overloads of the API headers (Tracer::StartSpan, Span::AddEvent, Span::AddLink,
// Span::AddLinks): every one of them must record exactly what the virtual entry point records
using Pair    = std::pair<nostd::string_view, common::AttributeValue>;
using PairVec = std::vector<Pair>;
using IPairs  = std::initializer_list<Pair>;
using LinkVec = std::vector<std::pair<trace_api::SpanContext, PairVec>>;
using ILink   = std::pair<trace_api::SpanContext, IPairs>;
using ILinks  = std::initializer_list<ILink>;

static PairVec to_pairs(const vh::Attrs &a)
{
  PairVec v;
  for (auto &kv : a.kvs) v.emplace_back(nostd::string_view(kv.key->data(), kv.key->size()), kv.val->get());
  return v;
}

static LinkVec to_links(const std::vector<LinkArg> &ls)
{
  LinkVec lv;
  for (auto &l : ls) lv.emplace_back(l.ctx, to_pairs(*l.attrs));
  return lv;
}

// calls f with a braced initializer list of the (at most 3) pairs; the list's backing array lives until f has returned
template <class F>
static void with_ilist(const PairVec &v, F &&f)
{
  switch (v.size())
  {
    case 0: f(IPairs{}); break;
    case 1: f(IPairs{v[0]}); break;
    case 2: f(IPairs{v[0], v[1]}); break;
    default: f(IPairs{v[0], v[1], v[2]}); break;
  }
}

// at most 2 links with at most 3 attributes each, as a braced list of (context, braced attribute list)
static bool ilinks_ok(const LinkVec &lv)
{
  if (lv.size() > 2) return false;
  for (auto &l : lv)
    if (l.second.size() > 3) return false;
  return true;
}

template <class F>
static void with_ilinks(const LinkVec &lv, F &&f)
{
  if (lv.empty()) f(ILinks{});
  else if (lv.size() == 1)
    with_ilist(lv[0].second, [&](IPairs a0) { f(ILinks{ILink{lv[0].first, a0}}); });
  else
    with_ilist(lv[0].second, [&](IPairs a0) {
      with_ilist(lv[1].second, [&](IPairs a1) { f(ILinks{ILink{lv[0].first, a0}, ILink{lv[1].first, a1}}); });
    });
}

#if OPENTELEMETRY_ABI_VERSION_NO >= 2
static const char *const kEngine = "span2";
#else
static const char *const kEngine = "span";
#endif

// `-` | <tid>/<sid>/<flags>/<attrs> joined by `|`
static bool parse_links(const std::string &tok, std::vector<LinkArg> &out)
{
  if (tok == "-") return true;
  for (auto &ltok : vh::split_on(tok, '|'))
  {
    auto p = vh::split_on(ltok, '/');
    std::string tid, sid, fl;
    if (p.size() != 4 || !vh::from_hex(p[0], tid) || !vh::from_hex(p[1], sid) || !vh::from_hex(p[2], fl)) return false;
    LinkArg l;
    l.attrs.reset(new vh::Attrs);
    if (!l.attrs->parse(p[3])) return false;
    if (fl.size() != 1 || tid.size() != 16 || sid.size() != 8) return false;
    l.ctx = trace_api::SpanContext(
        trace_api::TraceId(nostd::span<const uint8_t, 16>(reinterpret_cast<const uint8_t *>(tid.data()), 16)),
        trace_api::SpanId(nostd::span<const uint8_t, 8>(reinterpret_cast<const uint8_t *>(sid.data()), 8)),
        trace_api::TraceFlags(static_cast<uint8_t>(fl[0])), true);
    out.push_back(std::move(l));
  }
  return true;
}

struct Op
{
  int thread = -1;
  std::string kind;
  std::string s1;      // name / key / description (raw bytes)
  std::string valtok;  // attribute value token, parsed into fresh caller memory when the op runs
  std::string attrtok;
  std::string linktok;  // link / links argument (ABI v2), parsed into fresh caller memory when the op runs
  int64_t n = 0;        // timestamp / status code / end steady time
};

static bool parse_op(std::vector<std::string> t, Op &op)
{
  if (!t.empty() && !t[0].empty() && t[0][0] == '@')
  {
    unsigned __int128 k;
    if (!vh::parse_nat(t[0].substr(1), k) || k >= 4) return false;
    op.thread = static_cast<int>(k);
    t.erase(t.begin());
  }
  if (t.empty()) return false;
  op.kind = t[0];
  vh::Val v;
  vh::Attrs a;
  if (op.kind == "attr" && t.size() == 3) { op.valtok = t[2]; return vh::from_hex(t[1], op.s1) && v.parse(t[2]); }
  if (op.kind == "ev" && t.size() == 2) return vh::from_hex(t[1], op.s1);
  if (op.kind == "evt" && t.size() == 3) return vh::from_hex(t[1], op.s1) && vh::parse_i(64, t[2], op.n);
  if (op.kind == "eva" && t.size() == 3) { op.attrtok = t[2]; return vh::from_hex(t[1], op.s1) && a.parse(t[2]); }
  if (op.kind == "evta" && t.size() == 4)
  {
    op.attrtok = t[3];
    return vh::from_hex(t[1], op.s1) && vh::parse_i(64, t[2], op.n) && a.parse(t[3]);
  }
  if (op.kind == "status" && t.size() == 3)
  {
    unsigned __int128 c;
    if (!vh::parse_nat(t[1], c) || c >= 3) return false;
    op.n = static_cast<int64_t>(c);
    return vh::from_hex(t[2], op.s1);
  }
  if (op.kind == "name" && t.size() == 2) return vh::from_hex(t[1], op.s1);
  if (op.kind == "end" && t.size() == 2) return vh::parse_i(64, t[1], op.n);
  if ((op.kind == "flush" || op.kind == "isrec") && t.size() == 1) return true;
  // a processor attached to the provider while the span is in flight: it must see nothing of this span
  // (`addproc n` = AddProcessor(nullptr): ignored by the provider, no processor comes into being)
  if (op.kind == "addproc" && t.size() == 2 && op.thread < 0 && (t[1] == "s" || t[1] == "b" || t[1] == "n"))
  {
    op.s1 = t[1];
    return true;
  }
  if ((op.kind == "par" || op.kind == "seq") && t.size() == 1 && op.thread < 0) return true;
#if OPENTELEMETRY_ABI_VERSION_NO >= 2
  if ((op.kind == "link" || op.kind == "links") && t.size() == 2)
  {
    std::vector<LinkArg> ls;
    op.linktok = t[1];
    if (!parse_links(t[1], ls)) return false;
    return op.kind == "links" || ls.size() == 1;
  }
#endif
  return false;
}

static std::string handle(const std::vector<std::string> &toks)
{
  if (toks.empty() || toks[0] != kEngine) return "bad-op";
  auto segs = vh::split_ops(toks, 1);
  auto &c   = segs[0];
  if (c.size() != 9) return "bad-op";
  // ---- configuration
  const std::string &procs = c[0];
  if (procs.empty() || procs.size() > 8) return "bad-op";
  for (char k : procs)
    if (k != 's' && k != 'b' && k != 'z') return "bad-op";
  std::string res, sname, sver, sschema, name;
  if (!vh::from_hex(c[1], res)) return "bad-op";
  auto sc = vh::split_on(c[2], '/');
  if (sc.size() < 3 || sc.size() > 5 || !vh::from_hex(sc[0], sname) || !vh::from_hex(sc[1], sver) || !vh::from_hex(sc[2], sschema))
    return "bad-op";
  // <name>/<version>/<schema>/<attrs>[/<decoy attrs>]: scope attributes (ABI v2 only)
  {
    vh::Attrs probe;
    for (size_t i = 3; i < sc.size(); i++)
      if (OPENTELEMETRY_ABI_VERSION_NO < 2 || !probe.parse(sc[i])) return "bad-op";
  }
  if (!vh::from_hex(c[3], name)) return "bad-op";
  unsigned __int128 kind;
  if (!vh::parse_nat(c[4], kind) || kind >= 5) return "bad-op";
  int64_t sys, steady;
  if (!vh::parse_i(64, c[5], sys) || !vh::parse_i(64, c[6], steady)) return "bad-op";
  std::unique_ptr<vh::Attrs> start_attrs(new vh::Attrs);
  if (!start_attrs->parse(c[7])) return "bad-op";
  std::unique_ptr<Links> links(new Links);
  if (!parse_links(c[8], links->links)) return "bad-op";
  std::vector<Op> ops;
  for (size_t i = 1; i < segs.size(); i++)
  {
    Op op;
    if (!parse_op(segs[i], op)) return "bad-op";
    ops.push_back(std::move(op));
  }
  Canon canon;
  {
    // concurrent sections: only thread-tagged attr / event ops whose key / name starts with the thread's digit
    bool in_par = false;
    for (auto &op : ops)
    {
      if (op.kind == "par" || op.kind == "seq")
      {
        if ((op.kind == "par") == in_par) return "bad-op";
        in_par             = op.kind == "par";
        canon.group_events = true;
      }
      else if (in_par)
      {
        bool mut = op.kind == "attr" || op.kind == "ev" || op.kind == "evt" || op.kind == "eva" || op.kind == "evta";
        if (!mut || op.thread < 0 || op.s1.empty() || op.s1[0] != static_cast<char>('0' + op.thread)) return "bad-op";
      }
    }
  }
  canon.scope_attrs    = sc.size() > 3;
  canon.start_explicit = steady != 0;
  canon.start          = steady;
  for (auto &op : ops)
    if (op.kind == "end" && op.n != 0) canon.ends.push_back(op.n);

  // ---- the pipeline
  size_t case_hash = 1469598103u;  // FNV-style hash of the case text: selects constructor / factory per processor
  for (auto &t : toks)
    for (unsigned char ch : t) case_hash = (case_hash ^ ch) * 16777619u;
  case_hash >>= 3;
  std::vector<std::shared_ptr<Log>> logs;
  std::vector<std::unique_ptr<trace_sdk::SpanProcessor>> processors;
  for (char k : procs)
  {
    auto log = std::make_shared<Log>();
    std::unique_ptr<trace_sdk::SpanExporter> exp(new LogExporter(log, &canon));
    std::unique_ptr<trace_sdk::SpanProcessor> inner;
    if (k == 'z') inner.reset(new NoRecordable);
    else inner = make_processor(k, std::move(exp), case_hash + processors.size());
    processors.emplace_back(new Counting(std::move(inner), log));
    logs.push_back(log);
  }
  std::shared_ptr<trace_sdk::TracerProvider> provider;
  {
    Exact rtag(res);
    auto resource = opentelemetry::sdk::resource::Resource::Create(
        {{"verif.res", nostd::string_view(rtag.data(), rtag.size())}});
    // the provider can be built through two constructors, ten factory overloads and a context: which one is used depends on
    // the case (deterministically); with the default sampler and id generator they must all build the same pipeline
    auto sampler = []() { return std::unique_ptr<trace_sdk::Sampler>(new trace_sdk::AlwaysOnSampler); };
    auto idgen   = []() { return std::unique_ptr<trace_sdk::IdGenerator>(new trace_sdk::RandomIdGenerator); };
    using F      = trace_sdk::TracerProviderFactory;
    const size_t how = (res.size() + 2 * procs.size() + name.size()) % 8;
    const bool one   = processors.size() == 1;
    if (how == 1) provider = F::Create(std::move(processors), resource);
    else if (how == 2) provider = F::Create(std::move(processors), resource, sampler());
    else if (how == 3) provider = F::Create(std::move(processors), resource, sampler(), idgen());
    else if (how == 4 && one) provider = F::Create(std::move(processors[0]), resource);
    else if (how == 5 && one) provider = F::Create(std::move(processors[0]), resource, sampler(), idgen());
    else if (how == 6 && one) provider = std::make_shared<trace_sdk::TracerProvider>(std::move(processors[0]), resource);
    else if (how == 7)
      provider = F::Create(trace_sdk::TracerContextFactory::Create(std::move(processors), resource, sampler(), idgen()));
    else
      provider = std::make_shared<trace_sdk::TracerProvider>(std::move(processors), resource, sampler(), idgen());
  }
  nostd::shared_ptr<trace_api::Tracer> tracer;
#if OPENTELEMETRY_ABI_VERSION_NO >= 2
  // scope attributes: the pointer form, the container template and the initializer-list overload of GetTracer rotate; every
  // request comes from fresh buffers that die right after it.  A decoy request (same name / version / schema, other
  // attributes) goes first: its tracer is dropped, the provider must not hand it out again for the real request
  auto get_tracer_with = [&](const std::string &attrtok, size_t how) {
    Exact a(sname), b(sver), d(sschema);
    nostd::string_view n1(a.data(), a.size()), n2(b.data(), b.size()), n3(d.data(), d.size());
    std::unique_ptr<vh::Attrs> at(new vh::Attrs);
    at->parse(attrtok);
    PairVec av = to_pairs(*at);
    nostd::shared_ptr<trace_api::Tracer> t;
    if (how % 3 == 1) t = provider->GetTracer(n1, n2, n3, av);
    else if (how % 3 == 2 && av.size() <= 3) with_ilist(av, [&](IPairs ia) { t = provider->GetTracer(n1, n2, n3, ia); });
    else t = provider->GetTracer(n1, n2, n3, static_cast<const common::KeyValueIterable *>(at.get()));
    return t;
  };
  if (sc.size() > 3)
  {
    if (sc.size() > 4) get_tracer_with(sc[4], sc[4].size());
    tracer = get_tracer_with(sc[3], sc[3].size() + sname.size());
    if ((sname.size() + sschema.size()) % 2 == 1) tracer = get_tracer_with(sc[3], sc[3].size() + sver.size());
  }
  else
#endif
  {
    Exact a(sname), b(sver), d(sschema);
    // an empty scope name is also requested as a default-constructed view (data() == nullptr)
    nostd::string_view nv = (sname.empty() && sver.size() % 2 == 1) ? nostd::string_view()
                                                                    : nostd::string_view(a.data(), a.size());
    tracer = provider->GetTracer(nv, nostd::string_view(b.data(), b.size()), nostd::string_view(d.data(), d.size()));
  }
  if (sc.size() == 3 && (sname.size() + sschema.size()) % 2 == 1)
  {
    // a second request for the same scope (from fresh buffers): the span is started from what it returns
    Exact a(sname), b(sver), d(sschema);
    tracer = provider->GetTracer(nostd::string_view(a.data(), a.size()), nostd::string_view(b.data(), b.size()),
                                 nostd::string_view(d.data(), d.size()));
  }
  nostd::shared_ptr<trace_api::Span> span;
  {
    std::unique_ptr<Exact> nm(new Exact(name));
    trace_api::StartSpanOptions o;
    // (pr == 3 below) no parent option, but a span is ACTIVE on this thread while StartSpan runs: the implicit parent
    nostd::shared_ptr<trace_api::Span> active_parent;
    o.kind              = static_cast<trace_api::SpanKind>(static_cast<int>(kind));
    o.start_system_time = common::SystemTimestamp(std::chrono::nanoseconds(sys));
    o.start_steady_time = common::SteadyTimestamp(std::chrono::nanoseconds(steady));
    // the parent option (explicit span context / context holding a span / empty context / root context) decides identity
    // only (C05); the record compared here must not depend on it
    {
      const size_t pr = (sname.size() + 3 * name.size() + procs.size() + sschema.size()) % 8;
      static const uint8_t ptid[16] = {0xa1, 2, 3, 4, 5, 6, 7, 8, 9, 10, 11, 12, 13, 14, 15, 16};
      static const uint8_t psid[8]  = {0xb1, 2, 3, 4, 5, 6, 7, 8};
      trace_api::SpanContext psc(trace_api::TraceId(nostd::span<const uint8_t, 16>(ptid, 16)),
                                 trace_api::SpanId(nostd::span<const uint8_t, 8>(psid, 8)),
                                 trace_api::TraceFlags(trace_api::TraceFlags::kIsSampled), pr % 2 == 0);
      if (pr == 3) active_parent = nostd::shared_ptr<trace_api::Span>(new trace_api::DefaultSpan(psc));
      else if (pr == 4) o.parent = psc;
      else if (pr == 5)
      {
        opentelemetry::context::Context base;
        o.parent = trace_api::SetSpan(base, nostd::shared_ptr<trace_api::Span>(new trace_api::DefaultSpan(psc)));
      }
      else if (pr == 6) o.parent = opentelemetry::context::Context{};
      else if (pr == 7) o.parent = opentelemetry::context::Context{}.SetValue(trace_api::kIsRootSpanKey, true);
    }
    // Tracer::StartSpan has one virtual entry point and a family of overloads in the API header that wrap containers and
    // braced initializer lists into the iterable views; which one is used depends on the case (deterministically): they
    // must all start the same span
    nostd::string_view nsv(nm->data(), nm->size());
    std::unique_ptr<trace_api::Scope> active_scope;
    if (active_parent) active_scope.reset(new trace_api::Scope(trace_api::Tracer::WithActiveSpan(active_parent)));
    const size_t ov  = (name.size() + start_attrs->kvs.size() + links->links.size()) % 3;
    const size_t sub = (res.size() + sname.size() + sver.size()) % 4;
    PairVec av       = to_pairs(*start_attrs);
    LinkVec lv       = to_links(links->links);
    const bool small_attrs = av.size() <= 3, small_links = ilinks_ok(lv);
    if (ov == 0)
    {
      if (lv.empty() && sub % 2 == 1)  // KeyValueIterable without links (NullSpanContext inside)
        span = tracer->StartSpan(nsv, static_cast<const common::KeyValueIterable &>(*start_attrs), o);
      else
        span = tracer->StartSpan(nsv, *start_attrs, *links, o);
    }
    else if (lv.empty() && av.empty() && ov == 1)
      span = tracer->StartSpan(nsv, o);
    else if (lv.empty())
    {
      if (small_attrs && sub % 2 == 1) with_ilist(av, [&](IPairs ia) { span = tracer->StartSpan(nsv, ia, o); });
      else span = tracer->StartSpan(nsv, av, o);
    }
    else
    {
      if (small_links && sub == 1) with_ilinks(lv, [&](ILinks il) { span = tracer->StartSpan(nsv, av, il, o); });
      else if (small_links && small_attrs && sub == 3)
        with_ilist(av, [&](IPairs ia) { with_ilinks(lv, [&](ILinks il) { span = tracer->StartSpan(nsv, ia, il, o); }); });
      else span = tracer->StartSpan(nsv, av, lv, o);
    }
    active_scope.reset();  // the implicit parent is no longer active
    nm.reset();
    start_attrs.reset();  // frees every key / value / array block of the start attributes
    links.reset();
  }
  std::vector<std::string> rec;
  std::string late_kinds;  // processors added by `addproc`, in order
  const bool has_batch = procs.find('b') != std::string::npos ||
                         std::any_of(ops.begin(), ops.end(), [](const Op &o) { return o.kind == "addproc" && o.s1 == "b"; });
  size_t nflush = 0, nend = 0;
  auto flush    = [&]() {
    // let a just-started / just-finished batch worker reach its wait, so that ForceFlush's wake-up is not lost
    if (has_batch) vh::wait_parked();
#if OPENTELEMETRY_ABI_VERSION_NO == 1
    // ABI v1: the tracer's own ForceFlush / Close flush the shared context exactly like the provider does
    const size_t how = nflush++ % 3;
    if (how == 1) { tracer->ForceFlush((std::chrono::microseconds::max)()); return; }
    if (how == 2) { tracer->Close((std::chrono::microseconds::max)()); return; }
#endif
    provider->ForceFlush();
  };
  auto run = [&](Op &op) {
    std::unique_ptr<Exact> s1(new Exact(op.s1));
    nostd::string_view sv(s1->data(), s1->size());
    if (op.kind == "attr")
    {
      std::unique_ptr<vh::Val> v(new vh::Val);
      v->parse(op.valtok);
      span->SetAttribute(sv, v->get());
    }
    else if (op.kind == "ev") span->AddEvent(sv);
    else if (op.kind == "evt") span->AddEvent(sv, common::SystemTimestamp(std::chrono::nanoseconds(op.n)));
    else if (op.kind == "eva" || op.kind == "evta")
    {
      std::unique_ptr<vh::Attrs> a(new vh::Attrs);
      a->parse(op.attrtok);
      // the virtual entry points, the container templates and the initializer-list overloads of the API header rotate with
      // the attribute count and the name length
      if (a->kvs.size() <= 3 && op.s1.size() % 3 == 1)
      {
        PairVec av = to_pairs(*a);
        if (op.kind == "eva") with_ilist(av, [&](IPairs ia) { span->AddEvent(sv, ia); });
        else with_ilist(av, [&](IPairs ia) { span->AddEvent(sv, common::SystemTimestamp(std::chrono::nanoseconds(op.n)), ia); });
      }
      else if (a->kvs.size() % 2 == 0)
      {
        if (op.kind == "eva") span->AddEvent(sv, static_cast<const common::KeyValueIterable &>(*a));
        else span->AddEvent(sv, common::SystemTimestamp(std::chrono::nanoseconds(op.n)),
                            static_cast<const common::KeyValueIterable &>(*a));
      }
      else
      {
        std::vector<std::pair<nostd::string_view, common::AttributeValue>> av;
        for (auto &kv : a->kvs) av.emplace_back(nostd::string_view(kv.key->data(), kv.key->size()), kv.val->get());
        if (op.kind == "eva") span->AddEvent(sv, av);
        else span->AddEvent(sv, common::SystemTimestamp(std::chrono::nanoseconds(op.n)), av);
      }
    }
    else if (op.kind == "status")
    {
      // an empty description is also given through the default argument
      if (op.s1.empty() && op.n % 2 == 1) span->SetStatus(static_cast<trace_api::StatusCode>(op.n));
      else span->SetStatus(static_cast<trace_api::StatusCode>(op.n), sv);
    }
    else if (op.kind == "name") span->UpdateName(sv);
    else if (op.kind == "end")
    {
      trace_api::EndSpanOptions eo;
      eo.end_steady_time = common::SteadyTimestamp(std::chrono::nanoseconds(op.n));
      // "no end time given" is also expressed by the default argument
      if (op.n == 0 && nend++ % 2 == 1) span->End();
      else span->End(eo);
    }
    else if (op.kind == "flush") flush();
    else if (op.kind == "addproc" && op.s1 == "n")
      provider->AddProcessor(std::unique_ptr<trace_sdk::SpanProcessor>());  // ignored: no processor, nothing to report
    else if (op.kind == "addproc")
    {
      auto log = std::make_shared<Log>();
      std::unique_ptr<trace_sdk::SpanExporter> exp(new LogExporter(log, &canon));
      std::unique_ptr<trace_sdk::SpanProcessor> inner;
      inner = make_processor(op.s1[0], std::move(exp), case_hash + logs.size());
      provider->AddProcessor(std::unique_ptr<trace_sdk::SpanProcessor>(new Counting(std::move(inner), log)));
      logs.push_back(log);
      late_kinds.push_back(op.s1[0]);
    }
    else if (op.kind == "isrec") rec.push_back(span->IsRecording() ? "1" : "0");
#if OPENTELEMETRY_ABI_VERSION_NO >= 2
    else if (op.kind == "link" || op.kind == "links")
    {
      std::unique_ptr<Links> ls(new Links);
      parse_links(op.linktok, ls->links);
      // virtual entry points, container templates and initializer-list overloads rotate with the shape of the argument
      LinkVec lv = to_links(ls->links);
      size_t na  = 0;
      for (auto &l : lv) na += l.second.size();
      const size_t how = (lv.size() + na) % 3;
      if (op.kind == "link")
      {
        if (how == 1) span->AddLink(lv[0].first, lv[0].second);
        else if (how == 2 && lv[0].second.size() <= 3)
          with_ilist(lv[0].second, [&](IPairs ia) { span->AddLink(lv[0].first, ia); });
        else span->AddLink(ls->links[0].ctx, *ls->links[0].attrs);
      }
      else
      {
        if (how == 1) span->AddLinks(lv);
        else if (how == 2 && ilinks_ok(lv)) with_ilinks(lv, [&](ILinks il) { span->AddLinks(il); });
        else span->AddLinks(*ls);
      }
      // the link list, its contexts and attribute blocks die here
    }
#endif
    // s1 and every value block die here, right after the call
  };
  for (size_t i = 0; i < ops.size(); i++)
  {
    Op &op = ops[i];
    if (op.kind == "seq") continue;
    if (op.kind == "par")
    {
      // the section's ops, per thread in line order; all threads are released together
      std::vector<std::vector<Op *>> per(4);
      size_t j = i + 1;
      for (; j < ops.size() && ops[j].kind != "seq"; j++) per[ops[j].thread].push_back(&ops[j]);
      std::atomic<bool> go{false};
      std::vector<std::thread> ths;
      for (auto &mine : per)
      {
        if (mine.empty()) continue;
        ths.emplace_back([&run, &go, &mine]() {
          vh::register_own_thread();
          while (!go.load(std::memory_order_acquire)) {}
          for (Op *o : mine) run(*o);
        });
      }
      go.store(true, std::memory_order_release);
      for (auto &t : ths) t.join();
      i = j - 1;  // continue at the `seq` (or the end)
      continue;
    }
    if (op.thread >= 0)
    {
      std::thread t([&]() {
        vh::register_own_thread();
        run(op);
      });
      t.join();
    }
    else run(op);
  }
  span = nostd::shared_ptr<trace_api::Span>(nullptr);  // last reference: ~Span -> End()
  // the final flush is a ForceFlush or (a quarter of the cases) the provider's Shutdown, which must export what is queued too
  if ((procs.size() + name.size() + res.size()) % 4 == 3)
  {
    if (has_batch) vh::wait_parked();
    provider->Shutdown();
  }
  else flush();
  std::string out = "rec=[" + vh::join(rec, ",") + "]";
  for (size_t i = 0; i < logs.size(); i++)
  {
    out += " | p" + std::to_string(i) + ":" + (i < procs.size() ? procs[i] : late_kinds[i - procs.size()]) + ":start=" + std::to_string(logs[i]->on_start) +
           ":end=" + std::to_string(logs[i]->on_end) + ":x=[";
    for (size_t b = 0; b < logs[i]->batches.size(); b++)
    {
      if (b) out += ";";
      out += "[" + vh::join(logs[i]->batches[b], ";") + "]";
    }
    out += "]";
  }
  tracer = nostd::shared_ptr<trace_api::Tracer>(nullptr);
  provider.reset();
  return out;
}

int main()
{
  opentelemetry::sdk::common::internal_log::GlobalLogHandler::SetLogLevel(
      opentelemetry::sdk::common::internal_log::LogLevel::None);
  vh::register_own_thread();
  return vh::run_lines(handle);
}
