// Engine D harness for the concurrency reading of C19's last clause ("requesting the same name/version/schema/attributes
// returns the same tracer, meter or logger"): the UNMODIFIED sdk/src/trace/tracer_provider.cc, sdk/src/metrics/
// meter_provider.cc (+ meter_context.cc) and sdk/src/logs/logger_provider.cc under the scheduler shim; one real
// TracerProvider, MeterProvider and LoggerProvider per case, 1-4 managed threads requesting tracers / meters / loggers.
//
//   gsc <script0> [<script1> [<script2> [<script3>]]] ; t<i> ; t<i> ; ...
//     script = comma separated requests of one managed thread: <kind><scope id>, kind t = GetTracer, m = GetMeter,
//     l = GetLogger, scope id 0..9 = an entry of POOL below (name, version, schema url, attributes, logger name; entries
//     that differ only in the version / the schema url / one attribute value / one more attribute / the logger name, the
//     empty name).  Which entries name the SAME scope depends on the kind: a tracer / meter request carries the attributes
//     only in the ABI v2 build (engine word `gsc2` = this source built with OPENTELEMETRY_ABI_VERSION_NO=2) and never the
//     logger name; a logger request with an empty library name uses the logger name as the scope name.
//     `t<i>` = thread i takes one step.  Scheduling points: the begin of every request, lock / unlock of the provider's
//     `lock_` (named tl / ml / ll), the SpinLockMutex of MeterContext (named msl), and the scope configurator the provider
//     was given (it runs inside the constructor of the new Tracer / Meter / Logger: `create`).  After the schedule
//     everything is drained round-robin.
// Output: per action the trace of the step: `call <kind> <scope id>`, `lock tl`, `create <kind> o<n>` (object n of that
// kind is being constructed; n = first-seen index), `unlock tl`, `ret <kind> o<n> s<id>` (the object returned and the pool
// entry - smallest id - its scope CONTENT stands for, `s?` if none); the drain; then
//   done=<0|1> t=[o<n>:s<id>,...] m=[...] l=[...]        the providers' lists (tracers_, meters_, loggers_) in order
#include "common.h"

#define private public
#include "opentelemetry/sdk/logs/logger.h"
#include "opentelemetry/sdk/logs/logger_provider.h"
#include "opentelemetry/sdk/metrics/meter_context.h"
#include "opentelemetry/sdk/metrics/meter_provider.h"
#include "opentelemetry/sdk/trace/tracer_provider.h"
#undef private

#include "opentelemetry/sdk/common/global_log_handler.h"
#include "opentelemetry/sdk/instrumentationscope/scope_configurator.h"
#include "opentelemetry/sdk/logs/processor.h"
#include "opentelemetry/sdk/logs/recordable.h"
#include "opentelemetry/sdk/metrics/meter.h"
#include "opentelemetry/sdk/metrics/view/view_registry.h"
#include "opentelemetry/sdk/resource/resource.h"
#include "opentelemetry/sdk/trace/processor.h"
#include "opentelemetry/sdk/trace/random_id_generator.h"
#include "opentelemetry/sdk/trace/recordable.h"
#include "opentelemetry/sdk/trace/samplers/always_on.h"
#include "opentelemetry/sdk/trace/tracer.h"

namespace nostd    = opentelemetry::nostd;
namespace common   = opentelemetry::common;
namespace st       = opentelemetry::sdk::trace;
namespace sm       = opentelemetry::sdk::metrics;
namespace sl       = opentelemetry::sdk::logs;
namespace res      = opentelemetry::sdk::resource;
namespace scope_ns = opentelemetry::sdk::instrumentationscope;

#if OPENTELEMETRY_ABI_VERSION_NO >= 2
static const char *kWord = "gsc2";
#else
static const char *kWord = "gsc";
#endif

struct PoolEntry
{
  const char *name, *version, *schema;
  std::vector<std::pair<std::string, std::string>> attrs;
  const char *lname;
};
static const std::vector<PoolEntry> POOL = {
    {"lib", "", "", {}, "lg"},                                   // 0
    {"lib", "1.0", "", {}, "lg"},                                // 1  differs from 0 in the version only
    {"lib", "1.0", "http://x", {}, "lg"},                        // 2  differs from 1 in the schema url only
    {"", "", "", {}, "lg"},                                      // 3  the empty name
    {"lib", "1.0", "http://x", {{"k", "v"}}, "lg"},              // 4  differs from 2 in one attribute
    {"lib", "1.0", "http://x", {{"k", "w"}}, "lg"},              // 5  differs from 4 in the value of that attribute
    {"lib", "", "", {}, "lg2"},                                  // 6  differs from 0 in the logger name only
    {"lg", "", "", {}, "lg"},                                    // 7  what 3 means for a logger
    {"lib", "1.0", "http://y", {}, "lg"},                        // 8  differs from 2 in the schema url only
    {"lib", "1.0", "http://x", {{"j", "u"}, {"k", "v"}}, "lg"},  // 9  one attribute more than 4
};

// the scope a request of `kind` for pool entry `id` names, as a string; two entries name the same scope iff equal
static std::string key_of(char kind, const std::string &name, const std::string &version, const std::string &schema,
                          std::vector<std::pair<std::string, std::string>> attrs, const std::string &lname)
{
  std::sort(attrs.begin(), attrs.end());
  std::string k = vh::to_hex(name) + "/" + vh::to_hex(version) + "/" + vh::to_hex(schema) + "/";
  for (auto &a : attrs) k += vh::to_hex(a.first) + "=" + vh::to_hex(a.second) + ",";
  if (kind == 'l') k += "/" + vh::to_hex(lname);
  return k;
}

static std::string pool_key(char kind, size_t id)
{
  const PoolEntry &p = POOL[id];
  std::vector<std::pair<std::string, std::string>> attrs = p.attrs;
#if OPENTELEMETRY_ABI_VERSION_NO < 2
  if (kind != 'l') attrs.clear();
#endif
  std::string name = p.name;
  if (kind == 'l' && name.empty()) name = p.lname;
  return key_of(kind, name, p.version, p.schema, attrs, kind == 'l' ? p.lname : "");
}

// the pool entry (smallest id) a scope's CONTENT stands for, or "?" when it is none of them
static std::string classify(char kind, const scope_ns::InstrumentationScope &s, const std::string &lname)
{
  std::vector<std::pair<std::string, std::string>> attrs;
  for (auto &kv : s.GetAttributes())
  {
    std::string v = nostd::holds_alternative<std::string>(kv.second) ? nostd::get<std::string>(kv.second) : std::string("?");
    attrs.emplace_back(kv.first, v);
  }
  std::string k = key_of(kind, s.GetName(), s.GetVersion(), s.GetSchemaURL(), attrs, kind == 'l' ? lname : "");
  for (size_t id = 0; id < POOL.size(); id++)
    if (pool_key(kind, id) == k) return "s" + std::to_string(id);
  return "s?";
}

struct Req
{
  char kind;
  size_t id;
};

static bool parse_script(const std::string &s, std::vector<Req> &ops)
{
  if (s == "-") return true;
  size_t i = 0;
  while (i <= s.size())
  {
    size_t j        = s.find(',', i);
    std::string tok = s.substr(i, j == std::string::npos ? std::string::npos : j - i);
    if (tok.size() != 2 || (tok[0] != 't' && tok[0] != 'm' && tok[0] != 'l') || tok[1] < '0' || tok[1] > '9') return false;
    ops.push_back({tok[0], static_cast<size_t>(tok[1] - '0')});
    if (j == std::string::npos) break;
    i = j + 1;
  }
  return ops.size() <= 8;
}

class NoopSpanProcessor final : public st::SpanProcessor
{
public:
  std::unique_ptr<st::Recordable> MakeRecordable() noexcept override { return nullptr; }
  void OnStart(st::Recordable &, const opentelemetry::trace::SpanContext &) noexcept override {}
  void OnEnd(std::unique_ptr<st::Recordable> &&) noexcept override {}
  bool ForceFlush(std::chrono::microseconds) noexcept override { return true; }
  bool Shutdown(std::chrono::microseconds) noexcept override { return true; }
};

class NoopLogProcessor final : public sl::LogRecordProcessor
{
public:
  std::unique_ptr<sl::Recordable> MakeRecordable() noexcept override { return nullptr; }
  void OnEmit(std::unique_ptr<sl::Recordable> &&) noexcept override {}
  bool ForceFlush(std::chrono::microseconds) noexcept override { return true; }
  bool Shutdown(std::chrono::microseconds) noexcept override { return true; }
};

// object identity per kind: the address of the object's InstrumentationScope (owned by exactly one Tracer / Meter / Logger,
// never freed during a case: every returned pointer is kept), canonicalised as first-seen index
struct Ids
{
  std::map<const void *, int> ix[3];
  static int k(char kind) { return kind == 't' ? 0 : kind == 'm' ? 1 : 2; }
  std::string of(char kind, const void *scope)
  {
    auto &m = ix[k(kind)];
    auto it = m.find(scope);
    if (it == m.end()) it = m.emplace(scope, static_cast<int>(m.size())).first;
    return "o" + std::to_string(it->second);
  }
};

// the scope configurator handed to each provider: evaluated by the constructor of the new Tracer / Meter / Logger, i.e.
// between the lookup that missed and the push_back.  One scheduling point; the default config (enabled) applies.
template <class Config>
static std::unique_ptr<scope_ns::ScopeConfigurator<Config>> hook(char kind, Ids *ids)
{
  typename scope_ns::ScopeConfigurator<Config>::Builder b(Config::Enabled());
  b.AddCondition(
      [kind, ids](const scope_ns::InstrumentationScope &s) {
        detsched::point("create", &s);
        detsched::note(std::string("create ") + kind + " " + ids->of(kind, &s));
        return false;
      },
      Config::Enabled());
  return std::unique_ptr<scope_ns::ScopeConfigurator<Config>>(new scope_ns::ScopeConfigurator<Config>(b.Build()));
}

static std::string handle(const std::vector<std::string> &t)
{
  auto ops = vh::split_ops(t, 1);
  if (ops.empty() || ops[0].empty() || ops[0].size() > 4) return "bad-op";
  std::vector<std::vector<Req>> scripts;
  for (auto &s : ops[0])
  {
    scripts.emplace_back();
    if (!parse_script(s, scripts.back())) return "bad-op";
  }
  std::vector<int> acts;
  const size_t nth = scripts.size();
  for (size_t i = 1; i < ops.size(); i++)
  {
    if (ops[i].size() != 1 || ops[i][0].size() < 2 || ops[i][0].size() > 4 || ops[i][0][0] != 't') return "bad-op";
    char *e         = nullptr;
    unsigned long v = strtoul(ops[i][0].c_str() + 1, &e, 10);
    if (*e != 0) return "bad-op";
    acts.push_back(v >= nth ? -1 : (int)v);
  }

  detsched::reset();
  std::vector<std::string> outs;
  Ids ids;
  {
    auto resource = res::Resource::Create({{"service.name", "c19"}});
    std::vector<std::unique_ptr<st::SpanProcessor>> sps;
    sps.emplace_back(new NoopSpanProcessor);
    auto tp = std::make_shared<st::TracerProvider>(std::move(sps), resource, std::unique_ptr<st::Sampler>(new st::AlwaysOnSampler),
                                                   std::unique_ptr<st::IdGenerator>(new st::RandomIdGenerator),
                                                   hook<st::TracerConfig>('t', &ids));
    auto mp = std::make_shared<sm::MeterProvider>(std::unique_ptr<sm::ViewRegistry>(new sm::ViewRegistry()), resource,
                                                  hook<sm::MeterConfig>('m', &ids));
    auto lp = std::make_shared<sl::LoggerProvider>(std::unique_ptr<sl::LogRecordProcessor>(new NoopLogProcessor), resource,
                                                   hook<sl::LoggerConfig>('l', &ids));
    detsched::name_object(&tp->lock_, "tl");
    detsched::name_object(&mp->lock_, "ml");
    detsched::name_object(&lp->lock_, "ll");
    detsched::name_object(&mp->context_->meter_lock_.flag_, "msl");
    // every returned pointer is kept to the end of the case: no object is freed, no address is reused
    std::vector<nostd::shared_ptr<opentelemetry::trace::Tracer>> keep_t;
    std::vector<nostd::shared_ptr<opentelemetry::metrics::Meter>> keep_m;
    std::vector<nostd::shared_ptr<opentelemetry::logs::Logger>> keep_l;
    for (size_t th = 0; th < nth; th++)
    {
      detsched::spawn([&, th] {
        for (auto &rq : scripts[th])
        {
          detsched::point("begin", nullptr);
          const PoolEntry &p = POOL[rq.id];
          std::string what   = std::string(1, rq.kind) + " ";
          detsched::note("call " + what + std::to_string(rq.id));
          // the request's strings live in exact-size blocks that are gone when the call has returned
          std::unique_ptr<vh::Exact> n(new vh::Exact(p.name)), v(new vh::Exact(p.version)), s(new vh::Exact(p.schema)),
              ln(new vh::Exact(p.lname));
          nostd::string_view nv(n->data(), n->size()), vv(v->data(), v->size()), sv(s->data(), s->size()), lv(ln->data(), ln->size());
          std::map<std::string, std::string> attrs(p.attrs.begin(), p.attrs.end());
          common::KeyValueIterableView<std::map<std::string, std::string>> av(attrs);
          const void *scope = nullptr;
          std::string content;
          if (rq.kind == 't')
          {
#if OPENTELEMETRY_ABI_VERSION_NO >= 2
            // an empty attribute set is passed as nullptr by the even threads, as an empty iterable by the odd ones
            auto r = tp->GetTracer(nv, vv, sv, attrs.empty() && th % 2 == 0 ? nullptr : &av);
#else
            auto r = tp->GetTracer(nv, vv, sv);
#endif
            n.reset(); v.reset(); s.reset();
            scope   = &static_cast<st::Tracer *>(r.get())->GetInstrumentationScope();
            content = classify('t', static_cast<st::Tracer *>(r.get())->GetInstrumentationScope(), "");
            keep_t.push_back(r);
          }
          else if (rq.kind == 'm')
          {
#if OPENTELEMETRY_ABI_VERSION_NO >= 2
            auto r = mp->GetMeter(nv, vv, sv, attrs.empty() && th % 2 == 0 ? nullptr : &av);
#else
            auto r = mp->GetMeter(nv, vv, sv);
#endif
            n.reset(); v.reset(); s.reset();
            scope   = static_cast<sm::Meter *>(r.get())->GetInstrumentationScope();
            content = classify('m', *static_cast<sm::Meter *>(r.get())->GetInstrumentationScope(), "");
            keep_m.push_back(r);
          }
          else
          {
            auto r = lp->GetLogger(lv, nv, vv, sv, av);
            n.reset(); v.reset(); s.reset(); ln.reset();
            auto *lg = static_cast<sl::Logger *>(r.get());
            scope    = &lg->GetInstrumentationScope();
            content  = classify('l', lg->GetInstrumentationScope(), lg->logger_name_);
            keep_l.push_back(r);
          }
          detsched::note("ret " + what + ids.of(rq.kind, scope) + " " + content);
        }
      });
    }
    for (int a : acts) outs.push_back(a < 0 ? std::string("x") : detsched::run(a));
    std::string dtrace;
    bool done = detsched::drain(4000, &dtrace);
    if (!dtrace.empty()) outs.push_back(dtrace.substr(0, dtrace.size() - 3));
    std::string sum = std::string("done=") + (done ? "1" : "0");
    if (done)
    {
      std::vector<std::string> e;
      for (auto &x : tp->tracers_) e.push_back(ids.of('t', &x->GetInstrumentationScope()) + ":" + classify('t', x->GetInstrumentationScope(), ""));
      sum += " t=[" + vh::join(e, ",") + "]";
      e.clear();
      for (auto &x : mp->context_->meters_) e.push_back(ids.of('m', x->GetInstrumentationScope()) + ":" + classify('m', *x->GetInstrumentationScope(), ""));
      sum += " m=[" + vh::join(e, ",") + "]";
      e.clear();
      for (auto &x : lp->loggers_) e.push_back(ids.of('l', &x->GetInstrumentationScope()) + ":" + classify('l', x->GetInstrumentationScope(), x->logger_name_));
      sum += " l=[" + vh::join(e, ",") + "]";
    }
    outs.push_back(sum);
    if (!done)
    {
      std::string o = vh::join(outs, " ; ");
      fputs(o.c_str(), stdout);
      fputc('\n', stdout);
      fflush(stdout);
      _exit(77);
    }
    detsched::reset();  // joins the managed threads before the providers go away
  }
  return vh::join(outs, " ; ");
}

int main()
{
  opentelemetry::sdk::common::internal_log::GlobalLogHandler::SetLogLevel(opentelemetry::sdk::common::internal_log::LogLevel::None);
  return vh::run_lines([](const std::vector<std::string> &t) -> std::string {
    if (t.empty()) return "bad-op";
    if (t[0] == kWord) return handle(t);
    return "bad-op";
  });
}
