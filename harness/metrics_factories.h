// Rotation of the metrics SDK's constructors and *Factory::Create overloads for the metrics harnesses (s_c06, s_c08, s_c17,
// s_c19): half of the cases build a MeterProvider / MeterContext / ViewRegistry / View / selector through the factory
// functions, half through the constructors, and within each half every admissible overload takes its turn.  The choice
// is a hash of the case text, so a case replays the same way.  A factory (or a constructor overload) that drops or
// alters an argument then shows up as a wrong stream on the cases that went through it.
#pragma once
#include <cstdint>
#include <memory>
#include <string>
#include <vector>

#include "opentelemetry/sdk/instrumentationscope/scope_configurator.h"
#include "opentelemetry/sdk/metrics/meter_config.h"
#include "opentelemetry/sdk/metrics/meter_context.h"
#include "opentelemetry/sdk/metrics/meter_context_factory.h"
#include "opentelemetry/sdk/metrics/meter_provider.h"
#include "opentelemetry/sdk/metrics/meter_provider_factory.h"
#include "opentelemetry/sdk/metrics/view/attributes_processor.h"
#include "opentelemetry/sdk/metrics/view/instrument_selector.h"
#include "opentelemetry/sdk/metrics/view/instrument_selector_factory.h"
#include "opentelemetry/sdk/metrics/view/meter_selector.h"
#include "opentelemetry/sdk/metrics/view/meter_selector_factory.h"
#include "opentelemetry/sdk/metrics/view/view.h"
#include "opentelemetry/sdk/metrics/view/view_factory.h"
#include "opentelemetry/sdk/metrics/view/view_registry.h"
#include "opentelemetry/sdk/metrics/view/view_registry_factory.h"
#include "opentelemetry/sdk/resource/resource.h"

namespace vhm
{
namespace sm_  = opentelemetry::sdk::metrics;
namespace res_ = opentelemetry::sdk::resource;
using Configurator = opentelemetry::sdk::instrumentationscope::ScopeConfigurator<sm_::MeterConfig>;

// FNV-1a over the tokens of the case line
inline uint64_t case_hash(const std::vector<std::string> &toks)
{
  uint64_t h = 1469598103934665603ULL;
  for (auto &t : toks)
  {
    for (unsigned char c : t)
    {
      h ^= c;
      h *= 1099511628211ULL;
    }
    h ^= ' ';
    h *= 1099511628211ULL;
  }
  return h;
}
// independent sub-choices from one case hash
inline uint64_t mix(uint64_t h, uint64_t salt)
{
  h ^= salt + 0x9e3779b97f4a7c15ULL + (h << 6) + (h >> 2);
  h *= 0xff51afd7ed558ccdULL;
  return h ^ (h >> 33);
}

inline std::unique_ptr<sm_::ViewRegistry> make_registry(uint64_t h)
{
  if (mix(h, 11) % 2) return sm_::ViewRegistryFactory::Create();
  return std::unique_ptr<sm_::ViewRegistry>(new sm_::ViewRegistry());
}

inline std::unique_ptr<sm_::InstrumentSelector> make_isel(uint64_t h, sm_::InstrumentType type, const std::string &name, const std::string &unit)
{
  if (mix(h, 12) % 2) return sm_::InstrumentSelectorFactory::Create(type, name, unit);
  return std::unique_ptr<sm_::InstrumentSelector>(new sm_::InstrumentSelector(type, name, unit));
}

inline std::unique_ptr<sm_::MeterSelector> make_msel(uint64_t h, const std::string &name, const std::string &version, const std::string &schema)
{
  if (mix(h, 13) % 2) return sm_::MeterSelectorFactory::Create(name, version, schema);
  return std::unique_ptr<sm_::MeterSelector>(new sm_::MeterSelector(name, version, schema));
}

// a View: through ViewFactory::Create or the constructor; among the six overloads (1 ... 6 arguments) every one that can
// express the request takes its turn (an argument that equals the default may be passed or left out)
inline std::unique_ptr<sm_::View> make_view(uint64_t h, const std::string &name, const std::string &description = "", const std::string &unit = "",
                                            sm_::AggregationType agg = sm_::AggregationType::kDefault,
                                            std::shared_ptr<sm_::AggregationConfig> config = nullptr,
                                            std::unique_ptr<sm_::AttributesProcessor> proc = nullptr)
{
  unsigned min_args = proc ? 6 : config ? 5 : agg != sm_::AggregationType::kDefault ? 4 : !unit.empty() ? 3 : !description.empty() ? 2 : 1;
  unsigned nargs    = min_args + static_cast<unsigned>(mix(h, 14) % (7 - min_args));
  const bool fac    = mix(h, 15) % 2;
  if (nargs == 6 && !proc) proc.reset(new sm_::DefaultAttributesProcessor());
  switch (nargs)
  {
    case 1:
      return fac ? sm_::ViewFactory::Create(name) : std::unique_ptr<sm_::View>(new sm_::View(name));
    case 2:
      return fac ? sm_::ViewFactory::Create(name, description) : std::unique_ptr<sm_::View>(new sm_::View(name, description));
    case 3:
      return fac ? sm_::ViewFactory::Create(name, description, unit) : std::unique_ptr<sm_::View>(new sm_::View(name, description, unit));
    case 4:
      return fac ? sm_::ViewFactory::Create(name, description, unit, agg) : std::unique_ptr<sm_::View>(new sm_::View(name, description, unit, agg));
    case 5:
      return fac ? sm_::ViewFactory::Create(name, description, unit, agg, config)
                 : std::unique_ptr<sm_::View>(new sm_::View(name, description, unit, agg, config));
    default:
      return fac ? sm_::ViewFactory::Create(name, description, unit, agg, config, std::move(proc))
                 : std::unique_ptr<sm_::View>(new sm_::View(name, description, unit, agg, config, std::move(proc)));
  }
}

struct Built
{
  std::shared_ptr<sm_::MeterProvider> provider;
  sm_::MeterContext *ctx = nullptr;  // null when the overload used hides the context
};

// a MeterProvider.  `views` may be null when the harness adds its views afterwards (MeterProvider::AddView): then the
// overloads without a registry are admissible too; `resource` / `conf` null = the harness does not care: the overloads
// without them are admissible too.  Factory half: MeterProviderFactory::Create() / (views) / (views, resource) /
// (views, resource, configurator) / (MeterContextFactory::Create() / (views) / (views, resource) / (views, resource, configurator)).
// Constructor half: MeterProvider(...) with as many arguments, or MeterProvider(unique_ptr<MeterContext>(new MeterContext(...))).
inline Built make_provider(uint64_t h, std::unique_ptr<sm_::ViewRegistry> views, const res_::Resource *resource, std::unique_ptr<Configurator> conf)
{
  unsigned min_args = conf ? 3 : resource ? 2 : views ? 1 : 0;
  unsigned nargs    = min_args + static_cast<unsigned>(mix(h, 16) % (4 - min_args));
  const bool fac    = mix(h, 17) % 2;
  const bool via_context = mix(h, 18) % 2;
  if (nargs >= 1 && !views) views = make_registry(h);
  res_::Resource own = res_::Resource::Create({});
  if (nargs >= 2 && !resource) resource = &own;
  if (nargs >= 3 && !conf) conf.reset(new Configurator(Configurator::Builder(sm_::MeterConfig::Default()).Build()));
  Built b;
  if (via_context)
  {
    std::unique_ptr<sm_::MeterContext> ctx;
    if (fac)
      ctx = nargs == 0   ? sm_::MeterContextFactory::Create()
            : nargs == 1 ? sm_::MeterContextFactory::Create(std::move(views))
            : nargs == 2 ? sm_::MeterContextFactory::Create(std::move(views), *resource)
                         : sm_::MeterContextFactory::Create(std::move(views), *resource, std::move(conf));
    else
      ctx.reset(nargs == 0   ? new sm_::MeterContext()
                : nargs == 1 ? new sm_::MeterContext(std::move(views))
                : nargs == 2 ? new sm_::MeterContext(std::move(views), *resource)
                             : new sm_::MeterContext(std::move(views), *resource, std::move(conf)));
    b.ctx = ctx.get();
    if (fac) b.provider = std::shared_ptr<sm_::MeterProvider>(sm_::MeterProviderFactory::Create(std::move(ctx)));
    else b.provider = std::make_shared<sm_::MeterProvider>(std::move(ctx));
    return b;
  }
  if (fac)
    b.provider = std::shared_ptr<sm_::MeterProvider>(nargs == 0   ? sm_::MeterProviderFactory::Create()
                                                     : nargs == 1 ? sm_::MeterProviderFactory::Create(std::move(views))
                                                     : nargs == 2 ? sm_::MeterProviderFactory::Create(std::move(views), *resource)
                                                                  : sm_::MeterProviderFactory::Create(std::move(views), *resource, std::move(conf)));
  else
    b.provider = nargs == 0   ? std::make_shared<sm_::MeterProvider>()
                 : nargs == 1 ? std::make_shared<sm_::MeterProvider>(std::move(views))
                 : nargs == 2 ? std::make_shared<sm_::MeterProvider>(std::move(views), *resource)
                              : std::make_shared<sm_::MeterProvider>(std::move(views), *resource, std::move(conf));
  return b;
}
}  // namespace vhm
