// Engine D harness for the record-vs-collect clause of C06: the UNMODIFIED SyncMetricStorage / TemporalMetricStorage /
// AttributesHashMap / LongSumAggregation (their SpinLockMutex is an std::atomic<bool> and therefore shimmed) with
// recorder threads racing collector threads under an explicit schedule.
//   syn <temps e.g. D or DC> <nrec> <adds each> <collects per reader> ; t<i> ; ...
//     threads: recorders 0..nrec-1 (recorder r adds the values 1, 2, ... to attribute set {k=r%2}), then one collector
//     thread per reader.  After the schedule everything is drained and each reader collects once more.
// Output: per action the trace of the step; then `rec=<total recorded> r<i>=<what reader i was given in total>`.
#include "common.h"

#include "opentelemetry/sdk/metrics/state/sync_metric_storage.h"
#include "opentelemetry/sdk/metrics/view/attributes_processor.h"

namespace sm = opentelemetry::sdk::metrics;

class Handle : public sm::CollectorHandle
{
public:
  explicit Handle(sm::AggregationTemporality t) : t_(t) {}
  sm::AggregationTemporality GetAggregationTemporality(sm::InstrumentType) noexcept override { return t_; }
  sm::AggregationTemporality t_;
};

static std::string handle(const std::vector<std::string> &t)
{
  auto ops = vh::split_ops(t, 1);
  if (ops.empty() || ops[0].size() != 4) return "bad-op";
  std::string temps = ops[0][0];
  unsigned long nrec, adds, ncol;
  auto num = [](const std::string &s, unsigned long &v) {
    char *e = nullptr;
    v       = strtoul(s.c_str(), &e, 10);
    return !s.empty() && *e == 0;
  };
  if (!num(ops[0][1], nrec) || !num(ops[0][2], adds) || !num(ops[0][3], ncol)) return "bad-op";
  if (temps.empty() || temps.size() > 3 || nrec == 0 || nrec > 4 || adds > 6 || ncol > 4) return "bad-op";
  for (char c : temps)
    if (c != 'D' && c != 'C') return "bad-op";
  std::vector<int> acts;
  size_t nth = nrec + temps.size();
  for (size_t i = 1; i < ops.size(); i++)
  {
    if (ops[i].size() != 1 || ops[i][0].size() < 2 || ops[i][0][0] != 't') return "bad-op";
    unsigned long v;
    if (!num(ops[i][0].substr(1), v)) return "bad-op";
    acts.push_back(v >= nth ? -1 : (int)v);
  }
  detsched::reset();
  std::vector<std::string> outs;
  sm::InstrumentDescriptor desc = {"c", "", "", sm::InstrumentType::kUpDownCounter, sm::InstrumentValueType::kLong};
  std::unique_ptr<sm::AttributesProcessor> proc(new sm::DefaultAttributesProcessor());
  auto *storage = new sm::SyncMetricStorage(desc, sm::AggregationType::kSum, proc.get(), nullptr);
  std::vector<std::shared_ptr<sm::CollectorHandle>> collectors;
  for (char c : temps)
    collectors.emplace_back(new Handle(c == 'D' ? sm::AggregationTemporality::kDelta : sm::AggregationTemporality::kCumulative));
  auto start = std::chrono::system_clock::now();
  long long recorded = 0;
  std::vector<long long> given(temps.size(), 0);  // delta: sum of all points; cumulative: the last total
  auto collect = [&](size_t r) {
    long long tot = 0;
    storage->Collect(collectors[r].get(), collectors, start, std::chrono::system_clock::now(), [&](const sm::MetricData &md) {
      for (auto &p : md.point_data_attr_)
      {
        auto &sp = opentelemetry::nostd::get<sm::SumPointData>(p.point_data);
        tot += opentelemetry::nostd::get<int64_t>(sp.value_);
      }
      return true;
    });
    if (temps[r] == 'D') given[r] += tot;
    else given[r] = tot;
    return tot;
  };
  for (size_t r = 0; r < nrec; r++)
  {
    detsched::spawn([&, r] {
      for (unsigned long j = 1; j <= adds; j++)
      {
        detsched::point("begin", nullptr);
        std::map<std::string, int64_t> a{{"k", static_cast<int64_t>(r % 2)}};
        opentelemetry::common::KeyValueIterableView<std::map<std::string, int64_t>> kv(a);
        detsched::note("add " + std::to_string(j));
        recorded += static_cast<long long>(j);
        storage->RecordLong(static_cast<int64_t>(j), kv, opentelemetry::context::Context{});
        detsched::note("added");
      }
    });
  }
  for (size_t r = 0; r < temps.size(); r++)
  {
    detsched::spawn([&, r] {
      for (unsigned long j = 0; j < ncol; j++)
      {
        detsched::point("begin", nullptr);
        detsched::note("collect");
        long long v = collect(r);
        detsched::note("collected " + std::to_string(v));
      }
    });
  }
  for (int a : acts) outs.push_back(a < 0 ? std::string("x") : detsched::run(a));
  std::string dtrace;
  bool done = detsched::drain(4000, &dtrace);
  if (!dtrace.empty()) outs.push_back(dtrace.substr(0, dtrace.size() - 3));
  if (!done)
  {
    outs.push_back("done=0");
    std::string o = vh::join(outs, " ; ");
    fputs(o.c_str(), stdout);
    fputc('\n', stdout);
    fflush(stdout);
    _exit(77);
  }
  // final, unmanaged: every reader collects once more
  std::string sum = "done=1 rec=" + std::to_string(recorded);
  for (size_t r = 0; r < temps.size(); r++)
  {
    collect(r);
    sum += " r" + std::to_string(r) + "=" + std::to_string(given[r]);
  }
  outs.push_back(sum);
  delete storage;
  detsched::reset();
  return vh::join(outs, " ; ");
}

int main()
{
  return vh::run_lines([](const std::vector<std::string> &t) -> std::string {
    if (t.empty()) return "bad-op";
    if (t[0] == "syn") return handle(t);
    return "bad-op";
  });
}
