// Attribute values of the line protocol (C04, C13): parsing into caller-owned, exactly-sized heap blocks that are freed
// right after the API call, and canonical rendering of the SDK's OwnedAttributeValue.
//
// value := b:0|1 | i:<int32> | l:<int64> | u:<uint32> | U:<uint64> | d:<16 hex> | c:<hex> | s:<hex>
//        | B:<0|1 . …> | I: | L: | V: | W: | D:<16hex . …> | S:<hex . …> | Y:<hex>
// attrs := - | <keyhex>=<value>,<keyhex>=<value>,…
#pragma once
#include <map>
#include "common.h"
#include "opentelemetry/common/attribute_value.h"
#include "opentelemetry/common/key_value_iterable.h"
#include "opentelemetry/nostd/span.h"
#include "opentelemetry/nostd/string_view.h"
#include "opentelemetry/sdk/common/attribute_utils.h"

namespace vh
{
namespace nostd  = opentelemetry::nostd;
namespace common = opentelemetry::common;

inline std::vector<std::string> split_on(const std::string &s, char sep)
{
  std::vector<std::string> v(1);
  for (char c : s)
  {
    if (c == sep) v.emplace_back();
    else v.back().push_back(c);
  }
  return v;
}

inline bool parse_nat(const std::string &s, unsigned __int128 &out)
{
  if (s.empty() || s.size() > 20) return false;
  out = 0;
  for (char c : s)
  {
    if (c < '0' || c > '9') return false;
    out = out * 10 + static_cast<unsigned>(c - '0');
  }
  return true;
}

inline bool parse_int(const std::string &s, __int128 &out)
{
  unsigned __int128 n;
  if (!s.empty() && s[0] == '-')
  {
    if (!parse_nat(s.substr(1), n)) return false;
    out = -static_cast<__int128>(n);
    return true;
  }
  if (!parse_nat(s, n)) return false;
  out = static_cast<__int128>(n);
  return true;
}

inline bool parse_i(int bits, const std::string &s, int64_t &out)
{
  __int128 v;
  if (!parse_int(s, v)) return false;
  __int128 lim = static_cast<__int128>(1) << (bits - 1);
  if (v < -lim || v >= lim) return false;
  out = static_cast<int64_t>(v);
  return true;
}

inline bool parse_u(int bits, const std::string &s, uint64_t &out)
{
  unsigned __int128 v;
  if (!parse_nat(s, v)) return false;
  if (v >= (static_cast<unsigned __int128>(1) << bits)) return false;
  out = static_cast<uint64_t>(v);
  return true;
}

inline bool parse_bits(const std::string &s, double &out)
{
  std::string raw;
  if (s.size() != 16 || !from_hex(s, raw) || raw.size() != 8) return false;
  uint64_t u = 0;
  for (unsigned char c : raw) u = (u << 8) | c;
  memcpy(&out, &u, 8);
  return true;
}

// a heap array of exactly n elements (1 when n == 0 so that the pointer is valid), freed with the value
template <class T>
struct Arr
{
  std::unique_ptr<T[]> p;
  size_t n = 0;
  void alloc(size_t k)
  {
    n = k;
    p.reset(new T[k ? k : 1]);
  }
};

// One parsed attribute value together with the caller-side storage the AttributeValue points into.
struct Val
{
  char tag = 0;
  bool b   = false;
  int64_t i = 0;
  uint64_t u = 0;
  double d  = 0;
  std::unique_ptr<Exact> str;   // s: exact block; c: block with one extra NUL
  std::unique_ptr<char[]> cstr;
  Arr<bool> ab;
  Arr<int32_t> ai32;
  Arr<int64_t> ai64;
  Arr<uint32_t> au32;
  Arr<uint64_t> au64;
  Arr<double> ad;
  Arr<uint8_t> au8;
  std::vector<std::unique_ptr<Exact>> strs;
  Arr<nostd::string_view> asv;

  bool parse(const std::string &tok)
  {
    auto parts = split_on(tok, ':');
    if (parts.size() != 2 || parts[0].size() != 1) return false;
    tag                  = parts[0][0];
    const std::string &p = parts[1];
    std::vector<std::string> el;
    if (!p.empty()) el = split_on(p, '.');
    std::string raw;
    switch (tag)
    {
      case 'b':
        if (p != "0" && p != "1") return false;
        b = p == "1";
        return true;
      case 'i': return parse_i(32, p, i);
      case 'l': return parse_i(64, p, i);
      case 'u': return parse_u(32, p, u);
      case 'U': return parse_u(64, p, u);
      case 'd': return parse_bits(p, d);
      case 's':
        if (!from_hex(p, raw)) return false;
        str.reset(new Exact(raw));
        return true;
      case 'c':
        if (!from_hex(p, raw)) return false;
        cstr.reset(new char[raw.size() + 1]);
        memcpy(cstr.get(), raw.data(), raw.size());
        cstr[raw.size()] = 0;
        return true;
      case 'Y':
        if (!from_hex(p, raw)) return false;
        au8.alloc(raw.size());
        for (size_t k = 0; k < raw.size(); k++) au8.p[k] = static_cast<uint8_t>(raw[k]);
        return true;
      case 'B':
        ab.alloc(el.size());
        for (size_t k = 0; k < el.size(); k++)
        {
          if (el[k] != "0" && el[k] != "1") return false;
          ab.p[k] = el[k] == "1";
        }
        return true;
      case 'I':
        ai32.alloc(el.size());
        for (size_t k = 0; k < el.size(); k++)
        {
          int64_t v;
          if (!parse_i(32, el[k], v)) return false;
          ai32.p[k] = static_cast<int32_t>(v);
        }
        return true;
      case 'L':
        ai64.alloc(el.size());
        for (size_t k = 0; k < el.size(); k++)
          if (!parse_i(64, el[k], ai64.p[k])) return false;
        return true;
      case 'V':
        au32.alloc(el.size());
        for (size_t k = 0; k < el.size(); k++)
        {
          uint64_t v;
          if (!parse_u(32, el[k], v)) return false;
          au32.p[k] = static_cast<uint32_t>(v);
        }
        return true;
      case 'W':
        au64.alloc(el.size());
        for (size_t k = 0; k < el.size(); k++)
          if (!parse_u(64, el[k], au64.p[k])) return false;
        return true;
      case 'D':
        ad.alloc(el.size());
        for (size_t k = 0; k < el.size(); k++)
          if (!parse_bits(el[k], ad.p[k])) return false;
        return true;
      case 'S':
        asv.alloc(el.size());
        for (size_t k = 0; k < el.size(); k++)
        {
          if (!from_hex(el[k], raw)) return false;
          strs.emplace_back(new Exact(raw));
          asv.p[k] = nostd::string_view(strs.back()->data(), strs.back()->size());
        }
        return true;
      default: return false;
    }
  }

  common::AttributeValue get() const
  {
    switch (tag)
    {
      case 'b': return common::AttributeValue(b);
      case 'i': return common::AttributeValue(static_cast<int32_t>(i));
      case 'l': return common::AttributeValue(static_cast<int64_t>(i));
      case 'u': return common::AttributeValue(static_cast<uint32_t>(u));
      case 'U': return common::AttributeValue(static_cast<uint64_t>(u));
      case 'd': return common::AttributeValue(d);
      case 's': return common::AttributeValue(nostd::string_view(str->data(), str->size()));
      case 'c': return common::AttributeValue(static_cast<const char *>(cstr.get()));
      case 'Y': return common::AttributeValue(nostd::span<const uint8_t>(au8.p.get(), au8.n));
      case 'B': return common::AttributeValue(nostd::span<const bool>(ab.p.get(), ab.n));
      case 'I': return common::AttributeValue(nostd::span<const int32_t>(ai32.p.get(), ai32.n));
      case 'L': return common::AttributeValue(nostd::span<const int64_t>(ai64.p.get(), ai64.n));
      case 'V': return common::AttributeValue(nostd::span<const uint32_t>(au32.p.get(), au32.n));
      case 'W': return common::AttributeValue(nostd::span<const uint64_t>(au64.p.get(), au64.n));
      case 'D': return common::AttributeValue(nostd::span<const double>(ad.p.get(), ad.n));
      default: return common::AttributeValue(nostd::span<const nostd::string_view>(asv.p.get(), asv.n));
    }
  }

  // overwrite every caller-side byte the AttributeValue points into (used where freeing would end the process)
  void scribble()
  {
    if (str) memset(str->p.get(), 'X', str->n ? str->n : 1);
    if (cstr) for (char *q = cstr.get(); *q; ++q) *q = 'X';
    for (size_t k = 0; k < au8.n; k++) au8.p[k] = 0x58;
    for (size_t k = 0; k < ab.n; k++) ab.p[k] = !ab.p[k];
    for (size_t k = 0; k < ai32.n; k++) ai32.p[k] = 0x58585858;
    for (size_t k = 0; k < ai64.n; k++) ai64.p[k] = 0x5858585858585858LL;
    for (size_t k = 0; k < au32.n; k++) au32.p[k] = 0x58585858u;
    for (size_t k = 0; k < au64.n; k++) au64.p[k] = 0x5858585858585858ULL;
    for (size_t k = 0; k < ad.n; k++) memset(&ad.p[k], 0x58, 8);
    for (auto &s : strs) memset(s->p.get(), 'X', s->n ? s->n : 1);
  }
};

struct KV
{
  std::unique_ptr<Exact> key;
  std::unique_ptr<Val> val;
};

// a list of attributes held in caller memory
struct Attrs : public common::KeyValueIterable
{
  std::vector<KV> kvs;

  bool parse(const std::string &tok)
  {
    if (tok == "-") return true;
    for (auto &item : split_on(tok, ','))
    {
      auto kv = split_on(item, '=');
      if (kv.size() != 2) return false;
      std::string k;
      if (!from_hex(kv[0], k)) return false;
      KV e;
      e.key.reset(new Exact(k));
      e.val.reset(new Val());
      if (!e.val->parse(kv[1])) return false;
      kvs.push_back(std::move(e));
    }
    return true;
  }

  bool ForEachKeyValue(nostd::function_ref<bool(nostd::string_view, common::AttributeValue)> callback)
      const noexcept override
  {
    for (auto &e : kvs)
    {
      if (!callback(nostd::string_view(e.key->data(), e.key->size()), e.val->get())) return false;
    }
    return true;
  }

  size_t size() const noexcept override { return kvs.size(); }
};

inline std::string bits_of(double d)
{
  uint64_t u;
  memcpy(&u, &d, 8);
  char buf[17];
  snprintf(buf, sizeof buf, "%016llx", static_cast<unsigned long long>(u));
  return buf;
}

template <class V, class F>
std::string dots(const V &v, F f)
{
  std::string s;
  bool first = true;
  for (const auto &x : v)
  {
    if (!first) s += ".";
    first = false;
    s += f(x);
  }
  return s;
}

struct OwnedPrinter
{
  std::string operator()(bool v) const { return std::string("b:") + (v ? "1" : "0"); }
  std::string operator()(int32_t v) const { return "i:" + std::to_string(v); }
  std::string operator()(uint32_t v) const { return "u:" + std::to_string(v); }
  std::string operator()(int64_t v) const { return "l:" + std::to_string(v); }
  std::string operator()(uint64_t v) const { return "U:" + std::to_string(v); }
  std::string operator()(double v) const { return "d:" + bits_of(v); }
  std::string operator()(const std::string &v) const { return "s:" + to_hex(v); }
  std::string operator()(const std::vector<bool> &v) const
  {
    return "B:" + dots(v, [](bool x) { return std::string(x ? "1" : "0"); });
  }
  std::string operator()(const std::vector<int32_t> &v) const
  {
    return "I:" + dots(v, [](int32_t x) { return std::to_string(x); });
  }
  std::string operator()(const std::vector<uint32_t> &v) const
  {
    return "V:" + dots(v, [](uint32_t x) { return std::to_string(x); });
  }
  std::string operator()(const std::vector<int64_t> &v) const
  {
    return "L:" + dots(v, [](int64_t x) { return std::to_string(x); });
  }
  std::string operator()(const std::vector<uint64_t> &v) const
  {
    return "W:" + dots(v, [](uint64_t x) { return std::to_string(x); });
  }
  std::string operator()(const std::vector<double> &v) const
  {
    return "D:" + dots(v, [](double x) { return bits_of(x); });
  }
  std::string operator()(const std::vector<std::string> &v) const
  {
    return "S:" + dots(v, [](const std::string &x) { return to_hex(x); });
  }
  std::string operator()(const std::vector<uint8_t> &v) const
  {
    return "Y:" + to_hex(reinterpret_cast<const char *>(v.data()), v.size());
  }
};

inline std::string show_owned(const opentelemetry::sdk::common::OwnedAttributeValue &v)
{
  return std::to_string(v.index()) + ":" + nostd::visit(OwnedPrinter{}, v);
}

// sorted by key (unsigned byte order, as std::string compares)
inline std::string show_map(
    const std::unordered_map<std::string, opentelemetry::sdk::common::OwnedAttributeValue> &m)
{
  std::map<std::string, std::string> sorted;
  for (auto &kv : m) sorted[kv.first] = show_owned(kv.second);
  std::string s = "[";
  bool first    = true;
  for (auto &kv : sorted)
  {
    if (!first) s += ",";
    first = false;
    s += to_hex(kv.first) + "=" + kv.second;
  }
  return s + "]";
}
}  // namespace vh
