// Engine D harness for the concurrency clause of C04 ("including operations after End and from several threads on one
// span"): the UNMODIFIED sdk/src/trace/span.cc (created through the real TracerProvider / Tracer) under the scheduler
// shim, a harness Recordable that logs every setter call and a harness SpanProcessor whose OnEnd logs.
//
//   spn <script0> [<script1> [<script2> [<script3>]]] ; t<i> ; t<i> ; ...
//     script = comma separated ops of one managed thread, all on the ONE span:
//       a<k>  SetAttribute(key <k> (one letter), value = op id)      e  AddEvent("e<id>")
//       s<c>  SetStatus(code <c> in 0..2, description "s<id>")        n  UpdateName("n<id>")
//       E     End()                                                  r  IsRecording()
//       l     AddLink(ctx, {{"id", op id}})   (engine word `spn2` = the same harness built with OPENTELEMETRY_ABI_VERSION_NO=2)
//     op id = 100 * thread + index in the script.  `t<i>` = thread i takes one step (scheduling points: the begin of every
//     op, lock / unlock of Span::mu_, every Recordable setter, SpanProcessor::OnEnd).  After the schedule everything is
//     drained round-robin, then one more managed thread drops the last reference to the span (~Span calls End()).
// Output: per action the trace of the step (`call …`, `lock mu`, `rec …` = the setter reached the recordable, `late …` = it
// reached a recordable that had already been handed to OnEnd, `onend <n>`, `unlock mu`, `ret [0|1]`), the drain, then
//   done=<0|1> onend=<number of OnEnd calls> held=[what the recordable held when OnEnd received it] late=[writes after that]
#include "common.h"

#define private public
#include "src/trace/span.h"
#undef private

#include "opentelemetry/sdk/resource/resource.h"
#include "opentelemetry/sdk/trace/processor.h"
#include "opentelemetry/sdk/trace/random_id_generator.h"
#include "opentelemetry/sdk/trace/recordable.h"
#include "opentelemetry/sdk/trace/samplers/always_on.h"
#include "opentelemetry/sdk/trace/tracer_provider.h"

namespace nostd     = opentelemetry::nostd;
namespace common    = opentelemetry::common;
namespace trace_api = opentelemetry::trace;
namespace trace_sdk = opentelemetry::sdk::trace;

struct Shared
{
  bool live = false;                 // the span has been started: log from now on
  std::vector<std::string> log;      // what the recordable holds (mutations only, in arrival order)
  bool handed = false;               // OnEnd has received the recordable
  std::vector<std::string> late;     // setter calls that reached the recordable after that
  std::vector<std::string> held;     // one entry per OnEnd call: the log at that moment
};

class HRecordable final : public trace_sdk::Recordable
{
public:
  explicit HRecordable(Shared *s) : s_(s) {}
  void write(const std::string &what)
  {
    if (!s_->live) return;
    detsched::point("rec", this);
    if (s_->handed)
    {
      s_->late.push_back(what);
      detsched::note("late " + what);
    }
    else
    {
      s_->log.push_back(what);
      detsched::note("rec " + what);
    }
  }
  static std::string colon(std::string s)
  {
    for (auto &c : s)
      if (c == ' ') c = ':';
    return s;
  }
  void SetIdentity(const trace_api::SpanContext &, trace_api::SpanId) noexcept override {}
  void SetAttribute(nostd::string_view key, const common::AttributeValue &value) noexcept override
  {
    std::string v = nostd::holds_alternative<int64_t>(value) ? std::to_string(nostd::get<int64_t>(value)) : std::string("?");
    write("set " + std::string(key.data(), key.size()) + " " + v);
  }
  void AddEvent(nostd::string_view name, common::SystemTimestamp, const common::KeyValueIterable &) noexcept override
  {
    write("ev " + std::string(name.data(), name.size()).substr(1));
  }
  void AddLink(const trace_api::SpanContext &, const common::KeyValueIterable &attrs) noexcept override
  {
    std::string id = "?";
    attrs.ForEachKeyValue([&](nostd::string_view, common::AttributeValue v) noexcept {
      if (nostd::holds_alternative<int64_t>(v)) id = std::to_string(nostd::get<int64_t>(v));
      return true;
    });
    write("lk " + id);
  }
  void SetStatus(trace_api::StatusCode code, nostd::string_view d) noexcept override
  {
    write("st " + std::to_string(static_cast<int>(code)) + " " + std::string(d.data(), d.size()).substr(1));
  }
  void SetName(nostd::string_view name) noexcept override { write("nm " + std::string(name.data(), name.size()).substr(1)); }
  void SetSpanKind(trace_api::SpanKind) noexcept override {}
  void SetResource(const opentelemetry::sdk::resource::Resource &) noexcept override {}
  void SetStartTime(common::SystemTimestamp) noexcept override {}
  void SetDuration(std::chrono::nanoseconds) noexcept override { write("dur"); }
  void SetInstrumentationScope(const opentelemetry::sdk::instrumentationscope::InstrumentationScope &) noexcept override {}

private:
  Shared *s_;
};

class HProcessor final : public trace_sdk::SpanProcessor
{
public:
  explicit HProcessor(Shared *s) : s_(s) {}
  std::unique_ptr<trace_sdk::Recordable> MakeRecordable() noexcept override
  {
    return std::unique_ptr<trace_sdk::Recordable>(new HRecordable(s_));
  }
  void OnStart(trace_sdk::Recordable &, const trace_api::SpanContext &) noexcept override {}
  void OnEnd(std::unique_ptr<trace_sdk::Recordable> &&span) noexcept override
  {
    detsched::point("onend", this);
    if (span == nullptr)
    {
      s_->held.push_back("null");
      detsched::note("onend null");
      return;
    }
    kept_.push_back(std::move(span));  // kept alive: a late write is logged, not a use-after-free
    s_->handed = true;
    std::vector<std::string> h;
    for (auto &e : s_->log) h.push_back(HRecordable::colon(e));
    s_->held.push_back("[" + vh::join(h, ",") + "]");
    detsched::note("onend " + std::to_string(s_->log.size()));
  }
  bool ForceFlush(std::chrono::microseconds) noexcept override { return true; }
  bool Shutdown(std::chrono::microseconds) noexcept override { return true; }

private:
  Shared *s_;
  std::vector<std::unique_ptr<trace_sdk::Recordable>> kept_;
};

struct Op
{
  char kind;
  std::string arg;
};

static bool parse_script(const std::string &s, std::vector<Op> &ops)
{
  if (s == "-") return true;
  size_t i = 0;
  while (i <= s.size())
  {
    size_t j        = s.find(',', i);
    std::string tok = s.substr(i, j == std::string::npos ? std::string::npos : j - i);
    if (tok.empty()) return false;
    char k = tok[0];
    if (k == 'a')
    {
      if (tok.size() != 2 || tok[1] < 'a' || tok[1] > 'z') return false;
    }
    else if (k == 's')
    {
      if (tok.size() != 2 || tok[1] < '0' || tok[1] > '2') return false;
    }
    else if (k == 'e' || k == 'n' || k == 'E' || k == 'r')
    {
      if (tok.size() != 1) return false;
    }
#if OPENTELEMETRY_ABI_VERSION_NO >= 2
    else if (k == 'l')
    {
      if (tok.size() != 1) return false;
    }
#endif
    else
      return false;
    ops.push_back({k, tok.substr(1)});
    if (j == std::string::npos) break;
    i = j + 1;
  }
  return ops.size() <= 8;
}

static std::string handle(const std::vector<std::string> &t)
{
  auto ops = vh::split_ops(t, 1);
  if (ops.empty() || ops[0].empty() || ops[0].size() > 4) return "bad-op";
  std::vector<std::vector<Op>> scripts;
  for (auto &s : ops[0])
  {
    scripts.emplace_back();
    if (!parse_script(s, scripts.back())) return "bad-op";
  }
  std::vector<int> acts;
  const size_t nth = scripts.size();
  for (size_t i = 1; i < ops.size(); i++)
  {
    if (ops[i].size() != 1 || ops[i][0].size() < 2 || ops[i][0].size() > 4 || ops[i][0][0] != 't') return "bad-op";
    char *e         = nullptr;
    unsigned long v = strtoul(ops[i][0].c_str() + 1, &e, 10);
    if (*e != 0) return "bad-op";
    acts.push_back(v >= nth ? -1 : (int)v);
  }

  detsched::reset();
  Shared sh;
  std::vector<std::string> outs;
  {
    std::vector<std::unique_ptr<trace_sdk::SpanProcessor>> processors;
    processors.emplace_back(new HProcessor(&sh));
    auto provider = std::make_shared<trace_sdk::TracerProvider>(
        std::move(processors), opentelemetry::sdk::resource::Resource::Create({}),
        std::unique_ptr<trace_sdk::Sampler>(new trace_sdk::AlwaysOnSampler),
        std::unique_ptr<trace_sdk::IdGenerator>(new trace_sdk::RandomIdGenerator));
    auto tracer                            = provider->GetTracer("d_span", "1");
    nostd::shared_ptr<trace_api::Span> span = tracer->StartSpan("span");
    auto *real                             = static_cast<trace_sdk::Span *>(span.get());
    detsched::name_object(&real->mu_, "mu");
    sh.live = true;
    for (size_t th = 0; th < nth; th++)
    {
      detsched::spawn([&, th] {
        trace_api::Span &sp = *span;
        for (size_t j = 0; j < scripts[th].size(); j++)
        {
          const Op &op   = scripts[th][j];
          long long id   = static_cast<long long>(100 * th + j);
          std::string is = std::to_string(id);
          detsched::point("begin", nullptr);
          switch (op.kind)
          {
            case 'a': {
              detsched::note("call set " + op.arg + " " + is);
              vh::Exact key(op.arg);
              sp.SetAttribute(nostd::string_view(key.data(), key.size()), static_cast<int64_t>(id));
              detsched::note("ret");
              break;
            }
            case 'e': {
              detsched::note("call ev " + is);
              vh::Exact nm("e" + is);
              sp.AddEvent(nostd::string_view(nm.data(), nm.size()));
              detsched::note("ret");
              break;
            }
            case 's': {
              detsched::note("call st " + op.arg + " " + is);
              vh::Exact d("s" + is);
              sp.SetStatus(static_cast<trace_api::StatusCode>(op.arg[0] - '0'), nostd::string_view(d.data(), d.size()));
              detsched::note("ret");
              break;
            }
            case 'n': {
              detsched::note("call nm " + is);
              vh::Exact nm("n" + is);
              sp.UpdateName(nostd::string_view(nm.data(), nm.size()));
              detsched::note("ret");
              break;
            }
#if OPENTELEMETRY_ABI_VERSION_NO >= 2
            case 'l': {
              detsched::note("call lk " + is);
              std::map<std::string, int64_t> a{{"id", static_cast<int64_t>(id)}};
              common::KeyValueIterableView<std::map<std::string, int64_t>> kv(a);
              sp.AddLink(trace_api::SpanContext::GetInvalid(), kv);
              detsched::note("ret");
              break;
            }
#endif
            case 'E':
              detsched::note("call end");
              sp.End();
              detsched::note("ret");
              break;
            default: {
              detsched::note("call isrec");
              bool r = sp.IsRecording();
              detsched::note(std::string("ret ") + (r ? "1" : "0"));
              break;
            }
          }
        }
      });
    }
    for (int a : acts) outs.push_back(a < 0 ? std::string("x") : detsched::run(a));
    std::string dtrace;
    bool done = detsched::drain(4000, &dtrace);
    if (done)
    {
      // the application drops its last reference: ~Span() calls End()
      detsched::spawn([&] {
        detsched::point("begin", nullptr);
        detsched::note("call drop");
        span = nostd::shared_ptr<trace_api::Span>();
        detsched::note("ret");
      });
      done = detsched::drain(4000, &dtrace);
    }
    if (!dtrace.empty()) outs.push_back(dtrace.substr(0, dtrace.size() - 3));
    std::vector<std::string> late;
    for (auto &e : sh.late) late.push_back(HRecordable::colon(e));
    outs.push_back(std::string("done=") + (done ? "1" : "0") + " onend=" + std::to_string(sh.held.size()) +
                   " held=" + (sh.held.empty() ? std::string("none") : vh::join(sh.held, "|")) + " late=[" + vh::join(late, ",") + "]");
    if (!done)
    {
      std::string o = vh::join(outs, " ; ");
      fputs(o.c_str(), stdout);
      fputc('\n', stdout);
      fflush(stdout);
      _exit(77);
    }
    detsched::reset();  // joins the managed threads before the span / provider go away
  }
  return vh::join(outs, " ; ");
}

int main()
{
  return vh::run_lines([](const std::vector<std::string> &t) -> std::string {
    if (t.empty()) return "bad-op";
#if OPENTELEMETRY_ABI_VERSION_NO >= 2
    if (t[0] == "spn2") return handle(t);
#else
    if (t[0] == "spn") return handle(t);
#endif
    return "bad-op";
  });
}
