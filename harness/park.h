// Waiting until every SDK-internal thread of this process is blocked (Linux, /proc).
//
// The batch processors export from a background worker that (1) exports whatever is queued whenever it passes through its
// loop, and (2) can miss the wake-up of a ForceFlush that arrives while it is between its predicate check and its wait
// (the flush then completes only after `schedule_delay`).  The harnesses want "queued at OnEnd/OnEmit, exported at the next
// ForceFlush" deterministically, so before handing a record over and before flushing they wait until every thread that is
// not one of their own is asleep.
#pragma once
#include <dirent.h>
#include <sys/syscall.h>
#include <unistd.h>
#include <chrono>
#include <cstdio>
#include <cstdlib>
#include <cstring>
#include <mutex>
#include <set>
#include <thread>

namespace vh
{
inline std::set<long> &own_threads()
{
  static std::set<long> s;
  return s;
}

inline std::mutex &own_threads_mutex()
{
  static std::mutex m;
  return m;
}

inline void register_own_thread()
{
  std::lock_guard<std::mutex> g(own_threads_mutex());
  own_threads().insert(syscall(SYS_gettid));
}

inline bool foreign_threads_asleep()
{
  std::lock_guard<std::mutex> g(own_threads_mutex());
  DIR *d = opendir("/proc/self/task");
  if (!d) return true;
  bool all = true;
  while (dirent *e = readdir(d))
  {
    long tid = strtol(e->d_name, nullptr, 10);
    if (tid <= 0 || own_threads().count(tid)) continue;
    char path[64], buf[512];
    snprintf(path, sizeof path, "/proc/self/task/%ld/stat", tid);
    FILE *f = fopen(path, "r");
    if (!f) continue;  // gone
    size_t n = fread(buf, 1, sizeof buf - 1, f);
    fclose(f);
    buf[n]        = 0;
    const char *p = strrchr(buf, ')');  // "<pid> (<comm>) <state> ..."
    if (p && p[1] == ' ' && p[2] != 'S') all = false;
  }
  closedir(d);
  return all;
}

// two consecutive observations "all asleep", at most ~100 ms
inline void wait_parked()
{
  int ok = 0;
  for (int i = 0; i < 4000 && ok < 2; i++)
  {
    if (foreign_threads_asleep()) ok++;
    else
    {
      ok = 0;
      std::this_thread::sleep_for(std::chrono::microseconds(25));
    }
  }
}
}  // namespace vh
