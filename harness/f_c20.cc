// Correspondence harness for C20 (nostd vocabulary types): every operation of a line is applied in lock-step to the
// nostd type of the repository (WITH_STL=OFF: its own implementations) and to its std counterpart (std::string_view,
// an index-checked slice for span, std::unique_ptr, std::shared_ptr, std::variant, std::function); the line printed is
// "<nostd observation>|<std observation>" per operation, which is also what the Lean model driver prints (model|model).
#include "common.h"

#include <sys/wait.h>
#include <unistd.h>
#include <array>
#include <cerrno>
#include <functional>
#include <map>
#include <memory>
#include <new>
#include <sstream>
#include <stdexcept>
#include <string_view>
#include <variant>

#include "opentelemetry/nostd/function_ref.h"
#include "opentelemetry/nostd/shared_ptr.h"
#include "opentelemetry/nostd/span.h"
#include "opentelemetry/nostd/string_view.h"
#include "opentelemetry/nostd/unique_ptr.h"
#include "opentelemetry/nostd/utility.h"
#include "opentelemetry/nostd/variant.h"

namespace nostd = opentelemetry::nostd;

static bool size_tok(const std::string &s, size_t &out)
{
  if (s.empty() || s.size() > 20) return false;
  for (char c : s)
    if (c < '0' || c > '9') return false;
  if (s.size() > 1 && s[0] == '0') return false;
  errno                = 0;
  unsigned long long v = strtoull(s.c_str(), nullptr, 10);
  if (errno) return false;
  out = static_cast<size_t>(v);
  return true;
}

static bool small_tok(const std::string &s, size_t &out) { return s.size() <= 9 && size_tok(s, out); }

static bool int_tok(const std::string &s, int64_t &out)
{
  if (s.empty() || s.size() > 20) return false;
  errno       = 0;
  char *e     = nullptr;
  long long v = strtoll(s.c_str(), &e, 10);
  if (errno || *e || std::to_string(v) != s) return false;
  out = v;
  return true;
}

static std::string sign(int x) { return x < 0 ? "-1" : x > 0 ? "1" : "0"; }
static std::string b01(bool b) { return b ? "1" : "0"; }

// runs f in a child process; true when the child was killed / exited abnormally (std::terminate, assert, sanitizer)
template <class F>
static bool dies(F f)
{
  fflush(stdout);
  pid_t pid = fork();
  if (pid == 0)
  {
    if (!freopen("/dev/null", "w", stderr)) _exit(0);
    f();
    _exit(0);
  }
  int st = 0;
  waitpid(pid, &st, 0);
  return !(WIFEXITED(st) && WEXITSTATUS(st) == 0);
}

// ---- string_view ---------------------------------------------------------------------------------------
template <class SV>
static bool sv_op(const std::vector<std::string> &op, const std::string &ra, const std::string &rb, std::string &out)
{
  vh::Exact xa(ra), xb(rb), xa2(ra);
  SV a(xa.data(), xa.size()), b(xb.data(), xb.size());
  const std::string &n = op[0];
  size_t p1, n1, p2, n2;
  if (n == "cmp" && op.size() == 1) out = sign(a.compare(b));
  else if (n == "eq" && op.size() == 1) out = b01(a == b);
  else if (n == "ne" && op.size() == 1) out = b01(a != b);
  else if (n == "lt" && op.size() == 1) out = b01(a < b);
  else if (n == "gt" && op.size() == 1) out = b01(a > b);
  else if (n == "find" && op.size() == 3)
  {
    std::string ch;
    if (!vh::from_hex(op[1], ch) || ch.size() != 1 || !size_tok(op[2], p1)) return false;
    auto r = a.find(ch[0], p1);
    out    = r == SV::npos ? "npos" : std::to_string(r);
  }
  else if (n == "substr" && op.size() == 3)
  {
    if (!size_tok(op[1], p1) || !size_tok(op[2], n1)) return false;
    try
    {
      SV r = a.substr(p1, n1);
      // the result must be a view into a: check through the pointers, then print the bytes
      if (r.size() && (r.data() < a.data() || r.data() + r.size() > a.data() + a.size())) out = "outside";
      else out = vh::to_hex(r.data(), r.size());
    }
    catch (const std::out_of_range &)
    {
      out = "oor";
    }
  }
  else if (n == "cmp3" && op.size() == 3)
  {
    if (!size_tok(op[1], p1) || !size_tok(op[2], n1)) return false;
    try
    {
      out = sign(a.compare(p1, n1, b));
    }
    catch (const std::out_of_range &)
    {
      out = "oor";
    }
  }
  else if (n == "cmp5" && op.size() == 5)
  {
    if (!size_tok(op[1], p1) || !size_tok(op[2], n1) || !size_tok(op[3], p2) || !size_tok(op[4], n2)) return false;
    try
    {
      out = sign(a.compare(p1, n1, b, p2, n2));
    }
    catch (const std::out_of_range &)
    {
      out = "oor";
    }
  }
  else if (n == "cmpc" && op.size() == 1)
  {
    std::string bz = rb;
    out            = sign(a.compare(bz.c_str()));
  }
  else if (n == "hash" && op.size() == 1)
  {
    SV a2(xa2.data(), xa2.size());  // same bytes at another address
    std::hash<SV> h;
    bool ok = h(a) == h(a2) && (!(a == b) || h(a) == h(b));
    out     = ok ? "ok" : "BAD";
  }
  else if (n == "at" && op.size() == 2)
  {
    if (!size_tok(op[1], p1) || p1 >= a.size()) return false;
    char c = a[p1];
    out    = vh::to_hex(&c, 1);
  }
  else if (n == "size" && op.size() == 1)
    out = std::to_string(a.size()) + (a.empty() ? "e" : "n") + (a.length() == a.size() ? "" : "!");
  else if (n == "iter" && op.size() == 1)
  {
    std::string s;
    for (auto it = a.begin(); it != a.end(); ++it) s.push_back(*it);
    out = vh::to_hex(s);
  }
  else if (n == "cstr" && op.size() == 1)
  {
    std::string az = ra;
    SV v(az.c_str());
    out = vh::to_hex(v.data(), v.size());
  }
  else if (n == "str" && op.size() == 1)
  {
    std::string s(a);
    SV back(s);
    out = (back == a) ? vh::to_hex(s) : "roundtrip-differs";
  }
  else if (n == "eqs" && op.size() == 1)
  {
    std::string sa = ra, sb = rb;
    out = b01(a == sb) + b01(sa == b);
  }
  else if (n == "eqc" && op.size() == 1)
  {
    std::string bz = rb;
    out            = b01(a == bz.c_str());
  }
  else if (n == "cmp3c" && op.size() == 3)
  {
    // compare(pos, n, const char*)
    if (!size_tok(op[1], p1) || !size_tok(op[2], n1)) return false;
    std::string bz = rb;
    try
    {
      out = sign(a.compare(p1, n1, bz.c_str()));
    }
    catch (const std::out_of_range &)
    {
      out = "oor";
    }
  }
  else if (n == "cmp4c" && op.size() == 4)
  {
    // compare(pos, n, const char*, count2): the first count2 bytes of b (embedded NULs included)
    if (!size_tok(op[1], p1) || !size_tok(op[2], n1) || !size_tok(op[3], n2) || n2 > xb.size()) return false;
    try
    {
      out = sign(a.compare(p1, n1, xb.data(), n2));
    }
    catch (const std::out_of_range &)
    {
      out = "oor";
    }
  }
  else if (n == "nes" && op.size() == 1)
  {
    std::string sa = ra, sb = rb;
    out = b01(a != sb) + b01(sa != b);
  }
  else if (n == "nec" && op.size() == 1)
  {
    std::string bz = rb;
    out            = b01(a != bz.c_str()) + b01(bz.c_str() != a);
  }
  else if (n == "ceq" && op.size() == 1)
  {
    std::string bz = rb;
    out            = b01(bz.c_str() == a);
  }
  else if (n == "dflt" && op.size() == 1)
  {
    SV d;  // default-constructed: empty, no data
    SV e(xa.data(), 0);
    out = std::to_string(d.size()) + (d.empty() ? "e" : "n") + (d.data() == nullptr ? "" : "!") + sign(a.compare(d)) +
          b01(d == e);
  }
  else if (n == "os" && op.size() == 1)
  {
    std::ostringstream os;
    os << a;
    out = vh::to_hex(os.str());
  }
  else
    return false;
  return true;
}

static std::string handle_sv(const std::vector<std::string> &t)
{
  auto ops = vh::split_ops(t, 1);
  std::string a, b;
  if (ops[0].size() != 2 || !vh::from_hex(ops[0][0], a) || !vh::from_hex(ops[0][1], b)) return "bad-op";
  std::vector<std::string> outs;
  for (size_t i = 1; i < ops.size(); i++)
  {
    std::string x, y;
    if (ops[i].empty() || !sv_op<nostd::string_view>(ops[i], a, b, x) || !sv_op<std::string_view>(ops[i], a, b, y))
      return "bad-op";
    outs.push_back(x + "|" + y);
  }
  return vh::join(outs, " ; ");
}

// ---- span ------------------------------------------------------------------------------------------------
// the std-side counterpart: an index-checked slice
struct Slice
{
  const std::vector<uint8_t> *base;
  size_t off, len;
  bool get(size_t i, uint8_t &out) const
  {
    if (i >= len || off + i >= base->size()) return false;
    out = (*base)[off + i];
    return true;
  }
  std::string show() const
  {
    std::string s;
    for (size_t i = 0; i < len; i++)
    {
      uint8_t c = 0;
      if (!get(i, c)) return "slice-oob";
      s.push_back(static_cast<char>(c));
    }
    return std::to_string(len) + ":" + vh::to_hex(s);
  }
};

template <class S>
static std::string show_span(const S &s)
{
  std::string e;
  for (size_t i = 0; i < s.size(); i++) e.push_back(static_cast<char>(s[i]));
  std::string it;
  for (auto p = s.begin(); p != s.end(); ++p) it.push_back(static_cast<char>(*p));
  if (e != it) return "index-and-iteration-differ";
  if (s.empty() != (s.size() == 0)) return "empty-differs";
  return std::to_string(s.size()) + ":" + vh::to_hex(e);
}

template <size_t N>
static std::string fix_span(const uint8_t *p, size_t cnt)
{
  if (cnt != N)
  {
    bool died = dies([&] {
      nostd::span<const uint8_t, N> s(p, cnt);
      (void)s;
    });
    bool died2 = dies([&] {
      nostd::span<const uint8_t, N> s(p, p + cnt);
      (void)s;
    });
    return died && died2 ? "terminate" : "no-terminate";
  }
  nostd::span<const uint8_t, N> s(p, cnt);
  nostd::span<const uint8_t, N> s2(p, p + cnt);
  if (s2.data() != s.data() || s.extent != N) return "range-ctor-differs";
  return show_span(s);
}

template <size_t N>
static std::string convfix_span(uint8_t *p)
{
  nostd::span<uint8_t, N> f(p, N);
  nostd::span<const uint8_t, N> cf(f);
  nostd::span<const uint8_t> d(f);
  nostd::span<const uint8_t> d2(cf);
  if (cf.data() != p || d.data() != p || d2.size() != N) return "conversion-differs";
  return show_span(d);
}

template <size_t N>
static std::string cfix_span(const std::vector<uint8_t> &base)
{
  std::vector<uint8_t> v(base);
  const std::vector<uint8_t> &cv = v;
  if (v.size() != N)
  {
    bool died = dies([&] {
      nostd::span<const uint8_t, N> s(cv);
      (void)s;
    });
    bool died2 = dies([&] {
      nostd::span<uint8_t, N> s(v);
      (void)s;
    });
    return died && died2 ? "terminate" : "no-terminate";
  }
  nostd::span<const uint8_t, N> s(cv);
  nostd::span<uint8_t, N> m(v);
  if (N && (s.data() != v.data() || m.data() != v.data())) return "container-ctor-differs";
  return show_span(s);
}

template <size_t N>
static std::string getf_span(const uint8_t *p, size_t i)
{
  nostd::span<const uint8_t, N> s(p, N);
  if (i < N)
  {
    char ch = static_cast<char>(s[i]);
    return vh::to_hex(&ch, 1);
  }
  volatile uint8_t sink = 0;
  bool died             = dies([&] { sink = s[i]; });
  (void)sink;
  return died ? "oob" : "no-check";
}

static bool sp_op(const std::vector<std::string> &op, std::vector<uint8_t> &base, std::string &x, std::string &y)
{
  const std::string &n = op[0];
  size_t off = 0, cnt = 0, i = 0, N = 0;
  // exact-size copy of the buffer: reads outside are ASan reports
  std::unique_ptr<uint8_t[]> blk(new uint8_t[base.size() ? base.size() : 1]);
  if (!base.empty()) memcpy(blk.get(), base.data(), base.size());
  uint8_t *p = blk.get();
  auto in    = [&](size_t o, size_t c) { return o <= base.size() && c <= base.size() - o; };
  if ((n == "dyn" || n == "rng" || n == "copy" || n == "conv" || n == "empty") && op.size() == 3)
  {
    if (!size_tok(op[1], off) || !size_tok(op[2], cnt) || !in(off, cnt)) return false;
    Slice sl{&base, off, cnt};
    y = sl.show();
    if (n == "dyn")
    {
      nostd::span<const uint8_t> s(p + off, cnt);
      x = show_span(s);
    }
    else if (n == "rng")
    {
      nostd::span<const uint8_t> s(p + off, p + off + cnt);
      x = show_span(s);
    }
    else if (n == "copy")
    {
      nostd::span<const uint8_t> s(p + off, cnt);
      nostd::span<const uint8_t> c(s);
      nostd::span<const uint8_t> d;
      d = c;
      x = (d.data() == s.data()) ? show_span(d) : "copy-differs";
    }
    else if (n == "conv")
    {
      nostd::span<uint8_t> m(p + off, cnt);
      nostd::span<const uint8_t> c(m);
      x = (c.data() == m.data()) ? show_span(c) : "conversion-differs";
    }
    else
    {
      nostd::span<const uint8_t> s(p + off, cnt);
      x = b01(s.empty());
      y = b01(cnt == 0);
    }
    return true;
  }
  if (n == "fix" && op.size() == 4)
  {
    if (!size_tok(op[1], N) || !size_tok(op[2], off) || !size_tok(op[3], cnt) || !in(off, cnt)) return false;
    Slice sl{&base, off, cnt};
    y = cnt == N ? sl.show() : "terminate";
    switch (N)
    {
      case 0: x = fix_span<0>(p + off, cnt); break;
      case 1: x = fix_span<1>(p + off, cnt); break;
      case 2: x = fix_span<2>(p + off, cnt); break;
      case 3: x = fix_span<3>(p + off, cnt); break;
      case 4: x = fix_span<4>(p + off, cnt); break;
      case 8: x = fix_span<8>(p + off, cnt); break;
      default: return false;
    }
    return true;
  }
  if (n == "convfix" && op.size() == 3)
  {
    if (!size_tok(op[1], N) || !size_tok(op[2], off) || !in(off, N)) return false;
    Slice sl{&base, off, N};
    y = sl.show();
    switch (N)
    {
      case 0: x = convfix_span<0>(p + off); break;
      case 1: x = convfix_span<1>(p + off); break;
      case 2: x = convfix_span<2>(p + off); break;
      case 3: x = convfix_span<3>(p + off); break;
      case 4: x = convfix_span<4>(p + off); break;
      case 8: x = convfix_span<8>(p + off); break;
      default: return false;
    }
    return true;
  }
  if (n == "vec" && op.size() == 1)
  {
    std::vector<uint8_t> v(base);
    const std::vector<uint8_t> &cv = v;
    nostd::span<const uint8_t> s(cv);
    nostd::span<uint8_t> m(v);
    x = (v.empty() || (s.data() == v.data() && m.data() == v.data())) ? show_span(s) : "container-ctor-differs";
    y = Slice{&base, 0, base.size()}.show();
    return true;
  }
  if ((n == "arr" || n == "carr") && op.size() == 1)
  {
    if (base.size() < 4) return false;
    y = Slice{&base, 0, 4}.show();
    if (n == "arr")
    {
      std::array<uint8_t, 4> a{{p[0], p[1], p[2], p[3]}};
      const std::array<uint8_t, 4> &ca = a;
      nostd::span<const uint8_t> s(ca);
      nostd::span<uint8_t, 4> f(a);
      nostd::span<const uint8_t, 4> cf(ca);
      x = (s.data() == a.data() && f.data() == a.data() && cf.size() == 4) ? show_span(s) : "array-ctor-differs";
    }
    else
    {
      uint8_t a[4] = {p[0], p[1], p[2], p[3]};
      nostd::span<uint8_t> s(a);
      nostd::span<uint8_t, 4> f(a);
      x = (s.data() == a && f.data() == a) ? show_span(s) : "array-ctor-differs";
    }
    return true;
  }
  if (n == "get" && op.size() == 4)
  {
    if (!size_tok(op[1], off) || !size_tok(op[2], cnt) || !size_tok(op[3], i) || !in(off, cnt)) return false;
    Slice sl{&base, off, cnt};
    uint8_t c = 0;
    y         = sl.get(i, c) ? vh::to_hex(reinterpret_cast<char *>(&c), 1) : "oob";
    nostd::span<const uint8_t> s(p + off, cnt);
    if (i < cnt)
    {
      char ch = static_cast<char>(s[i]);
      x       = vh::to_hex(&ch, 1);
    }
    else
    {
      // outside the span: operator[] asserts (this build keeps asserts); observed in a child process
      volatile uint8_t sink = 0;
      x = dies([&] { sink = s[i]; }) ? "oob" : "no-check";
      (void)sink;
    }
    return true;
  }
  if (n == "cfix" && op.size() == 2)
  {
    // static extent from a container: the sizes must match, else terminate
    if (!size_tok(op[1], N)) return false;
    y = base.size() == N ? Slice{&base, 0, base.size()}.show() : "terminate";
    switch (N)
    {
      case 0: x = cfix_span<0>(base); break;
      case 1: x = cfix_span<1>(base); break;
      case 2: x = cfix_span<2>(base); break;
      case 3: x = cfix_span<3>(base); break;
      case 4: x = cfix_span<4>(base); break;
      case 8: x = cfix_span<8>(base); break;
      default: return false;
    }
    return true;
  }
  if (n == "getf" && op.size() == 4)
  {
    // operator[] of a static-extent span
    if (!size_tok(op[1], N) || !size_tok(op[2], off) || !size_tok(op[3], i) || !in(off, N)) return false;
    Slice sl{&base, off, N};
    uint8_t c = 0;
    y         = sl.get(i, c) ? vh::to_hex(reinterpret_cast<char *>(&c), 1) : "oob";
    switch (N)
    {
      case 0: x = getf_span<0>(p + off, i); break;
      case 1: x = getf_span<1>(p + off, i); break;
      case 2: x = getf_span<2>(p + off, i); break;
      case 3: x = getf_span<3>(p + off, i); break;
      case 4: x = getf_span<4>(p + off, i); break;
      case 8: x = getf_span<8>(p + off, i); break;
      default: return false;
    }
    return true;
  }
  if ((n == "arr2" || n == "util") && op.size() == 1)
  {
    if (base.size() < 4) return false;
    y = Slice{&base, 0, 4}.show();
    if (n == "arr2")
    {
      // the std::array constructors proper: T = element type of the array, dynamic and static extent
      std::array<uint8_t, 4> a{{p[0], p[1], p[2], p[3]}};
      const std::array<const uint8_t, 4> ca{{p[0], p[1], p[2], p[3]}};
      nostd::span<uint8_t> d(a);
      nostd::span<const uint8_t> cd(ca);
      nostd::span<const uint8_t, 4> cf(ca);
      nostd::span<const uint8_t> dd(cf);
      bool ok = d.data() == a.data() && d.size() == 4 && cd.data() == ca.data() && cd.size() == 4 && cf.data() == ca.data() &&
                dd.size() == 4 && show_span(d) == show_span(cd);
      x = ok ? show_span(cf) : "array-ctor-differs";
    }
    else
    {
      // nostd::data / nostd::size (what the container constructors are built on) against std::data / std::size
      uint8_t a[4] = {p[0], p[1], p[2], p[3]};
      std::initializer_list<uint8_t> il{p[0], p[1], p[2], p[3]};
      std::vector<uint8_t> v(base.begin(), base.begin() + 4);
      const std::vector<uint8_t> &cv = v;
      bool ok = nostd::data(a) == std::data(a) && nostd::size(a) == std::size(a) && nostd::data(il) == std::data(il) &&
                nostd::data(v) == std::data(v) && nostd::data(cv) == std::data(cv) && nostd::size(v) == std::size(v);
      nostd::span<const uint8_t> s(nostd::data(il), il.size());
      x = ok ? show_span(s) : "data-size-differ";
    }
    return true;
  }
  if (n == "default" && op.size() == 1)
  {
    nostd::span<const uint8_t> s;
    nostd::span<const uint8_t, 0> z;
    x = (z.size() == 0 && z.empty() && s.data() == nullptr) ? show_span(s) : "default-differs";
    y = "0:-";
    return true;
  }
  return false;
}

static std::string handle_sp(const std::vector<std::string> &t)
{
  auto ops = vh::split_ops(t, 1);
  std::string raw;
  if (ops[0].size() != 1 || !vh::from_hex(ops[0][0], raw)) return "bad-op";
  std::vector<uint8_t> base(raw.begin(), raw.end());
  std::vector<std::string> outs;
  for (size_t i = 1; i < ops.size(); i++)
  {
    std::string x, y;
    if (ops[i].empty() || !sp_op(ops[i], base, x, y)) return "bad-op";
    outs.push_back(x + "|" + y);
  }
  return vh::join(outs, " ; ");
}

// ---- ownership machines -------------------------------------------------------------------------------
struct Registry
{
  std::vector<int> dtor;              // per object id: how often its destructor ran
  std::map<const void *, int> id_of;  // address -> id (never erased; ASan's quarantine keeps addresses apart)
};
struct P
{
  Registry *reg;
  int id;
  explicit P(Registry *r) : reg(r), id(static_cast<int>(r->dtor.size()))
  {
    r->dtor.push_back(0);
    r->id_of[this] = id;
  }
  virtual ~P() { reg->dtor[static_cast<size_t>(id)]++; }
  P(const P &)            = delete;
  P &operator=(const P &) = delete;
};
// a derived payload: handles of the base type built from / assigned from handles of the derived type (`.d` variants)
struct D : public P
{
  explicit D(Registry *r) : P(r) {}
};

template <class H>
struct Slots
{
  struct Cell
  {
    alignas(H) unsigned char buf[sizeof(H)];
    bool alive = false;
    H &h() { return *reinterpret_cast<H *>(buf); }
  };
  std::vector<Cell> cells;
  explicit Slots(size_t k) : cells(k) {}
  bool vacant(size_t i) const { return i < cells.size() && !cells[i].alive; }
  bool alive(size_t i) const { return i < cells.size() && cells[i].alive; }
  H &operator[](size_t i) { return cells[i].h(); }
  void destroy(size_t i)
  {
    cells[i].h().~H();
    cells[i].alive = false;
  }
};

static std::string show_objs(const Registry &r)
{
  std::string s = "o=[";
  for (size_t i = 0; i < r.dtor.size(); i++)
  {
    if (i) s += ",";
    s += r.dtor[i] == 0 ? "L" : "D" + std::to_string(r.dtor[i]);
  }
  return s + "]";
}

template <class H>
static std::string show_slots(Slots<H> &sl, const Registry &r)
{
  std::string s = "h=[";
  for (size_t i = 0; i < sl.cells.size(); i++)
  {
    if (i) s += ",";
    if (!sl.cells[i].alive) s += "x";
    else
    {
      const P *p = sl[i].get();
      if (p == nullptr) s += "-";
      else
      {
        auto it = r.id_of.find(p);
        s += it == r.id_of.end() ? "?" : std::to_string(it->second);
      }
    }
  }
  return s + "]";
}

template <class H>
static std::string show_target(H &h, const Registry &r)
{
  const P *p = h.get();
  bool b     = static_cast<bool>(h);
  if ((p != nullptr) != b || (h == nullptr) != (p == nullptr) || (nullptr != h) != (p != nullptr)) return "bool-differs";
  if ((nullptr == h) != (p == nullptr) || (h != nullptr) != (p != nullptr)) return "bool-differs";
  if (p == nullptr) return "null";
  if (&*h != p) return "deref-differs";
  return "o" + std::to_string(h->id);  // reads the object: a dangling handle is an ASan report
}

struct NostdFamily
{
  using SP = nostd::shared_ptr<P>;
  using UP = nostd::unique_ptr<P>;
  using SD = nostd::shared_ptr<D>;
  using UD = nostd::unique_ptr<D>;
  static const bool is_nostd = true;
};
struct StdFamily
{
  using SP = std::shared_ptr<P>;
  using UP = std::unique_ptr<P>;
  using SD = std::shared_ptr<D>;
  using UD = std::unique_ptr<D>;
  static const bool is_nostd = false;
};

static std::string variant_of(const std::string &op)
{
  auto d = op.find('.');
  return d == std::string::npos ? "" : op.substr(d + 1);
}
static std::string base_of(const std::string &op) { return op.substr(0, op.find('.')); }

template <class F>
struct SharedMachine
{
  using SP = typename F::SP;
  Registry reg;
  Slots<SP> sl;
  explicit SharedMachine(size_t k) : sl(k) {}

  void construct_p(size_t h, const std::string &var)
  {
    if (var == "d")
    {
      // converting move construction from a handle of the derived type
      typename F::SD d(new D(&reg));
      new (sl.cells[h].buf) SP(std::move(d));
      sl.cells[h].alive = true;
      return;
    }
    P *p = new P(&reg);
    if (var == "u") new (sl.cells[h].buf) SP(typename F::UP(p));  // from (nostd::)unique_ptr &&
    else if (var == "su") new (sl.cells[h].buf) SP(std::unique_ptr<P>(p));
    else if (var == "ss") new (sl.cells[h].buf) SP(std::shared_ptr<P>(p));
    else new (sl.cells[h].buf) SP(p);
    sl.cells[h].alive = true;
  }

  bool step(const std::vector<std::string> &op, std::string &obs)
  {
    size_t h = 0, g = 0;
    obs                    = ".";
    const std::string name = base_of(op[0]), var = variant_of(op[0]);
    if (op.size() == 2)
    {
      if (!small_tok(op[1], h)) return false;
      if (name == "ctor" && var.empty())
      {
        if (!sl.vacant(h)) return false;
        new (sl.cells[h].buf) SP();
        sl.cells[h].alive = true;
      }
      else if (name == "ctorp" && (var.empty() || var == "u" || var == "su" || var == "ss" || var == "d"))
      {
        if (!sl.vacant(h)) return false;
        construct_p(h, var);
      }
      else if (name == "dtor" && var.empty())
      {
        if (!sl.alive(h)) return false;
        sl.destroy(h);
      }
      else if (name == "asgn" && var.empty())
      {
        if (!sl.alive(h)) return false;
        sl[h] = nullptr;
      }
      else if (name == "asgp" && var.empty())
      {
        if (!sl.alive(h)) return false;
        sl[h] = SP(new P(&reg));
      }
      else if (name == "get" && var.empty())
      {
        if (!sl.alive(h)) return false;
        obs = show_target(sl[h], reg);
      }
      else
        return false;
      return true;
    }
    if (op.size() == 3)
    {
      if (!small_tok(op[1], h) || !small_tok(op[2], g)) return false;
      if (op[0] == "ctorc")
      {
        if (!sl.vacant(h) || !sl.alive(g)) return false;
        new (sl.cells[h].buf) SP(sl[g]);
        sl.cells[h].alive = true;
      }
      else if (op[0] == "ctorm")
      {
        if (!sl.vacant(h) || !sl.alive(g)) return false;
        new (sl.cells[h].buf) SP(std::move(sl[g]));
        sl.cells[h].alive = true;
      }
      else if (op[0] == "asgc")
      {
        if (!sl.alive(h) || !sl.alive(g)) return false;
        SP &dst       = sl[h];
        const SP &src = sl[g];
        dst           = src;  // h == g: self copy-assignment
      }
      else if (op[0] == "asgm")
      {
        if (!sl.alive(h) || !sl.alive(g)) return false;
        SP &dst = sl[h];
        SP &src = sl[g];
        dst     = std::move(src);  // h == g: self move-assignment
      }
      else if (op[0] == "swap")
      {
        if (!sl.alive(h) || !sl.alive(g)) return false;
        sl[h].swap(sl[g]);
      }
      else if (op[0] == "eq")
      {
        if (!sl.alive(h) || !sl.alive(g)) return false;
        bool e = sl[h] == sl[g];
        obs    = (e != !(sl[h] != sl[g])) ? "eq-ne-differ" : b01(e);
      }
      else
        return false;
      return true;
    }
    return false;
  }
  std::string show() { return show_slots(sl, reg) + " " + show_objs(reg); }
  void finish()
  {
    for (size_t h = 0; h < sl.cells.size(); h++)
      if (sl.cells[h].alive) sl.destroy(h);
  }
};

template <class F>
struct UniqueMachine
{
  using UP = typename F::UP;
  Registry reg;
  Slots<UP> sl;
  std::vector<P *> raws;
  explicit UniqueMachine(size_t k) : sl(k) {}

  bool step(const std::vector<std::string> &op, std::string &obs)
  {
    size_t h = 0, g = 0;
    obs                    = ".";
    const std::string name = base_of(op[0]), var = variant_of(op[0]);
    if (op.size() == 2)
    {
      if (!small_tok(op[1], h)) return false;
      if (name == "ctor" && (var.empty() || var == "n"))
      {
        if (!sl.vacant(h)) return false;
        if (var == "n") new (sl.cells[h].buf) UP(nullptr);
        else new (sl.cells[h].buf) UP();
        sl.cells[h].alive = true;
      }
      else if (name == "ctorp" && (var.empty() || var == "su" || var == "d"))
      {
        if (!sl.vacant(h)) return false;
        if (var == "d") new (sl.cells[h].buf) UP(typename F::UD(new D(&reg)));  // converting move construction
        else if (var == "su") new (sl.cells[h].buf) UP(std::unique_ptr<P>(new P(&reg)));
        else new (sl.cells[h].buf) UP(new P(&reg));
        sl.cells[h].alive = true;
      }
      else if (name == "dtor" && var.empty())
      {
        if (!sl.alive(h)) return false;
        sl.destroy(h);
      }
      else if (name == "asgn" && var.empty())
      {
        if (!sl.alive(h)) return false;
        sl[h] = nullptr;
      }
      else if (name == "asgp" && (var.empty() || var == "su" || var == "d"))
      {
        if (!sl.alive(h)) return false;
        if (var == "d") sl[h] = typename F::UD(new D(&reg));  // converting move assignment
        else if (var == "su") sl[h] = std::unique_ptr<P>(new P(&reg));
        else sl[h] = UP(new P(&reg));
      }
      else if (name == "reset" && var.empty())
      {
        if (!sl.alive(h)) return false;
        sl[h].reset();
      }
      else if (name == "resetp" && var.empty())
      {
        if (!sl.alive(h)) return false;
        sl[h].reset(new P(&reg));
      }
      else if (name == "release" && var.empty())
      {
        if (!sl.alive(h)) return false;
        P *p = sl[h].release();
        raws.push_back(p);
        if (p == nullptr) obs = "null";
        else obs = "o" + std::to_string(p->id);
        if (p == nullptr) raws.back() = nullptr;
        raw_held.push_back(p != nullptr);
      }
      else if (name == "del" && var.empty())
      {
        if (h >= raws.size() || !raw_held[h]) return false;
        delete raws[h];
        raw_held[h] = false;
      }
      else if (name == "tostd" && var.empty())
      {
        if (!sl.alive(h)) return false;
        std::unique_ptr<P> u = std::move(sl[h]);
      }
      else if (name == "get" && var.empty())
      {
        if (!sl.alive(h)) return false;
        obs = show_target(sl[h], reg);
      }
      else
        return false;
      return true;
    }
    if (op.size() == 3)
    {
      if (!small_tok(op[1], h) || !small_tok(op[2], g)) return false;
      if (op[0] == "ctorm")
      {
        if (!sl.vacant(h) || !sl.alive(g)) return false;
        new (sl.cells[h].buf) UP(std::move(sl[g]));
        sl.cells[h].alive = true;
      }
      else if (op[0] == "asgm")
      {
        if (!sl.alive(h) || !sl.alive(g)) return false;
        UP &dst = sl[h];
        UP &src = sl[g];
        dst     = std::move(src);
      }
      else if (op[0] == "adopt")
      {
        if (!sl.alive(h) || g >= raws.size() || !raw_held[g]) return false;
        sl[h].reset(raws[g]);
        raw_held[g] = false;
      }
      else if (op[0] == "swap")
      {
        if (!sl.alive(h) || !sl.alive(g)) return false;
        sl[h].swap(sl[g]);
      }
      else if (op[0] == "eq")
      {
        if (!sl.alive(h) || !sl.alive(g)) return false;
        bool e = sl[h] == sl[g];
        obs    = (e != !(sl[h] != sl[g])) ? "eq-ne-differ" : b01(e);
      }
      else
        return false;
      return true;
    }
    return false;
  }
  std::vector<bool> raw_held;
  std::string show()
  {
    std::string s = show_slots(sl, reg) + " " + show_objs(reg) + " r=[";
    for (size_t i = 0; i < raws.size(); i++)
    {
      if (i) s += ",";
      if (!raw_held[i]) s += "-";
      else s += std::to_string(reg.id_of[raws[i]]);
    }
    return s + "]";
  }
  void finish()
  {
    for (size_t h = 0; h < sl.cells.size(); h++)
      if (sl.cells[h].alive) sl.destroy(h);
    for (size_t i = 0; i < raws.size(); i++)
      if (raw_held[i])
      {
        delete raws[i];
        raw_held[i] = false;
      }
  }
};

template <class MN, class MS>
static std::string run_machines(const std::vector<std::string> &t)
{
  auto ops = vh::split_ops(t, 1);
  size_t k;
  if (ops[0].size() != 1 || !small_tok(ops[0][0], k) || k == 0 || k > 6) return "bad-op";
  MN mn(k);
  MS ms(k);
  std::vector<std::string> outs;
  bool ok = true;
  for (size_t i = 1; i < ops.size() && ok; i++)
  {
    std::string x, y;
    if (ops[i].empty() || !mn.step(ops[i], x) || !ms.step(ops[i], y))
    {
      ok = false;
      break;
    }
    outs.push_back(x + " " + mn.show() + "|" + y + " " + ms.show());
  }
  mn.finish();
  ms.finish();
  if (!ok) return "bad-op";
  outs.push_back("end " + mn.show() + "|end " + ms.show());
  return vh::join(outs, " ; ");
}

// ---- variant ---------------------------------------------------------------------------------------------
struct ShowVisitor
{
  template <class M>
  std::string operator()(const M &) const
  {
    return "mono";
  }
  std::string operator()(const bool &b) const { return std::string("bool") + (b ? "1" : "0"); }
  std::string operator()(const int64_t &i) const { return "int" + std::to_string(static_cast<long long>(i)); }
  std::string operator()(const std::string &s) const { return "str" + std::to_string(s.size()); }
};

struct NostdVar
{
  using V    = nostd::variant<nostd::monostate, bool, int64_t, std::string>;
  using Mono = nostd::monostate;
  template <size_t I>
  static auto get(V &v) -> decltype(nostd::get<I>(v))
  {
    return nostd::get<I>(v);
  }
  template <size_t I>
  static auto get_if(V *v) -> decltype(nostd::get_if<I>(v))
  {
    return nostd::get_if<I>(v);
  }
  template <class T>
  static bool holds(const V &v)
  {
    return nostd::holds_alternative<T>(v);
  }
  template <class T>
  static const T &get_t(const V &v)
  {
    return nostd::get<T>(v);
  }
  template <class T>
  static const T *get_if_t(const V *v)
  {
    return nostd::get_if<T>(v);
  }
  template <size_t I>
  static auto cget(const V &v) -> decltype(nostd::get<I>(v))
  {
    return nostd::get<I>(v);
  }
  static std::string visit(const V &v) { return nostd::visit(ShowVisitor{}, v); }
  template <class Fn>
  static bool access(Fn f)
  {
    try
    {
      f();
      return true;
    }
    catch (const nostd::bad_variant_access &)
    {
      return false;
    }
  }
};
struct StdVar
{
  using V    = std::variant<std::monostate, bool, int64_t, std::string>;
  using Mono = std::monostate;
  template <size_t I>
  static auto get(V &v) -> decltype(std::get<I>(v))
  {
    return std::get<I>(v);
  }
  template <size_t I>
  static auto get_if(V *v) -> decltype(std::get_if<I>(v))
  {
    return std::get_if<I>(v);
  }
  template <class T>
  static bool holds(const V &v)
  {
    return std::holds_alternative<T>(v);
  }
  template <class T>
  static const T &get_t(const V &v)
  {
    return std::get<T>(v);
  }
  template <class T>
  static const T *get_if_t(const V *v)
  {
    return std::get_if<T>(v);
  }
  template <size_t I>
  static auto cget(const V &v) -> decltype(std::get<I>(v))
  {
    return std::get<I>(v);
  }
  static std::string visit(const V &v) { return std::visit(ShowVisitor{}, v); }
  template <class Fn>
  static bool access(Fn f)
  {
    try
    {
      f();
      return true;
    }
    catch (const std::bad_variant_access &)
    {
      return false;
    }
  }
};

static std::string show_alt(bool b) { return std::string("b:") + (b ? "1" : "0"); }
static std::string show_alt(int64_t i) { return "i:" + std::to_string(static_cast<long long>(i)); }
static std::string show_alt(const std::string &s) { return "s:" + vh::to_hex(s); }
template <class M>
static std::string show_alt(const M &)
{
  return "m";
}

template <class F>
struct VarMachine
{
  typename F::V v;
  template <size_t I>
  std::string get_i()
  {
    std::string out;
    bool ok = F::access([&] { out = show_alt(F::template get<I>(v)); });
    return ok ? out : "bad_access";
  }
  // selection by TYPE (get<T> / get_if<T>) and by index on a const variant: the same answers as get<I> / get_if<I>
  template <class T>
  std::string get_t()
  {
    std::string out;
    bool ok = F::access([&] { out = show_alt(F::template get_t<T>(v)); });
    return ok ? out : "bad_access";
  }
  template <class T>
  std::string getif_t()
  {
    const typename F::V &cv = v;
    auto *p                 = F::template get_if_t<T>(&cv);
    return p ? show_alt(*p) : "null";
  }
  template <size_t I>
  std::string cget_i()
  {
    std::string out;
    const typename F::V &cv = v;
    bool ok                 = F::access([&] { out = show_alt(F::template cget<I>(cv)); });
    return ok ? out : "bad_access";
  }
  template <size_t I>
  std::string getif_i()
  {
    auto *p = F::template get_if<I>(&v);
    return p ? show_alt(*p) : "null";
  }
  bool step(const std::vector<std::string> &op, std::string &out)
  {
    size_t i;
    if (op[0] == "set" && op.size() == 2)
    {
      const std::string &x = op[1];
      int64_t n;
      std::string raw;
      if (x == "m") v = typename F::Mono{};
      else if (x == "b:0") v = false;
      else if (x == "b:1") v = true;
      else if (x.rfind("i:", 0) == 0 && int_tok(x.substr(2), n)) v = n;
      else if (x.rfind("s:", 0) == 0 && vh::from_hex(x.substr(2), raw)) v = raw;
      else return false;
      out = "idx=" + std::to_string(v.index());
      return true;
    }
    if ((op[0] == "get" || op[0] == "getif" || op[0] == "holds") && op.size() == 2)
    {
      if (!small_tok(op[1], i) || i >= 4) return false;
      if (op[0] == "get")
        out = i == 0 ? get_i<0>() : i == 1 ? get_i<1>() : i == 2 ? get_i<2>() : get_i<3>();
      else if (op[0] == "getif")
        out = i == 0 ? getif_i<0>() : i == 1 ? getif_i<1>() : i == 2 ? getif_i<2>() : getif_i<3>();
      else
        out = b01(i == 0   ? F::template holds<typename F::Mono>(v)
                  : i == 1 ? F::template holds<bool>(v)
                  : i == 2 ? F::template holds<int64_t>(v)
                           : F::template holds<std::string>(v));
      return true;
    }
    if ((op[0] == "gett" || op[0] == "getift" || op[0] == "cget") && op.size() == 2)
    {
      using Mono = typename F::Mono;
      if (!small_tok(op[1], i) || i >= 4) return false;
      if (op[0] == "gett")
        out = i == 0 ? get_t<Mono>() : i == 1 ? get_t<bool>() : i == 2 ? get_t<int64_t>() : get_t<std::string>();
      else if (op[0] == "getift")
        out = i == 0 ? getif_t<Mono>() : i == 1 ? getif_t<bool>() : i == 2 ? getif_t<int64_t>() : getif_t<std::string>();
      else
        out = i == 0 ? cget_i<0>() : i == 1 ? cget_i<1>() : i == 2 ? cget_i<2>() : cget_i<3>();
      return true;
    }
    if (op[0] == "index" && op.size() == 1)
    {
      out = std::to_string(v.index());
      return true;
    }
    if (op[0] == "visit" && op.size() == 1)
    {
      out = F::visit(v);
      return true;
    }
    if (op[0] == "move" && op.size() == 1)
    {
      // move construction and move assignment of a copy: the value arrives, v itself is left alone
      typename F::V c0(v);
      typename F::V c(std::move(c0));
      typename F::V d;
      d   = std::move(c);
      out = d.index() == 0 ? "m" : d.index() == 1 ? show_alt(F::template get<1>(d)) : d.index() == 2 ? show_alt(F::template get<2>(d)) : show_alt(F::template get<3>(d));
      return true;
    }
    if (op[0] == "copy" && op.size() == 1)
    {
      typename F::V c(v);
      typename F::V d;
      d   = c;
      out = d.index() == 0 ? "m" : d.index() == 1 ? show_alt(F::template get<1>(d)) : d.index() == 2 ? show_alt(F::template get<2>(d)) : show_alt(F::template get<3>(d));
      return true;
    }
    return false;
  }
};

static std::string handle_var(const std::vector<std::string> &t)
{
  auto ops = vh::split_ops(t, 1);
  if (!ops[0].empty()) return "bad-op";
  VarMachine<NostdVar> a;
  VarMachine<StdVar> b;
  std::vector<std::string> outs;
  for (size_t i = 1; i < ops.size(); i++)
  {
    std::string x, y;
    if (ops[i].empty() || !a.step(ops[i], x) || !b.step(ops[i], y)) return "bad-op";
    outs.push_back(x + "|" + y);
  }
  return vh::join(outs, " ; ");
}

// ---- function_ref ----------------------------------------------------------------------------------------
static int64_t plus1(int64_t x) { return x + 1; }
struct Add7
{
  int64_t operator()(int64_t x) const { return x + 7; }
};

template <class FR>
static bool fr_op(const std::vector<std::string> &op, std::string &out)
{
  if (op[0] == "null" && op.size() == 1)
  {
    FR f(nullptr);
    out = b01(static_cast<bool>(f));
    return true;
  }
  if (op[0] == "nullfp" && op.size() == 1)
  {
    int64_t (*fp)(int64_t) = nullptr;  // a null function pointer binds to nothing
    FR f(fp);
    out = b01(static_cast<bool>(f));
    return true;
  }
  if (op[0] == "callp" && op.size() == 2)
  {
    int64_t x;
    if (!int_tok(op[1], x) || x < -1000000 || x > 1000000) return false;
    int64_t (*fp)(int64_t) = plus1;  // a function pointer object (not the function itself)
    FR f(fp);
    out = std::to_string(static_cast<long long>(f(x))) + "/" + b01(static_cast<bool>(f));
    return true;
  }
  if ((op[0] == "call" || op[0] == "copy") && op.size() == 3)
  {
    size_t k;
    int64_t x;
    if (!small_tok(op[1], k) || !int_tok(op[2], x) || x < -1000000 || x > 1000000 || k > 3) return false;
    int64_t state = 0;
    auto lam1     = [](int64_t y) { return y * 3; };
    auto lam2     = [&state](int64_t y) { return y + state; };
    Add7 functor;
    int64_t r = 0;
    bool b    = false;
    auto use  = [&](FR f) {
      state = 10;  // the referenced callable is called, not a copy made at construction
      if (op[0] == "copy")
      {
        FR g(f);
        r = g(x);
        b = static_cast<bool>(g);
      }
      else
      {
        r = f(x);
        b = static_cast<bool>(f);
      }
    };
    switch (k)
    {
      case 0: use(FR(plus1)); break;
      case 1: use(FR(lam1)); break;
      case 2: use(FR(lam2)); break;
      default: use(FR(functor)); break;
    }
    out = std::to_string(static_cast<long long>(r)) + "/" + b01(b);
    return true;
  }
  return false;
}

static std::string handle_fr(const std::vector<std::string> &t)
{
  auto ops = vh::split_ops(t, 1);
  if (!ops[0].empty()) return "bad-op";
  std::vector<std::string> outs;
  for (size_t i = 1; i < ops.size(); i++)
  {
    std::string x, y;
    if (ops[i].empty() || !fr_op<nostd::function_ref<int64_t(int64_t)>>(ops[i], x) ||
        !fr_op<std::function<int64_t(int64_t)>>(ops[i], y))
      return "bad-op";
    outs.push_back(x + "|" + y);
  }
  return vh::join(outs, " ; ");
}

int main()
{
  return vh::run_lines([](const std::vector<std::string> &t) -> std::string {
    if (t.empty()) return "bad-op";
    if (t[0] == "sv") return handle_sv(t);
    if (t[0] == "sp") return handle_sp(t);
    if (t[0] == "shp") return run_machines<SharedMachine<NostdFamily>, SharedMachine<StdFamily>>(t);
    if (t[0] == "up") return run_machines<UniqueMachine<NostdFamily>, UniqueMachine<StdFamily>>(t);
    if (t[0] == "var") return handle_var(t);
    if (t[0] == "fr") return handle_fr(t);
    return "bad-op";
  });
}
