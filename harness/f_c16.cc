// Correspondence harness for C16 (B3 single / multi header and Jaeger propagators): calls the real
// header-only API of the repo in-process on the lines the Lean model driver also reads.
#include "common.h"

#include "opentelemetry/context/context.h"
#include "opentelemetry/context/propagation/text_map_propagator.h"
#include "opentelemetry/trace/context.h"
#include "opentelemetry/trace/default_span.h"
#include "opentelemetry/trace/propagation/b3_propagator.h"
#include "opentelemetry/trace/propagation/jaeger.h"
#include "opentelemetry/trace/span_context.h"
#include "opentelemetry/trace/trace_state.h"

#include <map>

namespace trace_api = opentelemetry::trace;
namespace nostd     = opentelemetry::nostd;
namespace context   = opentelemetry::context;
namespace prop      = opentelemetry::trace::propagation;

// carrier whose values live in exact-size heap blocks (no NUL terminator): a read past the end of a header value,
// or reliance on C-string termination, is an ASan report
class ExactCarrier : public context::propagation::TextMapCarrier
{
public:
  nostd::string_view Get(nostd::string_view key) const noexcept override
  {
    auto it = in_.find(std::string(key));
    if (it == in_.end()) return "";
    return nostd::string_view(it->second->data(), it->second->size());
  }
  void Set(nostd::string_view key, nostd::string_view value) noexcept override
  {
    out_[std::string(key)] = std::string(value.data(), value.size());
  }
  void Put(const std::string &k, const std::string &v) { in_[k].reset(new vh::Exact(v)); }
  std::map<std::string, std::unique_ptr<vh::Exact>> in_;
  std::map<std::string, std::string> out_;
};

static std::string show_entries(const trace_api::TraceState &ts)
{
  std::string s = "[";
  bool first    = true;
  ts.GetAllEntries([&](nostd::string_view k, nostd::string_view v) {
    if (!first) s += ",";
    first = false;
    s += vh::to_hex(k.data(), k.size()) + ":" + vh::to_hex(v.data(), v.size());
    return true;
  });
  return s + "]";
}

static std::string show_ctx(const trace_api::SpanContext &sc)
{
  char tid[16], sid[8];
  sc.trace_id().CopyBytesTo(nostd::span<uint8_t, 16>(reinterpret_cast<uint8_t *>(tid), 16));
  sc.span_id().CopyBytesTo(nostd::span<uint8_t, 8>(reinterpret_cast<uint8_t *>(sid), 8));
  char fl = static_cast<char>(sc.trace_flags().flags());
  return "tid=" + vh::to_hex(tid, 16) + " sid=" + vh::to_hex(sid, 8) + " fl=" + vh::to_hex(&fl, 1) +
         " remote=" + (sc.IsRemote() ? "1" : "0") + " ts=" + show_entries(*sc.trace_state());
}

// Extract into a caller context that carries a marker binding; "none" = the caller's context came back unchanged
static std::string do_extract(context::propagation::TextMapPropagator &p, ExactCarrier &c)
{
  context::Context ctx;
  ctx          = ctx.SetValue("marker", static_cast<int64_t>(77));
  auto out     = p.Extract(c, ctx);
  bool same    = (out == ctx);
  bool has_key = out.HasKey(trace_api::kSpanKey);
  if (same)
  {
    if (has_key) return "ERR caller-context-has-span";
    return "none";
  }
  auto sc = trace_api::GetSpan(out)->GetContext();
  if (!sc.IsValid()) return "installed-invalid " + show_ctx(sc);
  auto mk = out.GetValue("marker");
  if (!nostd::holds_alternative<int64_t>(mk) || nostd::get<int64_t>(mk) != 77) return "ERR marker-lost";
  return show_ctx(sc);
}

static bool make_ctx(const std::vector<std::string> &t, context::Context &ctx)
{
  std::string tid, sid, fl;
  if (!vh::from_hex(t[2], tid) || !vh::from_hex(t[3], sid) || !vh::from_hex(t[4], fl) || tid.size() != 16 ||
      sid.size() != 8 || fl.size() != 1)
    return false;
  trace_api::SpanContext sc(
      trace_api::TraceId(nostd::span<const uint8_t, 16>(reinterpret_cast<const uint8_t *>(tid.data()), 16)),
      trace_api::SpanId(nostd::span<const uint8_t, 8>(reinterpret_cast<const uint8_t *>(sid.data()), 8)),
      trace_api::TraceFlags(static_cast<uint8_t>(fl[0])), false);
  nostd::shared_ptr<trace_api::Span> sp{new trace_api::DefaultSpan(sc)};
  ctx = trace_api::SetSpan(ctx, sp);
  return true;
}

static std::string get_or(const std::map<std::string, std::string> &m, const char *k)
{
  auto it = m.find(k);
  return it == m.end() ? std::string("unset") : vh::to_hex(it->second);
}

static std::string extras(const std::map<std::string, std::string> &m, std::initializer_list<const char *> known)
{
  std::string r;
  for (auto &kv : m)
  {
    bool k = false;
    for (auto n : known) k = k || kv.first == n;
    if (!k) r += " extra=" + vh::to_hex(kv.first);
  }
  return r;
}

static std::string roundtrip(context::propagation::TextMapPropagator &p, ExactCarrier &c)
{
  // feed exactly what was injected into a fresh carrier (exact-size blocks) and extract
  ExactCarrier c2;
  for (auto &kv : c.out_) c2.Put(kv.first, kv.second);
  return do_extract(p, c2);
}

static std::string handle_b3(const std::vector<std::string> &t)
{
  prop::B3Propagator single;
  prop::B3PropagatorMultiHeader multi;
  if (t.size() == 5 && (t[1] == "inject-single" || t[1] == "inject-multi" || t[1] == "rt-single" || t[1] == "rt-multi"))
  {
    context::Context ctx;
    if (!make_ctx(t, ctx)) return "bad-op";
    bool is_single = t[1] == "inject-single" || t[1] == "rt-single";
    context::propagation::TextMapPropagator &p =
        is_single ? static_cast<context::propagation::TextMapPropagator &>(single) : multi;
    ExactCarrier c;
    p.Inject(c, ctx);
    if (c.out_.empty()) return "none";
    if (t[1] == "rt-single" || t[1] == "rt-multi") return roundtrip(p, c);
    if (is_single) return "b3=" + get_or(c.out_, "b3") + extras(c.out_, {"b3"});
    return "tid=" + get_or(c.out_, "X-B3-TraceId") + " sid=" + get_or(c.out_, "X-B3-SpanId") +
           " smp=" + get_or(c.out_, "X-B3-Sampled") + extras(c.out_, {"X-B3-TraceId", "X-B3-SpanId", "X-B3-Sampled"});
  }
  if (t.size() == 6 && t[1] == "extract")
  {
    std::string v[4];
    static const char *names[4] = {"b3", "X-B3-TraceId", "X-B3-SpanId", "X-B3-Sampled"};
    ExactCarrier c;
    for (int i = 0; i < 4; i++)
    {
      if (!vh::from_hex(t[2 + i], v[i])) return "bad-op";
      // "-" stands for an absent header as well as an empty one: Get returns "" for both
      if (t[2 + i] != "-") c.Put(names[i], v[i]);
    }
    // the extractor is shared by both classes; alternate so both vtables are exercised
    std::string a = do_extract(single, c);
    std::string b = do_extract(multi, c);
    if (a != b) return "ERR single-and-multi-extractors-differ " + a + " / " + b;
    return a;
  }
  return "bad-op";
}

static std::string handle_jg(const std::vector<std::string> &t)
{
  prop::JaegerPropagator p;
  if (t.size() == 5 && (t[1] == "inject" || t[1] == "rt"))
  {
    context::Context ctx;
    if (!make_ctx(t, ctx)) return "bad-op";
    ExactCarrier c;
    p.Inject(c, ctx);
    if (c.out_.empty()) return "none";
    if (t[1] == "rt") return roundtrip(p, c);
    return "h=" + get_or(c.out_, "uber-trace-id") + extras(c.out_, {"uber-trace-id"});
  }
  if (t.size() == 3 && t[1] == "extract")
  {
    std::string h;
    if (!vh::from_hex(t[2], h)) return "bad-op";
    ExactCarrier c;
    if (t[2] != "-") c.Put("uber-trace-id", h);
    return do_extract(p, c);
  }
  return "bad-op";
}

int main()
{
  return vh::run_lines([](const std::vector<std::string> &t) -> std::string {
    if (t.empty()) return "bad-op";
    if (t[0] == "b3") return handle_b3(t);
    if (t[0] == "jg") return handle_jg(t);
    return "bad-op";
  });
}
