// Correspondence harness for C16 (B3 single / multi header and Jaeger propagators): calls the real
// header-only API of the repo in-process on the lines the Lean model driver also reads.
#include "common.h"

#include "opentelemetry/context/context.h"
#include "opentelemetry/context/propagation/text_map_propagator.h"
#include "opentelemetry/trace/context.h"
#include "opentelemetry/trace/default_span.h"
#include "opentelemetry/trace/propagation/b3_propagator.h"
#include "opentelemetry/trace/propagation/jaeger.h"
#include "opentelemetry/trace/span_context.h"
#include "opentelemetry/trace/trace_state.h"

#include <map>

namespace trace_api = opentelemetry::trace;
namespace nostd     = opentelemetry::nostd;
namespace context   = opentelemetry::context;
namespace prop      = opentelemetry::trace::propagation;

// carrier whose values live in exact-size heap blocks (no NUL terminator): a read past the end of a header value,
// or reliance on C-string termination, is an ASan report
class ExactCarrier : public context::propagation::TextMapCarrier
{
public:
  nostd::string_view Get(nostd::string_view key) const noexcept override
  {
    auto it = in_.find(std::string(key));
    if (it == in_.end()) return "";
    return nostd::string_view(it->second->data(), it->second->size());
  }
  void Set(nostd::string_view key, nostd::string_view value) noexcept override
  {
    out_[std::string(key)] = std::string(value.data(), value.size());
  }
  void Put(const std::string &k, const std::string &v) { in_[k].reset(new vh::Exact(v)); }
  std::map<std::string, std::unique_ptr<vh::Exact>> in_;
  std::map<std::string, std::string> out_;
};

static std::string show_entries(const trace_api::TraceState &ts)
{
  std::string s = "[";
  bool first    = true;
  ts.GetAllEntries([&](nostd::string_view k, nostd::string_view v) {
    if (!first) s += ",";
    first = false;
    s += vh::to_hex(k.data(), k.size()) + ":" + vh::to_hex(v.data(), v.size());
    return true;
  });
  return s + "]";
}

static std::string show_ctx(const trace_api::SpanContext &sc)
{
  char tid[16], sid[8];
  sc.trace_id().CopyBytesTo(nostd::span<uint8_t, 16>(reinterpret_cast<uint8_t *>(tid), 16));
  sc.span_id().CopyBytesTo(nostd::span<uint8_t, 8>(reinterpret_cast<uint8_t *>(sid), 8));
  char fl = static_cast<char>(sc.trace_flags().flags());
  return "tid=" + vh::to_hex(tid, 16) + " sid=" + vh::to_hex(sid, 8) + " fl=" + vh::to_hex(&fl, 1) +
         " remote=" + (sc.IsRemote() ? "1" : "0") + " ts=" + show_entries(*sc.trace_state());
}

// Extract into a caller context that carries a marker binding; "none" = the caller's context came back unchanged
static const uint8_t kCallerTid[16] = {0x50, 1, 2, 3, 4, 5, 6, 7, 8, 9, 10, 11, 12, 13, 14, 15};
static const uint8_t kCallerSid[8]  = {0x51, 1, 2, 3, 4, 5, 6, 7};

// `over`: the caller's context already holds a (local) span; when nothing valid is extracted it must come back untouched
static std::string do_extract(context::propagation::TextMapPropagator &p, ExactCarrier &c, bool over = false,
                              trace_api::SpanContext *got = nullptr)
{
  context::Context ctx;
  ctx = ctx.SetValue("marker", static_cast<int64_t>(77));
  if (over)
  {
    trace_api::SpanContext caller(trace_api::TraceId(nostd::span<const uint8_t, 16>(kCallerTid, 16)),
                                  trace_api::SpanId(nostd::span<const uint8_t, 8>(kCallerSid, 8)), trace_api::TraceFlags(0),
                                  false);
    nostd::shared_ptr<trace_api::Span> sp{new trace_api::DefaultSpan(caller)};
    ctx = trace_api::SetSpan(ctx, sp);
  }
  auto out     = p.Extract(c, ctx);
  bool same    = (out == ctx);
  bool has_key = out.HasKey(trace_api::kSpanKey);
  if (same)
  {
    if (over)
    {
      auto cs = trace_api::GetSpan(out)->GetContext();
      if (!has_key || cs.IsRemote() || !(cs.trace_id() == trace_api::TraceId(nostd::span<const uint8_t, 16>(kCallerTid, 16))) ||
          cs.span_id() != trace_api::SpanId(nostd::span<const uint8_t, 8>(kCallerSid, 8)))
        return "ERR caller-span-replaced";
      return "none";
    }
    if (has_key) return "ERR caller-context-has-span";
    return "none";
  }
  auto sc = trace_api::GetSpan(out)->GetContext();
  if (got) *got = sc;
  if (!sc.IsValid()) return "installed-invalid " + show_ctx(sc);
  auto mk = out.GetValue("marker");
  if (!nostd::holds_alternative<int64_t>(mk) || nostd::get<int64_t>(mk) != 77) return "ERR marker-lost";
  return show_ctx(sc);
}

static bool make_ctx(const std::vector<std::string> &t, context::Context &ctx)
{
  std::string tid, sid, fl;
  if (t[3] == "-" && t[4] == "-" && (t[2] == "-" || t[2] == "x"))
  {
    // "-": no span in the context at all; "x": the span key holds a value of another type
    if (t[2] == "x") ctx = ctx.SetValue(trace_api::kSpanKey, static_cast<int64_t>(5));
    return true;
  }
  if (!vh::from_hex(t[2], tid) || !vh::from_hex(t[3], sid) || !vh::from_hex(t[4], fl) || tid.size() != 16 ||
      sid.size() != 8 || fl.size() != 1)
    return false;
  trace_api::SpanContext sc(
      trace_api::TraceId(nostd::span<const uint8_t, 16>(reinterpret_cast<const uint8_t *>(tid.data()), 16)),
      trace_api::SpanId(nostd::span<const uint8_t, 8>(reinterpret_cast<const uint8_t *>(sid.data()), 8)),
      trace_api::TraceFlags(static_cast<uint8_t>(fl[0])), false);
  nostd::shared_ptr<trace_api::Span> sp{new trace_api::DefaultSpan(sc)};
  ctx = trace_api::SetSpan(ctx, sp);
  return true;
}

static std::string get_or(const std::map<std::string, std::string> &m, const char *k)
{
  auto it = m.find(k);
  return it == m.end() ? std::string("unset") : vh::to_hex(it->second);
}

static std::string extras(const std::map<std::string, std::string> &m, std::initializer_list<const char *> known)
{
  std::string r;
  for (auto &kv : m)
  {
    bool k = false;
    for (auto n : known) k = k || kv.first == n;
    if (!k) r += " extra=" + vh::to_hex(kv.first);
  }
  return r;
}

static std::string roundtrip(context::propagation::TextMapPropagator &p, ExactCarrier &c, const context::Context &ctx)
{
  // feed exactly what was injected into a fresh carrier (exact-size blocks) and extract
  ExactCarrier c2;
  for (auto &kv : c.out_) c2.Put(kv.first, kv.second);
  trace_api::SpanContext got = trace_api::SpanContext::GetInvalid();
  std::string r              = do_extract(p, c2, false, &got);
  // "the same trace id and span id and the same sampled decision", said through the API's own comparison operators:
  // they must agree with the byte-wise comparison of what is printed
  auto orig = trace_api::GetSpan(ctx)->GetContext();
  trace_api::SpanContext want(orig.trace_id(), orig.span_id(),
                              trace_api::TraceFlags(orig.IsSampled() ? trace_api::TraceFlags::kIsSampled : 0), true);
  uint8_t a[16], b[16], x[8], y[8];
  want.trace_id().CopyBytesTo(a);
  got.trace_id().CopyBytesTo(b);
  want.span_id().CopyBytesTo(x);
  got.span_id().CopyBytesTo(y);
  bool tid_eq = memcmp(a, b, 16) == 0, sid_eq = memcmp(x, y, 8) == 0;
  bool fl_eq  = want.trace_flags().flags() == got.trace_flags().flags();
  if ((want == got) != (tid_eq && sid_eq && fl_eq) || (want.trace_id() == got.trace_id()) != tid_eq ||
      (want.trace_id() != got.trace_id()) == tid_eq || (want.span_id() == got.span_id()) != sid_eq ||
      (want.span_id() != got.span_id()) == sid_eq || (want.trace_flags() == got.trace_flags()) != fl_eq ||
      (want.trace_flags() != got.trace_flags()) == fl_eq)
    return "ERR span-context-equality-disagrees-with-bytes " + r;
  // ... and a context that differs in one bit of the trace id, of the span id or in the sampled bit is not equal
  uint8_t a2[16], x2[8], f1[1];
  memcpy(a2, a, 16);
  memcpy(x2, x, 8);
  a2[15] ^= 1;
  x2[0] ^= 0x80;
  want.trace_flags().CopyBytesTo(f1);
  trace_api::SpanContext w1(trace_api::TraceId(a2), want.span_id(), want.trace_flags(), true);
  trace_api::SpanContext w2(want.trace_id(), trace_api::SpanId(x2), want.trace_flags(), true);
  trace_api::SpanContext w3(want.trace_id(), want.span_id(), trace_api::TraceFlags(static_cast<uint8_t>(f1[0] ^ 1)), true);
  if (w1 == want || w2 == want || w3 == want || f1[0] != want.trace_flags().flags())
    return "ERR span-context-equality-ignores-a-difference " + r;
  return r;
}

// Fields with a callback that returns false at its n-th call (0 = never)
static std::string do_fields(const context::propagation::TextMapPropagator &p, const std::string &n)
{
  if (n.empty() || n.size() > 2 || n.find_first_not_of("0123456789") != std::string::npos) return "bad-op";
  size_t stop = std::stoul(n), calls = 0;
  std::string s = "[";
  bool ret      = p.Fields([&](nostd::string_view f) {
    if (calls) s += ",";
    calls++;
    s += vh::to_hex(f.data(), f.size());
    return calls != stop;
  });
  return "f=" + s + "] ret=" + (ret ? "1" : "0");
}

static std::string handle_b3(const std::vector<std::string> &t)
{
  prop::B3Propagator single;
  prop::B3PropagatorMultiHeader multi;
  if (t.size() == 5 && (t[1] == "inject-single" || t[1] == "inject-multi" || t[1] == "rt-single" || t[1] == "rt-multi"))
  {
    context::Context ctx;
    if (!make_ctx(t, ctx)) return "bad-op";
    bool is_single = t[1] == "inject-single" || t[1] == "rt-single";
    context::propagation::TextMapPropagator &p =
        is_single ? static_cast<context::propagation::TextMapPropagator &>(single) : multi;
    ExactCarrier c;
    p.Inject(c, ctx);
    if (c.out_.empty()) return "none";
    if (t[1] == "rt-single" || t[1] == "rt-multi") return roundtrip(p, c, ctx);
    if (is_single) return "b3=" + get_or(c.out_, "b3") + extras(c.out_, {"b3"});
    return "tid=" + get_or(c.out_, "X-B3-TraceId") + " sid=" + get_or(c.out_, "X-B3-SpanId") +
           " smp=" + get_or(c.out_, "X-B3-Sampled") + extras(c.out_, {"X-B3-TraceId", "X-B3-SpanId", "X-B3-Sampled"});
  }
  if (t.size() == 3 && t[1] == "fields-single") return do_fields(single, t[2]);
  if (t.size() == 3 && t[1] == "fields-multi") return do_fields(multi, t[2]);
  if (t.size() == 3 && (t[1] == "flags" || t[1] == "tidhex" || t[1] == "sidhex"))
  {
    // the public static helpers of B3PropagatorExtractor called directly (exact-size buffer).  TraceIdFromHex /
    // SpanIdFromHex require hex digits (HexToInt gives -1 otherwise, which is then shifted): other text is not a case
    std::string h;
    if (!vh::from_hex(t[2], h)) return "bad-op";
    vh::Exact x(h);
    nostd::string_view sv(x.data(), x.size());
    if (t[1] == "flags")
    {
      char f = static_cast<char>(prop::B3PropagatorExtractor::TraceFlagsFromHex(sv).flags());
      return "fl=" + vh::to_hex(&f, 1);
    }
    if (!prop::detail::IsValidHex(sv)) return "bad-op";
    if (t[1] == "tidhex")
    {
      char b[16];
      prop::B3PropagatorExtractor::TraceIdFromHex(sv).CopyBytesTo(
          nostd::span<uint8_t, 16>(reinterpret_cast<uint8_t *>(b), 16));
      return "id=" + vh::to_hex(b, 16);
    }
    char b[8];
    prop::B3PropagatorExtractor::SpanIdFromHex(sv).CopyBytesTo(nostd::span<uint8_t, 8>(reinterpret_cast<uint8_t *>(b), 8));
    return "id=" + vh::to_hex(b, 8);
  }
  if (t.size() == 6 && (t[1] == "extract" || t[1] == "extract-over"))
  {
    bool over = t[1] == "extract-over";
    std::string v[4];
    static const char *names[4] = {"b3", "X-B3-TraceId", "X-B3-SpanId", "X-B3-Sampled"};
    ExactCarrier c;
    for (int i = 0; i < 4; i++)
    {
      if (!vh::from_hex(t[2 + i], v[i])) return "bad-op";
      // "-" stands for an absent header as well as an empty one: Get returns "" for both
      if (t[2 + i] != "-") c.Put(names[i], v[i]);
    }
    // the extractor is shared by both classes; alternate so both vtables are exercised
    std::string a = do_extract(single, c, over);
    std::string b = do_extract(multi, c, over);
    if (a != b) return "ERR single-and-multi-extractors-differ " + a + " / " + b;
    return a;
  }
  return "bad-op";
}

static std::string handle_jg(const std::vector<std::string> &t)
{
  prop::JaegerPropagator p;
  if (t.size() == 5 && (t[1] == "inject" || t[1] == "rt"))
  {
    context::Context ctx;
    if (!make_ctx(t, ctx)) return "bad-op";
    ExactCarrier c;
    p.Inject(c, ctx);
    if (c.out_.empty()) return "none";
    if (t[1] == "rt") return roundtrip(p, c, ctx);
    return "h=" + get_or(c.out_, "uber-trace-id") + extras(c.out_, {"uber-trace-id"});
  }
  if (t.size() == 3 && t[1] == "fields") return do_fields(p, t[2]);
  if (t.size() == 3 && (t[1] == "extract" || t[1] == "extract-over"))
  {
    std::string h;
    if (!vh::from_hex(t[2], h)) return "bad-op";
    ExactCarrier c;
    if (t[2] != "-") c.Put("uber-trace-id", h);
    return do_extract(p, c, t[1] == "extract-over");
  }
  return "bad-op";
}

int main()
{
  return vh::run_lines([](const std::vector<std::string> &t) -> std::string {
    if (t.empty()) return "bad-op";
    if (t[0] == "b3") return handle_b3(t);
    if (t[0] == "jg") return handle_jg(t);
    return "bad-op";
  });
}
