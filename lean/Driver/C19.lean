import Driver.Util
import OtelVerif.Model.Metrics.View
import OtelVerif.Model.Scope
namespace Driver
open Otel Otel.Naming Otel.View Otel.Scope

def itypeArg : String → Option IType
  | "c" => some .counter | "h" => some .histogram | "u" => some .upDownCounter
  | "oc" => some .obsCounter | "og" => some .obsGauge | "ou" => some .obsUpDownCounter
  | _ => none          -- synchronous gauges do not exist under ABI v1

def itypeShow : IType → String
  | .counter => "c" | .histogram => "h" | .upDownCounter => "u" | .obsCounter => "oc" | .obsGauge => "og"
  | .obsUpDownCounter => "ou" | .gauge => "g"

def aggArg : String → Option Agg
  | "def" => some .default | "drop" => some .drop | "hist" => some .histogram | "last" => some .lastValue | "sum" => some .sum
  | _ => none

def aggShow : Agg → String
  | .default => "def" | .drop => "drop" | .histogram => "hist" | .lastValue => "last" | .sum => "sum"

def filterArg (t : String) : Option (Option (List Bytes)) :=
  if t = "*" then some none
  else if t = "e" then some (some [])
  else ((t.splitOn ",").mapM ofHexStr).map some

def insertStr (s : String) : List String → List String
  | [] => [s]
  | x :: rest => if x < s then x :: insertStr s rest else s :: x :: rest

def sortStrs (l : List String) : List String := l.foldr insertStr []

def showKeys (keys : List Bytes) : String :=
  if keys.isEmpty then "none" else "+".intercalate (sortStrs (keys.map hexArg))

/-- a=hist (default boundaries) or a=hist:<b1>:<b2>…, then @<index> for every bucket that counted a value -/
def showAgg (e : Entry) : String :=
  match e.stream.bounds with
  | none => aggShow e.stream.agg
  | some b =>
    aggShow e.stream.agg ++ (if b = Gen.defaultHistogramBounds then "" else String.join (b.map fun x => ":" ++ toString x)) ++
      String.join (((List.range (b.length + 1)).filter fun bi => e.values.any (bucketIndex b · == bi)).map fun bi => "@" ++ toString bi)

/-- the value of the exported point: the sum of what was recorded (sum, histogram), the last value, nothing for drop -/
def showValue (e : Entry) : String :=
  match e.stream.agg with
  | .drop => "-"
  | .lastValue => toString (e.values.getLast?.getD 0)
  | _ => toString e.values.sum

def showEntry (e : Entry) : String :=
  let s := e.stream
  s!"n={hexArg s.name},d={hexArg s.description},u={hexArg s.unit},t={itypeShow s.type},a={showAgg e},k={showKeys s.keys},v={showValue e}"

/-- `-` = no aggregation config, else strictly increasing boundaries `b1,b2,…` -/
def boundsArg (t : String) : Option (Option (List Nat)) :=
  if t = "-" then some none else do
    let bs ← (t.splitOn ",").mapM (·.toNat?)
    if bs.isEmpty ∨ !(bs.zip (bs.drop 1)).all (fun p => p.1 < p.2) ∨ bs.any (· > 1000000) then none
    pure (some bs)

/-- the attribute keys every measurement of the harness carries: `a`, `b` -/
def measuredKeys : List Bytes := [[97], [98]]

structure MvState where
  reg : List Registered := []
  streams : List String := []
  nInstr : Nat := 0

def handleMv (toks : List String) : String :=
  match splitOps toks with
  | ["m", mn, mv, ms, en] :: ops =>
    match ofHexStr mn, ofHexStr mv, ofHexStr ms, (if en = "0" then some false else if en = "1" then some true else none) with
    | some mn, some mv, some ms, some en =>
      let sc : View.Scope := ⟨mn, mv, ms⟩
      -- all views are registered before the first instrument is created (the harness builds the provider first)
      let reg : Option (List Registered) := (ops.filter (·.head? = some "v")).mapM fun op =>
        match op with
        | ["v", it, pat, unit, smn, smv, sms, vn, vd, vu, agg, flt, hb] => do
          let it ← itypeArg it
          let pat ← ofHexStr pat
          let np ← namePredOf pat
          let unit ← ofHexStr unit
          let smn ← ofHexStr smn
          let smv ← ofHexStr smv
          let sms ← ofHexStr sms
          let vn ← ofHexStr vn
          let vd ← ofHexStr vd
          let vu ← ofHexStr vu
          let agg ← aggArg agg
          let flt ← filterArg flt
          let hb ← boundsArg hb
          pure ⟨⟨it, np, unit⟩, ⟨smn, smv, sms⟩, ⟨vn, vd, vu, agg, flt, hb⟩⟩
        | _ => none
      let instrs : Option (List (Instr × Bool)) := (ops.filter (·.head? ≠ some "v")).mapM fun op =>
        match op with
        | ["i", it, vt, n, u, d] => do
          let it ← itypeArg it
          if vt ≠ "l" ∧ vt ≠ "d" then none
          let n ← ofHexStr n
          let u ← ofHexStr u
          let d ← ofHexStr d
          pure (⟨it, n, u, d⟩, vt == "d")
        | _ => none
      match reg, instrs with
      | some reg, some instrs =>
        -- two handles for one observable instrument (same name, type, value type) are outside this model (C17)
        let obsIds := (instrs.filter (·.1.type.observable)).map fun (i, dbl) => (i.name, i.type, dbl)
        if obsIds.eraseDups.length ≠ obsIds.length then "bad-op" else
        let st := instrs.zipIdx.foldl (fun st ((i, dbl), idx) => createAndRecord en reg sc measuredKeys st i dbl (100 + idx)) []
        "[" ++ "|".intercalate (sortStrs (st.map showEntry)) ++ "]"
      | _, _ => "bad-op"
    | _, _, _, _ => "bad-op"
  | _ => "bad-op"

def handleVal : List String → String
  | ["name", s] => match ofHexStr s with
    | some s => bool01 (validName s)
    | none => "bad-op"
  | ["unit", s] => match ofHexStr s with
    | some s => bool01 (validUnit s)
    | none => "bad-op"
  | _ => "bad-op"

/-- the hand-written validator variants (second harness TU) -/
def handleVal2 : List String → String
  | ["name", s] => match ofHexStr s with
    | some s => match validNameHand s with
      | some b => bool01 b
      | none => "OOB"
    | none => "bad-op"
  | ["unit", s] => match ofHexStr s with
    | some s => bool01 (validUnitHand s)
    | none => "bad-op"
  | _ => "bad-op"

def matcherArg (m : String) (arg : Bytes) : Option Matcher :=
  match m with
  | "name" => some (.nameEq arg) | "ver" => some (.versionEq arg) | "schema" => some (.schemaEq arg)
  | "any" => some .any | "prefix" => some (.namePrefix arg)
  | _ => none

def lexLt : Bytes → Bytes → Bool
  | [], [] => false
  | [], _ :: _ => true
  | _ :: _, [] => false
  | a :: s, b :: t => a < b || (a == b && lexLt s t)

def insertKv (kv : Bytes × Bytes) : List (Bytes × Bytes) → List (Bytes × Bytes)
  | [] => [kv]
  | x :: rest => if lexLt x.1 kv.1 then x :: insertKv kv rest else kv :: x :: rest

def attrsArg19 (t : String) : Option (List (Bytes × Bytes)) :=
  if t = "-" then some [] else do
    let kvs ← (t.splitOn ",").mapM fun item =>
      match item.splitOn "=" with
      | [k, v] => do
        let k ← ofHexStr k
        let v ← ofHexStr v
        pure (k, v)
      | _ => none
    if (kvs.map (·.1)).eraseDups.length ≠ kvs.length then none
    pure (kvs.foldr insertKv [])

def handleSc : List String → String
  | kind :: rest =>
    if kind ≠ "t" ∧ kind ≠ "m" ∧ kind ≠ "l" then "bad-op" else
    match splitOps rest with
    | ["d", d] :: ops =>
      match (if d = "0" then some false else if d = "1" then some true else none) with
      | none => "bad-op"
      | some dflt =>
        let ruleOps := ops.takeWhile (·.head? = some "r")
        let reqOps := ops.dropWhile (·.head? = some "r")
        let rules : Option (List Rule) := ruleOps.mapM fun op =>
          match op with
          | ["r", m, arg, en] => do
            let arg ← ofHexStr arg
            let m ← matcherArg m arg
            let en ← (if en = "0" then some false else if en = "1" then some true else none)
            pure ⟨m, en⟩
          | _ => none
        let reqs : Option (List Ident) := reqOps.mapM fun op =>
          match kind, op with
          | "l", ["g", n, v, s, ln, attrs] => do
            let n ← ofHexStr n
            let v ← ofHexStr v
            let s ← ofHexStr s
            let ln ← ofHexStr ln
            let attrs ← attrsArg19 attrs
            -- LoggerProvider::GetLogger: an empty library name defaults to the logger name
            pure ⟨if n.isEmpty then ln else n, v, s, ln, attrs⟩
          | "l", _ => none
          | _, ["g", n, v, s] => do
            let n ← ofHexStr n
            let v ← ofHexStr v
            let s ← ofHexStr s
            pure ⟨n, v, s, [], []⟩
          | _, _ => none
        match rules, reqs with
        | some rules, some reqs =>
          let obs := runRequests rules dflt [] reqs
          if obs.isEmpty then "none" else
          let insts := obs.map (·.instance_)
          " ; ".intercalate (obs.map fun o => s!"i={insts.idxOf o.instance_} out={o.exported} res=1")
        | _, _ => "bad-op"
    | _ => "bad-op"
  | _ => "bad-op"

def C19.handlers : List (String × (List String → String)) := [("val", handleVal), ("val2", handleVal2), ("mv", handleMv), ("sc", handleSc)]

end Driver
