import Driver.Util
import OtelVerif.Model.ReaderRefine
namespace Driver
open Otel Otel.Reader

def parseREv (tok : String) : Option Reader.Ev :=
  match tok.splitOn ":" with
  | rl :: kind :: rest =>
    let role : Option Reader.Role :=
      if rl = "W" then some .W else if rl = "C" then some .C else if rl = "R" then some .R
      else match (rl.drop 1).toString.toNat? with
        | some i => if rl.startsWith "F" then some (.F i) else if rl.startsWith "S" then some (.S i) else none
        | none => none
    match role, rest with
    | some r, [] => some { role := r, kind := kind }
    | some r, [a] =>
      if a = "ok" ∨ a = "1t" then some { role := r, kind := kind, b := true }
      else if a = "no" ∨ a = "0f" then some { role := r, kind := kind, b := false }
      else a.toNat?.map fun v => { role := r, kind := kind, v := v }
    | _, _ => none
  | _ => none

/-- `reader ; <event> ; …` — the events of one real execution of the periodic reader -/
def handleReader (toks : List String) : String :=
  match splitOps toks with
  | [] :: evs =>
    let rec go (s : Reader.St) (k : Nat) : List (List String) → String
      | [] => s!"ok recorded={s.recorded} covered={s.covered} pending={s.pending} notified={s.notified} shutdown={bool01 s.shutdown} skipped={bool01 s.skipped} inexp={s.inExport} late={s.lateExports} xsd={s.xshutdowns} wdone={bool01 (s.wpc == .done)}"
      | [tok] :: rest =>
        match parseREv tok with
        | none => "bad-op"
        | some e => match Reader.astep s e with
          | some s' => go s' (k + 1) rest
          | none => s!"MISMATCH at {k} {tok} wpc={reprStr s.wpc} cpc={reprStr s.cpc} pending={s.pending} notified={s.notified} recorded={s.recorded} shutdown={bool01 s.shutdown}"
      | _ => "bad-op"
    go Reader.init 0 evs
  | _ => "bad-op"

def C02Reader.handlers : List (String × (List String → String)) := [("reader", handleReader)]

end Driver
