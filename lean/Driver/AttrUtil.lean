import Driver.Util
import OtelVerif.Model.Attr
/-! Line-protocol syntax of attribute values and attribute lists (used by the C04 and C13 drivers).

value   := b:0|1 | i:<int32> | l:<int64> | u:<uint32> | U:<uint64> | d:<16 hex digits> | c:<hex> | s:<hex>
         | B:<0|1 . …> | I:<int32 . …> | L:<int64 . …> | V:<uint32 . …> | W:<uint64 . …> | D:<16hex . …> | S:<hex . …> | Y:<hex>
attrs   := -  |  <keyhex>=<value>,<keyhex>=<value>,…          (hex strings: `-` = empty)
Anything out of range or not matching is rejected (`none` → the driver prints `bad-op`). -/
namespace Driver
open Otel Otel.SAttr

def parseNat (s : String) : Option Nat :=
  let cs := s.toList
  if cs.isEmpty || cs.length > 20 || !cs.all Char.isDigit then none
  else some (cs.foldl (fun n c => n * 10 + (c.toNat - 48)) 0)

def parseInt (s : String) : Option Int :=
  match s.toList with
  | '-' :: t => (parseNat (String.ofList t)).map fun n => -(Int.ofNat n)
  | _ => (parseNat s).map Int.ofNat

def inRangeI (bits : Nat) (v : Int) : Bool := decide (-(2 ^ (bits - 1) : Int) ≤ v) && decide (v < (2 ^ (bits - 1) : Int))
def inRangeU (bits : Nat) (v : Nat) : Bool := decide (v < 2 ^ bits)

def parseI (bits : Nat) (s : String) : Option Int := (parseInt s).bind fun v => if inRangeI bits v then some v else none
def parseU (bits : Nat) (s : String) : Option Nat := (parseNat s).bind fun v => if inRangeU bits v then some v else none

def parseBool (s : String) : Option Bool := if s = "0" then some false else if s = "1" then some true else none

/-- 16 hex digits → the 64-bit pattern, big-endian as written -/
def parseBits (s : String) : Option Nat :=
  if s.length ≠ 16 then none else
  (ofHexStr s).map fun bs => bs.foldl (fun n b => n * 256 + b.toNat) 0

def parseList {α} (f : String → Option α) (s : String) : Option (List α) :=
  if s = "" then some [] else (s.splitOn ".").mapM f

def parseValue (tok : String) : Option Value :=
  match tok.splitOn ":" with
  | [tag, p] =>
    match tag with
    | "b" => (parseBool p).map .bool
    | "i" => (parseI 32 p).map .i32
    | "l" => (parseI 64 p).map .i64
    | "u" => (parseU 32 p).map .u32
    | "U" => (parseU 64 p).map .u64
    | "d" => (parseBits p).map .f64
    | "c" => (ofHexStr p).map .cstr
    | "s" => (ofHexStr p).map .str
    | "B" => (parseList parseBool p).map .bools
    | "I" => (parseList (parseI 32) p).map .i32s
    | "L" => (parseList (parseI 64) p).map .i64s
    | "V" => (parseList (parseU 32) p).map .u32s
    | "W" => (parseList (parseU 64) p).map .u64s
    | "D" => (parseList parseBits p).map .f64s
    | "S" => (parseList ofHexStr p).map .strs
    | "Y" => (ofHexStr p).map .bytes
    | _ => none
  | _ => none

def parseKV (tok : String) : Option (Bytes × Value) :=
  match tok.splitOn "=" with
  | [k, v] => do
    let k ← ofHexStr k
    let v ← parseValue v
    pure (k, v)
  | _ => none

def parseAttrs (tok : String) : Option (List (Bytes × Value)) :=
  if tok = "-" then some [] else (tok.splitOn ",").mapM parseKV

def showBits (n : Nat) : String :=
  toHexStr ((List.range 8).reverse.map fun i => UInt8.ofNat ((n >>> (8 * i)) % 256))

def dots {α} (f : α → String) (l : List α) : String := ".".intercalate (l.map f)

def showOwnedPayload : Owned → String
  | .bool b => "b:" ++ bool01 b
  | .i32 v => "i:" ++ toString v
  | .u32 v => "u:" ++ toString v
  | .i64 v => "l:" ++ toString v
  | .f64 b => "d:" ++ showBits b
  | .str s => "s:" ++ hexArg s
  | .bools l => "B:" ++ dots bool01 l
  | .i32s l => "I:" ++ dots toString l
  | .u32s l => "V:" ++ dots toString l
  | .i64s l => "L:" ++ dots toString l
  | .f64s l => "D:" ++ dots showBits l
  | .strs l => "S:" ++ dots hexArg l
  | .u64 v => "U:" ++ toString v
  | .u64s l => "W:" ++ dots toString l
  | .bytes l => "Y:" ++ hexArg l

/-- `<variant index>:<tag>:<payload>` -/
def showOwned (o : Owned) : String := toString o.index ++ ":" ++ showOwnedPayload o

/-- unsigned lexicographic order on byte strings (`std::string::compare`) -/
def bytesLe : Bytes → Bytes → Bool
  | [], _ => true
  | _ :: _, [] => false
  | a :: s, b :: t => if a < b then true else if b < a then false else bytesLe s t

/-- attributes sorted by key: `[k=v,k=v]` -/
def showMap (m : Map) : String :=
  let sorted := m.mergeSort fun a b => bytesLe a.1 b.1
  "[" ++ ",".intercalate (sorted.map fun kv => hexArg kv.1 ++ "=" ++ showOwned kv.2) ++ "]"

end Driver
