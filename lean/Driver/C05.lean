import Driver.Util
import Driver.C12
import OtelVerif.Model.Tracer
namespace Driver
open Otel Otel.Sampler Otel.Tracer

/-- big-endian encoding in `n` bytes -/
def beBytes (n : Nat) (v : Nat) : Bytes := (List.range n).reverse.map fun i => UInt8.ofNat ((v / 256 ^ i) % 256)

/-- span-context literal `<tid>.<sid>.<flags>.<remote>.<entries>` -/
def scLit (s : String) : Option SpanContext :=
  match s.splitOn "." with
  | [tid, sid, fl, rem, ts] => do
    let tid ← ofHexStr tid
    let sid ← ofHexStr sid
    let fl ← ofHexStr fl
    let ts ← entriesArg ts
    match fl, rem with
    | [f], "0" => if tid.length = 16 ∧ sid.length = 8 then some ⟨tid, sid, f, false, ts⟩ else none
    | [f], "1" => if tid.length = 16 ∧ sid.length = 8 then some ⟨tid, sid, f, true, ts⟩ else none
    | _, _ => none
  | _ => none

def showEntriesPlain (es : TraceStateEntries) : String :=
  if es.isEmpty then "-" else ",".intercalate (es.map fun e => hexArg e.1 ++ ":" ++ hexArg e.2)

def showSc (c : SpanContext) : String :=
  s!"{hexArg c.traceId}.{hexArg c.spanId}.{hexArg [c.flags]}.{bool01 c.remote}.{showEntriesPlain c.traceState}"

def stripPrefix? (p s : String) : Option String :=
  if s.startsWith p then some ((s.drop p.length).toString) else none

def spanRefArg (s : String) : Option SpanRef :=
  if s = "keep" then some .keep
  else match stripPrefix? "of" s with
    | some k => k.toNat?.map .ofSpan
    | none => match stripPrefix? "lit" s with
      | some l => (scLit l).map .lit
      | none => none

/-- `def` | `sc:<lit>` | `scof:<k>` | `ctx:<e|c>:<n|0|1>:<keep|of<k>|lit<lit>>` -/
def parentSpecArg (s : String) : Option ParentSpec :=
  if s = "def" then some .default
  else match stripPrefix? "sc:" s with
    | some l => (scLit l).map .lit
    | none => match stripPrefix? "scof:" s with
      | some k => k.toNat?.map .ofSpan
      | none => match stripPrefix? "ctx:" s with
        | some rest =>
          match rest.splitOn ":" with
          | base :: root :: sp => do
            let fc ← (if base = "c" then some true else if base = "e" then some false else none)
            let r ← (if root = "n" then some none else if root = "0" then some (some false) else if root = "1" then some (some true) else none)
            let sr ← spanRefArg (":".intercalate sp)
            pure (.ctx fc r sr)
          | _ => none
        | none => none

def nameBytes (s : String) : Bytes := s.toUTF8.toList

/-- the `byname` sampler of the harness: the span name `<dec>=<null|entries>` is the answer; anything else → (2, null) -/
def byNameResult (name : Bytes) : Result :=
  let s := String.ofList (name.map fun b => Char.ofNat b.toNat)
  match s.splitOn "=" with
  | [d, ts] =>
    match decisionOfCode d, (if ts = "null" then some none else (entriesArg ts).map some) with
    | some d, some ts => ⟨d, ts⟩
    | _, _ => ⟨.recordAndSample, none⟩
  | _ => ⟨.recordAndSample, none⟩

def tracerSamplerArg (s : String) : Option Sampler.Sampler :=
  let rec go : List String → Option Sampler.Sampler
    | ["byname"] => some (.custom fun a => byNameResult a.name)
    | "pb" :: rest => (go rest).map .parentBased
    | _ => none
  match go (s.splitOn "/") with
  | some x => some x
  | none => samplerArg s

/-- an operation of a case: one of the model's `Op`s, or `startx` = `StartSpan` on the disabled tracer -/
inductive C05Op where
  | op (o : Op)
  | startx (t : Nat) (p : ParentSpec)

def c05step (cfg : Config) (w : World) : C05Op → Option (World × Obs)
  | .op o => step cfg w o
  | .startx t p => startDisabled w t p

def opArg (nthreads : Nat) : List String → Option C05Op
  | ["start", t, p, name] => do
    let t ← t.toNat?
    let p ← parentSpecArg p
    if t < nthreads then pure (.op (.start t p ⟨nameBytes name, 0, [], []⟩)) else none
  | ["startx", t, p, _name] => do
    let t ← t.toNat?
    let p ← parentSpecArg p
    if t < nthreads then pure (.startx t p) else none
  | ["scope", t, k] => do
    let t ← t.toNat?
    let k ← k.toNat?
    if t < nthreads then pure (.op (.withActive t k)) else none
  | ["endscope", t] => do
    let t ← t.toNat?
    if t < nthreads then pure (.op (.endScope t)) else none
  | ["end", k] => k.toNat?.map fun k => .op (.endSpan k)
  | _ => none

def showObs : Obs → String
  | .started s => s!"s={showSc s.ctx} rec={bool01 s.recording}"
  | .active sc => s!"act={hexArg sc.spanId}"
  | .exported _ => "exp"
  | .notExported => "noexp"

/-- identity of an exported span as the exporter sees it -/
def showExported (w : World) (k : Nat) : String :=
  match w.spans[k]? with
  | some s => s!"exp={hexArg s.ctx.traceId}.{hexArg s.ctx.spanId}.{hexArg s.parentSpanId}.{hexArg [s.ctx.flags]}.{showEntriesPlain s.ctx.traceState}"
  | none => "exp=?"

def handleTr (toks : List String) : String :=
  match splitOps toks with
  | [spec, rnd, sbase, tbase, nthreads] :: ops =>
    match tracerSamplerArg spec, hexNat sbase, hexNat tbase, nthreads.toNat? with
    | some smp, some sb, some tb, some nt =>
      if (rnd ≠ "0" ∧ rnd ≠ "1") ∨ nt = 0 ∨ nt > 8 then "bad-op" else
      let cfg : Config := ⟨smp, rnd = "1", fun n => beBytes 8 (sb + n), fun n => beBytes 16 (tb + n)⟩
      match allSome (ops.map (opArg nt)) with
      | none => "bad-op"
      | some ops =>
        -- run, showing each observation against the world it was made in
        let rec go (w : World) : List C05Op → List String → Option (World × List String)
          | [], acc => some (w, acc.reverse)
          | op :: rest, acc =>
            match c05step cfg w op with
            | none => none
            | some (w', o) =>
              let txt := match o with
                | .exported k => showExported w' k
                | o => showObs o
              go w' rest (txt :: acc)
        match go World.init ops [] with
        | none => "bad-op"
        | some (w, outs) =>
          -- teardown: every span not yet ended is ended in index order
          let rest := (List.range w.spans.length).filter fun k => !w.ended.contains k
          let fin := rest.filter fun k => (w.spans[k]?.map (·.recording)).getD false
          let finTxt := if fin.isEmpty then "-" else ",".intercalate (fin.map toString)
          " ; ".intercalate (outs ++ [s!"final={finTxt}"])
    | _, _, _, _ => "bad-op"
  | _ => "bad-op"

/-- `rid <nthreads> <k> <fork>`: sampling of the real random id generator.  The theorems take "the generator returns
    non-zero, pairwise distinct ids" (`GoodGen`) as a hypothesis; what that hypothesis predicts for any sample is: no
    duplicate, no zero id, no clash between parent and child after a fork. -/
def handleRid : List String → String
  | [nt, k, f] =>
    match nt.toNat?, k.toNat? with
    | some nt, some k => if nt = 0 ∨ nt > 8 ∨ k = 0 ∨ k > 64 ∨ (f ≠ "0" ∧ f ≠ "1") then "bad-op" else "dups=0 zero=0 forkclash=0"
    | _, _ => "bad-op"
  | _ => "bad-op"

def C05.handlers : List (String × (List String → String)) := [("tr", handleTr), ("rid", handleRid)]

end Driver
