import Driver.Util
import OtelVerif.Model.Metrics.Meter
namespace Driver
open Otel Otel.Temporal Otel.C06

namespace C06

def kindOf : String → Option Kind
  | "cl" => some ⟨true, false⟩
  | "cd" => some ⟨true, true⟩
  | "ul" => some ⟨false, false⟩
  | "ud" => some ⟨false, true⟩
  | _ => none

def kindCode (k : Kind) : String := (if k.mono then "c" else "u") ++ (if k.dbl then "d" else "l")

def tempOf : String → Option Temporality
  | "D" => some .delta
  | "C" => some .cumulative
  | _ => none

def tsStr (t : Nat) : String := if t = 0 then "sdk" else s!"#{t}"

def insertBy {α : Type} (lt : α → α → Bool) (x : α) : List α → List α
  | [] => [x]
  | y :: t => if lt x y then x :: y :: t else y :: insertBy lt x t

def sortBy {α : Type} (lt : α → α → Bool) (l : List α) : List α := l.foldl (fun acc x => insertBy lt x acc) []

def showPoints (m : DMap) : String :=
  "{" ++ ",".intercalate ((sortBy (fun (a b : Nat × Int) => a.1 < b.1) m).map fun p => s!"{p.1}={p.2}") ++ "}"

def showMD (label : String) (md : MetricData) : String :=
  s!"{label} {if md.temporality = .delta then "D" else "C"} {tsStr md.startTs} {tsStr md.endTs} {showPoints md.points}"

def label (k : StreamKey) : String := s!"{k.name}.{kindCode k.kind}.{k.view}"

def parseViews (s : String) : Option (List (Nat × Bool)) :=
  if s = "-" then some [] else
  (s.splitOn ",").mapM fun v =>
    match v.splitOn ":" with
    | [n, "c"] => n.toNat?.map (·, true)
    | [n, "u"] => n.toNat?.map (·, false)
    | _ => none

def parseCfg : List String → Option MCfg
  | ["cfg", rs, vs] => do
    let temps ← (rs.splitOn ",").mapM tempOf
    let views ← parseViews vs
    if temps.length = 0 ∨ temps.length > 4 ∨ views.length > 4 then none else
    if views.any (fun v => v.1 ≥ 8) then none else
    pure ⟨temps, views⟩
  | _ => none

def valueOk (k : Kind) (v : Int) : Bool := if k.dbl then v.natAbs ≤ 1048576 else v.natAbs ≤ 1099511627776

/-- one op: new state and its observation, `none` = malformed -/
def stepOp (mc : MCfg) (m : Meter) : List String → Option (Meter × String)
  | ["create", n, k] => do
    let n ← n.toNat?
    let k ← kindOf k
    if n ≥ 8 then none else
    let m' := mcreate mc m n k
    pure (m', s!"h{m.handles.length}")
  | ["add", h, a, v] => do
    let h ← h.toNat?
    let a ← a.toNat?
    let v ← v.toInt?
    let hk ← m.handles[h]?
    if a ≥ 16 ∨ !valueOk hk.1 v then none else
    pure (madd m h a v, "ok")
  | ["collect", r] => do
    let r ← r.toNat?
    if r ≥ mc.temps.length then none else
    let res := mcollect mc m r
    let mds := m.keys.filterMap fun k => (res.2 k).map fun md => showMD (label k) md
    pure (res.1, "[" ++ " | ".intercalate (sortBy (fun (a b : String) => a < b) mds) ++ "]")
  | ["race", h, t, n, r, k] => do
    -- the real-thread run of the harness; by `sched_conservation` / `sched_no_lost_update` its schedule-independent
    -- summary is what the sequential run "collect r ; all the adds ; collect r" yields
    let h ← h.toNat?
    let t ← t.toNat?
    let n ← n.toNat?
    let r ← r.toNat?
    let k ← k.toNat?
    let _ ← m.handles[h]?
    if t < 1 ∨ t > 4 ∨ n > 5000 ∨ r ≥ mc.temps.length ∨ k < 1 ∨ k > 64 then none else
    let isDelta := mc.cfg.temp r = .delta
    let c1 := mcollect mc m r
    let m1 := (List.range t).foldl (fun m th => (List.range n).foldl (fun m _ => madd m h (th % 3 + 1) 1) m) c1.1
    let m2 := madd m1 h 1 1
    let m3 := { m2 with collects := m2.collects + (k - 1) }
    let c2 := mcollect mc m3 r
    let parts := m3.keys.filterMap fun key =>
      match c1.2 key, c2.2 key with
      | none, none => none
      | o1, o2 =>
        let p1 := (o1.map (·.points)).getD []
        let p2 := (o2.map (·.points)).getD []
        let pts := if isDelta then Otel.Temporal.mergeInto p1 p2 else (if o2.isSome then p2 else p1)
        some (label key ++ " " ++ showPoints pts)
    pure (c2.1, "race [" ++ " | ".intercalate (sortBy (fun (a b : String) => a < b) parts) ++ "]")
  | _ => none

def run (mc : MCfg) : Meter → List (List String) → List String → Option (List String)
  | _, [], acc => some acc.reverse
  | m, op :: ops, acc =>
    match stepOp mc m op with
    | none => none
    | some (m', o) => run mc m' ops (o :: acc)

def handle (toks : List String) : String :=
  match splitOps toks with
  | cfgOp :: ops =>
    match parseCfg cfgOp with
    | none => "bad-op"
    | some mc =>
      match run mc Meter.init ops ["ok"] with
      | none => "bad-op"
      | some outs => " ; ".intercalate outs
  | [] => "bad-op"

def handlers : List (String × (List String → String)) := [("met", handle)]

end C06
end Driver
