import Driver.Util
import OtelVerif.Model.Metrics.Meter
namespace Driver
open Otel Otel.Temporal Otel.C06

namespace C06

def kindOf : String → Option Kind
  | "cl" => some ⟨true, false⟩
  | "cd" => some ⟨true, true⟩
  | "ul" => some ⟨false, false⟩
  | "ud" => some ⟨false, true⟩
  | _ => none

def kindCode (k : Kind) : String := (if k.mono then "c" else "u") ++ (if k.dbl then "d" else "l")

def tempOf : String → Option Temporality
  | "D" => some .delta
  | "C" => some .cumulative
  | _ => none

def tsStr (t : Nat) : String := if t = 0 then "sdk" else s!"#{t}"

def insertBy {α : Type} (lt : α → α → Bool) (x : α) : List α → List α
  | [] => [x]
  | y :: t => if lt x y then x :: y :: t else y :: insertBy lt x t

def sortBy {α : Type} (lt : α → α → Bool) (l : List α) : List α := l.foldl (fun acc x => insertBy lt x acc) []

def showPoints (m : DMap) : String :=
  "{" ++ ",".intercalate ((sortBy (fun (a b : Nat × Int) => a.1 < b.1) m).map fun p => s!"{p.1}={p.2}") ++ "}"

def showMD (label : String) (md : MetricData) : String :=
  s!"{label} {if md.temporality = .delta then "D" else "C"} {tsStr md.startTs} {tsStr md.endTs} {showPoints md.points}"

def label (k : StreamKey) : String := s!"{k.name}.{kindCode k.kind}.{k.view}"

def parseViews (s : String) : Option (List (Nat × Bool)) :=
  if s = "-" then some [] else
  (s.splitOn ",").mapM fun v =>
    match v.splitOn ":" with
    | [n, "c"] => n.toNat?.map (·, true)
    | [n, "u"] => n.toNat?.map (·, false)
    | _ => none

/-- a reader of the case line: `D` / `C` (one temporality for every instrument type), `P` (delta for Counter, cumulative
    for UpDownCounter) / `Q` (the other way round): a temporality selector by instrument type; an optional `~m`: the reader
    was added together with a `MetricFilter` (mode m = 0..2) -/
structure RSpec where
  mode : Char
  flt : Option Nat

def rspecOf (s : String) : Option RSpec :=
  match s.toList with
  | [c] => if c = 'D' ∨ c = 'C' ∨ c = 'P' ∨ c = 'Q' then some ⟨c, none⟩ else none
  | [c, '~', d] =>
    if (c = 'D' ∨ c = 'C' ∨ c = 'P' ∨ c = 'Q') ∧ (d = '0' ∨ d = '1' ∨ d = '2') then some ⟨c, some (d.toNat - 48)⟩ else none
  | _ => none

/-- `GetAggregationTemporality(instrument type)` of the reader -/
def RSpec.temp (r : RSpec) (mono : Bool) : Temporality :=
  if r.mode = 'D' then .delta else if r.mode = 'C' then .cumulative
  else if r.mode = 'P' then (if mono then .delta else .cumulative)
  else (if mono then .cumulative else .delta)

/-- the configuration of the case: the storages of one instrument type see the readers' temporalities for that type, so the
    model is instantiated once per instrument type (`mcM` for Counter streams, `mcU` for UpDownCounter streams) -/
structure DCfg where
  readers : List RSpec
  views : List (Nat × Bool)

def DCfg.mc (c : DCfg) (mono : Bool) : MCfg := ⟨c.readers.map (·.temp mono), c.views⟩
def DCfg.split (c : DCfg) : Bool := c.readers.any fun r => r.mode = 'P' || r.mode = 'Q'

def parseCfg : List String → Option DCfg
  | ["cfg", rs, vs] => do
    let readers ← (rs.splitOn ",").mapM rspecOf
    let views ← parseViews vs
    if readers.length = 0 ∨ readers.length > 4 ∨ views.length > 4 then none else
    if views.any (fun v => v.1 ≥ 8) then none else
    pure ⟨readers, views⟩
  | _ => none

/-- last digit of the exported stream name: `v<g>` for the j-th matching view (g its position among all views), `i<name>`
    for the default view -/
def streamDigit (c : DCfg) (k : StreamKey) : Nat :=
  let idx := (List.range c.views.length).filter fun g =>
    match c.views[g]? with
    | some v => v.1 == k.name && v.2 == k.kind.mono
    | none => false
  match idx[k.view]? with
  | some g => g % 10
  | none => k.name % 10

/-- `MetricCollector::Produce` with a `MetricFilter`: applied to what `Meter::Collect` returned (the storages have
    already moved on): accept / drop the stream / keep the accepted attribute sets and drop the stream when none is left -/
def applyFilter (c : DCfg) (r : Nat) (k : StreamKey) (o : Option MetricData) : Option MetricData :=
  match (c.readers[r]?).bind (·.flt), o with
  | some m, some md =>
    let x := (streamDigit c k + m) % 3
    if x = 0 then some md
    else if x = 1 then none
    else
      let pts := md.points.filter fun p => (p.1 + m) % 2 == 0
      if pts.isEmpty then none else some { md with points := pts }
  | _, o => o

def valueOk (k : Kind) (v : Int) : Bool := if k.dbl then v.natAbs ≤ 1048576 else v.natAbs ≤ 1099511627776

/-- the two instances of the model (Counter streams / UpDownCounter streams); they are the same when no reader selects its
    temporality by instrument type -/
abbrev MM := Meter × Meter

def pick (mm : MM) (mono : Bool) : Meter := if mono then mm.1 else mm.2
def both (c : DCfg) (mm : MM) (f : MCfg → Meter → Meter) : MM :=
  let a := f (c.mc true) mm.1
  (a, if c.split then f (c.mc false) mm.2 else a)

/-- collection by reader r on both instances; the output for a stream is taken from the instance of its instrument type -/
def collectBoth (c : DCfg) (mm : MM) (r : Nat) : MM × (StreamKey → Option MetricData) :=
  let ra := mcollect (c.mc true) mm.1 r
  let rb := if c.split then mcollect (c.mc false) mm.2 r else ra
  ((ra.1, rb.1), fun k => applyFilter c r k (if k.kind.mono then ra.2 k else rb.2 k))

/-- the provider's two meters: "m" (the views select it) and "n" (no view matches: `cfgN`), each with its instance pair; a handle
    of the case is (on meter n?, index among that meter's handles).  Every collection collects both meters with the same stamp. -/
structure St where
  a : MM
  b : MM
  hs : List (Bool × Nat)

def cfgN (c : DCfg) : DCfg := { c with views := [] }

def St.addTo (c : DCfg) (st : St) (h a : Nat) (v : Int) : St :=
  match st.hs[h]? with
  | some (false, l) => { st with a := both c st.a (fun _ m => madd m l a v) }
  | some (true, l) => { st with b := both (cfgN c) st.b (fun _ m => madd m l a v) }
  | none => st

def St.kindOfHandle (st : St) (h : Nat) : Option Kind :=
  match st.hs[h]? with
  | some (false, l) => (st.a.1.handles[l]?).map (·.1)
  | some (true, l) => (st.b.1.handles[l]?).map (·.1)
  | none => none

/-- collection by reader r: (new state, outputs per labelled stream) -/
def St.collect (c : DCfg) (st : St) (r : Nat) : St × List (String × Bool × MetricData) :=
  let ra := collectBoth c st.a r
  let rb := collectBoth (cfgN c) st.b r
  let outA := st.a.1.keys.filterMap fun k => (ra.2 k).map fun md => (label k, k.kind.mono, md)
  let outB := st.b.1.keys.filterMap fun k => (rb.2 k).map fun md => ("n:" ++ label k, k.kind.mono, md)
  ({ st with a := ra.1, b := rb.1 }, outA ++ outB)

/-- one op: new state and its observation, `none` = malformed -/
def stepOp (c : DCfg) (st : St) : List String → Option (St × String)
  | ["create", n, k] => do
    let n ← n.toNat?
    let k ← kindOf k
    if n ≥ 8 then none else
    pure ({ st with a := both c st.a (fun mc m => mcreate mc m n k), hs := st.hs ++ [(false, st.a.1.handles.length)] }, s!"h{st.hs.length}")
  | ["create", n, k, "n"] => do
    let n ← n.toNat?
    let k ← kindOf k
    if n ≥ 8 then none else
    pure ({ st with b := both (cfgN c) st.b (fun mc m => mcreate mc m n k), hs := st.hs ++ [(true, st.b.1.handles.length)] }, s!"h{st.hs.length}")
  | ["add", h, a, v] => do
    let h ← h.toNat?
    let a ← a.toNat?
    let v ← v.toInt?
    let hk ← st.kindOfHandle h
    if a ≥ 16 ∨ !valueOk hk v then none else
    pure (st.addTo c h a v, "ok")
  | ["collect", r] => do
    let r ← r.toNat?
    if r ≥ c.readers.length then none else
    let res := st.collect c r
    let mds := res.2.map fun o => showMD o.1 o.2.2
    pure (res.1, "[" ++ " | ".intercalate (sortBy (fun (a b : String) => a < b) mds) ++ "]")
  -- `MeterProvider::ForceFlush` / `Shutdown`: the readers are told; no measurement is consumed and collections go on
  | ["flush"] => pure (st, "ok")
  | ["shutdown"] => pure (st, "ok")
  | ["race", h, t, n, r, k] => do
    -- the real-thread run of the harness; by `sched_conservation` / `sched_no_lost_update` its schedule-independent
    -- summary is what the sequential run "collect r ; all the adds ; collect r" yields
    let h ← h.toNat?
    let t ← t.toNat?
    let n ← n.toNat?
    let r ← r.toNat?
    let k ← k.toNat?
    let _ ← st.kindOfHandle h
    if t < 1 ∨ t > 4 ∨ n > 5000 ∨ r ≥ c.readers.length ∨ k < 1 ∨ k > 64 then none else
    let rs := c.readers.getD r ⟨'C', none⟩
    let c1 := st.collect c r
    let s1 := (List.range t).foldl (fun st th => (List.range n).foldl (fun st _ => st.addTo c h (th % 3 + 1) 1) st) c1.1
    let s2 := s1.addTo c h 1 1
    let bump : MCfg → Meter → Meter := fun _ m => { m with collects := m.collects + (k - 1) }
    let s3 := { s2 with a := both c s2.a bump, b := both (cfgN c) s2.b bump }
    let c2 := s3.collect c r
    let labels := (s3.a.1.keys.map fun key => (label key, key.kind.mono)) ++ (s3.b.1.keys.map fun key => ("n:" ++ label key, key.kind.mono))
    let parts := labels.filterMap fun lk =>
      let o1 := (c1.2.find? (·.1 == lk.1)).map (·.2.2)
      let o2 := (c2.2.find? (·.1 == lk.1)).map (·.2.2)
      match o1, o2 with
      | none, none => none
      | o1, o2 =>
        let p1 := (o1.map (·.points)).getD []
        let p2 := (o2.map (·.points)).getD []
        let pts := if rs.temp lk.2 = .delta then Otel.Temporal.mergeInto p1 p2 else (if o2.isSome then p2 else p1)
        some (lk.1 ++ " " ++ showPoints pts)
    pure (c2.1, "race [" ++ " | ".intercalate (sortBy (fun (a b : String) => a < b) parts) ++ "]")
  | _ => none

def run (c : DCfg) : St → List (List String) → List String → Option (List String)
  | _, [], acc => some acc.reverse
  | m, op :: ops, acc =>
    match stepOp c m op with
    | none => none
    | some (m', o) => run c m' ops (o :: acc)

def handle (toks : List String) : String :=
  match splitOps toks with
  | cfgOp :: ops =>
    match parseCfg cfgOp with
    | none => "bad-op"
    | some mc =>
      match run mc ⟨(Meter.init, Meter.init), (Meter.init, Meter.init), []⟩ ops ["ok"] with
      | none => "bad-op"
      | some outs => " ; ".intercalate outs
  | [] => "bad-op"

def handlers : List (String × (List String → String)) := [("met", handle)]

end C06
end Driver
