import OtelVerif.Model.Basic
namespace Driver
open Otel

def showEntries (es : List (Bytes × Bytes)) : String :=
  "[" ++ ",".intercalate (es.map fun e => hexArg e.1 ++ ":" ++ hexArg e.2) ++ "]"

def splitOps (toks : List String) : List (List String) :=
  let rec go : List String → List String → List (List String) → List (List String)
    | [], cur, acc => (cur.reverse :: acc).reverse
    | t :: ts, cur, acc => if t = ";" then go ts [] (cur.reverse :: acc) else go ts (t :: cur) acc
  go toks [] []

def bool01 (b : Bool) : String := if b then "1" else "0"

end Driver
