import Driver.Util
import OtelVerif.Model.Histogram
import OtelVerif.Model.SeriesStore
import OtelVerif.Model.HistogramStore
namespace Driver
open Otel Otel.Hist Otel.Series

namespace C07

def parseHex64 (s : String) : Option Nat :=
  if s.length ≠ 16 then none else
  s.toList.foldlM (fun acc c => (hexDigitVal c).map (acc * 16 + ·)) 0

def parseVal (k : Kind) (s : String) : Option Rat :=
  match k with
  | .long => s.toInt?.bind fun i => if -(2 : Int) ^ 63 ≤ i ∧ i < (2 : Int) ^ 63 then some (i : Rat) else none
  | .double => (parseHex64 s).bind decodeDouble

def parseList (k : Kind) (s : String) : Option (List Rat) :=
  if s = "-" then some [] else (s.splitOn ",").mapM (parseVal k)

def parseKind : String → Option Kind
  | "l" => some .long
  | "d" => some .double
  | _ => none

/-- `def` (no config: `nullptr`) or `<record_min_max 0|1>:<boundaries as double bit patterns, or ->` -/
def parseCfg (s : String) : Option (Option Config) :=
  if s = "def" then some none else
  match s.splitOn ":" with
  | [mm, bs] => do
    let b ← parseList .double bs
    let m ← (if mm = "1" then some true else if mm = "0" then some false else none)
    pure (some { boundaries := b, recordMinMax := m })
  | _ => none

def commaList (xs : List String) : String := if xs.isEmpty then "-" else ",".intercalate xs

def showPoint (withSum : Bool) (p : Point) : String :=
  "b=" ++ commaList (p.boundaries.map showDy) ++ "|c=" ++ commaList (p.counts.map toString) ++ "|n=" ++ toString p.count
    ++ "|s=" ++ (if withSum then showDy p.sum else "?")
    ++ "|mn=" ++ (if p.recordMinMax then showDy p.min else "-")
    ++ "|mx=" ++ (if p.recordMinMax then showDy p.max else "-")

def parseSumFlag : String → Option Bool
  | "s1" => some true
  | "s0" => some false
  | _ => none

/-- `hist agg <l|d> <cfg> <L|R|N> <s0|s1> <group>/<group>/…` : every group is recorded into its own fresh aggregation,
    the aggregations are merged (L: left fold, R: right-nested, N: left fold starting from a fresh empty aggregation, as
    the temporal storage does) and the resulting point is printed. -/
def handleAgg : List String → String
  | [k, cfg, fold, sf, groups] =>
    match parseKind k, parseCfg cfg, parseSumFlag sf, (groups.splitOn "/").mapM (fun g => (parseKind k).bind (parseList · g)) with
    | some k, some cfg, some sf, some gs =>
      -- integer instruments go through the code-level `Aggregate(int64_t)` (`BucketBoundaryLessThan`); `parseVal` only
      -- lets `int64_t` integers through, on which `histLongC_eq` shows it is `hist .long`
      let ps := gs.map fun g => if k = .long then histLongC cfg (g.map (·.num)) else hist k cfg g
      match fold, ps with
      | "L", p :: rest => showPoint sf (mergeL k p rest)
      | "R", p :: rest => showPoint sf (mergeR k p rest)
      | "N", ps => showPoint sf (mergeL k (new k cfg) ps)
      | _, _ => "bad-op"
    | _, _, _, _ => "bad-op"
  | _ => "bad-op"

def parseTemps (s : String) : Option (List Temporality) :=
  s.toList.mapM fun c => if c = 'D' then some Temporality.delta else if c = 'C' then some Temporality.cumulative else none

/-- attribute set of a measurement in the `sdk` cases: `-` = none (key 0), `0`..`9` = `{k: <i>}` (key i+1) -/
def parseAttr (s : String) : Option Nat :=
  if s = "-" then some 0 else s.toNat?.bind fun n => if n < 10 then some (n + 1) else none

def showAttr (k : Nat) : String := if k = 0 then "-" else toString (k - 1)

def insertSorted (e : Nat × Point) : List (Nat × Point) → List (Nat × Point)
  | [] => [e]
  | x :: xs => if e.1 ≤ x.1 then e :: x :: xs else x :: insertSorted e xs

def showOut (sf : Bool) : Option (List (Nat × Point)) → String
  | none => "none"
  | some [] => "empty"
  | some es => " ".intercalate ((es.foldr insertSorted []).map fun e => "[" ++ showAttr e.1 ++ "]" ++ showPoint sf e.2)

def parseOps (k : Kind) (nReaders : Nat) : List (List String) → Option (List (Op Nat Rat))
  | [] => some []
  | ["rec", a, v] :: rest => do
    let a ← parseAttr a
    let v ← parseVal k v
    let r ← parseOps k nReaders rest
    -- LongHistogram::Record takes uint64_t; DoubleHistogram::Record drops `value < 0` (sync_instruments.cc)
    if instrumentRecords v then pure (Op.record a v :: r) else (if k = .long then none else pure r)
  | ["col", i] :: rest => do
    let i ← i.toNat?
    if i < nReaders then (parseOps k nReaders rest).map (Op.collect i :: ·) else none
  | _ => none

/-- `hist sdk <l|d> <cfg> <readers D/C…> <s0|s1> rec <attr> <v> ; col <reader> ; …` -/
def handleSdk : List String → String
  | k :: cfg :: temps :: sf :: ops =>
    match parseKind k, parseCfg cfg, parseTemps temps, parseSumFlag sf with
    | some k, some cfg, some temps, some sf =>
      if temps.isEmpty then "bad-op" else
      match parseOps k temps.length (splitOps ops) with
      | some ops =>
        -- the overflow key is never used here (at most 11 attribute sets, default limit)
        let c : Cfg Nat Point Rat :=
          { ag := histAgg k cfg, ovf := 1000000, limit := 2000, temps := temps, iter := id }
        let outs := (Store.run c (Store.init c) ops).2
        if outs.isEmpty then "-" else " ; ".intercalate (outs.map fun o => showOut sf o.2)
      | none => "bad-op"
    | _, _, _, _ => "bad-op"
  | _ => "bad-op"

def handle : List String → String
  | "agg" :: rest => handleAgg rest
  | "sdk" :: rest => handleSdk rest
  | _ => "bad-op"

def handlers : List (String × (List String → String)) := [("hist", handle)]

end C07
end Driver
