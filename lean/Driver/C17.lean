import Driver.Util
import Driver.C06
import OtelVerif.Model.Metrics.Async
namespace Driver
open Otel Otel.Temporal Otel.C06 Otel.C17

namespace C17

def okindOf : String → Option OKind
  | "oc" => some .counter
  | "ou" => some .updown
  | "og" => some .gauge
  | "sg" => some .syncGauge
  | _ => none

/-- a kind token with the suffix `d` is the double flavour of the instrument (same model: a value is the measurement in
    units of 2^-10); `(kind, double?)` -/
def okindFlavour (s : String) : Option (OKind × Bool) :=
  match okindOf s with
  | some k => some (k, false)
  | none => if s.length = 3 ∧ s.endsWith "d" then (okindOf (s.take 2).toString).map (·, true) else none

def okindCode : OKind → String
  | .counter => "oc"
  | .updown => "ou"
  | .gauge => "og"
  | .syncGauge => "sg"

def showL (m : LMap) : String :=
  "{" ++ ",".intercalate ((C06.sortBy (fun (a b : Nat × Sample) => a.1 < b.1) m).map fun p => s!"{p.1}={p.2.v}") ++ "}"

def showOut (label : String) : Out → String
  | .sum md => C06.showMD label md
  | .lv md => s!"{label} {if md.temporality = .delta then "D" else "C"} {C06.tsStr md.startTs} {C06.tsStr md.endTs} {showL md.points}"

def parseObs (s : String) : Option (List (Nat × Int)) :=
  if s = "-" then some [] else
  (s.splitOn ",").mapM fun kv =>
    match kv.splitOn ":" with
    | [a, v] => do
      let a ← a.toNat?
      let v ← v.toInt?
      if a ≥ 16 ∨ v.natAbs > 1099511627776 then none else pure (a, v)
    | _ => none

/-- `<cb>=<a>:<v>,...` tokens -/
def parseScript : List String → Option (List (Nat × List (Nat × Int)))
  | [] => some []
  | t :: ts =>
    match t.splitOn "=" with
    | [cb, obs] => do
      let cb ← cb.toNat?
      let obs ← parseObs obs
      let rest ← parseScript ts
      if cb ≥ 8 ∨ rest.any (·.1 == cb) then none else pure ((cb, obs) :: rest)
    | _ => none

/-- `dead`: instruments whose handle was released (`destroy`): nothing can be done through a released handle -/
def stepOp (c : Cfg) (m : AMeter) (dead : List Nat) (dbls : List Bool) : List String → Option (AMeter × String)
  | ["create", k] => do
    let k ← okindFlavour k
    pure (amstep c m (.create k.1), s!"i{m.kinds.length}")
  | ["addcb", i, cb] => do
    let i ← i.toNat?
    let cb ← cb.toNat?
    let k ← m.kinds[i]?
    if k = .syncGauge ∨ cb ≥ 8 ∨ dead.contains i then none else pure (amstep c m (.addcb i cb), "ok")
  | ["rmcb", i, cb] => do
    let i ← i.toNat?
    let cb ← cb.toNat?
    let k ← m.kinds[i]?
    if k = .syncGauge ∨ cb ≥ 8 ∨ dead.contains i then none else pure (amstep c m (.rmcb i cb), "ok")
  | ["destroy", i] => do
    let i ← i.toNat?
    let k ← m.kinds[i]?
    if k = .syncGauge then none else pure (amstep c m (.destroy i), "ok")
  | ["grec", i, a, v] => do
    let i ← i.toNat?
    let a ← a.toNat?
    let v ← v.toInt?
    let k ← m.kinds[i]?
    if k ≠ .syncGauge ∨ a ≥ 16 ∨ v.natAbs > 1099511627776 then none else pure (amstep c m (.grec i a v), "ok")
  | "collect" :: r :: script => do
    let r ← r.toNat?
    let sc ← parseScript script
    if r ≥ c.n then none else
    let res := amcollect c m r (fun cb => (sc.lookup cb).getD [])
    let outs := (List.range m.kinds.length).filterMap fun i =>
      (res.2.2 i).map fun o => showOut s!"{i}.{okindCode (m.kinds.getD i .counter)}{if dbls.getD i false then "d" else ""}" o
    pure (res.1, "calls=[" ++ ",".intercalate (res.2.1.map toString) ++ "] [" ++
      " | ".intercalate (C06.sortBy (fun (a b : String) => a < b) outs) ++ "]")
  | _ => none

def run (c : Cfg) : AMeter → List Nat → List Bool → List (List String) → List String → Option (List String)
  | _, _, _, [], acc => some acc.reverse
  | m, dead, dbls, op :: ops, acc =>
    match stepOp c m dead dbls op with
    | none => none
    | some (m', o) =>
      let dead' := match op with
        | ["destroy", i] => (i.toNat?.getD 0) :: dead
        | _ => dead
      let dbls' := match op with
        | ["create", k] => dbls ++ [((okindFlavour k).map (·.2)).getD false]
        | _ => dbls
      run c m' dead' dbls' ops (o :: acc)

def handle (toks : List String) : String :=
  match splitOps toks with
  | ["cfg", rs] :: ops =>
    match (rs.splitOn ",").mapM C06.tempOf with
    | none => "bad-op"
    | some temps =>
      if temps.length = 0 ∨ temps.length > 4 then "bad-op" else
      match run ⟨temps⟩ AMeter.init [] [] ops ["ok"] with
      | none => "bad-op"
      | some outs => " ; ".intercalate outs
  | _ => "bad-op"

def handlers : List (String × (List String → String)) := [("obs", handle)]

end C17
end Driver
