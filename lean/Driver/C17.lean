import Driver.Util
import Driver.C06
import OtelVerif.Model.Metrics.Async
namespace Driver
open Otel Otel.Temporal Otel.C06 Otel.C17

namespace C17

def okindOf : String → Option OKind
  | "oc" => some .counter
  | "ou" => some .updown
  | "og" => some .gauge
  | "sg" => some .syncGauge
  | _ => none

/-- a kind token with the suffix `d` is the double flavour of the instrument (same model: a value is the measurement in
    units of 2^-10); `(kind, double?)` -/
def okindFlavour (s : String) : Option (OKind × Bool) :=
  match okindOf s with
  | some k => some (k, false)
  | none => if s.length = 3 ∧ s.endsWith "d" then (okindOf (s.take 2).toString).map (·, true) else none

def okindCode : OKind → String
  | .counter => "oc"
  | .updown => "ou"
  | .gauge => "og"
  | .syncGauge => "sg"

def showL (m : LMap) : String :=
  "{" ++ ",".intercalate ((C06.sortBy (fun (a b : Nat × Sample) => a.1 < b.1) m).map fun p => s!"{p.1}={p.2.v}") ++ "}"

def showOut (label : String) : Out → String
  | .sum md => C06.showMD label md
  | .lv md => s!"{label} {if md.temporality = .delta then "D" else "C"} {C06.tsStr md.startTs} {C06.tsStr md.endTs} {showL md.points}"

def parseObs (s : String) : Option (List (Nat × Int)) :=
  if s = "-" then some [] else
  (s.splitOn ",").mapM fun kv =>
    match kv.splitOn ":" with
    | [a, v] => do
      let a ← a.toNat?
      let v ← v.toInt?
      if a ≥ 16 ∨ v.natAbs > 1099511627776 then none else pure (a, v)
    | _ => none

/-- `<cb>=<a>:<v>,...` tokens -/
def parseScript : List String → Option (List (Nat × List (Nat × Int)))
  | [] => some []
  | t :: ts =>
    match t.splitOn "=" with
    | [cb, obs] => do
      let cb ← cb.toNat?
      let obs ← parseObs obs
      let rest ← parseScript ts
      if cb ≥ 8 ∨ rest.any (·.1 == cb) then none else pure ((cb, obs) :: rest)
    | _ => none

/-- the handles of the case: handle h stands for model instrument `inst h` (a `create` makes a new one, a `dup` is a further
    handle for the instrument of an existing handle: same name, type and value type, hence - `Meter::RegisterAsyncMetricStorage` -
    the same storage); `dbl h`: the double flavour; `dead`: handles that were released.  A callback registration is identified in
    the code by (callback, state, instrument *handle*): registration `cb` through handle `h` is the model's callback `8 h + cb`
    on instrument `inst h`. -/
structure Handles where
  inst : List Nat
  dbl : List Bool
  dead : List Nat

def Handles.first (hs : Handles) (i : Nat) : Nat := (hs.inst.findIdx? (· == i)).getD 0
def Handles.live (hs : Handles) (i : Nat) : List Nat :=
  (List.range hs.inst.length).filter fun h => hs.inst.getD h 0 == i && !hs.dead.contains h

def stepOp (c : Cfg) (m : AMeter) (hs : Handles) : List String → Option (AMeter × Handles × String)
  | ["create", k] => do
    let k ← okindFlavour k
    pure (amstep c m (.create k.1), { hs with inst := hs.inst ++ [m.kinds.length], dbl := hs.dbl ++ [k.2] }, s!"i{hs.inst.length}")
  | ["dup", h] => do
    let h ← h.toNat?
    let i ← hs.inst[h]?
    let k ← m.kinds[i]?
    if k = .syncGauge ∨ hs.dead.contains h then none else
    pure (m, { hs with inst := hs.inst ++ [i], dbl := hs.dbl ++ [hs.dbl.getD h false] }, s!"i{hs.inst.length}")
  | ["addcb", h, cb] => do
    let h ← h.toNat?
    let cb ← cb.toNat?
    let i ← hs.inst[h]?
    let k ← m.kinds[i]?
    if k = .syncGauge ∨ cb ≥ 8 ∨ hs.dead.contains h then none else pure (amstep c m (.addcb i (8 * h + cb)), hs, "ok")
  | ["rmcb", h, cb] => do
    let h ← h.toNat?
    let cb ← cb.toNat?
    let i ← hs.inst[h]?
    let k ← m.kinds[i]?
    if k = .syncGauge ∨ cb ≥ 8 ∨ hs.dead.contains h then none else pure (amstep c m (.rmcb i (8 * h + cb)), hs, "ok")
  | ["destroy", h] => do
    let h ← h.toNat?
    let i ← hs.inst[h]?
    let k ← m.kinds[i]?
    if k = .syncGauge then none else
    -- the last live handle of the instrument: `CleanupCallback` erases every record of the instrument; otherwise the records
    -- registered through this handle go, those of the other handles stay
    let m' := if (hs.live i).all (· == h) then amstep c m (.destroy i)
              else (List.range 8).foldl (fun m cb => amstep c m (.rmcb i (8 * h + cb))) m
    pure (m', { hs with dead := h :: hs.dead }, "ok")
  | ["grec", h, a, v] => do
    let h ← h.toNat?
    let a ← a.toNat?
    let v ← v.toInt?
    let i ← hs.inst[h]?
    let k ← m.kinds[i]?
    if k ≠ .syncGauge ∨ a ≥ 16 ∨ v.natAbs > 1099511627776 then none else pure (amstep c m (.grec i a v), hs, "ok")
  | "collect" :: r :: script => do
    let r ← r.toNat?
    let sc ← parseScript script
    if r ≥ c.n then none else
    let res := amcollect c m r (fun cb => (sc.lookup (cb % 8)).getD [])
    let outs := (List.range m.kinds.length).filterMap fun i =>
      let h := hs.first i
      (res.2.2 i).map fun o => showOut s!"{h}.{okindCode (m.kinds.getD i .counter)}{if hs.dbl.getD h false then "d" else ""}" o
    pure (res.1, hs, "calls=[" ++ ",".intercalate (res.2.1.map fun cb => toString (cb % 8)) ++ "] [" ++
      " | ".intercalate (C06.sortBy (fun (a b : String) => a < b) outs) ++ "]")
  | _ => none

def run (c : Cfg) : AMeter → Handles → List (List String) → List String → Option (List String)
  | _, _, [], acc => some acc.reverse
  | m, hs, op :: ops, acc =>
    match stepOp c m hs op with
    | none => none
    | some (m', hs', o) => run c m' hs' ops (o :: acc)

def handle (toks : List String) : String :=
  match splitOps toks with
  | ["cfg", rs] :: ops =>
    match (rs.splitOn ",").mapM C06.tempOf with
    | none => "bad-op"
    | some temps =>
      if temps.length = 0 ∨ temps.length > 4 then "bad-op" else
      match run ⟨temps⟩ AMeter.init ⟨[], [], []⟩ ops ["ok"] with
      | none => "bad-op"
      | some outs => " ; ".intercalate outs
  | _ => "bad-op"

def handlers : List (String × (List String → String)) := [("obs", handle)]

end C17
end Driver
