import Driver.Util
import Driver.C09
import OtelVerif.Model.Propagator
namespace Driver
open Otel Otel.Propagation

def c15ShowFault : IxFault → String
  | .oob => "FAULT oob"
  | .ub => "FAULT ub"
  | .fuel => "FAULT fuel"

def c15Pairs : List String → Option (List (Bytes × Bytes))
  | [] => some []
  | k :: v :: t => match ofHexStr k, ofHexStr v, c15Pairs t with
    | some k, some v, some r => some ((k, v) :: r)
    | _, _, _ => none
  | [_] => none

/-- `std::string::operator<`: byte-wise (unsigned) lexicographic order -/
def c15BytesLt : Bytes → Bytes → Bool
  | [], [] => false
  | [], _ :: _ => true
  | _ :: _, [] => false
  | a :: s, b :: t => a < b || (a == b && c15BytesLt s t)

def c15Ascending : List Bytes → Bool
  | a :: b :: t => c15BytesLt a b && c15Ascending (b :: t)
  | _ => true

/-- `bg <op> ; <op> ; …` over a growing family of baggages (state 0 = the empty baggage).
    ops: `from <hdr>` | `set <i> <k> <v>` | `del <i> <k>` | `get <i> <k>` | `hdr <i>` | `rt <i>` | `enc <s>` | `dec <s>` |
    `mk <v|s|l|d|m> <k> <v> …` (the container constructor) | `new <n>` | `dflt` | `all <i> <stop>` -/
def c15BgOp (states : Array Baggage.Entries) : List String → Array Baggage.Entries × String
  | ["from", h] => match ofHexStr h with
    | some h => match Baggage.fromHeader h with
      | .ok e => (states.push e, showEntries e)
      | .fault f => (states.push [], c15ShowFault f)
    | none => (states, "bad-op")
  | ["set", i, k, v] => match i.toNat?, ofHexStr k, ofHexStr v with
    | some i, some k, some v => match states[i]? with
      | some s => let e := Baggage.set s k v; (states.push e, showEntries e)
      | none => (states, "bad-op")
    | _, _, _ => (states, "bad-op")
  | ["del", i, k] => match i.toNat?, ofHexStr k with
    | some i, some k => match states[i]? with
      | some s => let e := Baggage.delete s k; (states.push e, showEntries e)
      | none => (states, "bad-op")
    | _, _ => (states, "bad-op")
  | ["get", i, k] => match i.toNat?, ofHexStr k with
    | some i, some k => match states[i]? with
      | some s => (states, match Baggage.get s k with | none => "none" | some v => "v=" ++ hexArg v)
      | none => (states, "bad-op")
    | _, _ => (states, "bad-op")
  | ["hdr", i] => match i.toNat? with
    | some i => match states[i]? with
      | some s => (states, "h=" ++ hexArg (Baggage.toHeader s))
      | none => (states, "bad-op")
    | none => (states, "bad-op")
  | ["rt", i] => match i.toNat? with
    | some i => match states[i]? with
      | some s => match Baggage.fromHeader (Baggage.toHeader s) with
        | .ok e => (states.push e, showEntries e)
        | .fault f => (states.push [], c15ShowFault f)
      | none => (states, "bad-op")
    | none => (states, "bad-op")
  | ["enc", s] => match ofHexStr s with
    | some s => (states, "e=" ++ hexArg (Baggage.urlEncode s))
    | none => (states, "bad-op")
  | ["dec", s] => match ofHexStr s with
    | some s => (states, match Baggage.urlDecode s with
      | .ok none => "err"
      | .ok (some d) => "d=" ++ hexArg d
      | .fault f => c15ShowFault f)
    | none => (states, "bad-op")
  | ["new", n] =>
    if n.length ≤ 4 ∧ n.all Char.isDigit ∧ n ≠ "" then (states.push [], showEntries []) else (states, "bad-op")
  | ["dflt"] => (states.push [], showEntries [])
  | ["all", i, n] => match i.toNat?, (if n.length ≤ 4 ∧ n.all Char.isDigit then n.toNat? else none) with
    | some i, some n => match states[i]? with
      | some s => let r := Baggage.visit s n; (states, "seen=" ++ showEntries r.1 ++ " ret=" ++ bool01 r.2)
      | none => (states, "bad-op")
    | _, _ => (states, "bad-op")
  | "mk" :: variant :: kvs =>
    match c15Pairs kvs with
    | some ps =>
      if variant = "v" ∨ variant = "s" ∨ variant = "l" ∨ variant = "d" ∨ (variant = "m" ∧ c15Ascending (ps.map (·.1))) then
        let e := Baggage.ofPairs ps; (states.push e, showEntries e)
      else (states, "bad-op")
    | none => (states, "bad-op")
  | _ => (states, "bad-op")

def handleBg (toks : List String) : String :=
  let ops := splitOps toks
  let (_, outs) := ops.foldl (fun (st, outs) op => let (st', o) := c15BgOp st op; (st', o :: outs)) (#[[]], [])
  " ; ".intercalate outs.reverse

def c15PropByName : String → Option (Propagator RCtx Carrier)
  | "w3c" => some w3c
  | "b3s" => some b3Single
  | "b3m" => some b3Multi
  | "jg" => some jaeger
  | "bag" => some Propagation.baggage
  | "noop" => some Propagation.noop
  | _ => none

def c15FieldsByName : String → Option (List Bytes)
  | "w3c" => some w3cFields
  | "b3s" => some b3SingleFields
  | "b3m" => some b3MultiFields
  | "jg" => some jaegerFields
  | "bag" => some baggageFields
  | "noop" => some []
  | _ => none

def c15ShowFields (r : FieldsCb × Bool) : String :=
  "f=[" ++ ",".intercalate (r.1.seen.map hexArg) ++ "] ret=" ++ bool01 r.2

/-- the parts asked by hand, in order, until one of them reports false -/
def c15FieldsByHand : List (List Bytes) → FieldsCb → FieldsCb × Bool
  | [], cb => (cb, true)
  | p :: t, cb => match fieldsOf p cb with
    | (cb', true) => c15FieldsByHand t cb'
    | (cb', false) => (cb', false)

def c15ParsePlist (s : String) : Option (List (Propagator RCtx Carrier)) :=
  if s = "-" ∨ s = "@" then some [] else (s.splitOn ",").mapM c15PropByName

def c15KnownNames : List Bytes :=
  [Gen.baggageHeader, Gen.b3CombinedHeader, traceparentName, tracestateName, Gen.jaegerHeader,
   Gen.b3TraceIdHeader, Gen.b3SpanIdHeader, Gen.b3SampledHeader]

def c15ShowCarrier (c : Carrier) : String :=
  let known := c15KnownNames.filterMap fun n => (c.find? (·.1 == n)).map fun e => toHexStr n ++ ":" ++ hexArg e.2
  let extra := c.filter fun e => !c15KnownNames.contains e.1
  "[" ++ ",".intercalate known ++ "]" ++ (if extra.isEmpty then "" else s!" extra={extra.length}")

def c15MkPCtx (tid sid fl ts bag : String) : Option (IxRes PCtx) :=
  match ofHexStr ts, ofHexStr bag with
  | some ts, some bag =>
    let span? : Option (Option TraceContext.SpanCtx) :=
      if tid = "-" then some none else
      match ofHexStr tid, ofHexStr sid, ofHexStr fl with
      | some tid, some sid, some [f] =>
        if tid.length ≠ 16 ∨ sid.length ≠ 8 then none
        else some (some { traceId := tid, spanId := sid, flags := f, remote := false, traceState := TraceState.fromHeader ts })
      | _, _, _ => none
    match span? with
    | none => none
    | some span =>
      if bag.isEmpty then some (.ok { span := span, baggage := none })
      else some ((Baggage.fromHeader bag).bind fun es => .ok { span := span, baggage := some es })
  | _, _ => none

def c15ShowRCtx (input : RCtx) (r : RCtx) : String :=
  match r with
  | .fault f => c15ShowFault f
  | .ok ctx =>
    let same := match input with
      | .ok i => decide (i = ctx)
      | .fault _ => false
    s!"span=<{showCtx ctx.span}> bag={match ctx.baggage with | none => "none" | some es => showEntries es} same={bool01 same}"

/-- `comp inject|rt <plist> <tid|-> <sid> <flags> <tracestate> <baggage header>` /
    `comp extract <plist> <traceparent> <tracestate> <b3> <X-B3-TraceId> <X-B3-SpanId> <X-B3-Sampled> <uber-trace-id> <baggage>` -/
def handleComp : List String → String
  | [op, pl, tid, sid, fl, ts, bag] =>
    if op ≠ "inject" ∧ op ≠ "rt" then "bad-op" else
    match c15ParsePlist pl, c15MkPCtx tid sid fl ts bag with
    | some ps, some ctx =>
      let comp := composite emptyCtx ps
      let car := comp.inject [] ctx
      if op = "inject" then c15ShowCarrier car ++ " parts=" ++ c15ShowCarrier (ps.foldl (fun c p => p.inject c ctx) [])
      else c15ShowRCtx emptyCtx (comp.extract car emptyCtx) ++ " parts=" ++
        c15ShowRCtx emptyCtx (ps.foldl (fun c p => p.extract car c) emptyCtx)
    | _, _ => "bad-op"
  | ["extract", pl, tp, ts, b3, xt, xs, xf, ub, bg] =>
    match c15ParsePlist pl, [tp, ts, b3, xt, xs, xf, ub, bg].mapM ofHexStr with
    | some ps, some [tpv, tsv, b3v, xtv, xsv, xfv, ubv, bgv] =>
      let names := [traceparentName, tracestateName, Gen.b3CombinedHeader, Gen.b3TraceIdHeader, Gen.b3SpanIdHeader,
        Gen.b3SampledHeader, Gen.jaegerHeader, Gen.baggageHeader]
      let car : Carrier := (names.zip [tpv, tsv, b3v, xtv, xsv, xfv, ubv, bgv]).filter fun e => !e.2.isEmpty
      c15ShowRCtx emptyCtx ((composite emptyCtx ps).extract car emptyCtx) ++ " parts=" ++
        c15ShowRCtx emptyCtx (ps.foldl (fun c p => p.extract car c) emptyCtx)
    | _, _ => "bad-op"
  | ["fields", pl, n] =>
    match (if pl = "-" ∨ pl = "@" then some [] else (pl.splitOn ",").mapM c15FieldsByName),
          (if n.length ≤ 3 ∧ n.all Char.isDigit then n.toNat? else none) with
    | some parts, some stop =>
      let cb : FieldsCb := { seen := [], calls := 0, stopAt := stop }
      c15ShowFields (compositeFields parts cb) ++ " parts=" ++ c15ShowFields (c15FieldsByHand parts cb)
    | _, _ => "bad-op"
  | _ => "bad-op"

def C15.handlers : List (String × (List String → String)) := [("bg", handleBg), ("comp", handleComp)]

end Driver
