import Driver.Util
import Driver.C09
import OtelVerif.Model.Propagator
namespace Driver
open Otel Otel.Propagation

def c15ShowFault : IxFault → String
  | .oob => "FAULT oob"
  | .ub => "FAULT ub"
  | .fuel => "FAULT fuel"

/-- `bg <op> ; <op> ; …` over a growing family of baggages (state 0 = the empty baggage).
    ops: `from <hdr>` | `set <i> <k> <v>` | `del <i> <k>` | `get <i> <k>` | `hdr <i>` | `rt <i>` | `enc <s>` | `dec <s>` -/
def c15BgOp (states : Array Baggage.Entries) : List String → Array Baggage.Entries × String
  | ["from", h] => match ofHexStr h with
    | some h => match Baggage.fromHeader h with
      | .ok e => (states.push e, showEntries e)
      | .fault f => (states.push [], c15ShowFault f)
    | none => (states, "bad-op")
  | ["set", i, k, v] => match i.toNat?, ofHexStr k, ofHexStr v with
    | some i, some k, some v => match states[i]? with
      | some s => let e := Baggage.set s k v; (states.push e, showEntries e)
      | none => (states, "bad-op")
    | _, _, _ => (states, "bad-op")
  | ["del", i, k] => match i.toNat?, ofHexStr k with
    | some i, some k => match states[i]? with
      | some s => let e := Baggage.delete s k; (states.push e, showEntries e)
      | none => (states, "bad-op")
    | _, _ => (states, "bad-op")
  | ["get", i, k] => match i.toNat?, ofHexStr k with
    | some i, some k => match states[i]? with
      | some s => (states, match Baggage.get s k with | none => "none" | some v => "v=" ++ hexArg v)
      | none => (states, "bad-op")
    | _, _ => (states, "bad-op")
  | ["hdr", i] => match i.toNat? with
    | some i => match states[i]? with
      | some s => (states, "h=" ++ hexArg (Baggage.toHeader s))
      | none => (states, "bad-op")
    | none => (states, "bad-op")
  | ["rt", i] => match i.toNat? with
    | some i => match states[i]? with
      | some s => match Baggage.fromHeader (Baggage.toHeader s) with
        | .ok e => (states.push e, showEntries e)
        | .fault f => (states.push [], c15ShowFault f)
      | none => (states, "bad-op")
    | none => (states, "bad-op")
  | ["enc", s] => match ofHexStr s with
    | some s => (states, "e=" ++ hexArg (Baggage.urlEncode s))
    | none => (states, "bad-op")
  | ["dec", s] => match ofHexStr s with
    | some s => (states, match Baggage.urlDecode s with
      | .ok none => "err"
      | .ok (some d) => "d=" ++ hexArg d
      | .fault f => c15ShowFault f)
    | none => (states, "bad-op")
  | _ => (states, "bad-op")

def handleBg (toks : List String) : String :=
  let ops := splitOps toks
  let (_, outs) := ops.foldl (fun (st, outs) op => let (st', o) := c15BgOp st op; (st', o :: outs)) (#[[]], [])
  " ; ".intercalate outs.reverse

def c15PropByName : String → Option (Propagator RCtx Carrier)
  | "w3c" => some w3c
  | "b3s" => some b3Single
  | "b3m" => some b3Multi
  | "jg" => some jaeger
  | "bag" => some Propagation.baggage
  | _ => none

def c15ParsePlist (s : String) : Option (List (Propagator RCtx Carrier)) :=
  if s = "-" then some [] else (s.splitOn ",").mapM c15PropByName

def c15KnownNames : List Bytes :=
  [Gen.baggageHeader, Gen.b3CombinedHeader, traceparentName, tracestateName, Gen.jaegerHeader,
   Gen.b3TraceIdHeader, Gen.b3SpanIdHeader, Gen.b3SampledHeader]

def c15ShowCarrier (c : Carrier) : String :=
  let known := c15KnownNames.filterMap fun n => (c.find? (·.1 == n)).map fun e => toHexStr n ++ ":" ++ hexArg e.2
  let extra := c.filter fun e => !c15KnownNames.contains e.1
  "[" ++ ",".intercalate known ++ "]" ++ (if extra.isEmpty then "" else s!" extra={extra.length}")

def c15MkPCtx (tid sid fl ts bag : String) : Option (IxRes PCtx) :=
  match ofHexStr ts, ofHexStr bag with
  | some ts, some bag =>
    let span? : Option (Option TraceContext.SpanCtx) :=
      if tid = "-" then some none else
      match ofHexStr tid, ofHexStr sid, ofHexStr fl with
      | some tid, some sid, some [f] =>
        if tid.length ≠ 16 ∨ sid.length ≠ 8 then none
        else some (some { traceId := tid, spanId := sid, flags := f, remote := false, traceState := TraceState.fromHeader ts })
      | _, _, _ => none
    match span? with
    | none => none
    | some span =>
      if bag.isEmpty then some (.ok { span := span, baggage := none })
      else some ((Baggage.fromHeader bag).bind fun es => .ok { span := span, baggage := some es })
  | _, _ => none

def c15ShowRCtx (input : RCtx) (r : RCtx) : String :=
  match r with
  | .fault f => c15ShowFault f
  | .ok ctx =>
    let same := match input with
      | .ok i => decide (i = ctx)
      | .fault _ => false
    s!"span=<{showCtx ctx.span}> bag={match ctx.baggage with | none => "none" | some es => showEntries es} same={bool01 same}"

/-- `comp inject|rt <plist> <tid|-> <sid> <flags> <tracestate> <baggage header>` /
    `comp extract <plist> <traceparent> <tracestate> <b3> <X-B3-TraceId> <X-B3-SpanId> <X-B3-Sampled> <uber-trace-id> <baggage>` -/
def handleComp : List String → String
  | [op, pl, tid, sid, fl, ts, bag] =>
    if op ≠ "inject" ∧ op ≠ "rt" then "bad-op" else
    match c15ParsePlist pl, c15MkPCtx tid sid fl ts bag with
    | some ps, some ctx =>
      let comp := composite emptyCtx ps
      let car := comp.inject [] ctx
      if op = "inject" then c15ShowCarrier car ++ " parts=" ++ c15ShowCarrier (ps.foldl (fun c p => p.inject c ctx) [])
      else c15ShowRCtx emptyCtx (comp.extract car emptyCtx) ++ " parts=" ++
        c15ShowRCtx emptyCtx (ps.foldl (fun c p => p.extract car c) emptyCtx)
    | _, _ => "bad-op"
  | ["extract", pl, tp, ts, b3, xt, xs, xf, ub, bg] =>
    match c15ParsePlist pl, [tp, ts, b3, xt, xs, xf, ub, bg].mapM ofHexStr with
    | some ps, some [tpv, tsv, b3v, xtv, xsv, xfv, ubv, bgv] =>
      let names := [traceparentName, tracestateName, Gen.b3CombinedHeader, Gen.b3TraceIdHeader, Gen.b3SpanIdHeader,
        Gen.b3SampledHeader, Gen.jaegerHeader, Gen.baggageHeader]
      let car : Carrier := (names.zip [tpv, tsv, b3v, xtv, xsv, xfv, ubv, bgv]).filter fun e => !e.2.isEmpty
      c15ShowRCtx emptyCtx ((composite emptyCtx ps).extract car emptyCtx) ++ " parts=" ++
        c15ShowRCtx emptyCtx (ps.foldl (fun c p => p.extract car c) emptyCtx)
    | _, _ => "bad-op"
  | _ => "bad-op"

def C15.handlers : List (String × (List String → String)) := [("bg", handleBg), ("comp", handleComp)]

end Driver
