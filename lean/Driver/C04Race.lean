import Driver.Util
import OtelVerif.Model.SpanLock
/-! `spnrace ; <event> ; <event> …`: the events of one real execution of the unmodified `span.cc` under the deterministic
    scheduler (abstracted by `props/c04_race.py`), replayed on the lock-protocol model `Model/SpanLock.lean`.  The model must
    accept every step the implementation took and agree on every value shown (which setter reached the recordable, how
    many entries it held at `OnEnd`, what `IsRecording` returned); the summary is compared with the implementation's. -/
namespace Driver
open Otel Otel.SpanLock

def parseMut : List String → Option Mut
  | ["set", k, v] => match k.toNat?, v.toNat? with
    | some k, some v => some (.attr k v)
    | _, _ => none
  | ["ev", i] => i.toNat?.map .event
  | ["st", c, i] => match c.toNat?, i.toNat? with
    | some c, some i => some (.status c i)
    | _, _ => none
  | ["nm", i] => i.toNat?.map .name
  | ["lk", i] => i.toNat?.map .link
  | ["dur"] => some .dur
  | _ => none

def parseSpanEv (tok : String) : Option SpanLock.Ev :=
  match tok.splitOn ":" with
  | t :: rest =>
    match t.toNat? with
    | none => none
    | some t =>
      match rest with
      | ["call", "end"] => some ⟨t, .call .endSpan⟩
      | ["call", "isrec"] => some ⟨t, .call .isRec⟩
      | "call" :: m => (parseMut m).map fun m => ⟨t, .call (.mutate m)⟩
      | ["lock"] => some ⟨t, .lock⟩
      | ["unlock"] => some ⟨t, .unlock⟩
      | "rec" :: m => (parseMut m).map fun m => ⟨t, .rcd m⟩
      | ["onend", n] => n.toNat?.map fun n => ⟨t, .onend n⟩
      | ["ret"] => some ⟨t, .ret none⟩
      | ["ret", "0"] => some ⟨t, .ret (some false)⟩
      | ["ret", "1"] => some ⟨t, .ret (some true)⟩
      | _ => none
  | [] => none

def showMut : Mut → String
  | .attr k v => s!"set:{k}:{v}"
  | .event i => s!"ev:{i}"
  | .status c i => s!"st:{c}:{i}"
  | .name i => s!"nm:{i}"
  | .link i => s!"lk:{i}"
  | .dur => "dur"

def showMuts (l : List Mut) : String := "[" ++ ",".intercalate (l.map showMut) ++ "]"

def showHeld : Option (List Mut) → String
  | none => "null"
  | some l => showMuts l

def handleSpanRace (toks : List String) : String :=
  match splitOps toks with
  | [] :: evs =>
    let rec go (s : SpanLock.St) (k : Nat) : List (List String) → String
      | [] =>
        let held := if s.onEnds.isEmpty then "none" else "|".intercalate (s.onEnds.reverse.map showHeld)
        s!"ok onend={s.onEnds.length} held={held} log={showMuts s.log} acq={showMuts s.acq} rec={bool01 s.rcd.isSome} ended={bool01 s.hasEnded} returned={bool01 s.endReturned} nullderefs={s.nullDerefs}"
      | [tok] :: rest =>
        match parseSpanEv tok with
        | none => "bad-op"
        | some e => match SpanLock.astep s e with
          | some s' => go s' (k + 1) rest
          | none => s!"MISMATCH at {k} {tok} pc={reprStr (s.pc e.t)} lock={reprStr s.lock} rec={bool01 s.rcd.isSome} ended={bool01 s.hasEnded}"
      | _ => "bad-op"
    go SpanLock.init 0 evs
  | _ => "bad-op"

def C04Race.handlers : List (String × (List String → String)) := [("spnrace", handleSpanRace)]

end Driver
