import Driver.Util
import OtelVerif.Model.Context
namespace Driver
open Otel Otel.Context

namespace C10

def hexDigit (n : Nat) : Char := if n < 10 then Char.ofNat (48 + n) else Char.ofNat (87 + n)

def hex16 (n : Nat) : String :=
  String.ofList ((List.range 16).reverse.map fun i => hexDigit ((n >>> (4 * i)) % 16))

def parseHexNat (s : String) : Option Nat :=
  s.toList.foldl (fun acc c => do let a ← acc; let d ← hexDigitVal c; pure (a * 16 + d)) (some 0)

def showVal : Val → String
  | .none => "n"
  | .bool b => "b:" ++ bool01 b
  | .i64 n => s!"i:{n}"
  | .u64 n => s!"u:{n}"
  | .dbl b => "d:" ++ hex16 b
  | .span i => s!"sp:{i}"
  | .spanCtx i => s!"sc:{i}"
  | .baggage i => s!"bg:{i}"

/-- canonical decimal only (what the harness accepts): no sign for naturals, no leading zeros -/
def natTok (s : String) : Option Nat :=
  match s.toNat? with
  | some n => if toString n = s then some n else none
  | none => none

def intTok (s : String) : Option Int :=
  match s.toInt? with
  | some n => if toString n = s then some n else none
  | none => none

def parseVal (s : String) : Option Val :=
  match s.splitOn ":" with
  | ["n"] => some .none
  | ["b", "0"] => some (.bool false)
  | ["b", "1"] => some (.bool true)
  | ["i", x] => (intTok x).map .i64
  | ["u", x] => (natTok x).map .u64
  | ["d", x] => if x.length = 16 then (parseHexNat x).map .dbl else none
  | ["sp", x] => (natTok x).map .span
  | ["sc", x] => (natTok x).map .spanCtx
  | ["bg", x] => (natTok x).map .baggage
  | _ => none

/-- key token: hex, `-` = empty, `~` = default-constructed (null, 0) string_view -/
def parseKey (s : String) : Option Bytes := if s = "~" then some [] else ofHexStr s

def parseKvs (s : String) : Option (List (Bytes × Val)) :=
  if s = "{}" then some [] else
  (s.splitOn ",").mapM fun e =>
    match e.splitOn "=" with
    | [k, v] => do
      let k ← parseKey k
      let v ← parseVal v
      pure (k, v)
    | _ => none

def parseOp : List String → Option Op
  | ["set", t, p, k, v] => do pure (.set (← natTok t) (← natTok p) (← parseKey k) (← parseVal v))
  | ["setm", t, p, kvs] => do pure (.setm (← natTok t) (← natTok p) (← parseKvs kvs))
  | ["mk", t, kvs] => do pure (.mk (← natTok t) (← parseKvs kvs))
  | ["mk1", t, k, v] => do pure (.mk1 (← natTok t) (← parseKey k) (← parseVal v))
  | ["get", t, p, k] => do pure (.get (← natTok t) (← natTok p) (← parseKey k))
  | ["rset", t, k, v] => do pure (.rset (← natTok t) (← parseKey k) (← parseVal v) none)
  | ["rset", t, k, v, p] => do pure (.rset (← natTok t) (← parseKey k) (← parseVal v) (some (← natTok p)))
  | ["rget", t, k] => do pure (.rget (← natTok t) (← parseKey k) none)
  | ["rget", t, k, p] => do pure (.rget (← natTok t) (← parseKey k) (some (← natTok p)))
  | ["attach", t, p] => do pure (.attach (← natTok t) (← natTok p))
  | ["detach", t, m] => do pure (.detach (← natTok t) (← natTok m))
  | ["drop", t, m] => do pure (.drop (← natTok t) (← natTok m))
  | ["cur", t] => do pure (.cur (← natTok t))
  | ["span", t] => do pure (.span (← natTok t))
  | ["scope", t, i] => do pure (.scope (← natTok t) (← natTok i))
  | ["close", t, j] => do pure (.close (← natTok t) (← natTok j))
  | ["dump", t] => do pure (.dump (← natTok t))
  | ["conc", t, r] => do pure (.conc (← natTok t) (← natTok r))
  | _ => none

/-- how an observation is spelled: the trace/context.h helpers `GetSpan(ctx)` / `IsRootSpan(ctx)` are reads of one key
    (`kSpanKey` / `kIsRootSpanKey`) spelled as the helper answers -/
inductive Render where
  | plain
  | getSpan
  | isRoot

def isRootKey : Bytes := "is_root_span".toUTF8.toList

/-- operations that are another spelling of a model operation (no model code of their own):
    `sspan t p i` = `trace::SetSpan(ctx[p], span[i])` = `ctx[p].SetValue(kSpanKey, span[i])`;
    `gspan t p` = `trace::GetSpan(ctx[p])`; `isroot t p` = `trace::IsRootSpan(ctx[p])`;
    `storage t k` = `RuntimeContext::SetRuntimeContextStorage(<another thread-local storage>)` followed by `GetCurrent()`:
    the stacks are what they were -/
def parseOpX (toks : List String) : Option (Op × Render) :=
  match toks with
  | ["sspan", t, p, i] => do pure (.set (← natTok t) (← natTok p) Gen.ctxSpanKey (.span (← natTok i)), .plain)
  | ["gspan", t, p] => do pure (.get (← natTok t) (← natTok p) Gen.ctxSpanKey, .getSpan)
  | ["isroot", t, p] => do pure (.get (← natTok t) (← natTok p) isRootKey, .isRoot)
  | ["storage", t, k] => do
    let k ← natTok k
    if k < 3 then pure (.cur (← natTok t), .plain) else none
  | _ => (parseOp toks).map fun o => (o, .plain)

def answers (pool : List Bytes) (c : Chain) : String :=
  "[" ++ ",".intercalate (pool.map fun k => showVal (lookup k c) ++ (if hasKey k c then "+" else "-")) ++ "]"

def showObs (pool : List Bytes) (st : Store) : Obs → String
  | .ctx id => s!"c{id}" ++ answers pool ((st.chain? id).getD [])
  | .value v h => showVal v ++ (if h then "+" else "-")
  | .token m => s!"k{m}"
  | .flag b => bool01 b
  | .ok => "ok"
  | .cur id => s!"cur=c{id}"
  | .span (some i) => s!"sp:{i}"
  | .span none => "invalid"
  | .scope j id => s!"s{j}=c{id}" ++ answers pool ((st.chain? id).getD [])
  | .stack s => "[" ++ ",".intercalate (s.map fun c => s!"c{c}") ++ "]"
  | .concOk => "conc=ok"

def showObsX (pool : List Bytes) (st : Store) (r : Render) (o : Obs) : String :=
  match r, o with
  | .getSpan, .value (.span i) _ => s!"sp:{i}"
  | .getSpan, .value _ _ => "invalid"
  | .isRoot, .value (.bool b) _ => "root=" ++ bool01 b
  | .isRoot, .value _ _ => "root=0"
  | _, o => showObs pool st o

/-- per-op line: observation, the executing thread's depth and top, how many earlier contexts exist
    (the harness re-queries each of them: `older_unaffected`), and any other thread whose (depth, top) moved -/
def runOps (pool : List Bytes) : State → List (List String) → List String → Option (List String)
  | _, [], acc => some acc.reverse
  | s, o :: os, acc =>
    match parseOpX o with
    | none => none
    | some (op, rd) =>
      match step s op with
      | none => none
      | some (s', ob) =>
        let t := op.thread
        let leaks := (List.range s.nthreads).filter fun u =>
          u ≠ t ∧ ((s'.stacks u).length ≠ (s.stacks u).length ∨ top (s'.stacks u) ≠ top (s.stacks u))
        let line := showObsX pool s'.store rd ob ++ s!" @{(s'.stacks t).length}:c{top (s'.stacks t)} chk={s.store.size}" ++
          String.join (leaks.map fun u => s!" LEAK:t{u}")
        runOps pool s' os (line :: acc)

def handle (toks : List String) : String :=
  match splitOps toks with
  | [n, keys] :: ops =>
    match natTok n, (keys.splitOn ",").mapM parseKey with
    | some n, some pool =>
      if n = 0 ∨ n > 3 then "bad-op" else
      match runOps pool (State.init n) ops [] with
      | some outs => " ; ".intercalate outs
      | none => "bad-op"
    | _, _ => "bad-op"
  | _ => "bad-op"

def handlers : List (String × (List String → String)) := [("ctx", handle)]

end C10
end Driver
