import Driver.Util
import OtelVerif.Model.Env
import OtelVerif.Model.Resource
namespace Driver
open Otel Otel.Env Otel.Resource

/-- an environment value token: `unset` or hex without NUL bytes -/
def envArg (t : String) : Option (Option Bytes) :=
  if t = "unset" then some none else
  match ofHexStr t with
  | some b => if b.contains 0 then none else some (some b)
  | none => none

def flag (t : String) : Option Bool := if t = "0" then some false else if t = "1" then some true else none

def handleEnv : List String → String
  | ["bool", v] => match envArg v with
    | some e => let r := getBool e; s!"r={bool01 r.ret} v={bool01 r.value}"
    | none => "bad-op"
  | ["uint", e, v] => match flag e, envArg v with
    | some e, some v => let r := getUint e v; s!"r={bool01 r.ret} v={r.value}"
    | _, _ => "bad-op"
  | ["dur", v] => match envArg v with
    | some v => match getDuration v with
      | .ok ns => s!"r=1 ns={ns}"
      | .invalid => "r=0 ns=keep"
      | .unset => "r=0 ns=0"
      | .ub => "UB"
    | none => "bad-op"
  | ["float", e, re, v, bits] => match flag e, flag re, envArg v with
    | some e, some re, some v =>
      if getFloatOk e re v then (if bits = "-" then "r=1 v=-" else "r=1 v=ok") else "r=0 v=0"
    | _, _, _ => "bad-op"
  | ["disabled", v] => match envArg v with
    | some v => let d := bool01 (setProvider v false true); s!"installed={d}{d}{d}"
    | none => "bad-op"
  | _ => "bad-op"

def valArg (t : String) : Option Val :=
  match t.toList with
  | 's' :: rest => (ofHexStr (String.ofList rest)).map Val.str
  | c :: _ :: _ => if c ∈ ['i', 'j', 'u', 'b', 'd'] then some (Val.other t) else none
  | _ => none

def attrsArg (t : String) : Option (List (Bytes × Val)) :=
  if t = "-" then some [] else
  (t.splitOn ",").mapM fun item =>
    match item.splitOn "=" with
    | [k, v] => do
      let k ← ofHexStr k
      let v ← valArg v
      pure (k, v)
    | _ => none

def lexLe : Bytes → Bytes → Bool
  | [], _ => true
  | _ :: _, [] => false
  | a :: s, b :: t => a < b || (a == b && lexLe s t)

def insertSorted (kv : Bytes × Val) : List (Bytes × Val) → List (Bytes × Val)
  | [] => [kv]
  | x :: rest => if lexLe kv.1 x.1 then kv :: x :: rest else x :: insertSorted kv rest

def showVal : Val → String
  | .str b => "s" ++ hexArg b
  | .other t => t

def showAttrs (m : Attrs) : String :=
  "{" ++ ",".intercalate ((m.foldr insertSorted []).map fun kv => hexArg kv.1 ++ "=" ++ showVal kv.2) ++ "}"

def showRes (r : Res) : String := s!"m={showAttrs r.attrs} s={hexArg r.schema}"

def handleRes : List String → String
  | ["merge", a, sa, b, sb] => match attrsArg a, ofHexStr sa, attrsArg b, ofHexStr sb with
    | some a, some sa, some b, some sb =>
      -- the store model: two `mk`, one `merge`; then print the merged resource and both operands as they are afterwards
      match run [] [.mk a sa, .mk b sb, .merge 0 1] with
      | [ra, rb, m] => s!"{showRes m} a={showAttrs ra.attrs} sa={hexArg ra.schema} b={showAttrs rb.attrs} sb={hexArg rb.schema}"
      | _ => "bad-op"
    | _, _, _, _ => "bad-op"
  | ["detect", e1, e2] => match envArg e1, envArg e2 with
    | some e1, some e2 => showRes (detect e1 e2)
    | _, _ => "bad-op"
  | ["create", e1, e2, a, s] => match envArg e1, envArg e2, attrsArg a, ofHexStr s with
    | some e1, some e2, some a, some s => showRes (create (detect e1 e2) ⟨ofList a, s⟩)
    | _, _, _, _ => "bad-op"
  | _ => "bad-op"

def C18.handlers : List (String × (List String → String)) := [("env", handleEnv), ("res", handleRes)]

end Driver
