import Driver.Util
import OtelVerif.Model.BatchRefine
namespace Driver
open Otel Otel.Batch

def parseEv (tok : String) : Option Ev :=
  match tok.splitOn ":" with
  | rl :: kind :: rest =>
    let role : Option Role :=
      if rl = "W" then some .W
      else match (rl.drop 1).toString.toNat? with
        | some i => if rl.startsWith "P" then some (.P i) else if rl.startsWith "F" then some (.F i) else if rl.startsWith "S" then some (.S i) else none
        | none => none
    match role, rest with
    | some r, [] => some { role := r, kind := kind }
    | some r, [a] =>
      if a = "ok" ∨ a = "1t" then some { role := r, kind := kind, b := true }
      else if a = "no" ∨ a = "0f" then some { role := r, kind := kind, b := false }
      else a.toNat?.map fun v => { role := r, kind := kind, v := v }
    | _, _ => none
  | _ => none

def showW (s : St) : String := reprStr s.wpc

/-- `batch <maxq> <maxb> ; <event> ; <event> …` — the events of one real execution (filtered by props/c01.py) -/
def handleBatch (toks : List String) : String :=
  match splitOps toks with
  | [mq, mb] :: evs =>
    match mq.toNat?, mb.toNat? with
    | some mq, some mb =>
      let rec go (s : St) (k : Nat) : List (List String) → String
        | [] =>
          let bs := s.batches.reverse.map toString
          s!"ok exported={s.exported} batches=[{",".intercalate bs}] head={s.head} tail={s.tail} pending={s.pending} notified={s.notified} isd={bool01 s.isShutdown} xsd={s.expShutdowns} late={s.lateCalls} inexp={s.inExport} begun={s.begun} dropped={s.dropped} wdone={bool01 (s.wpc == .done)}"
        | [tok] :: rest =>
          match parseEv tok with
          | none => "bad-op"
          | some e => match astep s e with
            | some s' => go s' (k + 1) rest
            | none => s!"MISMATCH at {k} {tok} wpc={showW s} head={s.head} tail={s.tail} pending={s.pending} notified={s.notified} isd={bool01 s.isShutdown}"
        | _ => "bad-op"
      go (Batch.init mq mb) 0 evs
    | _, _ => "bad-op"
  | _ => "bad-op"

def C01.handlers : List (String × (List String → String)) := [("batch", handleBatch)]

end Driver
