import Driver.Util
import Driver.C07
import OtelVerif.Model.AttrSet
import OtelVerif.Model.SeriesStore
namespace Driver
open Otel Otel.Attr Otel.Series

namespace C08

def hexOrDash (s : String) : Option Bytes := if s = "-" then some [] else if s = "" then none else ofHexStr s
def hexMaybeEmpty (s : String) : Option Bytes := if s = "" then some [] else if s = "-" then none else ofHexStr s

def intIn (lo hi : Int) (s : String) : Option Int := s.toInt?.bind fun i => if lo ≤ i ∧ i < hi then some i else none
def natBelow (hi : Nat) (s : String) : Option Nat :=
  if s.startsWith "-" || s.startsWith "+" then none else s.toNat?.bind fun n => if n < hi then some n else none

def parseArr {α : Type} (f : String → Option α) (s : String) : Option (List α) :=
  if s = "" then some [] else (s.splitOn "+").mapM f

def parseDouble (s : String) : Option Rat := (C07.parseHex64 s).bind Hist.decodeDouble

def parseBools (s : String) : Option (List Bool) :=
  s.toList.mapM fun c => if c = '1' then some true else if c = '0' then some false else none

/-- `<type>:<payload>` -/
def parseValue (s : String) : Option Value :=
  match s.splitOn ":" with
  | [ty, p] =>
    match ty with
    | "b" => if p = "1" then some (.bool true) else if p = "0" then some (.bool false) else none
    | "i32" => (intIn (-(2 : Int) ^ 31) ((2 : Int) ^ 31) p).map .i32
    | "u32" => (natBelow (2 ^ 32) p).map .u32
    | "i64" => (intIn (-(2 : Int) ^ 63) ((2 : Int) ^ 63) p).map .i64
    | "u64" => (natBelow (2 ^ 64) p).map .u64
    | "d" => (parseDouble p).map .dbl
    | "s" => (hexMaybeEmpty p).map .str
    | "cs" => (hexMaybeEmpty p).bind fun b => if b.contains 0 then none else some (.str b)   -- `const char*`: no embedded NUL
    | "ab" => (parseBools p).map .boolArr
    | "ai32" => (parseArr (intIn (-(2 : Int) ^ 31) ((2 : Int) ^ 31)) p).map .i32Arr
    | "au32" => (parseArr (natBelow (2 ^ 32)) p).map .u32Arr
    | "ai64" => (parseArr (intIn (-(2 : Int) ^ 63) ((2 : Int) ^ 63)) p).map .i64Arr
    | "au64" => (parseArr (natBelow (2 ^ 64)) p).map .u64Arr
    | "ad" => (parseArr parseDouble p).map .dblArr
    | "as" => (parseArr hexOrDash p).map .strArr
    | "au8" => (hexMaybeEmpty p).map .u8Arr
    | _ => none
  | _ => none

def parseKV (s : String) : Option KV :=
  match s.splitOn "=" with
  | [k, v] => do
    let k ← hexMaybeEmpty k
    let v ← parseValue v
    pure (k, v)
  | _ => none

/-- `-` = no attributes, else `<hexkey>=<value>,<hexkey>=<value>,…` in the caller's order -/
def parseAttrs (s : String) : Option (List KV) := if s = "-" then some [] else (s.splitOn ",").mapM parseKV

/-- `*` = DefaultAttributesProcessor, `-` = empty allow-list, else hex keys joined by `,` (empty key = `_`) -/
def parseFilter (s : String) : Option Filter :=
  if s = "*" then some .all else if s = "-" then some (.allow []) else
  ((s.splitOn ",").mapM fun k => if k = "_" then some [] else if k = "" || k = "-" then none else ofHexStr k).map .allow

def plus (xs : List String) : String := "+".intercalate xs

def showValue : Value → String
  | .bool b => "b:" ++ bool01 b
  | .i32 i => "i32:" ++ toString i
  | .u32 n => "u32:" ++ toString n
  | .i64 i => "i64:" ++ toString i
  | .u64 n => "u64:" ++ toString n
  | .dbl q => "d:" ++ Hist.showDy q
  | .str s => "s:" ++ toHexStr s
  | .boolArr l => "ab:" ++ String.join (l.map bool01)
  | .i32Arr l => "ai32:" ++ plus (l.map toString)
  | .u32Arr l => "au32:" ++ plus (l.map toString)
  | .i64Arr l => "ai64:" ++ plus (l.map toString)
  | .u64Arr l => "au64:" ++ plus (l.map toString)
  | .dblArr l => "ad:" ++ plus (l.map Hist.showDy)
  | .strArr l => "as:" ++ plus (l.map hexArg)
  | .u8Arr l => "au8:" ++ toHexStr l

def showKey (m : List KV) : String :=
  "{" ++ ",".intercalate (m.map fun e => toHexStr e.1 ++ "=" ++ showValue e.2) ++ "}"

/-- `attr eq <filter> <A> <B>` : the keys of two measurements, whether they are one series, and (if so) whether the
    hashes agree -/
def handleAttr : List String → String
  | [op, f, a, b] =>
    -- `eqg` = the harness hands the keys over in guarded instead of exact-size buffers; same meaning
    if op ≠ "eq" && op ≠ "eqg" then "bad-op" else
    match parseFilter f, parseAttrs a, parseAttrs b with
    | some f, some a, some b =>
      let ka := keyOf f a
      let kb := keyOf f b
      s!"a={showKey ka} b={showKey kb} eq={bool01 (decide (ka = kb))} hasheq={if ka = kb then "1" else "-"}"
    | _, _, _ => "bad-op"
  | _ => "bad-op"

abbrev K := List KV

def insertStr (s : String) : List String → List String
  | [] => [s]
  | x :: xs => if s < x then s :: x :: xs else x :: insertStr s xs

def showCollect (fast : Bool) (limit : Nat) : Option (List (K × Int)) → String
  | none => "none"
  | some es =>
    let tot := es.foldl (fun t e => t + e.2) (0 : Int)
    let n := es.length
    let hasOvf := es.any fun e => e.1 = overflowKey
    if hasOvf && !fast then s!"red le={bool01 (decide (n ≤ limit))} tot={tot}"
    else if n > 64 then s!"big n={n} tot={tot} ovf={match lookupKey overflowKey es with | some v => toString v | none => "-"}"
    else
      let pts := (es.map fun e => showKey e.1 ++ ":" ++ toString e.2).foldr insertStr []
      s!"full n={n} tot={tot}" ++ String.join (pts.map (" " ++ ·))

def parseOps (f : Filter) (nReaders : Nat) : List (List String) → Option (List (Op K Int))
  | [] => some []
  | ["rec", a, v] :: rest => do
    let a ← parseAttrs a
    let v ← natBelow (2 ^ 40) v
    let r ← parseOps f nReaders rest
    pure (Op.record (keyOf f a) (v : Int) :: r)
  | ["recn", pre, lo, hi, v] :: rest => do
    let pre ← hexMaybeEmpty pre
    let lo ← natBelow (2 ^ 31) lo
    let hi ← natBelow (2 ^ 31) hi
    let v ← natBelow (2 ^ 40) v
    let r ← parseOps f nReaders rest
    pure (((List.range (hi - lo)).map fun i => Op.record (keyOf f [(pre, Value.i64 ((lo + i : Nat) : Int))]) (v : Int)) ++ r)
  | ["col", i] :: rest => do
    let i ← natBelow nReaders i
    (parseOps f nReaders rest).map (Op.collect i :: ·)
  | _ => none

def runSeries (limit : Nat) (f temps : String) (ops : List String) : String :=
  match parseFilter f, C07.parseTemps temps with
  | some f, some temps =>
    if temps.isEmpty then "bad-op" else
    match parseOps f temps.length (splitOps ops) with
    | some ops =>
      let c : Cfg K Int Int := { ag := sumAgg, ovf := overflowKey, limit := limit, temps := temps, iter := id }
      let outs := (Store.run c (Store.init c) ops).2
      let fast := temps = [Temporality.delta]
      if outs.isEmpty then "-" else " ; ".intercalate (outs.map fun o => showCollect fast limit o.2)
    | none => "bad-op"
  | _, _ => "bad-op"

/-- `series store <limit> <filter> <readers> <ops…>` (a `SyncMetricStorage` constructed with that limit) and
    `series sdk <filter> <readers> <ops…>` (through a `MeterProvider` and a view: always the default limit) -/
def handleSeries : List String → String
  | "store" :: limit :: f :: temps :: ops =>
    match natBelow 100000 limit with
    | some l => runSeries l f temps ops
    | none => "bad-op"
  | "storeg" :: limit :: f :: temps :: ops =>
    match natBelow 100000 limit with
    | some l => runSeries l f temps ops
    | none => "bad-op"
  -- the double-valued twins (RecordDouble / DoubleCounter): same tables, same keys
  | "stored" :: limit :: f :: temps :: ops =>
    match natBelow 100000 limit with
    | some l => runSeries l f temps ops
    | none => "bad-op"
  | "sdkd" :: f :: temps :: ops => runSeries Gen.kAggregationCardinalityLimit f temps ops
  -- an observable counter whose callback reports running totals: what a synchronous counter with the same additions gives
  -- (only `recn` / `col` operations)
  | "obs" :: temps :: ops =>
    if (splitOps ops).any (fun o => o.head? == some "rec" || (o.head? == some "recn" && o.getLast? == some "0")) then "bad-op" else runSeries Gen.kAggregationCardinalityLimit "*" temps ops
  | "sdk" :: f :: temps :: ops => runSeries Gen.kAggregationCardinalityLimit f temps ops
  | "sdkg" :: f :: temps :: ops => runSeries Gen.kAggregationCardinalityLimit f temps ops
  | _ => "bad-op"

def handlers : List (String × (List String → String)) := [("attr", handleAttr), ("series", handleSeries)]

end C08
end Driver
