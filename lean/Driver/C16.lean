import Driver.Util
import Driver.C09
import OtelVerif.Model.B3
namespace Driver
open Otel Otel.TraceContext

def c16ShowRes : IxRes (Option SpanCtx) → String
  | .ok o => showCtx o
  | .fault .oob => "FAULT oob"
  | .fault .ub => "FAULT ub"
  | .fault .fuel => "FAULT fuel"

def c16MkCtx (tid sid fl : String) : Option SpanCtx :=
  match ofHexStr tid, ofHexStr sid, ofHexStr fl with
  | some tid, some sid, some [f] =>
    if tid.length ≠ 16 ∨ sid.length ≠ 8 then none
    else some { traceId := tid, spanId := sid, flags := f, remote := false, traceState := [] }
  | _, _, _ => none

/-- `b3 inject-single|inject-multi|rt-single|rt-multi <tid> <sid> <flags>` / `b3 extract <b3> <X-B3-TraceId> <X-B3-SpanId> <X-B3-Sampled>` -/
def handleB3 : List String → String
  | ["inject-single", tid, sid, fl] => match c16MkCtx tid sid fl with
    | none => "bad-op"
    | some sc => match B3.injectSingle sc with
      | none => "none"
      | some h => s!"b3={hexArg h}"
  | ["inject-multi", tid, sid, fl] => match c16MkCtx tid sid fl with
    | none => "bad-op"
    | some sc => match B3.injectMulti sc with
      | none => "none"
      | some (t, s, f) => s!"tid={hexArg t} sid={hexArg s} smp={hexArg f}"
  | ["rt-single", tid, sid, fl] => match c16MkCtx tid sid fl with
    | none => "bad-op"
    | some sc => match B3.injectSingle sc with
      | none => "none"
      | some h => c16ShowRes (B3.extract h [] [] [])
  | ["rt-multi", tid, sid, fl] => match c16MkCtx tid sid fl with
    | none => "bad-op"
    | some sc => match B3.injectMulti sc with
      | none => "none"
      | some (t, s, f) => c16ShowRes (B3.extract [] t s f)
  | ["extract", b3, tid, sid, smp] =>
    match ofHexStr b3, ofHexStr tid, ofHexStr sid, ofHexStr smp with
    | some b3, some tid, some sid, some smp => c16ShowRes (B3.extract b3 tid sid smp)
    | _, _, _, _ => "bad-op"
  | _ => "bad-op"

/-- `jg inject|rt <tid> <sid> <flags>` / `jg extract <uber-trace-id>` -/
def handleJg : List String → String
  | ["inject", tid, sid, fl] => match c16MkCtx tid sid fl with
    | none => "bad-op"
    | some sc => match Jaeger.inject sc with
      | none => "none"
      | some h => s!"h={hexArg h}"
  | ["rt", tid, sid, fl] => match c16MkCtx tid sid fl with
    | none => "bad-op"
    | some sc => match Jaeger.inject sc with
      | none => "none"
      | some h => c16ShowRes (Jaeger.extract h)
  | ["extract", h] => match ofHexStr h with
    | some h => c16ShowRes (Jaeger.extract h)
    | none => "bad-op"
  | _ => "bad-op"

def C16.handlers : List (String × (List String → String)) := [("b3", handleB3), ("jg", handleJg)]

end Driver
