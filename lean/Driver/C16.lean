import Driver.Util
import Driver.C09
import OtelVerif.Model.B3
import OtelVerif.Model.Propagator
namespace Driver
open Otel Otel.TraceContext

def c16ShowRes : IxRes (Option SpanCtx) → String
  | .ok o => showCtx o
  | .fault .oob => "FAULT oob"
  | .fault .ub => "FAULT ub"
  | .fault .fuel => "FAULT fuel"

/-- `- - -` = no span in the context, `x - -` = a value of another type under the span key: `GetSpan` then hands out
    the invalid default span, i.e. the all-zero span context -/
def c16MkCtx (tid sid fl : String) : Option SpanCtx :=
  if (tid = "-" ∨ tid = "x") ∧ sid = "-" ∧ fl = "-" then
    some { traceId := List.replicate 16 0, spanId := List.replicate 8 0, flags := 0, remote := false, traceState := [] }
  else
  match ofHexStr tid, ofHexStr sid, ofHexStr fl with
  | some tid, some sid, some [f] =>
    if tid.length ≠ 16 ∨ sid.length ≠ 8 then none
    else some { traceId := tid, spanId := sid, flags := f, remote := false, traceState := [] }
  | _, _, _ => none

def c16Fields (names : List Bytes) (n : String) : String :=
  match (if n.length ≤ 2 ∧ n.all Char.isDigit then n.toNat? else none) with
  | some stop =>
    let r := Propagation.fieldsOf names { seen := [], calls := 0, stopAt := stop }
    "f=[" ++ ",".intercalate (r.1.seen.map hexArg) ++ "] ret=" ++ bool01 r.2
  | none => "bad-op"

/-- `TraceIdFromHex` / `SpanIdFromHex` called directly: the id bytes (the return value of `HexToBinary` is ignored);
    text that is not hex is outside their domain -/
def c16IdFromHex (h : String) (n : Nat) : String :=
  match ofHexStr h with
  | some h =>
    if !isValidHex h then "bad-op" else
    match Idx.hexToBinary h n with
    | .ok r => "id=" ++ hexArg r.2
    | .fault .oob => "FAULT oob"
    | .fault .ub => "FAULT ub"
    | .fault .fuel => "FAULT fuel"
  | none => "bad-op"

/-- `b3 inject-single|inject-multi|rt-single|rt-multi <tid> <sid> <flags>` / `b3 extract <b3> <X-B3-TraceId> <X-B3-SpanId> <X-B3-Sampled>` -/
def handleB3 : List String → String
  | ["inject-single", tid, sid, fl] => match c16MkCtx tid sid fl with
    | none => "bad-op"
    | some sc => match B3.injectSingle sc with
      | none => "none"
      | some h => s!"b3={hexArg h}"
  | ["inject-multi", tid, sid, fl] => match c16MkCtx tid sid fl with
    | none => "bad-op"
    | some sc => match B3.injectMulti sc with
      | none => "none"
      | some (t, s, f) => s!"tid={hexArg t} sid={hexArg s} smp={hexArg f}"
  | ["rt-single", tid, sid, fl] => match c16MkCtx tid sid fl with
    | none => "bad-op"
    | some sc => match B3.injectSingle sc with
      | none => "none"
      | some h => c16ShowRes (B3.extract h [] [] [])
  | ["rt-multi", tid, sid, fl] => match c16MkCtx tid sid fl with
    | none => "bad-op"
    | some sc => match B3.injectMulti sc with
      | none => "none"
      | some (t, s, f) => c16ShowRes (B3.extract [] t s f)
  | [op, b3, tid, sid, smp] =>
    -- `extract-over`: the caller's context already holds a span; the observation is the same function of the carrier
    if op ≠ "extract" ∧ op ≠ "extract-over" then "bad-op" else
    match ofHexStr b3, ofHexStr tid, ofHexStr sid, ofHexStr smp with
    | some b3, some tid, some sid, some smp => c16ShowRes (B3.extract b3 tid sid smp)
    | _, _, _, _ => "bad-op"
  | ["fields-single", n] => c16Fields Propagation.b3SingleFields n
  | ["fields-multi", n] => c16Fields Propagation.b3MultiFields n
  | ["flags", h] => match ofHexStr h with
    | some h => match B3.traceFlagsFromHex h with
      | .ok f => s!"fl={hexArg [f]}"
      | r => c16ShowRes (r.map fun _ => none)
    | none => "bad-op"
  | ["tidhex", h] => c16IdFromHex h (Gen.b3TraceIdHexLen / 2)
  | ["sidhex", h] => c16IdFromHex h (Gen.b3SpanIdHexLen / 2)
  | _ => "bad-op"

/-- `jg inject|rt <tid> <sid> <flags>` / `jg extract <uber-trace-id>` -/
def handleJg : List String → String
  | ["inject", tid, sid, fl] => match c16MkCtx tid sid fl with
    | none => "bad-op"
    | some sc => match Jaeger.inject sc with
      | none => "none"
      | some h => s!"h={hexArg h}"
  | ["rt", tid, sid, fl] => match c16MkCtx tid sid fl with
    | none => "bad-op"
    | some sc => match Jaeger.inject sc with
      | none => "none"
      | some h => c16ShowRes (Jaeger.extract h)
  | ["extract", h] => match ofHexStr h with
    | some h => c16ShowRes (Jaeger.extract h)
    | none => "bad-op"
  | ["extract-over", h] => match ofHexStr h with
    | some h => c16ShowRes (Jaeger.extract h)
    | none => "bad-op"
  | ["fields", n] => c16Fields Propagation.jaegerFields n
  | _ => "bad-op"

def C16.handlers : List (String × (List String → String)) := [("b3", handleB3), ("jg", handleJg)]

end Driver
