import Driver.AttrUtil
import OtelVerif.Model.Span
/-! C04 driver.  One case per line:

  span <procs> <res> <scope> <name> <kind> <sys> <steady> <attrs> <links> ; <op> ; <op> …
    procs  : string over {s,b} (simple / batch), 1–8 processors, in registration order
    res    : hex tag of the provider's resource;  scope : <namehex>/<versionhex>/<schemahex>
    kind   : 0..4;  sys, steady : StartSpanOptions times in ns (0 = not given)
    links  : -  |  <tid 32hex>/<sid 16hex>/<flags 2hex>/<attrs> joined by `|`
    op     : [@<thread>] attr <key> <value> | ev <name> | evt <name> <ts> | eva <name> <attrs> | evta <name> <ts> <attrs>
           | status <code 0..2> <desc> | name <hex> | end <steady> | flush | isrec
  After the last op the span is released (`~Span` → `End()`) and the provider flushed.
Output: `rec=[…] | p0:<kind>:start=<n>:end=<n>:x=[[<span>;…];…] | p1:…`. -/
namespace Driver
open Otel Otel.Attr Otel.Span

def showTime (t : Option Int) (clock : String) : String := match t with | none => clock | some v => toString v

def showEvent (e : Event) : String := hexArg e.name ++ "@" ++ showTime e.ts "now" ++ showMap e.attrs
def showLink (l : Link) : String := hexArg l.traceId ++ "/" ++ hexArg l.spanId ++ "/" ++ hexArg [l.flags] ++ showMap l.attrs

def showScope : Option Scope → String
  | none => "null"
  | some s => hexArg s.name ++ "/" ++ hexArg s.version ++ "/" ++ hexArg s.schema

def showSpanData (sd : SpanData) : String :=
  "{name=" ++ hexArg sd.name ++ " kind=" ++ toString sd.kind ++ " start=" ++ showTime sd.startSys "now"
    ++ " dur=" ++ showTime sd.duration "auto" ++ " attrs=" ++ showMap sd.attrs
    ++ " events=[" ++ ";".intercalate (sd.events.map showEvent) ++ "]"
    ++ " links=[" ++ ";".intercalate (sd.links.map showLink) ++ "]"
    ++ " status=" ++ toString sd.statusCode ++ "/" ++ hexArg sd.statusDesc
    ++ " res=" ++ (match sd.resource with | none => "null" | some r => hexArg r)
    ++ " scope=" ++ showScope sd.scope ++ "}"

def showProc (i : Nat) (p : Proc) : String :=
  "p" ++ toString i ++ ":" ++ (match p.kind with | .simple => "s" | .batch => "b")
    ++ ":start=" ++ toString p.onStart ++ ":end=" ++ toString p.onEnd
    ++ ":x=[" ++ ";".intercalate (p.exports.map fun b => "[" ++ ";".intercalate (b.map showSpanData) ++ "]") ++ "]"

def parseProcs (s : String) : Option (List ProcKind) :=
  let cs := s.toList
  if cs.isEmpty || cs.length > 8 then none else
  cs.mapM fun c => if c = 's' then some ProcKind.simple else if c = 'b' then some ProcKind.batch else none

def parseScope (s : String) : Option Scope :=
  match s.splitOn "/" with
  | [n, v, u] => do pure ⟨← ofHexStr n, ← ofHexStr v, ← ofHexStr u⟩
  | _ => none

def parseLink (s : String) : Option (Bytes × Bytes × UInt8 × KVs) :=
  match s.splitOn "/" with
  | [tid, sid, fl, ats] => do
    let tid ← ofHexStr tid
    let sid ← ofHexStr sid
    let fl ← ofHexStr fl
    let ats ← parseAttrs ats
    match fl with
    | [f] => if tid.length = 16 ∧ sid.length = 8 then some (tid, sid, f, ats) else none
    | _ => none
  | _ => none

def parseLinks (s : String) : Option (List (Bytes × Bytes × UInt8 × KVs)) :=
  if s = "-" then some [] else (s.splitOn "|").mapM parseLink

def parseCfg : List String → Option Cfg
  | [procs, res, scope, name, kind, sys, steady, attrs, links] => do
    let procs ← parseProcs procs
    let res ← ofHexStr res
    let scope ← parseScope scope
    let name ← ofHexStr name
    let kind ← parseNat kind
    if kind ≥ Gen.spanKindNames.length then none
    let sys ← parseI 64 sys
    let steady ← parseI 64 steady
    let attrs ← parseAttrs attrs
    let links ← parseLinks links
    pure { procs := procs, resource := res, scope := scope, name := name, kind := kind, startSys := sys, startSteady := steady, attrs := attrs, links := links }
  | _ => none

/-- `none` = malformed; `some none` = the observation `isrec`; `some (some op)` = a model operation -/
def parseOp (toks : List String) : Option (Option Op) :=
  let toks := match toks with
    | t :: rest => if t.startsWith "@" then (if (parseNat (t.drop 1).toString).any (· < 4) then rest else ["?"]) else toks
    | [] => []
  match toks with
  | ["attr", k, v] => do pure (some (.setAttribute (← ofHexStr k) (← parseValue v)))
  | ["ev", n] => do pure (some (.addEvent (← ofHexStr n) none none))
  | ["evt", n, ts] => do pure (some (.addEvent (← ofHexStr n) (some (← parseI 64 ts)) none))
  | ["eva", n, ats] => do pure (some (.addEvent (← ofHexStr n) none (some (← parseAttrs ats))))
  | ["evta", n, ts, ats] => do pure (some (.addEvent (← ofHexStr n) (some (← parseI 64 ts)) (some (← parseAttrs ats))))
  | ["status", c, d] => do
    let c ← parseNat c
    if c ≥ Gen.statusCodeNames.length then none
    pure (some (.setStatus c (← ofHexStr d)))
  | ["name", n] => do pure (some (.updateName (← ofHexStr n)))
  | ["end", e] => do pure (some (.end_ (← parseI 64 e)))
  | ["flush"] => some (some .flush)
  | ["isrec"] => some none
  | _ => none

def handleSpan (toks : List String) : String :=
  match splitOps toks with
  | [] => "bad-op"
  | cfgToks :: opToks =>
    match parseCfg cfgToks, opToks.mapM parseOp with
    | some cfg, some ops =>
      let (s, obs) := ops.foldl (fun (acc : State × List String) o =>
        match o with
        | none => (acc.1, acc.2 ++ [bool01 acc.1.recordable.isSome])
        | some op => (step acc.1 op, acc.2)) (init cfg, [])
      let s := exec s [.end_ 0, .flush]
      "rec=[" ++ ",".intercalate obs ++ "] | " ++ " | ".intercalate ((List.range s.procs.length).zipWith showProc s.procs)
    | _, _ => "bad-op"

def C04.handlers : List (String × (List String → String)) := [("span", handleSpan)]

end Driver
