import Driver.AttrUtil
import OtelVerif.Model.Span
/-! C04 driver.  One case per line:

  span <procs> <res> <scope> <name> <kind> <sys> <steady> <attrs> <links> ; <op> ; <op> …
    procs  : string over {s,b} (simple / batch), 1–8 processors, in registration order
    res    : hex tag of the provider's resource;  scope : <namehex>/<versionhex>/<schemahex>[/<attrs>[/<decoy attrs>]] (the
             bracketed parts: engine `span2` only, scope attributes; printed as `scope=<n>/<v>/<s>[…]`)
    kind   : 0..4;  sys, steady : StartSpanOptions times in ns (0 = not given)
    links  : -  |  <tid 32hex>/<sid 16hex>/<flags 2hex>/<attrs> joined by `|`
    op     : [@<thread>] attr <key> <value> | ev <name> | evt <name> <ts> | eva <name> <attrs> | evta <name> <ts> <attrs>
           | status <code 0..2> <desc> | name <hex> | end <steady> | flush | isrec | par | seq
           | link <tid>/<sid>/<flags>/<attrs> | links <link>|<link>|… (or -)      (engine `span2` only: ABI v2 AddLink / AddLinks)
  Engine `span2` = the same protocol against the harness built with OPENTELEMETRY_ABI_VERSION_NO=2.
  `par … seq`: the harness runs the section's ops on real threads concurrently; inside a section every op is a
  thread-tagged attr / event op whose key / name starts with the digit of its thread, so every interleaving gives the same
  record up to the relative order of events of different threads; the model applies the ops in line order (one admissible
  interleaving) and cases with a section print the events grouped by first name byte (stable) on both sides.
  After the last op the span is released (`~Span` → `End()`) and the provider flushed.
Output: `rec=[…] | p0:<kind>:start=<n>:end=<n>:x=[[<span>;…];…] | p1:…`. -/
namespace Driver
open Otel Otel.SAttr Otel.Span

def showTime (t : Option Int) (clock : String) : String := match t with | none => clock | some v => toString v

def showEvent (e : Event) : String := hexArg e.name ++ "@" ++ showTime e.ts "now" ++ showMap e.attrs
def showLink (l : Link) : String := hexArg l.traceId ++ "/" ++ hexArg l.spanId ++ "/" ++ hexArg [l.flags] ++ showMap l.attrs

def showScope : Option Scope → String
  | none => "null"
  | some s => hexArg s.name ++ "/" ++ hexArg s.version ++ "/" ++ hexArg s.schema
      ++ (match s.attrs with | none => "" | some m => showMap m)

/-- stable grouping of the events by the first byte of their name (cases with a concurrent section) -/
def groupEvents (es : List Event) : List Event :=
  es.mergeSort fun a b => (match a.name with | [] => 0 | c :: _ => c.toNat + 1) ≤ (match b.name with | [] => 0 | c :: _ => c.toNat + 1)

def showSpanData (grouped : Bool) (sd : SpanData) : String :=
  "{name=" ++ hexArg sd.name ++ " kind=" ++ toString sd.kind ++ " start=" ++ showTime sd.startSys "now"
    ++ " dur=" ++ showTime sd.duration "auto" ++ " attrs=" ++ showMap sd.attrs
    ++ " events=[" ++ ";".intercalate ((if grouped then groupEvents sd.events else sd.events).map showEvent) ++ "]"
    ++ " links=[" ++ ";".intercalate (sd.links.map showLink) ++ "]"
    ++ " status=" ++ toString sd.statusCode ++ "/" ++ hexArg sd.statusDesc
    ++ " res=" ++ (match sd.resource with | none => "null" | some r => hexArg r)
    ++ " scope=" ++ showScope sd.scope ++ "}"

def showProc (grouped : Bool) (i : Nat) (p : Proc) : String :=
  "p" ++ toString i ++ ":" ++ (match p.kind with | .simple => "s" | .batch => "b")
    ++ ":start=" ++ toString p.onStart ++ ":end=" ++ toString p.onEnd
    ++ ":x=[" ++ ";".intercalate (p.exports.map fun b => "[" ++ ";".intercalate (b.map (showSpanData grouped)) ++ "]") ++ "]"

def parseProcs (s : String) : Option (List ProcKind) :=
  let cs := s.toList
  if cs.isEmpty || cs.length > 8 then none else
  cs.mapM fun c => if c = 's' then some ProcKind.simple else if c = 'b' then some ProcKind.batch else none

/-- `<name>/<version>/<schema>`; engine `span2` also `<name>/<version>/<schema>/<attrs>[/<decoy attrs>]`: the tracer is
    requested with scope attributes (after a request for the same name / version / schema with the decoy attributes, whose
    tracer is not used: if the provider took the two requests for the same scope, the decoy's attributes would be exported) -/
def parseScope (v2 : Bool) (s : String) : Option Scope :=
  match s.splitOn "/" with
  | [n, v, u] => do pure ⟨← ofHexStr n, ← ofHexStr v, ← ofHexStr u, none⟩
  | [n, v, u, a] => do
    if !v2 then none
    pure ⟨← ofHexStr n, ← ofHexStr v, ← ofHexStr u, some (Map.ofIterable (← parseAttrs a))⟩
  | [n, v, u, a, d] => do
    if !v2 then none
    let _ ← parseAttrs d
    pure ⟨← ofHexStr n, ← ofHexStr v, ← ofHexStr u, some (Map.ofIterable (← parseAttrs a))⟩
  | _ => none

def parseLink (s : String) : Option (Bytes × Bytes × UInt8 × KVs) :=
  match s.splitOn "/" with
  | [tid, sid, fl, ats] => do
    let tid ← ofHexStr tid
    let sid ← ofHexStr sid
    let fl ← ofHexStr fl
    let ats ← parseAttrs ats
    match fl with
    | [f] => if tid.length = 16 ∧ sid.length = 8 then some (tid, sid, f, ats) else none
    | _ => none
  | _ => none

def parseLinks (s : String) : Option (List (Bytes × Bytes × UInt8 × KVs)) :=
  if s = "-" then some [] else (s.splitOn "|").mapM parseLink

def parseCfg (v2 : Bool) : List String → Option Cfg
  | [procs, res, scope, name, kind, sys, steady, attrs, links] => do
    let procs ← parseProcs procs
    let res ← ofHexStr res
    let scope ← parseScope v2 scope
    let name ← ofHexStr name
    let kind ← parseNat kind
    if kind ≥ Gen.spanKindNames.length then none
    let sys ← parseI 64 sys
    let steady ← parseI 64 steady
    let attrs ← parseAttrs attrs
    let links ← parseLinks links
    pure { procs := procs, resource := res, scope := scope, name := name, kind := kind, startSys := sys, startSteady := steady, attrs := attrs, links := links }
  | _ => none

inductive DOp where
  | op (o : Op)
  /-- `AddLinks(list)`: one `AddLink` per element -/
  | ops (l : List Op)
  | isrec
  | par
  | seq

/-- `none` = malformed; otherwise the thread tag (if any) and the operation -/
def parseOp (v2 : Bool) (toks : List String) : Option (Option Nat × DOp) :=
  let (tag, toks) : Option (Option Nat) × List String := match toks with
    | t :: rest =>
      if t.startsWith "@" then
        match parseNat (t.drop 1).toString with
        | some n => if n < 4 then (some (some n), rest) else (none, rest)
        | none => (none, rest)
      else (some none, toks)
    | [] => (some none, [])
  match tag with
  | none => none
  | some tag =>
    let r : Option DOp := match toks with
      | ["attr", k, v] => do pure (.op (.setAttribute (← ofHexStr k) (← parseValue v)))
      | ["ev", n] => do pure (.op (.addEvent (← ofHexStr n) none none))
      | ["evt", n, ts] => do pure (.op (.addEvent (← ofHexStr n) (some (← parseI 64 ts)) none))
      | ["eva", n, ats] => do pure (.op (.addEvent (← ofHexStr n) none (some (← parseAttrs ats))))
      | ["evta", n, ts, ats] => do pure (.op (.addEvent (← ofHexStr n) (some (← parseI 64 ts)) (some (← parseAttrs ats))))
      | ["status", c, d] => do
        let c ← parseNat c
        if c ≥ Gen.statusCodeNames.length then none
        pure (.op (.setStatus c (← ofHexStr d)))
      | ["name", n] => do pure (.op (.updateName (← ofHexStr n)))
      | ["end", e] => do pure (.op (.end_ (← parseI 64 e)))
      | ["flush"] => some (.op .flush)
      | ["link", l] => if v2 then (parseLink l).map fun l => .op (.addLink l.1 l.2.1 l.2.2.1 l.2.2.2) else none
      | ["links", ls] => if v2 then (parseLinks ls).map fun ls => .ops (ls.map fun l => .addLink l.1 l.2.1 l.2.2.1 l.2.2.2) else none
      | ["isrec"] => some .isrec
      | ["par"] => if tag.isNone then some .par else none
      | ["seq"] => if tag.isNone then some .seq else none
      | _ => none
    r.map fun d => (tag, d)

/-- the rules of concurrent sections: `par` / `seq` alternate; inside, only thread-tagged attr / event ops whose key / name
    starts with the digit of the thread -/
def sectionsOk : Bool → List (Option Nat × DOp) → Bool
  | _, [] => true
  | inPar, (_, .par) :: t => !inPar && sectionsOk true t
  | inPar, (_, .seq) :: t => inPar && sectionsOk false t
  | true, (some k, .op (.setAttribute (c :: _) _)) :: t => c.toNat == 48 + k && sectionsOk true t
  | true, (some k, .op (.addEvent (c :: _) _ _)) :: t => c.toNat == 48 + k && sectionsOk true t
  | true, _ :: _ => false
  | false, _ :: t => sectionsOk false t

def handleSpan (v2 : Bool) (toks : List String) : String :=
  match splitOps toks with
  | [] => "bad-op"
  | cfgToks :: opToks =>
    match parseCfg v2 cfgToks, opToks.mapM (parseOp v2) with
    | some cfg, some ops =>
      if !sectionsOk false ops then "bad-op" else
      let grouped := ops.any fun o => match o.2 with | .par => true | .seq => true | _ => false
      let (s, obs) := ops.foldl (fun (acc : State × List String) o =>
        match o.2 with
        | .isrec => (acc.1, acc.2 ++ [bool01 acc.1.recordable.isSome])
        | .op op => (step acc.1 op, acc.2)
        | .ops l => (exec acc.1 l, acc.2)
        | _ => acc) (init cfg, [])
      let s := exec s [.end_ 0, .flush]
      "rec=[" ++ ",".intercalate obs ++ "] | " ++ " | ".intercalate ((List.range s.procs.length).zipWith (showProc grouped) s.procs)
    | _, _ => "bad-op"

def C04.handlers : List (String × (List String → String)) := [("span", handleSpan false), ("span2", handleSpan true)]

end Driver
