import Driver.Util
import OtelVerif.Model.TabHex
import OtelVerif.Model.TabKv
import OtelVerif.Model.TabTraceState
import OtelVerif.Model.TabBaggage
import OtelVerif.Model.TabB3
import OtelVerif.Model.TabNaming
import OtelVerif.Model.TabEnv
import OtelVerif.Gen.TabHex
import OtelVerif.Gen.TabKv
import OtelVerif.Gen.TabB3
import OtelVerif.Gen.TabNaming
import OtelVerif.Gen.TabEnv
/-! Driver word `tab <name>`: prints the MODEL's graph of the tabulated function `<name>` in the output format of the tabulator
    programs (`harness/tab/tab_common.h`), so that `tools/tabdiff.py` can name the entries on which model and code differ.
    For `pairs` tables the inputs are those of the generated table. -/
namespace Driver
open Otel

def allB : List UInt8 := (List.range 256).map UInt8.ofNat
def sp (l : List String) : String := " ".intercalate l
def tU8 (f : UInt8 → UInt8) : String := sp (allB.map fun b => toString (f b).toNat)
def tNat (f : UInt8 → Nat) : String := sp (allB.map fun b => toString (f b))
def tBool (f : UInt8 → Bool) : String := sp (allB.map fun b => bool01 (f b))
def tBytes (f : UInt8 → Bytes) : String := sp (allB.map fun b => hexArg (f b))
def tU8x2 (f : UInt8 → UInt8 → UInt8) : String := sp (allB.map fun a => toHexStr (allB.map (f a)))
def tBoolx2 (f : UInt8 → UInt8 → Bool) : String := sp (allB.map fun a => String.join (allB.map fun b => bool01 (f a b)))
def tNatx2 (f : UInt8 → UInt8 → Nat) : String := sp (allB.map fun a => ",".intercalate (allB.map fun b => toString (f a b)))
def tPairs (tab : List (List UInt8 × List Nat)) (f : Bytes → List Nat) : String :=
  sp (tab.map fun p => let o := f p.1; hexArg p.1 ++ ":" ++ (if o.isEmpty then "-" else ",".intercalate (o.map toString)))

def tabTable : List (String × (Unit → String)) := [
  ("hexToInt", fun _ => "u8 hexToInt " ++ tU8 TabModel.hexToInt),
  ("isValidHex1", fun _ => "bool isValidHex1 " ++ tBool TabModel.isValidHex1),
  ("hexToBinary1", fun _ => "u8 hexToBinary1 " ++ tU8 TabModel.hexToBinary1),
  ("hexToBinary2", fun _ => "u8x2 hexToBinary2 " ++ tU8x2 TabModel.hexToBinary2),
  ("hexToBinaryShort", fun _ => "pairs hexToBinaryShort " ++ tPairs Gen.Tab.hexToBinaryShort TabModel.hexToBinaryShort),
  ("traceIdLower", fun _ => "pairs traceIdLower " ++ tPairs Gen.Tab.traceIdLower TabModel.traceIdLower),
  ("spanIdLower", fun _ => "pairs spanIdLower " ++ tPairs Gen.Tab.spanIdLower TabModel.spanIdLower),
  ("flagsLower", fun _ => "bytes flagsLower " ++ tBytes TabModel.flagsLower),
  ("flagsIsSampled", fun _ => "bool flagsIsSampled " ++ tBool TabModel.flagsIsSampled),
  ("flagsIsRandom", fun _ => "bool flagsIsRandom " ++ tBool TabModel.flagsIsRandom),
  ("tpVersion", fun _ => "pairs tpVersion " ++ tPairs Gen.Tab.tpVersion TabModel.tpVersion),
  ("tpFlagsByte", fun _ => "nat tpFlagsByte " ++ tNat TabModel.tpFlagsByte),
  ("tpInjectFlags", fun _ => "bytes tpInjectFlags " ++ tBytes TabModel.tpInjectFlags),
  ("trimDrops", fun _ => "bool trimDrops " ++ tBool TabModel.trimDrops),
  ("trimShort", fun _ => "pairs trimShort " ++ tPairs Gen.Tab.trimShort TabModel.trimShort),
  ("trim3Short", fun _ => "pairs trim3Short " ++ tPairs Gen.Tab.trim3Short TabModel.trim3Short),
  ("kvTokSep", fun _ => "pairs kvTokSep " ++ tPairs Gen.Tab.kvTokSep TabModel.kvTok),
  ("kvTokShort", fun _ => "pairs kvTokShort " ++ tPairs Gen.Tab.kvTokShort TabModel.kvTok),
  ("tsKey1", fun _ => "bool tsKey1 " ++ tBool TabModel.tsKey1),
  ("tsValue1", fun _ => "bool tsValue1 " ++ tBool TabModel.tsValue1),
  ("tsKey2", fun _ => "boolx2 tsKey2 " ++ tBoolx2 TabModel.tsKey2),
  ("tsValue2", fun _ => "boolx2 tsValue2 " ++ tBoolx2 TabModel.tsValue2),
  ("bgEncode", fun _ => "bytes bgEncode " ++ tBytes TabModel.bgEncode),
  ("bgDecode1", fun _ => "nat bgDecode1 " ++ tNat TabModel.bgDecode1),
  ("bgDecodePct1", fun _ => "nat bgDecodePct1 " ++ tNat TabModel.bgDecodePct1),
  ("bgDecodePct", fun _ => "natx2 bgDecodePct " ++ tNatx2 TabModel.bgDecodePct),
  ("bgValidKey1", fun _ => "bool bgValidKey1 " ++ tBool TabModel.bgValidKey1),
  ("bgValidValue1", fun _ => "bool bgValidValue1 " ++ tBool TabModel.bgValidValue1),
  ("b3FlagsFromHex1", fun _ => "u8 b3FlagsFromHex1 " ++ tU8 TabModel.b3FlagsFromHex1),
  ("b3FlagsFromHexShort", fun _ => "pairs b3FlagsFromHexShort " ++ tPairs Gen.Tab.b3FlagsFromHexShort TabModel.b3FlagsFromHexShort),
  ("b3InjectSingleChar", fun _ => "u8 b3InjectSingleChar " ++ tU8 TabModel.b3InjectSingleChar),
  ("b3InjectMultiSampled", fun _ => "bytes b3InjectMultiSampled " ++ tBytes TabModel.b3InjectMultiSampled),
  ("b3ExtractSingleFlag", fun _ => "nat b3ExtractSingleFlag " ++ tNat TabModel.b3ExtractSingleFlag),
  ("b3ExtractMultiFlag", fun _ => "nat b3ExtractMultiFlag " ++ tNat TabModel.b3ExtractMultiFlag),
  ("jaegerGetTraceFlags", fun _ => "u8 jaegerGetTraceFlags " ++ tU8 TabModel.jaegerGetTraceFlags),
  ("jaegerInjectChar", fun _ => "u8 jaegerInjectChar " ++ tU8 TabModel.jaegerInjectChar),
  ("jaegerExtractFlag1", fun _ => "nat jaegerExtractFlag1 " ++ tNat TabModel.jaegerExtractFlag1),
  ("jaegerExtractFlagByte", fun _ => "nat jaegerExtractFlagByte " ++ tNat TabModel.jaegerExtractFlagByte),
  ("nameValid1", fun _ => "bool nameValid1 " ++ tBool TabModel.nameValid1),
  ("nameValidA", fun _ => "bool nameValidA " ++ tBool TabModel.nameValidA),
  ("nameValidB", fun _ => "bool nameValidB " ++ tBool TabModel.nameValidB),
  ("unitValid1", fun _ => "bool unitValid1 " ++ tBool TabModel.unitValid1),
  ("unitValidA", fun _ => "bool unitValidA " ++ tBool TabModel.unitValidA),
  ("nameUnitLen", fun _ => "pairs nameUnitLen " ++ tPairs Gen.Tab.nameUnitLen TabModel.nameUnitLen),
  ("envBool", fun _ => "pairs envBool " ++ tPairs Gen.Tab.envBool TabModel.envBool),
  ("envDurUnit", fun _ => "pairs envDurUnit " ++ tPairs Gen.Tab.envDurUnit TabModel.envDur),
  ("envDurByte", fun _ => "pairs envDurByte " ++ tPairs Gen.Tab.envDurByte TabModel.envDur),
  ("envUintByte", fun _ => "pairs envUintByte " ++ tPairs Gen.Tab.envUintByte TabModel.envUint)]

def handleTab : List String → String
  | [name] => match tabTable.lookup name with
    | some f => f ()
    | none => "bad-op"
  | _ => "bad-op"

def C00Tab.handlers : List (String × (List String → String)) := [("tab", handleTab)]

end Driver
