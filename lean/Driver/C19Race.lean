import Driver.Util
import OtelVerif.Model.GetScopeLock
/-! `gscrace <event> ; <event> …`: the events of one real execution of the unmodified `tracer_provider.cc`,
    `meter_provider.cc`, `logger_provider.cc` under the deterministic scheduler (abstracted by `props/c19_race.py`), replayed
    on the get-or-create model `Model/GetScopeLock.lean` — one instance of the model per provider (`t`, `m`, `l`).  The model
    must accept every step the implementation took — in particular whether the walk over the list found the requested scope
    (the next event is the release) or missed (the next event is the construction), which object was constructed and which
    was returned — and the summary (the three lists at the end, every lock free) is compared with the implementation's. -/
namespace Driver
open Otel Otel.GetScopeLock

structure GscTrio where
  t : GetScopeLock.St
  m : GetScopeLock.St
  l : GetScopeLock.St

def parseGscEv (tok : String) : Option (String × GetScopeLock.Ev) :=
  match tok.splitOn ":" with
  | t :: kind :: rest =>
    if kind ≠ "t" ∧ kind ≠ "m" ∧ kind ≠ "l" then none else
    match t.toNat? with
    | none => none
    | some t =>
      match rest with
      | ["call", k] => k.toNat?.map fun k => (kind, ⟨t, .call k⟩)
      | ["lock"] => some (kind, ⟨t, .lock⟩)
      | ["create", i] => i.toNat?.map fun i => (kind, ⟨t, .create i⟩)
      | ["unlock"] => some (kind, ⟨t, .unlock⟩)
      | ["ret", i, k] => match i.toNat?, k.toNat? with
        | some i, some k => some (kind, ⟨t, .ret i k⟩)
        | _, _ => none
      | _ => none
  | _ => none

def showGscList (s : GetScopeLock.St) : String :=
  "[" ++ ",".intercalate (s.list.map fun e => s!"o{e.id}:s{e.key}") ++ "]"

def handleGscRace (toks : List String) : String :=
  let rec go (st : GscTrio) (k : Nat) : List (List String) → String
    | [] =>
      s!"ok t={showGscList st.t} m={showGscList st.m} l={showGscList st.l} locks={bool01 st.t.lock.isSome}{bool01 st.m.lock.isSome}{bool01 st.l.lock.isSome} rets={st.t.rets.length + st.m.rets.length + st.l.rets.length}"
    | [] :: rest => go st k rest
    | [tok] :: rest =>
      match parseGscEv tok with
      | none => "bad-op"
      | some (kind, e) =>
        let s := if kind = "t" then st.t else if kind = "m" then st.m else st.l
        match GetScopeLock.astep s e with
        | some s' => go (if kind = "t" then { st with t := s' } else if kind = "m" then { st with m := s' } else { st with l := s' }) (k + 1) rest
        | none => s!"MISMATCH at {k} {tok} pc={reprStr (s.pc e.t)} lock={reprStr s.lock} list={showGscList s}"
    | _ => "bad-op"
  go ⟨GetScopeLock.init, GetScopeLock.init, GetScopeLock.init⟩ 0 (splitOps toks)

def C19Race.handlers : List (String × (List String → String)) := [("gscrace", handleGscRace)]

end Driver
