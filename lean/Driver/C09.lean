import Driver.Util
import OtelVerif.Model.TraceContext
namespace Driver
open Otel Otel.TraceContext

def showCtx : Option SpanCtx → String
  | none => "none"
  | some sc => s!"tid={hexArg sc.traceId} sid={hexArg sc.spanId} fl={hexArg [sc.flags]} remote={bool01 sc.remote} ts={showEntries sc.traceState}"

/-- the members of a canonical `k=v,k=v` list, split at `,` and at the first `=` (no trimming, no validation):
    how the harness feeds `Set` for the `injects` / `roundtrips` cases -/
def naiveMembers (ts : Bytes) : Option (List (Bytes × Bytes)) :=
  if ts.isEmpty then some [] else
  (ts.splitOn 44).mapM fun m => match m.span (· != 61) with
    | (k, _ :: v) => some (k, v)
    | (_, []) => none

/-- `tc inject <tid> <sid> <flags> <tracestate header>` / `tc extract <traceparent> <tracestate>` -/
def handleTc : List String → String
  | ["inject", tid, sid, fl, ts] =>
    match ofHexStr tid, ofHexStr sid, ofHexStr fl, ofHexStr ts with
    | some tid, some sid, some [f], some ts =>
      if tid.length ≠ 16 ∨ sid.length ≠ 8 then "bad-op" else
      match inject { traceId := tid, spanId := sid, flags := f, remote := false, traceState := TraceState.fromHeader ts } with
      | none => "none"
      | some (tp, tso) => s!"tp={hexArg tp} ts={match tso with | none => "unset" | some t => hexArg t}"
    | _, _, _, _ => "bad-op"
  | ["roundtrip", tid, sid, fl, ts] =>
    match ofHexStr tid, ofHexStr sid, ofHexStr fl, ofHexStr ts with
    | some tid, some sid, some [f], some ts =>
      if tid.length ≠ 16 ∨ sid.length ≠ 8 then "bad-op" else
      match inject { traceId := tid, spanId := sid, flags := f, remote := false, traceState := TraceState.fromHeader ts } with
      | none => "none"
      | some (tp, tso) => showCtx (extract tp (tso.getD []))
    | _, _, _, _ => "bad-op"
  | ["extract", tp, ts] =>
    match ofHexStr tp, ofHexStr ts with
    | some tp, some ts => showCtx (extract tp ts)
    | _, _ => "bad-op"
  -- the caller's context already holds a span: the same observation as `extract`
  | ["extractp", tp, ts] =>
    match ofHexStr tp, ofHexStr ts with
    | some tp, some ts => showCtx (extract tp ts)
    | _, _ => "bad-op"
  -- the trace state built with `Set`, member by member (the header argument is split naively, as the harness does)
  | ["injects", tid, sid, fl, ts] =>
    match ofHexStr tid, ofHexStr sid, ofHexStr fl, ofHexStr ts with
    | some tid, some sid, some [f], some ts =>
      if tid.length ≠ 16 ∨ sid.length ≠ 8 then "bad-op" else
      match naiveMembers ts with
      | none => "bad-op"
      | some ms =>
        match inject { traceId := tid, spanId := sid, flags := f, remote := false, traceState := stateBySet ms } with
        | none => "none"
        | some (tp, tso) => s!"tp={hexArg tp} ts={match tso with | none => "unset" | some t => hexArg t}"
    | _, _, _, _ => "bad-op"
  | ["roundtrips", tid, sid, fl, ts] =>
    match ofHexStr tid, ofHexStr sid, ofHexStr fl, ofHexStr ts with
    | some tid, some sid, some [f], some ts =>
      if tid.length ≠ 16 ∨ sid.length ≠ 8 then "bad-op" else
      match naiveMembers ts with
      | none => "bad-op"
      | some ms =>
        match inject { traceId := tid, spanId := sid, flags := f, remote := false, traceState := stateBySet ms } with
        | none => "none"
        | some (tp, tso) => showCtx (extract tp (tso.getD []))
    | _, _, _, _ => "bad-op"
  -- a context without any span: the invalid default span context
  | ["inject0"] =>
    match inject { traceId := List.replicate 16 0, spanId := List.replicate 8 0, flags := 0, remote := false, traceState := [] } with
    | none => "none"
    | some _ => "wrote"
  | ["fields", n] =>
    match n.toNat? with
    | some n => let (seen, r) := fields n; s!"f=[{",".intercalate (seen.map hexArg)}] r={bool01 r}"
    | none => "bad-op"
  | ["idhex", which, h] =>
    match ofHexStr h with
    | some h =>
      if which = "t" then "id=" ++ hexArg (idFromHex (Gen.kTraceIdSize / 2) h)
      else if which = "s" then "id=" ++ hexArg (idFromHex (Gen.kSpanIdSize / 2) h)
      else if which = "f" then "id=" ++ hexArg (idFromHex 1 h)
      else "bad-op"
    | none => "bad-op"
  | ["hex2bin", n, h] =>
    match n.toNat?, ofHexStr h with
    | some n, some h => if n > 64 then "bad-op" else
      let (r, buf) := hexToBinary h n; s!"r={bool01 r} buf={hexArg buf}"
    | _, _ => "bad-op"
  | ["ishex", h] =>
    match ofHexStr h with
    | some h => bool01 (isValidHex h)
    | none => "bad-op"
  | ["split", sep, n, h] =>
    match ofHexStr sep, n.toNat?, ofHexStr h with
    | some [sep], some n, some h => if n > 64 then "bad-op" else
      let toks := splitString sep n h; s!"n={toks.length} [{",".intercalate (toks.map hexArg)}]"
    | _, _, _ => "bad-op"
  | _ => "bad-op"

def C09.handlers : List (String × (List String → String)) := [("tc", handleTc)]

end Driver
