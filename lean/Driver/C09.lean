import Driver.Util
import OtelVerif.Model.TraceContext
namespace Driver
open Otel Otel.TraceContext

def showCtx : Option SpanCtx → String
  | none => "none"
  | some sc => s!"tid={hexArg sc.traceId} sid={hexArg sc.spanId} fl={hexArg [sc.flags]} remote={bool01 sc.remote} ts={showEntries sc.traceState}"

/-- `tc inject <tid> <sid> <flags> <tracestate header>` / `tc extract <traceparent> <tracestate>` -/
def handleTc : List String → String
  | ["inject", tid, sid, fl, ts] =>
    match ofHexStr tid, ofHexStr sid, ofHexStr fl, ofHexStr ts with
    | some tid, some sid, some [f], some ts =>
      if tid.length ≠ 16 ∨ sid.length ≠ 8 then "bad-op" else
      match inject { traceId := tid, spanId := sid, flags := f, remote := false, traceState := TraceState.fromHeader ts } with
      | none => "none"
      | some (tp, tso) => s!"tp={hexArg tp} ts={match tso with | none => "unset" | some t => hexArg t}"
    | _, _, _, _ => "bad-op"
  | ["roundtrip", tid, sid, fl, ts] =>
    match ofHexStr tid, ofHexStr sid, ofHexStr fl, ofHexStr ts with
    | some tid, some sid, some [f], some ts =>
      if tid.length ≠ 16 ∨ sid.length ≠ 8 then "bad-op" else
      match inject { traceId := tid, spanId := sid, flags := f, remote := false, traceState := TraceState.fromHeader ts } with
      | none => "none"
      | some (tp, tso) => showCtx (extract tp (tso.getD []))
    | _, _, _, _ => "bad-op"
  | ["extract", tp, ts] =>
    match ofHexStr tp, ofHexStr ts with
    | some tp, some ts => showCtx (extract tp ts)
    | _, _ => "bad-op"
  | _ => "bad-op"

def C09.handlers : List (String × (List String → String)) := [("tc", handleTc)]

end Driver
