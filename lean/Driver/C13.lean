import Driver.AttrUtil
import OtelVerif.Model.LogRecord
/-! C13 driver.  One case per line:

  log <procs> <res> <scope> ; <op> ; <op> …
    procs : string over {s,b} (simple / batch), 1–8;  res : hex tag of the provider's resource
    scope : <namehex>/<versionhex>/<schemahex> of the enabled logger (name not empty)
    op    : push <t> <tid>/<sid>/<fl> | pushc <t> <tid>/<sid>/<fl> | pop <t>          (thread t in 0..2)
          | pushn <t> | pushnc <t> | pushx <t>     (a context whose span entry is a null Span / a null SpanContext / not a span)
          | create <t> <e|d> <rid> | set <rid> <arg> | emit <t> <e|d> <new|new:via|null|rid> [<arg> [<arg>]]
          | scribble <buf> | free <buf> | flush
    arg   : sev:<0..255> | eid:<int64> | eid:<int64>:<namehex> | ctx:<tid>/<sid>/<fl> | sid:<16hex> | tid:<32hex> | fl:<2hex>
          | ts:<int64> | tp:<int64> | attrs#<buf>/<attrs> | attrsb#<buf>/<attrs>
          | attrss#<buf>/<attrs> | attrsi#<buf>/<attrs> | attrsw#<buf>/<attrs>   (MakeAttributes of a span / a braced list / a container)
          | body#<buf>/<value> | bodysv#<buf>/s:<hex> | bodycs#<buf>/c:<hex> | bodystd#<buf>/s:<hex>
  Every `<buf>` may occur once per line.  After the last op the provider is flushed.
Output: `p0:<kind>:n=<OnEmit calls>:x=[[<record>;…];…] | p1:…`, or `CRASH asan:heap-use-after-free` when an exporter
reads caller memory that has been freed. -/
namespace Driver
open Otel Otel.SAttr Otel.LogRecord

def parseIdentity (s : String) : Option Identity :=
  match s.splitOn "/" with
  | [tid, sid, fl] => do
    let tid ← ofHexStr tid
    let sid ← ofHexStr sid
    let fl ← ofHexStr fl
    match fl with
    | [f] => if tid.length = 16 ∧ sid.length = 8 then some ⟨tid, sid, f⟩ else none
    | _ => none
  | _ => none

def parseBuf (s : String) : Option Nat := (parseNat s).bind fun n => if n < 100000 then some n else none

/-- `<kind>#<buf>/<payload>` -/
def splitBufArg (tok : String) : Option (String × Nat × String) :=
  match tok.splitOn "#" with
  | [kind, rest] =>
    match rest.splitOn "/" with
    | [b, payload] => (parseBuf b).map fun b => (kind, b, payload)
    | _ => none
  | _ => none

def parseArg (tok : String) : Option Arg :=
  if tok.contains '#' then
    match splitBufArg tok with
    | some (kind, b, payload) =>
      if kind = "attrs" ∨ kind = "attrsb" ∨ kind = "attrss" ∨ kind = "attrsi" ∨ kind = "attrsw" then (parseAttrs payload).map (Arg.attributes b)
      else if kind = "body" then (parseValue payload).map (Arg.body b)
      else if kind = "bodysv" ∨ kind = "bodystd" then
        match parseValue payload with
        | some (.str s) => some (Arg.body b (.str s))
        | _ => none
      else if kind = "bodycs" then
        match parseValue payload with
        | some (.cstr s) => some (Arg.body b (.cstr s))
        | _ => none
      else none
    | none => none
  else
    match tok.splitOn ":" with
    | ["sev", n] => (parseNat n).bind fun n => if n < 256 then some (Arg.severity n) else none
    | ["eid", id] => (parseI 64 id).map fun id => Arg.eventId id none
    | ["eid", id, name] => do pure (Arg.eventId (← parseI 64 id) (some (← ofHexStr name)))
    | ["ctx", c] => (parseIdentity c).map fun i => Arg.spanContext i.traceId i.spanId i.flags
    | ["sid", x] => (ofHexStr x).bind fun b => if b.length = 8 then some (Arg.spanId b) else none
    | ["tid", x] => (ofHexStr x).bind fun b => if b.length = 16 then some (Arg.traceId b) else none
    | ["fl", x] => (ofHexStr x).bind fun b => match b with | [f] => some (Arg.traceFlags f) | _ => none
    | ["ts", t] => (parseI 64 t).map Arg.timestamp
    | ["tp", t] => (parseI 64 t).map Arg.timestamp
    | _ => none

def parseThread (s : String) : Option Nat := (parseNat s).bind fun n => if n < 3 then some n else none
def parseRid (s : String) : Option Nat := (parseNat s).bind fun n => if n < 100000 then some n else none
def parseEnabled (s : String) : Option Bool := if s = "e" then some true else if s = "d" then some false else none

def parseLogOp : List String → Option Op
  | ["push", t, sp] => do pure (.push (← parseThread t) (← parseIdentity sp))
  | ["pushc", t, sp] => do pure (.push (← parseThread t) (← parseIdentity sp))
  -- the topmost context's span entry carries no span: `CreateLogRecord` copies nothing, the ids read as zeros - the same
  -- observation as an active span whose ids are all zero
  | ["pushn", t] => do pure (.push (← parseThread t) zeroIdentity)
  | ["pushnc", t] => do pure (.push (← parseThread t) zeroIdentity)
  | ["pushx", t] => do pure (.push (← parseThread t) zeroIdentity)
  | ["pop", t] => do pure (.pop (← parseThread t))
  | ["create", t, e, r] => do pure (.create (← parseThread t) (← parseEnabled e) (← parseRid r))
  | ["set", r, a] => do pure (.set (← parseRid r) (← parseArg a))
  | "emit" :: t :: e :: target0 :: args => do
    -- `new:<via>`: the same record, emitted through one of the convenience entry points of logs::Logger (Trace … Fatal,
    -- Log(severity, …)); they are the variadic EmitLogRecord with up to four arguments, so the model sees a plain emit
    let (target, via) := (match target0.splitOn ":" with
      | [a, b] => (a, some b)
      | _ => (target0, none))
    if via.isSome && target != "new" then none
    if args.length > (if via.isSome then 4 else 2) then none
    let target ← (if target = "new" then some Target.fresh else if target = "null" then some Target.null
                  else (parseRid target).map Target.existing)
    pure (.emit (← parseThread t) (← parseEnabled e) target (← args.mapM parseArg))
  | ["scribble", b] => (parseBuf b).map .scribble
  | ["free", b] => (parseBuf b).map .free
  | ["flush"] => some .flush
  | _ => none

def argBufs : Arg → List Nat
  | .attributes b _ => [b]
  | .body b _ => [b]
  | _ => []

def opBufs : Op → List Nat
  | .set _ a => argBufs a
  | .emit _ _ _ args => args.flatMap argBufs
  | _ => []

def parseLogCfg : List String → Option Cfg
  | [procs, res, scope] => do
    let cs := procs.toList
    if cs.isEmpty || cs.length > 8 then none
    let procs ← cs.mapM fun c => if c = 's' then some ProcKind.simple else if c = 'b' then some ProcKind.batch else none
    let res ← ofHexStr res
    match scope.splitOn "/" with
    | [n, v, u] =>
      let n ← ofHexStr n
      if n.isEmpty then none
      pure { procs := procs, resource := res, scope := ⟨n, ← ofHexStr v, ← ofHexStr u⟩ }
    | _ => none
  | _ => none

def showRead (r : Read) : String :=
  match r with
  | .ok v => toString v.index ++ ":" ++ showOwnedPayload (convert v)
  | .uaf => "UAF"

def showSeen (r : Seen) : String :=
  let sorted := r.attrs.mergeSort fun a b => bytesLe a.1 b.1
  "{sev=" ++ toString r.severity ++ " body=" ++ showRead r.body
    ++ " attrs=[" ++ ",".intercalate (sorted.map fun kv => hexArg kv.1 ++ "=" ++ showRead kv.2) ++ "]"
    ++ " ts=" ++ toString r.timestamp ++ " eid=" ++ toString r.eventId ++ " ename=" ++ hexArg r.eventName
    ++ " tid=" ++ hexArg r.identity.traceId ++ " sid=" ++ hexArg r.identity.spanId ++ " fl=" ++ hexArg [r.identity.flags]
    ++ " res=" ++ (match r.resource with | none => "null" | some x => hexArg x)
    ++ " scope=" ++ (match r.scope with | none => "null" | some s => hexArg s.name ++ "/" ++ hexArg s.version ++ "/" ++ hexArg s.schema)
    ++ "}"

def seenHasUaf (r : Seen) : Bool := r.body == Read.uaf || r.attrs.any fun kv => kv.2 == Read.uaf

def showLogProc (i : Nat) (p : Proc) : String :=
  "p" ++ toString i ++ ":" ++ (match p.kind with | .simple => "s" | .batch => "b") ++ ":n=" ++ toString p.onEmit
    ++ ":x=[" ++ ";".intercalate (p.exports.map fun b => "[" ++ ";".intercalate (b.map showSeen) ++ "]") ++ "]"

def handleLog (toks : List String) : String :=
  match splitOps toks with
  | [] => "bad-op"
  | cfgToks :: opToks =>
    match parseLogCfg cfgToks, opToks.mapM parseLogOp with
    | some cfg, some ops =>
      let bufs := ops.flatMap opBufs
      if bufs.eraseDups.length ≠ bufs.length then "bad-op" else
      let s := run cfg ops
      if s.procs.any fun p => p.exports.any fun b => b.any seenHasUaf then "CRASH asan:heap-use-after-free" else
      " | ".intercalate ((List.range s.procs.length).zipWith showLogProc s.procs)
    | _, _ => "bad-op"

def C13.handlers : List (String × (List String → String)) := [("log", handleLog)]

end Driver
