import Driver.Util
import OtelVerif.Model.RelAcqSpin
import OtelVerif.Model.RelAcqSlot
namespace Driver
open Otel Otel.RelAcq

/-- `rlx | con | acq | rel | ar | sc`, or `gen` = the order written in the source at this position -/
def moTok (tok : String) (gen : MO) : Option MO :=
  if tok = "gen" then some gen
  else if tok = "rlx" then some .rlx else if tok = "con" then some .con else if tok = "acq" then some .acq
  else if tok = "rel" then some .rel else if tok = "ar" then some .acqRel else if tok = "sc" then some .sc else none

/-- an action token: one letter, then naturals separated by `:` -/
def actTok (tok : String) : Option (Char × List Nat) :=
  match tok.toList with
  | c :: rest =>
    let parts := (String.ofList rest).splitOn ":"
    let nums := parts.map String.toNat?
    if nums.all Option.isSome then some (c, nums.map (·.getD 0)) else none
  | [] => none

def spinAct : Char × List Nat → Option Spin.Act
  | ('b', [p]) => some (.begin p false)
  | ('t', [p]) => some (.begin p true)
  | ('l', [p, k]) => some (.load p k)
  | ('x', [p]) => some (.xchg p)
  | ('r', [p]) => some (.csRead p)
  | ('w', [p]) => some (.csWrite p)
  | ('u', [p]) => some (.unlock p)
  | _ => none

def slotAct : Char × List Nat → Option Slot.Act
  | ('s', [p]) => some (.start p)
  | ('i', [p]) => some (.init p)
  | ('c', [p, i]) => some (.casOk p i)
  | ('f', [p, i, k, sp]) => if sp ≤ 1 then some (.casFail p i k (sp == 1)) else none
  | ('g', [p]) => some (.giveUp p)
  | ('m', [p]) => some (.commit p)
  | ('n', [p]) => some (.undo p)
  | ('k', [p]) => some (.chk p)
  | ('T', [c, i]) => some (.take c i false)
  | ('R', [c, i]) => some (.take c i true)
  | ('d', [c]) => some (.tread c)
  | ('D', [c]) => some (.tdel c)
  | _ => none

def natList (l : List Nat) : String := ",".intercalate (l.map toString)

/-- `ramem spin <tryLoad> <tryXchg> <lockXchg> <unlockSt> <nthreads> ; <action> ; …`; a disabled action is skipped and
    counted.  Output: race flag, skipped actions, cell value, completed critical sections, number of `flag_` messages,
    and every thread's view of (flag, cell). -/
def handleRaSpin (cfg : List String) (acts : List (List String)) : String :=
  match cfg with
  | [a, b, c, d, n] =>
    let g := Spin.genOrders
    match moTok a g.tryLoad, moTok b g.tryXchg, moTok c g.lockXchg, moTok d g.unlockSt, n.toNat? with
    | some a, some b, some c, some d, some n =>
      if n = 0 ∨ n > 8 then "bad-op" else
      let o : Spin.Orders := { tryLoad := a, tryXchg := b, lockXchg := c, unlockSt := d }
      let (s, skip, bad) := acts.foldl (fun (acc : Spin.St × Nat × Bool) t =>
        let (s, skip, bad) := acc
        match t with
        | [tok] => match (actTok tok).bind spinAct with
          | some act => match Spin.step o s act with
            | some s' => (s', skip, bad)
            | none => (s, skip + 1, bad)
          | none => (s, skip, true)
        | _ => (s, skip, true)) (Spin.init, 0, false)
      if bad then "bad-op" else
      let views := (List.range n).map fun t => s!"{(s.m.views t).get Spin.flagL}/{(s.m.views t).get Spin.cellL}"
      s!"race={bool01 s.m.race} skip={skip} cell={(s.m.na Spin.cellL).val} cs={s.hist.length} msgs={(s.m.atom Spin.flagL).length} views=[{",".intercalate views}]"
    | _, _, _, _, _ => "bad-op"
  | _ => "bad-op"

/-- `ramem slot <casOk> <casFail> <swapX> <resetX> <nthreads> <nslots> ; <action> ; …` -/
def handleRaSlot (cfg : List String) (acts : List (List String)) : String :=
  match cfg with
  | [a, b, c, d, n, k] =>
    let g := Slot.genOrders
    match moTok a g.casOk, moTok b g.casFail, moTok c g.swapX, moTok d g.resetX, n.toNat?, k.toNat? with
    | some a, some b, some c, some d, some n, some k =>
      if n = 0 ∨ n > 8 ∨ k = 0 ∨ k > 8 then "bad-op" else
      let o : Slot.Orders := { casOk := a, casFail := b, swapX := c, resetX := d }
      let (s, skip, bad) := acts.foldl (fun (acc : Slot.St × Nat × Bool) t =>
        let (s, skip, bad) := acc
        match t with
        | [tok] => match (actTok tok).bind slotAct with
          | some act => match Slot.step o s act with
            | some s' => (s', skip, bad)
            | none => (s, skip + 1, bad)
          | none => (s, skip, true)
        | _ => (s, skip, true)) (Slot.init, 0, false)
      if bad then "bad-op" else
      let seen := s.seen.reverse.map fun (t, e, v) => s!"{t}:{e}:{v}"
      let slots := (List.range k).map fun i => s.m.latestVal (Slot.slotL i)
      let clks := (List.range s.nextId).map fun e => (s.m.na (Slot.payL e)).clk
      let views := (List.range n).map fun t => "/".intercalate ((List.range s.nextId).map fun e => toString ((s.m.views t).get (Slot.payL e)))
      s!"race={bool01 s.m.race} skip={skip} next={s.nextId} seen=[{",".intercalate seen}] slots=[{natList slots}] clk=[{natList clks}] views=[{",".intercalate views}]"
    | _, _, _, _, _, _ => "bad-op"
  | _ => "bad-op"

def handleRaMem (toks : List String) : String :=
  match splitOps toks with
  | ("spin" :: cfg) :: acts => handleRaSpin cfg acts
  | ("slot" :: cfg) :: acts => handleRaSlot cfg acts
  | _ => "bad-op"

def C11Mem.handlers : List (String × (List String → String)) := [("ramem", handleRaMem)]

end Driver
