import Driver.Util
import OtelVerif.Model.Fanout
/-! Engine word `fan`: `fan <layer> <child>,<child>,… ; <op> ; <op> …`

* layer: `ms` MultiSpanProcessor, `tp` TracerProvider, `ml` MultiLogRecordProcessor, `lp` LoggerProvider, `mp` MeterProvider
* child: `<kind>:<flush script>:<shutdown script>`; kind `r` raw (for `mp`: a reader), `s` simple processor, `b` batch
  processor; flush script over `t f T F` (capital = slow), shutdown script over `t f`, `-` = empty; no children: `-`
* op: `f<T>` ForceFlush, `s<T>` Shutdown with `T` in `z k l m` (zero, 20 ms, 1 h, max); `e` one record through the layer;
  `d` destroy; `c<i>` / `rs<i>` / `rf<i>` reader i's Collect / Shutdown / ForceFlush called directly (`mp` only).
  A case that does not end destroyed is destroyed at the end (segment `end`).

Output: one segment per op, ` ; `-joined: the observation, then the events it caused in order; last a segment
`sum c<i>:F<ForceFlush calls received>:S<Shutdown calls received>:X<exporter Shutdown calls>` per child. -/
namespace Driver
open Otel.Fanout

namespace C02Fanout

def layerOf : String → Option Layer
  | "ms" => some .multiSpan
  | "tp" => some .tracerProvider
  -- how the provider is built (vector / single-processor + AddProcessor / default constructor / from a context / views):
  -- all of them must be the same provider
  | "tpv" => some .tracerProvider
  | "tpp" => some .tracerProvider
  | "lpv" => some .loggerProvider
  | "lpp" => some .loggerProvider
  | "lpd" => some .loggerProvider
  | "mpc" => some .meterProvider
  | "mpv" => some .meterProvider
  -- … and through the factories (f: the provider's / multi processor's factory, g: over the context's factory)
  | "tpf" => some .tracerProvider
  | "tpg" => some .tracerProvider
  | "lpf" => some .loggerProvider
  | "lpg" => some .loggerProvider
  | "mpf" => some .meterProvider
  | "mpg" => some .meterProvider
  | "mlf" => some .multiLog
  | "ml" => some .multiLog
  | "lp" => some .loggerProvider
  | "mp" => some .meterProvider
  | _ => none

def fscriptOf (s : String) : Option (List (Bool × Bool)) :=
  if s = "-" then some [] else
  s.toList.mapM fun
    | 't' => some (true, false)
    | 'f' => some (false, false)
    | 'T' => some (true, true)
    | 'F' => some (false, true)
    | _ => none

def sscriptOf (s : String) : Option (List Bool) :=
  if s = "-" then some [] else
  s.toList.mapM fun
    | 't' => some true
    | 'f' => some false
    | _ => none

def kindOf (l : Layer) : String → Option Kind
  | "r" => some (if l = .meterProvider then .reader else .raw)
  | "s" => match l with
    | .multiSpan | .tracerProvider => some .simpleSpan
    | .multiLog | .loggerProvider => some .simpleLog
    | .meterProvider => none
  | "b" => if l = .meterProvider then none else some .batch
  | _ => none

def childOf (l : Layer) (s : String) : Option Child :=
  match s.splitOn ":" with
  | [k, fs, ss] => do
    let k ← kindOf l k
    let fs ← fscriptOf fs
    let ss ← sscriptOf ss
    if fs.length > 16 ∨ ss.length > 16 then none else
    -- a batch child's exporter ForceFlush result is not scripted (the processor ignores it)
    if k = .batch ∧ fs ≠ [] then none else
    pure (Child.mk' k fs ss)
  | _ => none

def childrenOf (l : Layer) (s : String) : Option (List Child) :=
  if s = "-" then some [] else do
    let cs ← (s.splitOn ",").mapM (childOf l)
    if cs.length > 4 then none else pure cs

def toOf : Char → Option TO
  | 'z' => some .zero
  | 'k' => some .short
  | 'l' => some .long
  | 'm' => some .max
  | _ => none

def idxOf (s : String) : Option Nat :=
  match s.toNat? with
  | some n => if n < 4 ∧ s.length = 1 then some n else none
  | none => none

def opOf (s : String) : Option Op :=
  match s.toList with
  | ['f', t] => (toOf t).map .flush
  | ['s', t] => (toOf t).map .shutdown
  | ['e'] => some .emit
  | ['d'] => some .destroy
  | ['c', i] => (idxOf (String.ofList [i])).map .collect
  | ['r', 's', i] => (idxOf (String.ofList [i])).map .readerShutdown
  | ['r', 'f', i] => (idxOf (String.ofList [i])).map .readerFlush
  | _ => none

def tcStr : TC → String
  | .zero => "0"
  | .short => "k"
  | .long => "l"
  | .max => "m"
  | .nsmax => "n"
  | .rem => "r"
  | .huge => "h"

/-- a batch child's `Export` calls are made by its worker thread: not part of the canonical line -/
def evStr (kinds : List Kind) : Nat × CEv → Option String
  | (i, .flush tc r) => some s!"c{i}:F:{tcStr tc}={bool01 r}"
  | (i, .shutdown tc r) => some s!"c{i}:S:{tcStr tc}={bool01 r}"
  | (i, .onEnd) => some s!"c{i}:E"
  | (i, .dtor) => some s!"c{i}:~"
  | (i, .collect) => some s!"c{i}:C"
  | (i, .xFlush r) => some s!"x{i}:F={bool01 r}"
  | (i, .xShutdown r) => some s!"x{i}:S={bool01 r}"
  | (i, .xExport n) => if kinds[i]? = some Kind.batch then none else some s!"x{i}:E{n}"
  | (i, .bstate q xs) => some s!"c{i}:q{q}:xs{xs}"

def obsStr (op : String) : Obs → String
  | .ret b => s!"{op}={bool01 b}"
  | .done => op
  | .gone => "gone"
  | .na => "na"

def opName : Op → String
  | .flush _ => "f"
  | .shutdown _ => "s"
  | .emit => "e"
  | .destroy => "d"
  | .collect _ => "c"
  | .readerShutdown _ => "rs"
  | .readerFlush _ => "rf"

def segStr (kinds : List Kind) (name : String) (o : Obs × Evs) : String :=
  " ".intercalate (obsStr name o.1 :: o.2.filterMap (evStr kinds))

def handleFan (toks : List String) : String :=
  match splitOps toks with
  | [l, cs] :: ops =>
    match layerOf l with
    | none => "bad-op"
    | some l =>
      match childrenOf l cs, ops.mapM (fun o => match o with | [t] => opOf t | _ => none) with
      | some cs, some ops =>
        if ops.length > 64 then "bad-op" else
        let kinds := cs.map (·.kind)
        let p0 := Prov.init l cs
        let r := p0.run ops
        let segs := (ops.zip r.2).map fun (op, o) => segStr kinds (opName op) o
        let pf := if r.1.alive then r.1.destroy.1 else r.1
        let fin := if r.1.alive then [segStr kinds "end" (let d := r.1.destroy; (Obs.done, d.2))] else []
        -- the counters the theorems speak about, read from each child's own log
        let sums := (List.range pf.children.length).zip pf.children |>.map fun (i, c) =>
          s!"c{i}:F{c.nFlush}:S{c.nShutdown}:X{c.nXShutdown}"
        " ; ".intercalate (segs ++ fin ++ [" ".intercalate ("sum" :: sums)])
      | _, _ => "bad-op"
  | _ => "bad-op"

end C02Fanout

def C02Fanout.handlers : List (String × (List String → String)) := [("fan", C02Fanout.handleFan)]

end Driver
