import Driver.Util
import OtelVerif.Model.Nostd
namespace Driver
open Otel Otel.Nostd

namespace C20

def natTok (s : String) : Option Nat :=
  match s.toNat? with
  | some n => if toString n = s then some n else none
  | none => none

/-- a `size_t` argument -/
def sizeTok (s : String) : Option Nat := (natTok s).bind fun n => if n < 2 ^ 64 then some n else none

def intTok (s : String) : Option Int :=
  match s.toInt? with
  | some n => if toString n = s ∧ -(2 : Int) ^ 63 ≤ n ∧ n < 2 ^ 63 then some n else none
  | none => none

def sign (x : Int) : String := if x < 0 then "-1" else if x > 0 then "1" else "0"

def optSign : Option Int → String
  | some x => sign x
  | none => "oor"

def both (s : String) : String := s ++ "|" ++ s

/-! ### string_view -/

def svOp (a b : Bytes) : List String → Option String
  | ["cmp"] => some (sign (compare a b))
  | ["eq"] => some (bool01 (eq a b))
  | ["ne"] => some (bool01 (!eq a b))
  | ["lt"] => some (bool01 (lt a b))
  | ["gt"] => some (bool01 (gt a b))
  | ["find", ch, pos] => do
    let c ← ofHexStr ch
    let pos ← sizeTok pos
    match c with
    | [c] => pure (match find a c pos with | some i => toString i | none => "npos")
    | _ => none
  | ["substr", pos, n] => do
    let pos ← sizeTok pos
    let n ← sizeTok n
    pure (match substr a pos n with | some r => hexArg r | none => "oor")
  | ["cmp3", p1, n1] => do pure (optSign (compare3 a (← sizeTok p1) (← sizeTok n1) b))
  | ["cmp5", p1, n1, p2, n2] => do
    pure (optSign (compare5 a (← sizeTok p1) (← sizeTok n1) b (← sizeTok p2) (← sizeTok n2)))
  | ["cmpc"] => some (sign (compare a (ofCStr b)))
  | ["hash"] => some "ok"
  | ["at", i] => do
    let i ← sizeTok i
    let c ← a[i]?
    pure (hexArg [c])
  | ["size"] => some (toString a.length ++ (if a.isEmpty then "e" else "n"))
  | ["iter"] => some (hexArg a)
  | ["cstr"] => some (hexArg (ofCStr a))
  | ["str"] => some (hexArg a)
  | ["eqs"] => some (bool01 (eq a b) ++ bool01 (eq a b))
  | ["eqc"] => some (bool01 (eq a (ofCStr b)))
  | ["os"] => some (hexArg a)
  -- further overloads of the same operations: `compare(pos, n, const char*)`, `compare(pos, n, const char*, count2)`,
  -- the mixed `!=` / reversed `==` forms, the default-constructed view
  | ["cmp3c", p1, n1] => do pure (optSign (compare3 a (← sizeTok p1) (← sizeTok n1) (ofCStr b)))
  | ["cmp4c", p1, n1, c2] => do
    let c2 ← sizeTok c2
    if c2 > b.length then none else
    pure (optSign (compare3 a (← sizeTok p1) (← sizeTok n1) (b.take c2)))
  | ["nes"] => some (bool01 (!eq a b) ++ bool01 (!eq a b))
  | ["nec"] => some (bool01 (!eq a (ofCStr b)) ++ bool01 (!eq (ofCStr b) a))
  | ["ceq"] => some (bool01 (eq (ofCStr b) a))
  | ["dflt"] => some ("0e" ++ sign (compare a []) ++ bool01 (eq [] []))
  | _ => none

def handleSv (toks : List String) : String :=
  match splitOps toks with
  | [a, b] :: ops =>
    match ofHexStr a, ofHexStr b with
    | some a, some b =>
      match ops.mapM (svOp a b) with
      | some outs => " ; ".intercalate (outs.map both)
      | none => "bad-op"
    | _, _ => "bad-op"
  | _ => "bad-op"

/-! ### span -/

def showElems (bs : Bytes) : String := toString bs.length ++ ":" ++ hexArg bs

def showSpanRes : SpanRes → String
  | .elems bs => showElems bs
  | .terminate => "terminate"

def fixedExtents : List Nat := [0, 1, 2, 3, 4, 8]

def spOp (base : Bytes) : List String → Option String
  | ["dyn", off, cnt] => do pure (showElems (← slice base (← sizeTok off) (← sizeTok cnt)))
  | ["rng", off, cnt] => do pure (showElems (← slice base (← sizeTok off) (← sizeTok cnt)))
  | ["copy", off, cnt] => do pure (showElems (← slice base (← sizeTok off) (← sizeTok cnt)))
  | ["conv", off, cnt] => do pure (showElems (← slice base (← sizeTok off) (← sizeTok cnt)))
  | ["fix", n, off, cnt] => do
    let n ← sizeTok n
    if ¬ fixedExtents.contains n then none else
    pure (showSpanRes (← fixedSpan base n (← sizeTok off) (← sizeTok cnt)))
  | ["convfix", n, off] => do
    let n ← sizeTok n
    if ¬ fixedExtents.contains n then none else
    pure (showElems (← slice base (← sizeTok off) n))
  | ["vec"] => some (showElems base)
  | ["arr"] => do pure (showElems (← slice base 0 4))
  | ["carr"] => do pure (showElems (← slice base 0 4))
  | ["get", off, cnt, i] => do
    let s ← slice base (← sizeTok off) (← sizeTok cnt)
    pure (match spanGet s (← sizeTok i) with | some c => hexArg [c] | none => "oob")
  | ["empty", off, cnt] => do
    let s ← slice base (← sizeTok off) (← sizeTok cnt)
    pure (bool01 s.isEmpty)
  | ["default"] => some (showElems [])
  -- static extent from a whole container; `operator[]` of a static-extent span; the std::array constructors and
  -- nostd::data / nostd::size over the first four elements
  | ["cfix", n] => do
    let n ← sizeTok n
    if ¬ fixedExtents.contains n then none else
    pure (showSpanRes (← fixedSpan base n 0 base.length))
  | ["getf", n, off, i] => do
    let n ← sizeTok n
    if ¬ fixedExtents.contains n then none else
    let s ← slice base (← sizeTok off) n
    pure (match spanGet s (← sizeTok i) with | some c => hexArg [c] | none => "oob")
  | ["arr2"] => do pure (showElems (← slice base 0 4))
  | ["util"] => do pure (showElems (← slice base 0 4))
  | _ => none

def handleSp (toks : List String) : String :=
  match splitOps toks with
  | [b] :: ops =>
    match ofHexStr b with
    | some b =>
      match ops.mapM (spOp b) with
      | some outs => " ; ".intercalate (outs.map both)
      | none => "bad-op"
    | none => "bad-op"
  | _ => "bad-op"

/-! ### ownership machines -/

def showSlot : Slot → String
  | none => "x"
  | some none => "-"
  | some (some o) => toString o

def showCnt (n : Nat) : String := if n = 0 then "L" else s!"D{n}"

def showPtrObs : PtrObs → String
  | .none => "."
  | .target none => "null"
  | .target (some o) => s!"o{o}"
  | .flag b => bool01 b

def showSh (s : Sh) : String :=
  "h=[" ++ ",".intercalate ((List.range s.k).map fun h => showSlot (s.slot h)) ++ "] o=[" ++
    ",".intercalate ((List.range s.next).map fun o => showCnt (s.cnt o)) ++ "]"

def showUn (s : Un) : String :=
  "h=[" ++ ",".intercalate ((List.range s.k).map fun h => showSlot (s.slot h)) ++ "] o=[" ++
    ",".intercalate ((List.range s.next).map fun o => showCnt (s.cnt o)) ++ "] r=[" ++
    ",".intercalate ((List.range s.nraw).map fun r => match s.raw r with | some o => toString o | none => "-") ++ "]"

/-- the API variant after the dot (`ctorp.su`, …) selects which overload the harness calls; same model operation -/
def baseName (s : String) : String := (s.splitOn ".").headD ""

def variantOk (s : String) (allowed : List String) : Bool :=
  match s.splitOn "." with
  | [_] => true
  | [_, v] => allowed.contains v
  | _ => false

def parseShOp : List String → Option ShOp
  | [op, h] => do
    let h ← natTok h
    match baseName op with
    | "ctor" => if variantOk op [] then some (.ctor h) else none
    | "ctorp" => if variantOk op ["u", "su", "ss", "d"] then some (.ctorp h) else none
    | "dtor" => if variantOk op [] then some (.dtor h) else none
    | "asgn" => if variantOk op [] then some (.asgn h) else none
    | "asgp" => if variantOk op [] then some (.asgp h) else none
    | "get" => if variantOk op [] then some (.get h) else none
    | _ => none
  | [op, h, g] => do
    let h ← natTok h
    let g ← natTok g
    match op with
    | "ctorc" => some (.ctorc h g)
    | "ctorm" => some (.ctorm h g)
    | "asgc" => some (.asgc h g)
    | "asgm" => some (.asgm h g)
    | "swap" => some (.swap h g)
    | "eq" => some (.eq h g)
    | _ => none
  | _ => none

def runSh : Sh → List (List String) → List String → Option (Sh × List String)
  | s, [], acc => some (s, acc.reverse)
  | s, o :: os, acc =>
    match parseShOp o with
    | none => none
    | some op =>
      match s.step op with
      | none => none
      | some (s', ob) => runSh s' os ((showPtrObs ob ++ " " ++ showSh s') :: acc)

def handleShp (toks : List String) : String :=
  match splitOps toks with
  | [k] :: ops =>
    match natTok k with
    | some k =>
      if k = 0 ∨ k > 6 then "bad-op" else
      match runSh (Sh.init k) ops [] with
      | some (s, outs) => " ; ".intercalate ((outs ++ ["end " ++ showSh s.finish]).map both)
      | none => "bad-op"
    | none => "bad-op"
  | _ => "bad-op"

def parseUnOp : List String → Option UnOp
  | [op, h] => do
    let h ← natTok h
    match baseName op with
    | "ctor" => if variantOk op ["n"] then some (.ctor h) else none
    | "ctorp" => if variantOk op ["su", "d"] then some (.ctorp h) else none
    | "dtor" => if variantOk op [] then some (.dtor h) else none
    | "asgn" => if variantOk op [] then some (.asgn h) else none
    | "asgp" => if variantOk op ["su", "d"] then some (.asgp h) else none
    | "reset" => if variantOk op [] then some (.reset h) else none
    | "resetp" => if variantOk op [] then some (.resetp h) else none
    | "release" => if variantOk op [] then some (.release h) else none
    | "del" => if variantOk op [] then some (.del h) else none
    | "tostd" => if variantOk op [] then some (.tostd h) else none
    | "get" => if variantOk op [] then some (.get h) else none
    | _ => none
  | [op, h, g] => do
    let h ← natTok h
    let g ← natTok g
    match op with
    | "ctorm" => some (.ctorm h g)
    | "asgm" => some (.asgm h g)
    | "adopt" => some (.adopt h g)
    | "swap" => some (.swap h g)
    | "eq" => some (.eq h g)
    | _ => none
  | _ => none

def runUn : Un → List (List String) → List String → Option (Un × List String)
  | s, [], acc => some (s, acc.reverse)
  | s, o :: os, acc =>
    match parseUnOp o with
    | none => none
    | some op =>
      match s.step op with
      | none => none
      | some (s', ob) => runUn s' os ((showPtrObs ob ++ " " ++ showUn s') :: acc)

def handleUp (toks : List String) : String :=
  match splitOps toks with
  | [k] :: ops =>
    match natTok k with
    | some k =>
      if k = 0 ∨ k > 6 then "bad-op" else
      match runUn (Un.init k) ops [] with
      | some (s, outs) => " ; ".intercalate ((outs ++ ["end " ++ showUn s.finish]).map both)
      | none => "bad-op"
    | none => "bad-op"
  | _ => "bad-op"

/-! ### variant, function_ref -/

def showVar : Var → String
  | .mono => "m"
  | .b x => "b:" ++ bool01 x
  | .i x => s!"i:{x}"
  | .s x => "s:" ++ hexArg x

def parseVar (s : String) : Option Var :=
  match s.splitOn ":" with
  | ["m"] => some .mono
  | ["b", "0"] => some (.b false)
  | ["b", "1"] => some (.b true)
  | ["i", x] => (intTok x).map .i
  | ["s", x] => (ofHexStr x).map .s
  | _ => none

/-- the visitor both sides use: a description of the alternative it was called with -/
def visitShow (v : Var) : String :=
  v.visit "mono" (fun x => "bool" ++ bool01 x) (fun x => s!"int{x}") (fun x => "str" ++ toString x.length)

def runVar : Var → List (List String) → List String → Option (List String)
  | _, [], acc => some acc.reverse
  | v, o :: os, acc =>
    match o with
    | ["set", x] => match parseVar x with
      | some v' => runVar v' os (("idx=" ++ toString v'.index) :: acc)
      | none => none
    | ["get", i] => match natTok i with
      | some i => if i < 4 then runVar v os ((match v.get i with | some x => showVar x | none => "bad_access") :: acc) else none
      | none => none
    | ["gett", i] => match natTok i with
      | some i => if i < 4 then runVar v os ((match v.get i with | some x => showVar x | none => "bad_access") :: acc) else none
      | none => none
    | ["cget", i] => match natTok i with
      | some i => if i < 4 then runVar v os ((match v.get i with | some x => showVar x | none => "bad_access") :: acc) else none
      | none => none
    | ["getift", i] => match natTok i with
      | some i => if i < 4 then runVar v os ((match v.get i with | some x => showVar x | none => "null") :: acc) else none
      | none => none
    | ["getif", i] => match natTok i with
      | some i => if i < 4 then runVar v os ((match v.get i with | some x => showVar x | none => "null") :: acc) else none
      | none => none
    | ["holds", i] => match natTok i with
      | some i => if i < 4 then runVar v os (bool01 (v.holds i) :: acc) else none
      | none => none
    | ["index"] => runVar v os (toString v.index :: acc)
    | ["visit"] => runVar v os (visitShow v :: acc)
    | ["copy"] => runVar v os (showVar v :: acc)
    | ["move"] => runVar v os (showVar v :: acc)
    | _ => none

def handleVar (toks : List String) : String :=
  match splitOps toks with
  | [] :: ops =>
    match runVar .mono ops [] with
    | some outs => " ; ".intercalate (outs.map both)
    | none => "bad-op"
  | _ => "bad-op"

/-- `fr <k> <x> …`: callable `k` applied to `x` through a function_ref (the callables are fixed in the harness):
    0: x+1 (plain function)  1: x*3 (captureless lambda)  2: x+state where a stateful lambda's state is 10 then bumped
    3: functor adding 7 ; `null` -> operator bool -/
def frCall (k : Nat) (x : Int) : Option Int :=
  match k with
  | 0 => some (callRef (fun y : Int => y + 1) x)
  | 1 => some (callRef (fun y : Int => y * 3) x)
  | 2 => some (callRef (fun y : Int => y + 10) x)
  | 3 => some (callRef (fun y : Int => y + 7) x)
  | _ => none

def frOp : List String → Option String
  | ["call", k, x] => do
    let k ← natTok k
    let x ← intTok x
    if x < -1000000 ∨ x > 1000000 then none else
    let r ← frCall k x
    pure (toString r ++ "/1")
  | ["null"] => some "0"
  | ["nullfp"] => some "0"
  | ["callp", x] => do
    let x ← intTok x
    if x < -1000000 ∨ x > 1000000 then none else
    pure (toString (callRef (fun y : Int => y + 1) x) ++ "/1")
  | ["copy", k, x] => do
    let k ← natTok k
    let x ← intTok x
    if x < -1000000 ∨ x > 1000000 then none else
    let r ← frCall k x
    pure (toString r ++ "/1")
  | _ => none

def handleFr (toks : List String) : String :=
  match splitOps toks with
  | [] :: ops =>
    match ops.mapM frOp with
    | some outs => " ; ".intercalate (outs.map both)
    | none => "bad-op"
  | _ => "bad-op"

def handlers : List (String × (List String → String)) :=
  [("sv", handleSv), ("sp", handleSp), ("shp", handleShp), ("up", handleUp), ("var", handleVar), ("fr", handleFr)]

end C20
end Driver
