import Driver.C09
import Driver.C14
/-! Line-protocol driver: one case per input line, one canonical observation line per case.
    Imports `OtelVerif.Model.*` / `OtelVerif.Gen.*` only (no Mathlib), so it links natively. -/
namespace Driver

def dispatch (line : String) : String :=
  match (line.trimAscii.toString.splitOn " ").filter (· ≠ "") with
  | "tc" :: rest => handleTc rest
  | "ts" :: rest => handleTs rest
  | _ => "bad-op"

partial def loop (h : IO.FS.Stream) (out : IO.FS.Stream) : IO Unit := do
  let line ← h.getLine
  if line.isEmpty then return ()
  out.putStrLn (dispatch line)
  loop h out

end Driver

def main : IO Unit := do
  let out ← IO.getStdout
  Driver.loop (← IO.getStdin) out
  out.flush
