import Driver.Util
/-! `syn <temps> <nrec> <adds> <collects>`: recorders racing collectors on the real `SyncMetricStorage` under the
    deterministic scheduler.  What the C06 theorems (`sched_conservation`, `delta_conservation`,
    `cumulative_running_total`) predict for EVERY interleaving is schedule independent: after the final collection every
    reader has been given exactly what was recorded. -/
namespace Driver

def handleSyn (toks : List String) : String :=
  match splitOps toks with
  | [temps, nrec, adds, ncol] :: _ =>
    match nrec.toNat?, adds.toNat?, ncol.toNat? with
    | some nrec, some adds, some ncol =>
      if temps.isEmpty ∨ temps.length > 3 ∨ nrec = 0 ∨ nrec > 4 ∨ adds > 6 ∨ ncol > 4 ∨ temps.toList.any (fun c => c ≠ 'D' ∧ c ≠ 'C') then "bad-op"
      else
        let total := nrec * (adds * (adds + 1) / 2)
        let rs := (List.range temps.length).map fun i => s!" r{i}={total}"
        s!"done=1 rec={total}" ++ String.join rs
    | _, _, _ => "bad-op"
  | _ => "bad-op"

/-- `mrg <nthreads> <names> <adds> <kind>`: threads that each obtain their own handle of an instrument for the first time
    (`Meter::RegisterSyncMetricStorage`) and record through it.  For EVERY interleaving the get-or-create protocol under
    `storage_lock_` (the model and theorems of `Model/GetScopeLock.lean`: equal keys give the same object) and
    `multi_handle` / `sched_conservation` predict one stream per instrument that holds everything recorded through all of
    its handles. -/
def handleMrg (toks : List String) : String :=
  match splitOps toks with
  | [nth, names, adds, kind0] :: _ =>
    match nth.toNat?, adds.toNat? with
    | some nth, some adds =>
      -- `<kind>+` adds a collector thread; the cumulative reader's final total does not depend on it
      let kind := if kind0.length = 2 ∧ kind0.toList.getLast? = some '+' then (kind0.take 1).toString else kind0
      let ns := names.toList
      if nth = 0 ∨ nth > 4 ∨ ns.length ≠ nth ∨ adds = 0 ∨ adds > 5 ∨ (kind ≠ "c" ∧ kind ≠ "u" ∧ kind ≠ "h") ∨
          ns.any (fun c => ¬ (('a' ≤ c ∧ c ≤ 'c') ∨ ('A' ≤ c ∧ c ≤ 'C'))) then "bad-op"
      else
        -- lower case: the shared instrument of that letter; upper case: thread i's own instrument on its own meter
        let idx := (List.range nth).zip ns
        let shared (c : Char) : Nat := idx.foldl (fun acc (i, d) => if d = c then acc + adds * (1 + i) else acc) 0
        let own := ['A', 'B', 'C'].flatMap fun c => (idx.filter (fun (_, d) => d = c)).map fun (i, _) => (s!"{c}{i}", adds * (1 + i))
        let low := (['a', 'b', 'c'].filter (fun c => ns.contains c)).map fun c => (s!"{c}", shared c)
        let all := own ++ low
        let rec_ := ",".intercalate (all.map fun (k, v) => s!"{k}:{v}")
        let got := ",".intercalate (all.map fun (k, v) => s!"{k}:{v}/1")
        s!"done=1 rec={rec_} got={got}"
    | _, _ => "bad-op"
  | _ => "bad-op"

/-- `mpf <nflushers> <nreaders>`: threads that each record and then call `MeterProvider::ForceFlush` (C02).  For EVERY
    interleaving the fan-out model (`Model/Fanout.lean`: a provider flush goes over every child once and returns the
    conjunction) serialized by `forceflush_lock_` predicts: every call returns true and the readers are flushed
    `nflushers * nreaders` times in total. -/
def handleMpf (toks : List String) : String :=
  match splitOps toks with
  | [nfl, nrd] :: _ =>
    match nfl.toNat?, nrd.toNat? with
    | some nfl, some nrd =>
      if nfl = 0 ∨ nfl > 3 ∨ nrd = 0 ∨ nrd > 2 then "bad-op" else s!"done=1 calls={nfl * nrd} rets={nfl}"
    | _, _ => "bad-op"
  | _ => "bad-op"

def C06Race.handlers : List (String × (List String → String)) := [("syn", handleSyn), ("mrg", handleMrg), ("mpf", handleMpf)]

end Driver
