import Driver.Util
/-! `syn <temps> <nrec> <adds> <collects>`: recorders racing collectors on the real `SyncMetricStorage` under the
    deterministic scheduler.  What the C06 theorems (`sched_conservation`, `delta_conservation`,
    `cumulative_running_total`) predict for EVERY interleaving is schedule independent: after the final collection every
    reader has been given exactly what was recorded. -/
namespace Driver

def handleSyn (toks : List String) : String :=
  match splitOps toks with
  | [temps, nrec, adds, ncol] :: _ =>
    match nrec.toNat?, adds.toNat?, ncol.toNat? with
    | some nrec, some adds, some ncol =>
      if temps.isEmpty ∨ temps.length > 3 ∨ nrec = 0 ∨ nrec > 4 ∨ adds > 6 ∨ ncol > 4 ∨ temps.toList.any (fun c => c ≠ 'D' ∧ c ≠ 'C') then "bad-op"
      else
        let total := nrec * (adds * (adds + 1) / 2)
        let rs := (List.range temps.length).map fun i => s!" r{i}={total}"
        s!"done=1 rec={total}" ++ String.join rs
    | _, _, _ => "bad-op"
  | _ => "bad-op"

def C06Race.handlers : List (String × (List String → String)) := [("syn", handleSyn)]

end Driver
