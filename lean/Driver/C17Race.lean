import Driver.Util
import OtelVerif.Model.ObsRegLock
/-! `obrrace <ninst> <init> ; <event> ; <event> …`: the events of one real execution of the unmodified
    `observable_registry.cc` under the deterministic scheduler (abstracted by `props/c17_race.py`), replayed on the
    lock-protocol model `Model/ObsRegLock.lean`.  The model must accept every step the implementation took — in particular
    which callback begins next and when the loop ends — and the summary (invocations per callback, the registered list at
    the end) is compared with the implementation's. -/
namespace Driver
open Otel Otel.ObsRegLock

def parseObrEv (ninst : Nat) (tok : String) : Option ObsRegLock.Ev :=
  let reg (c : Nat) : Reg := ⟨c % ninst, c⟩
  match tok.splitOn ":" with
  | t :: rest =>
    match t.toNat? with
    | none => none
    | some t =>
      match rest with
      | ["call", "obs"] => some ⟨t, .call .observe⟩
      | ["call", "add", c] => c.toNat?.map fun c => ⟨t, .call (.add (reg c))⟩
      | ["call", "rem", c] => c.toNat?.map fun c => ⟨t, .call (.remove (reg c))⟩
      | ["call", "cln", i] => i.toNat?.map fun i => ⟨t, .call (.cleanup i)⟩
      | ["lock"] => some ⟨t, .lock⟩
      | ["unlock"] => some ⟨t, .unlock⟩
      | ["cbb", c] => c.toNat?.map fun c => ⟨t, .cbBegin (reg c)⟩
      | ["cbe", c] => c.toNat?.map fun c => ⟨t, .cbEnd (reg c)⟩
      | ["ret"] => some ⟨t, .ret⟩
      | _ => none
  | [] => none

def handleObrRace (toks : List String) : String :=
  match splitOps toks with
  | [ni, ini] :: evs =>
    match ni.toNat? with
    | some ninst =>
      if ninst = 0 ∨ ninst > 2 then "bad-op" else
      let initCs : Option (List Nat) := if ini = "-" then some [] else ini.toList.mapM fun ch => if ch.isDigit then some (ch.toNat - 48) else none
      match initCs with
      | none => "bad-op"
      | some cs =>
        let rec go (s : ObsRegLock.St) (k : Nat) : List (List String) → String
          | [] =>
            let calls := (List.range 4).map fun c => toString (s.begun.filter (fun r => r.cb == c)).length
            let cbs := s.cbs.map fun r => toString r.cb
            s!"ok calls=[{",".intercalate calls}] cbs=[{",".intercalate cbs}] lock={bool01 s.lock.isSome}"
          | [tok] :: rest =>
            match parseObrEv ninst tok with
            | none => "bad-op"
            | some e => match ObsRegLock.astep s e with
              | some s' => go s' (k + 1) rest
              | none => s!"MISMATCH at {k} {tok} pc={reprStr (s.pc e.t)} lock={reprStr s.lock} cbs={reprStr (s.cbs.map (·.cb))}"
          | _ => "bad-op"
        go (ObsRegLock.init (cs.map fun c => ⟨c % ninst, c⟩)) 0 evs
    | none => "bad-op"
  | _ => "bad-op"

def C17Race.handlers : List (String × (List String → String)) := [("obrrace", handleObrRace)]

end Driver
