import Driver.Util
import OtelVerif.Model.Sampler
namespace Driver
open Otel Otel.Sampler

def hexNat (s : String) : Option Nat :=
  s.toList.foldl (fun acc c => do
    let a ← acc
    let d ← hexDigitVal c
    pure (a * 16 + d)) (some 0)

/-- a `double` as 16 hex digits (IEEE-754 bit pattern) -/
def dblArg (s : String) : Option Dbl :=
  if s.length ≠ 16 then none else (hexNat s).map Dbl.ofBits

def hex16 (n : Nat) : String :=
  String.ofList ((List.range 16).reverse.map fun i =>
    let d := (n / 16 ^ i) % 16
    if d < 10 then Char.ofNat (48 + d) else Char.ofNat (87 + d))

/-- `k:v,k:v` with hex tokens; `-` = no entries -/
def entriesArg (s : String) : Option TraceStateEntries :=
  if s = "-" then some [] else
  (s.splitOn ",").foldr (fun m acc => do
    let r ← acc
    match m.splitOn ":" with
    | [k, v] => do
      let k ← ofHexStr k
      let v ← ofHexStr v
      pure ((k, v) :: r)
    | _ => none) (some [])

def decisionOfCode : String → Option Decision
  | "0" => some .drop
  | "1" => some .recordOnly
  | "2" => some .recordAndSample
  | _ => none

def decisionCode : Decision → String
  | .drop => "0"
  | .recordOnly => "1"
  | .recordAndSample => "2"

/-- sampler spec: `pb/pb/<leaf>`, leaf = `on` | `off` | `ratio=<bits>` | `custom=<dec>=<null|entries>` -/
def samplerArg (s : String) : Option Sampler :=
  let rec go : List String → Option Sampler
    | [] => none
    | [leaf] =>
      match leaf.splitOn "=" with
      | ["on"] => some .alwaysOn
      | ["off"] => some .alwaysOff
      | ["ratio", b] => (dblArg b).bind mkRatio
      | ["custom", d, ts] => do
        let d ← decisionOfCode d
        let ts ← if ts = "null" then some none else (entriesArg ts).map some
        pure (.custom fun _ => ⟨d, ts⟩)
      | _ => none
    | "pb" :: rest => (go rest).map .parentBased
    | _ => none
  go (s.splitOn "/")

/-- parent: `none` | `<tid>/<sid>/<flags>/<remote>/<entries>` -/
def parentArg (s : String) : Option SpanContext :=
  if s = "none" then some SpanContext.invalid else
  match s.splitOn "/" with
  | [tid, sid, fl, rem, ts] => do
    let tid ← ofHexStr tid
    let sid ← ofHexStr sid
    let fl ← ofHexStr fl
    let ts ← entriesArg ts
    match fl, rem with
    | [f], "0" => if tid.length = 16 ∧ sid.length = 8 then some ⟨tid, sid, f, false, ts⟩ else none
    | [f], "1" => if tid.length = 16 ∧ sid.length = 8 then some ⟨tid, sid, f, true, ts⟩ else none
    | _, _ => none
  | _ => none

def showTs : Option TraceStateEntries → String
  | none => "null"
  | some es => showEntries es

def allSome {α} : List (Option α) → Option (List α)
  | [] => some []
  | none :: _ => none
  | some a :: t => (allSome t).map (a :: ·)

def traceIdArg (s : String) : Option Bytes :=
  (ofHexStr s).bind fun b => if b.length = 16 then some b else none

def handleSm : List String → String
  | "ratio" :: rest =>
    let rs := rest.takeWhile (· ≠ "ids")
    let ids := (rest.dropWhile (· ≠ "ids")).drop 1
    match allSome (rs.map dblArg), allSome (ids.map traceIdArg) with
    | some rs, some ids =>
      if rs.isEmpty then "bad-op" else
      " ; ".intercalate (rs.map fun d =>
        match thresholdD d with
        | none => "nan-ub"
        | some t =>
          let ds := ids.map fun id => if (shouldSample (.ratio t) ⟨SpanContext.invalid, id, [], 0, [], []⟩).decision = .recordAndSample then '1' else '0'
          s!"T={hex16 t} D={String.ofList ds}")
    | _, _ => "bad-op"
  | ["sample", spec, parent, tid] =>
    match samplerArg spec, parentArg parent, traceIdArg tid with
    | some s, some p, some tid =>
      let a : Args := ⟨p, tid, [], 0, [], []⟩
      let r := shouldSample s a
      s!"dec={decisionCode r.decision} ts={showTs r.traceState} calls={consults s a}"
    | _, _, _ => "bad-op"
  -- a span started through a real Tracer whose sampler is `spec` and whose id generator hands out `tid`; `how` = the way
  -- the parent is supplied: c (options.parent = SpanContext) | x (options.parent = Context with the span) | a (the span
  -- active on the thread) | r (the span active on the thread, options.parent = Context with is_root_span)
  | ["span", spec, parent, tid, how] =>
    let via : Option ParentVia := (match how with
      | "c" => some .spanContext
      | "x" => some .context
      | "a" => some .active
      | "r" => some .root
      | _ => none)
    match samplerArg spec, parentArg parent, traceIdArg tid, via with
    | some s, some p, some tid, some via =>
      let st := sampleSpan s via p tid
      let dec := if st.sampled then "2" else if st.recording then "1" else "0"
      s!"dec={dec} ts={showEntries st.traceState} calls={st.consulted} tid={hexArg st.traceId} sdec={decisionCode st.result.decision}"
    | _, _, _, _ => "bad-op"
  | _ => "bad-op"

def C12.handlers : List (String × (List String → String)) := [("sm", handleSm)]

end Driver
