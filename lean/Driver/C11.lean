import Driver.Util
import OtelVerif.Model.RingFine
import OtelVerif.Model.SpinLock
namespace Driver
open Otel Otel.RingFine

def showIds (l : List Nat) : String := "[" ++ ",".intercalate (l.map fun e => s!"e{e}") ++ "]"

/-- `ring <max_size> <nprod> <adds> <creq> <rounds> ; <action> ; …` with actions `p<i>` | `p<i>!` (spurious CAS
    failure) | `c`.  Output: one trace per action, then the end-of-case summary. -/
def handleRing (toks : List String) : String :=
  match splitOps toks with
  | [ms, np, ad0, cr, rd0] :: acts =>
    -- optional suffixes: `<adds>m` (producers use the rvalue `Add` overload: same accesses), `<rounds>q|k|n|d` (after the
    -- drain the harness reads max_size / empty / production_count / consumption_count / Peek and takes the rest out with
    -- Consume(n, cb) / Clear() / Consume(n) / by destroying the buffer: all read off the final model state)
    let ad := if ad0.endsWith "m" then (ad0.dropEnd 1).toString else ad0
    let endMode : Option Char := match rd0.toList.getLast? with
      | some c => if "qknd".toList.contains c then some c else none
      | none => none
    let rd := if endMode.isSome then (rd0.dropEnd 1).toString else rd0
    match ms.toNat?, np.toNat?, ad.toNat?, cr.toNat?, rd.toNat? with
    | some ms, some np, some ad, some cr, some rd =>
      if ms = 0 ∨ np = 0 ∨ np > 8 then "bad-op" else
      let s0 := RingFine.init ms np ad cr rd
      let (s, outs, bad) := acts.foldl (fun (acc : St × List String × Bool) a =>
        let (s, outs, bad) := acc
        match a with
        | [tok] =>
          let act : Option (Nat × Bool) :=
            if tok = "c" then some (s.nprod, false)
            else if tok.startsWith "p" then
              let body := (tok.drop 1).toString
              let spur := body.endsWith "!"
              let num := if spur then (body.dropEnd 1).toString else body
              num.toNat?.map fun i => (i, spur)
            else none
          match act with
          | some (i, spur) =>
            if i > s.nprod ∨ (tok ≠ "c" ∧ i ≥ s.nprod) then (s, "x" :: outs, bad) else
            match stepThread s i spur with
            | some (s', t) => (s', t :: outs, bad)
            | none => (s, "x" :: outs, bad)
          | none => (s, outs, true)
        | _ => (s, outs, true)) (s0, [], false)
      if bad then "bad-op" else
      let (sf, dtr) := drain 3000 (s, [])
      let allDone := (List.range (sf.nprod + 1)).all (threadFinished sf)
      let rest0 := (sf.r.log.drop sf.r.tail)
      let q := match endMode with
        | none => ""
        | some _ => s!" q=max:{ms},empty:{bool01 rest0.isEmpty},prod:{sf.r.head},cons:{sf.r.tail},peek:{showIds rest0},n:{rest0.length},pe:{bool01 rest0.isEmpty},all:1,stop:{min 2 rest0.length}/{bool01 (rest0.length < 2)},aup:1"
      let rest := if endMode = some 'd' then rest0.mergeSort (· ≤ ·) else rest0
      let res := "[" ++ ",".intercalate (sf.rets.map fun (e, b) => s!"e{e}:{bool01 b}") ++ "]"
      let summary := s!"done={bool01 allDone} res={res} out={showIds sf.r.out} rest={showIds rest}{q} live=0"
      " ; ".intercalate (outs.reverse ++ dtr.reverse ++ [summary])
    | _, _, _, _, _ => "bad-op"
  | _ => "bad-op"

structure SpinDrv where
  s : SpinLock.St
  started : Nat → Bool
  scripts : Nat → List Char
  n : Nat

def spinEnd (d : SpinDrv) (p : Nat) : String := if (d.scripts p).isEmpty then ",end" else ""

/-- one step of thread `p` of the spin-lock harness; `none` = finished / not enabled -/
def spinStep (d : SpinDrv) (p : Nat) : Option (SpinDrv × String) :=
  if p ≥ d.n then none
  else if !d.started p then
    some ({ d with started := Ring.upd d.started p true }, if (d.scripts p).isEmpty then "end" else "-")
  else
    let b := bool01 d.s.flag
    match d.s.pcs p with
    | .idle =>
      match d.scripts p with
      | [] => none
      | c :: rest =>
        let d' := { d with scripts := Ring.upd d.scripts p rest }
        if c = 'L' then (SpinLock.step d.s (.beginLock p)).map fun s' => ({ d' with s := s' }, "lock")
        else (SpinLock.step d.s (.beginTry p)).map fun s' => ({ d' with s := s' }, "try")
    | .holding =>
      let occ := (List.range d.n).countP fun q => d.s.pcs q == .holding || d.s.pcs q == .unlocking
      (SpinLock.step d.s (.leave p)).map fun s' => ({ d with s := s' }, s!"cs {occ}")
    | pc =>
      (SpinLock.step d.s (.step p)).map fun s' =>
        let t := match pc with
          | .lockXchg | .spinXchg _ | .yXchg => s!"xchg flag 1 {b}" ++ (if d.s.flag then "" else ",acq")
          | .tryXchg => s!"xchg flag 1 {b}" ++ (if d.s.flag then ",try-fail" ++ spinEnd d p else ",acq")
          | .spinLoad _ | .yLoad => s!"ld flag {b}"
          | .tryLoad => s!"ld flag {b}" ++ (if d.s.flag then ",try-fail" ++ spinEnd d p else "")
          | .yielding => "yield"
          | .sleeping => "sleep"
          | .unlocking => "st flag 0" ++ spinEnd d p
          | _ => "?"
        ({ d with s := s' }, t)

def spinFinished (d : SpinDrv) (p : Nat) : Bool := d.started p && d.s.pcs p == .idle && (d.scripts p).isEmpty

def spinDrain : Nat → SpinDrv × List String → SpinDrv × List String
  | 0, d => d
  | fuel + 1, (d, tr) =>
    let (d', tr') := (List.range d.n).foldl (fun (acc : SpinDrv × List String) i =>
      if spinFinished acc.1 i then acc else match spinStep acc.1 i with
        | some (a, t) => (a, s!"d{i}:{t}" :: acc.2)
        | none => acc) (d, tr)
    if (List.range d.n).all (spinFinished d') then (d', tr') else spinDrain fuel (d', tr')

/-- `spin <script0> <script1> … ; t<i> ; …` — scripts over `L` (lock/cs/unlock) and `T` (try_lock, cs/unlock on success) -/
def handleSpin (toks : List String) : String :=
  match splitOps toks with
  | scripts :: acts =>
    if scripts.isEmpty ∨ scripts.length > 8 ∨ scripts.any (fun sc => sc.toList.any fun c => c ≠ 'L' ∧ c ≠ 'T' ∧ c ≠ '-') then "bad-op" else
    let scr := scripts.map fun sc => sc.toList.filter (· ≠ '-')
    let d0 : SpinDrv := { s := SpinLock.init, started := fun _ => false, scripts := fun i => scr.getD i [], n := scr.length }
    let (d, outs, bad) := acts.foldl (fun (acc : SpinDrv × List String × Bool) a =>
      let (d, outs, bad) := acc
      match a with
      | [tok] =>
        if tok.startsWith "t" then
          match (tok.drop 1).toString.toNat? with
          | some i => match spinStep d i with
            | some (d', t) => (d', t :: outs, bad)
            | none => (d, "x" :: outs, bad)
          | none => (d, outs, true)
        else (d, outs, true)
      | _ => (d, outs, true)) (d0, [], false)
    if bad then "bad-op" else
    let (df, dtr) := spinDrain 3000 (d, [])
    let allDone := (List.range df.n).all (spinFinished df)
    let tr := df.s.tryResults.reverse.map fun (p, _, r) => s!"T{p}:{bool01 r}"
    " ; ".intercalate (outs.reverse ++ dtr.reverse ++ [s!"done={bool01 allDone} viol=0 try=[{",".intercalate tr}] flag={bool01 df.s.flag}"])
  | _ => "bad-op"

def C11.handlers : List (String × (List String → String)) := [("ring", handleRing), ("spin", handleSpin)]

end Driver
