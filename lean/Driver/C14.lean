import Driver.Util
import OtelVerif.Model.TraceState
namespace Driver
open Otel Otel.TraceState

/-- `ts <op> ; <op> ; …` over a growing family of states (state 0 = the default empty state).
    ops: `from <hdr>` | `set <i> <k> <v>` | `del <i> <k>` | `get <i> <k>` | `hdr <i>` | `vk <k>` | `vv <v>` -/
def tsOp (states : Array Entries) : List String → Array Entries × String
  | ["from", h] => match ofHexStr h with
    | some h => let e := fromHeader h; (states.push e, showEntries e)
    | none => (states, "bad-op")
  | ["set", i, k, v] => match i.toNat?, ofHexStr k, ofHexStr v with
    | some i, some k, some v => match states[i]? with
      | some s => let e := set s k v; (states.push e, showEntries e)
      | none => (states, "bad-op")
    | _, _, _ => (states, "bad-op")
  | ["del", i, k] => match i.toNat?, ofHexStr k with
    | some i, some k => match states[i]? with
      | some s => let e := delete s k; (states.push e, showEntries e)
      | none => (states, "bad-op")
    | _, _ => (states, "bad-op")
  | ["get", i, k] => match i.toNat?, ofHexStr k with
    | some i, some k => match states[i]? with
      | some s => (states, match get s k with | none => "none" | some v => "v=" ++ hexArg v)
      | none => (states, "bad-op")
    | _, _ => (states, "bad-op")
  | ["hdr", i] => match i.toNat? with
    | some i => match states[i]? with
      | some s => (states, "h=" ++ hexArg (toHeader s))
      | none => (states, "bad-op")
    | none => (states, "bad-op")
  | ["vk", k] => match ofHexStr k with
    | some k => (states, bool01 (isValidKey k))
    | none => (states, "bad-op")
  | ["vv", v] => match ofHexStr v with
    | some v => (states, bool01 (isValidValue v))
    | none => (states, "bad-op")
  | _ => (states, "bad-op")

def handleTs (toks : List String) : String :=
  let ops := splitOps toks
  let (_, outs) := ops.foldl (fun (st, outs) op => let (st', o) := tsOp st op; (st', o :: outs)) (#[[]], [])
  " ; ".intercalate outs.reverse

def C14.handlers : List (String × (List String → String)) := [("ts", handleTs)]

end Driver
