import Driver.Util
import OtelVerif.Model.TraceState
namespace Driver
open Otel Otel.TraceState

def kvArgs : List String → Option (List (Bytes × Bytes))
  | [] => some []
  | k :: v :: rest => match ofHexStr k, ofHexStr v, kvArgs rest with
    | some k, some v, some t => some ((k, v) :: t)
    | _, _, _ => none
  | _ => none

/-- `ts <op> ; <op> ; …` over a growing family of states (state 0 = the default empty state).
    ops: `from <hdr>` | `set <i> <k> <v>` | `del <i> <k>` | `get <i> <k>` | `hdr <i>` | `vk <k>` | `vv <v>` -/
def tsOp (states : Array Entries) : List String → Array Entries × String
  | ["from", h] => match ofHexStr h with
    | some h => let e := fromHeader h; (states.push e, showEntries e)
    | none => (states, "bad-op")
  | ["set", i, k, v] => match i.toNat?, ofHexStr k, ofHexStr v with
    | some i, some k, some v => match states[i]? with
      | some s => let e := set s k v; (states.push e, showEntries e)
      | none => (states, "bad-op")
    | _, _, _ => (states, "bad-op")
  | ["del", i, k] => match i.toNat?, ofHexStr k with
    | some i, some k => match states[i]? with
      | some s => let e := delete s k; (states.push e, showEntries e)
      | none => (states, "bad-op")
    | _, _ => (states, "bad-op")
  | ["get", i, k] => match i.toNat?, ofHexStr k with
    | some i, some k => match states[i]? with
      | some s => (states, match get s k with | none => "none" | some v => "v=" ++ hexArg v)
      | none => (states, "bad-op")
    | _, _ => (states, "bad-op")
  | ["hdr", i] => match i.toNat? with
    | some i => match states[i]? with
      | some s => (states, "h=" ++ hexArg (toHeader s))
      | none => (states, "bad-op")
    | none => (states, "bad-op")
  | ["vk", k] => match ofHexStr k with
    | some k => (states, bool01 (isValidKey k))
    | none => (states, "bad-op")
  | ["vv", v] => match ofHexStr v with
    | some v => (states, bool01 (isValidValue v))
    | none => (states, "bad-op")
  | ["emp", i] => match i.toNat? with
    | some i => match states[i]? with
      | some s => (states, bool01 s.isEmpty)
      | none => (states, "bad-op")
    | none => (states, "bad-op")
  -- `GetAllEntries` with a callback that declines on its n-th call (0 = never)
  | ["ents", i, n] => match i.toNat?, n.toNat? with
    | some i, some n => match states[i]? with
      | some s => (states, s!"r={bool01 (n == 0 || s.length < n)} {showEntries (if n == 0 then s else s.take n)}")
      | none => (states, "bad-op")
    | _, _ => (states, "bad-op")
  -- the tokenizer with explicit options
  | ["tok", msep, kvsep, ign, h] => match ofHexStr msep, ofHexStr kvsep, ofHexStr h with
    | some [msep], some [kvsep], some h =>
      if ign != "0" && ign != "1" then (states, "bad-op") else
      let ms := if ign == "1" then members msep h else membersAll msep h
      let show1 := fun (m : Bytes) => if m.isEmpty then "-:-" else match splitKv kvsep m with
        | none => "!"
        | some (k, v) => hexArg k ++ ":" ++ hexArg v
      (states, s!"n={numTok msep h} t=[{",".intercalate (ms.map show1)}]")
    | _, _, _ => (states, "bad-op")
  -- `KeyValueProperties(capacity)` filled with `AddEntry`
  | "kvp" :: cap :: rest => match cap.toNat?, kvArgs rest with
    | some cap, some kvs => if cap > 64 then (states, "bad-op") else
      let p := kvs.foldl (fun (p : KvProps) e => p.add e.1 e.2) ⟨cap, []⟩
      (states, s!"s={p.entries.length} {showEntries p.entries}")
    | _, _ => (states, "bad-op")
  | _ => (states, "bad-op")

def handleTs (toks : List String) : String :=
  let ops := splitOps toks
  let (_, outs) := ops.foldl (fun (st, outs) op => let (st', o) := tsOp st op; (st', o :: outs)) (#[[]], [])
  " ; ".intercalate outs.reverse

def C14.handlers : List (String × (List String → String)) := [("ts", handleTs)]

end Driver
