import OtelVerif.Props.C09
import OtelVerif.Props.C11
import OtelVerif.Props.C14
