import OtelVerif.Props.C09
import OtelVerif.Props.C18
