import OtelVerif.Props.C04
import OtelVerif.Props.C09
import OtelVerif.Props.C13
