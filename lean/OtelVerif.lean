import OtelVerif.Props.C09
import OtelVerif.Props.C18
import OtelVerif.Props.C19
