import OtelVerif.Props.C09
