import OtelVerif.Props.C09
import OtelVerif.Props.C15
import OtelVerif.Props.C16
