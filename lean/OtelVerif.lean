import OtelVerif.Props.C06
import OtelVerif.Props.C09
