import OtelVerif.Props.C06
import OtelVerif.Props.C09
import OtelVerif.Props.C17
import OtelVerif.Props.C17Meter
