import OtelVerif.Props.C07
import OtelVerif.Props.C08
import OtelVerif.Props.C09
