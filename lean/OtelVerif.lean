import OtelVerif.Props.C07
import OtelVerif.Props.C09
