import OtelVerif.Props.C05
import OtelVerif.Props.C09
import OtelVerif.Props.C11
import OtelVerif.Props.C12
import OtelVerif.Props.C14
import OtelVerif.Props.C15
import OtelVerif.Props.C16
