import OtelVerif.Props.C09
import OtelVerif.Props.C10
import OtelVerif.Props.C20
