import Mathlib.Data.Finset.Card
import Mathlib.Data.Finset.Range
/-! Pigeonhole: a duplicate-free list of naturals below `n` that misses some `x < n` has fewer than `n` entries. -/
namespace Otel

theorem nodup_length_lt (l : List Nat) (n x : Nat) (hnd : l.Nodup) (hlt : ∀ e ∈ l, e < n) (hx : x < n) (hxl : x ∉ l) :
    l.length < n := by
  have hsub : l.toFinset ⊆ (Finset.range n).erase x := by
    intro e he
    have he' : e ∈ l := List.mem_toFinset.1 he
    rw [Finset.mem_erase, Finset.mem_range]
    exact ⟨fun h => hxl (h ▸ he'), hlt e he'⟩
  have hcard := Finset.card_le_card hsub
  rw [List.toFinset_card_of_nodup hnd, Finset.card_erase_of_mem (Finset.mem_range.2 hx), Finset.card_range] at hcard
  omega

end Otel
