import OtelVerif.Lemmas.ReaderMain
/-! # Progress of the periodic reader's flush / shutdown protocol (`Model/ReaderAbs.lean`)

As `Lemmas/Batch/Live.lean` for the batch processors: a rank on the program counters of the worker and of its per-cycle
collect thread that every transition of either strictly lowers until the newest `ForceFlush` ticket is published (or
the reader is shut down), and that no other thread changes while no further ticket is issued; and a second rank for the
worker's exit after `Shutdown`, which needs no assumption about the other threads at all. -/
namespace Otel.Reader
open Otel.Ring (upd upd_same upd_other)

/-- the worker's `expected` in the publishing CAS is the current `notified` unless its own CAS already succeeded -/
def QC (s : St) : Prop :=
  match s.wpc with
  | .pubCas n v => s.notified = v ∨ n ≤ s.notified
  | _ => True

def isW : Act → Bool
  | .wStep _ | .wWake | .cStep => true
  | _ => false

/-- transitions of the worker and of the collect thread in a schedule -/
def wcount : List Act → Nat
  | [] => 0
  | a :: as => (if isW a then 1 else 0) + wcount as

def Served (P : Nat) (s : St) : Prop := P ≤ s.notified ∨ s.shutdown = true

def cRank : CPc → Nat
  | .none => 0 | .produce => 4 | .cancelChk _ => 3 | .exportB _ => 2 | .exportE _ => 1 | .fin => 0

def rank (s : St) : Nat :=
  match s.wpc with
  | .cvwait => 12
  | .loopChk => 11
  | .start => 10
  | .spawn n => if n < s.pending then 23 else 9
  | .waitF n => (if n < s.pending then 18 else 4) + cRank s.cpc
  | .joinC n => (if n < s.pending then 17 else 3) + cRank s.cpc
  | .pubLd n => if n < s.pending then 16 else 2
  | .pubCas n v => if n < s.pending then (if s.notified = v then 15 else 14) else 1
  | .done => 0

def rank4 (s : St) : Nat :=
  match s.wpc with
  | .done => 0
  | .loopChk => 1
  | .cvwait => 2
  | .pubCas _ v => if s.notified = v then 4 else 3
  | .pubLd _ => 5
  | .joinC _ => 6 + cRank s.cpc
  | .waitF _ => 7 + cRank s.cpc
  | .spawn _ => 12
  | .start => 13

theorem qc_init : QC init := by simp [QC, init]

theorem not_served {P : Nat} {s : St} (h : ¬ Served P s) : s.notified < P ∧ s.shutdown = false := by
  simp only [Served, not_or] at h
  exact ⟨by omega, by cases hh : s.shutdown <;> simp_all⟩

/-- a transition of a recorder, a `ForceFlush` caller or a `Shutdown` caller -/
theorem other_step (s s' : St) (a : Act) (ha : isW a = false) (h : step s a = some s') :
    s'.wpc = s.wpc ∧ s'.cpc = s.cpc ∧ s'.notified = s.notified ∧ s.pending ≤ s'.pending ∧
    (s.shutdown = true → s'.shutdown = true) := by
  cases a with
  | wStep t => cases ha
  | wWake => cases ha
  | cStep => cases ha
  | record => simp only [step] at h; cases h; simp
  | fStep f c x =>
    simp only [step, fStep] at h
    repeat' split at h
    all_goals (cases h <;> simp)
  | sStep i =>
    simp only [step, sStep] at h
    repeat' split at h
    all_goals (cases h <;> simp)

theorem rank_other (s s' : St) (hw : s'.wpc = s.wpc) (hc : s'.cpc = s.cpc) (hn : s'.notified = s.notified)
    (hp : s'.pending = s.pending) : rank s' = rank s := by
  unfold rank; rw [hw, hc, hn, hp]

theorem rank4_other (s s' : St) (hw : s'.wpc = s.wpc) (hc : s'.cpc = s.cpc) (hn : s'.notified = s.notified) :
    rank4 s' = rank4 s := by
  unfold rank4; rw [hw, hc, hn]

theorem qc_other (s s' : St) (hw : s'.wpc = s.wpc) (hn : s'.notified = s.notified) (hQ : QC s) : QC s' := by
  unfold QC at *; rw [hw, hn]; exact hQ

/-- what one transition of the worker or the collect thread does -/
def WGoal (s s' : St) : Prop :=
  s'.pending = s.pending ∧ s'.shutdown = s.shutdown ∧ s.notified ≤ s'.notified ∧ QC s' ∧
  (¬ Served s.pending s → Served s.pending s' ∨ rank s' < rank s) ∧
  (s.shutdown = true → rank4 s' < rank4 s)

theorem wake_goal (s s' : St) (hQ : QC s) (h : step s .wWake = some s') : WGoal s s' := by
  simp only [step] at h
  split at h
  · rename_i hpc
    cases h
    refine ⟨rfl, rfl, Nat.le_refl _, trivial, fun _ => Or.inr ?_, fun _ => ?_⟩
    · simp [rank, hpc]
    · simp [rank4, hpc]
  · cases h

theorem wstep_goal (s s' : St) (t : Bool) (hI : Inv s) (hQ : QC s) (h : step s (.wStep t) = some s') : WGoal s s' := by
  have hw := hI.w
  unfold WInv at hw
  simp only [step, wStep] at h
  cases hpc : s.wpc with
  | cvwait => rw [hpc] at h; cases h
  | done => rw [hpc] at h; cases h
  | start =>
    rw [hpc] at h; simp only at h; cases h
    refine ⟨rfl, rfl, Nat.le_refl _, trivial, fun _ => Or.inr ?_, fun _ => ?_⟩
    · simp [rank, hpc]
    · simp [rank4, hpc]
  | spawn n =>
    rw [hpc] at h hw; simp only at h hw
    split at h
    · cases h
      refine ⟨rfl, rfl, Nat.le_refl _, trivial, fun _ => Or.inr ?_, fun _ => ?_⟩
      · simp only [rank, hpc, cRank]; split <;> omega
      · simp [rank4, hpc, cRank]
    · cases h
  | waitF n =>
    rw [hpc] at h; simp only at h
    (repeat' split at h) <;> cases h <;>
      refine ⟨rfl, rfl, Nat.le_refl _, trivial, fun _ => Or.inr ?_, fun _ => ?_⟩ <;>
      first
        | (simp only [rank, hpc]; split <;> omega)
        | (simp only [rank4, hpc]; omega)
  | joinC n =>
    rw [hpc] at h; simp only at h
    split at h
    · rename_i hfin
      cases h
      refine ⟨rfl, rfl, Nat.le_refl _, trivial, fun _ => Or.inr ?_, fun _ => ?_⟩
      · simp only [rank, hpc, hfin, cRank]; split <;> omega
      · simp [rank4, hpc, hfin, cRank]
    · cases h
  | pubLd n =>
    rw [hpc] at h hw; simp only at h hw
    obtain ⟨_, _, hnp, _⟩ := hw
    split at h <;> cases h
    · refine ⟨rfl, rfl, Nat.le_refl _, by simp [QC], fun _ => Or.inr ?_, fun _ => ?_⟩
      · simp only [rank, hpc, ↓reduceIte]; split <;> omega
      · simp [rank4, hpc]
    · rename_i hle
      refine ⟨rfl, rfl, Nat.le_refl _, trivial, fun hns => Or.inr ?_, fun _ => ?_⟩
      · have hn := (not_served hns).1
        simp only [rank, hpc]; split <;> omega
      · simp [rank4, hpc]
  | pubCas n v =>
    rw [hpc] at h hw; simp only at h hw
    obtain ⟨_, _, hnp, _, hvn⟩ := hw
    have hc := hQ
    unfold QC at hc; rw [hpc] at hc; simp only at hc
    split at h
    · rename_i heq
      cases h
      have hne : n ≠ v := by omega
      refine ⟨rfl, rfl, by simp only; omega, ?_, fun hns => ?_, fun _ => ?_⟩
      · simp only [QC, hpc]; right; exact Nat.le_refl _
      · by_cases hst : n < s.pending
        · right; simp only [rank, hpc, hst, heq, hne, ↓reduceIte]; omega
        · left; left; simp only; omega
      · simp only [rank4, hpc, heq, hne, ↓reduceIte]; omega
    · rename_i hne
      split at h
      · omega
      · cases h
        refine ⟨rfl, rfl, Nat.le_refl _, trivial, fun hns => Or.inr ?_, fun _ => ?_⟩
        · have hn := (not_served hns).1
          simp only [rank, hpc, hne, ↓reduceIte]; split <;> omega
        · simp [rank4, hpc, hne]
  | loopChk =>
    rw [hpc] at h; simp only at h; cases h
    refine ⟨rfl, rfl, Nat.le_refl _, ?_, fun hns => Or.inr ?_, fun hsd => ?_⟩
    · unfold QC; simp only; cases s.shutdown <;> simp
    · have hsd := (not_served hns).2
      simp [rank, hpc, hsd]
    · simp [rank4, hpc, hsd]

theorem cstep_goal (s s' : St) (hI : Inv s) (hQ : QC s) (h : step s .cStep = some s') : WGoal s s' := by
  have hw := hI.w
  unfold WInv at hw
  simp only [step, cStep] at h
  have hQ' : ∀ (c : CPc) (sk : Bool) (ie le : Nat) (cv : Nat), QC { s with cpc := c, skipped := sk, inExport := ie, lateExports := le, covered := cv } := by
    intro c sk ie le cv; unfold QC at *; exact hQ
  cases hwpc : s.wpc with
  | waitF n =>
    cases hpc : s.cpc <;> rw [hpc] at h <;> simp only at h
    all_goals first
      | (cases h; done)
      | ((repeat' split at h) <;> cases h <;>
          refine ⟨rfl, rfl, Nat.le_refl _, (by unfold QC at *; rw [hwpc] at hQ ⊢; trivial), fun _ => Or.inr ?_, fun _ => ?_⟩ <;>
          first
            | (simp only [rank, hwpc, hpc, cRank]; omega)
            | (simp only [rank4, hwpc, hpc, cRank]; omega))
  | joinC n =>
    cases hpc : s.cpc <;> rw [hpc] at h <;> simp only at h
    all_goals first
      | (cases h; done)
      | ((repeat' split at h) <;> cases h <;>
          refine ⟨rfl, rfl, Nat.le_refl _, (by unfold QC at *; rw [hwpc] at hQ ⊢; trivial), fun _ => Or.inr ?_, fun _ => ?_⟩ <;>
          first
            | (simp only [rank, hwpc, hpc, cRank]; omega)
            | (simp only [rank4, hwpc, hpc, cRank]; omega))
  | _ =>
    exfalso
    rw [hwpc] at hw; simp only at hw
    have hcn : s.cpc = .none := hw.1
    rw [hcn] at h; cases h

theorem worker_goal (s s' : St) (a : Act) (ha : isW a = true) (hI : Inv s) (hQ : QC s) (h : step s a = some s') : WGoal s s' := by
  cases a with
  | wStep t => exact wstep_goal s s' t hI hQ h
  | wWake => exact wake_goal s s' hQ h
  | cStep => exact cstep_goal s s' hI hQ h
  | record => cases ha
  | fStep f c x => cases ha
  | sStep i => cases ha

theorem step_facts (s s' : St) (a : Act) (hI : Inv s) (hQ : QC s) (h : step s a = some s') :
    s.pending ≤ s'.pending ∧ s.notified ≤ s'.notified ∧ (s.shutdown = true → s'.shutdown = true) ∧ QC s' := by
  cases ha : isW a with
  | true =>
    obtain ⟨a1, a2, a3, a4, _, _⟩ := worker_goal s s' a ha hI hQ h
    exact ⟨by omega, a3, fun hs => by rw [a2]; exact hs, a4⟩
  | false =>
    obtain ⟨b1, _, b3, b4, b5⟩ := other_step s s' a ha h
    exact ⟨b4, by omega, b5, qc_other s s' b1 b3 hQ⟩

theorem facts_run (s s' : St) (as : List Act) (hI : Inv s) (hQ : QC s) (h : run s as = some s') :
    QC s' ∧ s.pending ≤ s'.pending ∧ s.notified ≤ s'.notified ∧ (s.shutdown = true → s'.shutdown = true) := by
  induction as generalizing s with
  | nil => simp [run] at h; subst h; exact ⟨hQ, Nat.le_refl _, Nat.le_refl _, id⟩
  | cons a as ih =>
    simp only [run] at h
    split at h
    · rename_i s1 hs1
      obtain ⟨a1, a2, a3, a4⟩ := step_facts s s1 a hI hQ hs1
      obtain ⟨b1, b2, b3, b4⟩ := ih s1 (inv_step s s1 a hI hs1) a4 h
      exact ⟨b1, by omega, by omega, fun hs => b4 (a3 hs)⟩
    · cases h

theorem reachable_qc (as : List Act) (s : St) (h : run init as = some s) : QC s := (facts_run _ _ as inv_init qc_init h).1

theorem served_run (P : Nat) (s s' : St) (as : List Act) (hI : Inv s) (hQ : QC s) (h : run s as = some s')
    (hS : Served P s) : Served P s' := by
  obtain ⟨_, _, hn, hsd⟩ := facts_run s s' as hI hQ h
  rcases hS with hS | hS
  · left; omega
  · right; exact hsd hS

theorem rank_zero (s : St) (hI : Inv s) (h0 : rank s = 0) : s.shutdown = true := by
  have hw := hI.w
  unfold WInv at hw
  unfold rank at h0
  cases hpc : s.wpc <;> rw [hpc] at h0 hw <;> simp only at h0 hw <;> first
    | exact hw.2.2
    | (exfalso; revert h0; (repeat' split) <;> omega)
    | (exfalso; omega)

theorem rank4_zero (s : St) (h0 : rank4 s = 0) : s.wpc = .done := by
  unfold rank4 at h0
  cases hpc : s.wpc <;> rw [hpc] at h0 <;> simp only at h0 <;> first
    | rfl
    | (exfalso; revert h0; (repeat' split) <;> omega)
    | (exfalso; omega)

theorem served_of_wcount (as : List Act) : ∀ (s s' : St), Inv s → QC s → run s as = some s' → s'.pending = s.pending →
    rank s ≤ wcount as → Served s.pending s' := by
  induction as with
  | nil =>
    intro s s' hI _ h _ hr
    simp [run] at h; subst h
    exact Or.inr (rank_zero s hI (by simpa [wcount] using hr))
  | cons a as ih =>
    intro s s' hI hQ h hp hr
    simp only [run] at h
    split at h
    · rename_i s1 hs1
      have hI1 := inv_step s s1 a hI hs1
      obtain ⟨a1, _, _, hQ1⟩ := step_facts s s1 a hI hQ hs1
      obtain ⟨_, c2, _, _⟩ := facts_run s1 s' as hI1 hQ1 h
      have hp1 : s1.pending = s.pending := by omega
      have hp' : s'.pending = s1.pending := by omega
      by_cases hS : Served s.pending s
      · exact served_run _ s s' (a :: as) hI hQ (by simp only [run, hs1]; exact h) hS
      · cases ha : isW a with
        | true =>
          obtain ⟨_, _, _, _, hg, _⟩ := worker_goal s s1 a ha hI hQ hs1
          rcases hg hS with hg | hg
          · exact served_run _ s1 s' as hI1 hQ1 h hg
          · have := ih s1 s' hI1 hQ1 h hp' (by simp only [wcount, ha, ↓reduceIte] at hr; omega)
            rw [hp1] at this; exact this
        | false =>
          obtain ⟨b1, b2, b3, _, _⟩ := other_step s s1 a ha hs1
          have hrk := rank_other s s1 b1 b2 b3 hp1
          have := ih s1 s' hI1 hQ1 h hp' (by simp only [wcount, ha] at hr; simp at hr; omega)
          rw [hp1] at this; exact this
    · cases h

theorem done_of_wcount (as : List Act) : ∀ (s s' : St), Inv s → QC s → s.shutdown = true → run s as = some s' →
    rank4 s ≤ wcount as → s'.wpc = .done := by
  induction as with
  | nil =>
    intro s s' _ _ _ h hr
    simp [run] at h; subst h
    exact rank4_zero s (by simpa [wcount] using hr)
  | cons a as ih =>
    intro s s' hI hQ hsd h hr
    simp only [run] at h
    split at h
    · rename_i s1 hs1
      have hI1 := inv_step s s1 a hI hs1
      obtain ⟨_, _, a3, hQ1⟩ := step_facts s s1 a hI hQ hs1
      cases ha : isW a with
      | true =>
        obtain ⟨_, _, _, _, _, hg⟩ := worker_goal s s1 a ha hI hQ hs1
        have := hg hsd
        exact ih s1 s' hI1 hQ1 (a3 hsd) h (by simp only [wcount, ha, ↓reduceIte] at hr; omega)
      | false =>
        obtain ⟨b1, b2, b3, _, _⟩ := other_step s s1 a ha hs1
        have hrk := rank4_other s s1 b1 b2 b3
        exact ih s1 s' hI1 hQ1 (a3 hsd) h (by simp only [wcount, ha] at hr; simp at hr; omega)
    · cases h

theorem rank_le (s : St) : rank s ≤ 23 := by
  unfold rank
  cases s.wpc <;> cases s.cpc <;> simp only [cRank] <;> (repeat' split) <;> omega

theorem rank4_le (s : St) : rank4 s ≤ 13 := by
  unfold rank4
  cases s.wpc <;> cases s.cpc <;> simp only [cRank] <;> (repeat' split) <;> omega

end Otel.Reader
