import OtelVerif.Lemmas.Batch.Shut
import OtelVerif.Model.BatchRefine
namespace Otel.Batch
open Otel.Ring (upd upd_same upd_other)

theorem inv_step (s s' : St) (a : Act) (hI : Inv s) (h : step s a = some s') : Inv s' := by
  cases a with
  | wWake => exact inv_wake s s' hI h
  | wStep => exact inv_wStep s s' hI h
  | fStep f r => exact inv_fStep s s' f r hI h
  | sStep i => exact inv_sStep s s' i hI h
  | pStep p d => exact inv_pStep s s' p d hI h

theorem inv_run (s s' : St) (as : List Act) (hI : Inv s) (h : run s as = some s') : Inv s' := by
  induction as generalizing s with
  | nil => simp [run] at h; subst h; exact hI
  | cons a as ih =>
    simp only [run] at h
    split at h
    · rename_i s1 hs1; exact ih s1 (inv_step s s1 a hI hs1) h
    · cases h

theorem reachable_inv (maxQ maxB : Nat) (hb : 1 ≤ maxB) (as : List Act) (s : St) (h : run (init maxQ maxB) as = some s) : Inv s :=
  inv_run _ _ as (inv_init maxQ maxB hb) h

theorem cfg_step (s s' : St) (a : Act) (h : step s a = some s') : s'.maxB = s.maxB ∧ s'.maxQ = s.maxQ := by
  cases a <;> simp only [step, wStep, fStep, sStep, pStep] at h <;> (repeat' split at h) <;>
    first | (cases h; exact ⟨rfl, rfl⟩) | cases h

theorem cfg_run (s s' : St) (as : List Act) (h : run s as = some s') : s'.maxB = s.maxB ∧ s'.maxQ = s.maxQ := by
  induction as generalizing s with
  | nil => simp [run] at h; subst h; exact ⟨rfl, rfl⟩
  | cons a as ih =>
    simp only [run] at h
    split at h
    · rename_i s1 hs1
      obtain ⟨a1, a2⟩ := cfg_step s s1 a hs1
      obtain ⟨b1, b2⟩ := ih s1 h
      exact ⟨b1.trans a1, b2.trans a2⟩
    · cases h

/-! ### the refinement map only ever takes protocol steps -/

/-- `s'` is reached from `s` by zero, one or two protocol steps -/
def Steps (s s' : St) : Prop := s' = s ∨ (∃ a, step s a = some s') ∨ (∃ a b s1, step s a = some s1 ∧ step s1 b = some s')

theorem steps_inv {s s' : St} (hI : Inv s) (h : Steps s s') : Inv s' := by
  rcases h with rfl | ⟨a, ha⟩ | ⟨a, b, s1, ha, hb⟩
  · exact hI
  · exact inv_step _ _ a hI ha
  · exact inv_step _ _ b (inv_step _ _ a hI ha) hb

theorem guardEq_some {c : Bool} {o : Option St} {s' : St} (h : guardEq c o = some s') : o = some s' := by
  unfold guardEq at h; split at h
  · exact h
  · cases h

theorem bind2 {s s' : St} {a b : Act} (h : (step s a).bind (fun s1 => step s1 b) = some s') : Steps s s' := by
  cases h1 : step s a with
  | none => rw [h1] at h; cases h
  | some s1 => rw [h1] at h; exact Or.inr (Or.inr ⟨a, b, s1, h1, h⟩)

theorem astepCore_steps (s s' : St) (e : Ev) (h : astepCore s e = some s') : Steps s s' := by
  unfold astepCore at h
  split at h
  · -- worker
    unfold aWorker at h
    split at h
    · have := guardEq_some h; cases this; exact Or.inl rfl
    · split at h <;> first
        | (cases h; exact Or.inl rfl)
        | exact bind2 (guardEq_some h)
        | exact Or.inr (Or.inl ⟨_, guardEq_some h⟩)
        | exact Or.inr (Or.inl ⟨_, h⟩)
        | cases h
  · unfold aProd at h
    split at h <;> first
      | exact bind2 h
      | exact Or.inr (Or.inl ⟨_, guardEq_some h⟩)
      | exact Or.inr (Or.inl ⟨_, h⟩)
      | cases h
  · rename_i fi _
    unfold aFlush at h
    split at h
    all_goals first
      | (cases h; exact Or.inl rfl)
      | exact Or.inr (Or.inl ⟨_, guardEq_some h⟩)
      | exact Or.inr (Or.inl ⟨_, h⟩)
      | (have := guardEq_some h; cases this; exact Or.inl rfl)
      | cases h
      | skip
    -- `ret` while waiting: one step, then a check on the result
    cases h1 : step s (.fStep fi true) with
    | none => rw [h1] at h; cases h
    | some s1 =>
      rw [h1] at h
      simp only [Option.bind] at h
      split at h
      · have := guardEq_some h; cases this; exact Or.inr (Or.inl ⟨_, h1⟩)
      · cases h
  · unfold aShut at h
    split at h <;> first
      | (cases h; exact Or.inl rfl)
      | exact Or.inr (Or.inl ⟨_, guardEq_some h⟩)
      | exact Or.inr (Or.inl ⟨_, h⟩)
      | cases h

theorem astep_steps (s s' : St) (e : Ev) (h : astep s e = some s') : Steps s s' := by
  unfold astep at h
  split at h
  · rename_i s1 hc
    cases h
    exact astepCore_steps s _ e hc
  · split at h
    · cases h; exact Or.inl rfl
    · cases h

/-- every state the refinement check reaches while accepting the implementation's events satisfies the invariant -/
theorem inv_astep (s s' : St) (e : Ev) (hI : Inv s) (h : astep s e = some s') : Inv s' := steps_inv hI (astep_steps s s' e h)

end Otel.Batch
