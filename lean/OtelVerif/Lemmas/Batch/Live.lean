import OtelVerif.Lemmas.Batch.Main
/-! # Progress of the batch processors' flush protocol (`Model/BatchAbs.lean`)

The safety theorems say what is true *when* `ForceFlush` returns; this file is about *whether* the worker gets there.
A rank function on the worker's program counter strictly decreases with every worker transition until the newest flush
ticket is published (or the processor is shut down, which also ends every `ForceFlush` wait: its wake-up predicate
tests `is_shutdown` first), and no transition of any other thread changes it as long as no further ticket is issued.
Hence: in every run, from every reachable state, `5 * max_queue_size + 24` worker transitions suffice — whatever the
producers, the other `ForceFlush` callers and the `Shutdown` callers do in between. -/
namespace Otel.Batch
open Otel.Ring (upd upd_same upd_other)

/-- more facts about reachable states: the queue never holds more than `max_queue_size` records (so neither does a
    snapshot `R` of its size); the worker's `expected` in the publishing CAS is the current `notified` unless its own CAS
    already succeeded -/
def QC (s : St) : Prop :=
  s.head - s.tail ≤ s.maxQ ∧
  (match s.wpc with
   | .pubCas _ n _ _ _ v => s.notified = v ∨ n ≤ s.notified
   | .consume _ _ _ R _ | .exportB _ _ _ R _ | .exportE _ _ _ R _ => R ≤ s.maxQ
   | _ => True)

def isW : Act → Bool
  | .wWake | .wStep => true
  | _ => false

/-- worker transitions in a schedule -/
def wcount : List Act → Nat
  | [] => 0
  | a :: as => (if isW a then 1 else 0) + wcount as

/-- ticket `P` no longer keeps a `ForceFlush` caller waiting -/
def Served (P : Nat) (s : St) : Prop := P ≤ s.notified ∨ s.isShutdown = true

/-- worker transitions still needed, at most, before the newest ticket `s.pending` is served; a pc that carries a ticket
    `n < s.pending` read earlier is charged the rest of its round plus a whole fresh one -/
def rank (s : St) : Nat :=
  match s.wpc with
  | .idle => 5 * s.maxQ + 13
  | .chk => 5 * s.maxQ + 12
  | .ticket _ T R => if T < s.pending then 5 * s.maxQ + 11 else 5 * R + 11
  | .size _ n T R => if n < s.pending then 5 * s.maxQ + 24 else if T < s.pending then 5 * s.maxQ + 10 else 5 * R + 10
  | .consume _ n _ R _ => if n < s.pending then 5 * s.maxQ + 23 else 5 * R + 9
  | .exportB _ n _ R _ => if n < s.pending then 5 * s.maxQ + 22 else 5 * R + 8
  | .exportE _ n _ R _ => if n < s.pending then 5 * s.maxQ + 21 else 5 * R + 7
  | .nChk _ n _ _ _ => if n < s.pending then 5 * s.maxQ + 20 else 5
  | .flushB _ n _ _ _ => if n < s.pending then 5 * s.maxQ + 19 else 4
  | .flushE _ n _ _ _ => if n < s.pending then 5 * s.maxQ + 18 else 3
  | .pubLd _ n _ _ _ => if n < s.pending then 5 * s.maxQ + 17 else 2
  | .pubCas _ n _ _ _ v => if n < s.pending then (if s.notified = v then 5 * s.maxQ + 16 else 5 * s.maxQ + 15) else 1
  | .dEmpty | .dPend | .dNot _ | .done => 0

theorem qc_init (maxQ maxB : Nat) : QC (init maxQ maxB) := by simp [QC, init]

/-- a transition of a thread other than the worker -/
theorem other_step (s s' : St) (a : Act) (ha : isW a = false) (h : step s a = some s') :
    s'.wpc = s.wpc ∧ s'.notified = s.notified ∧ s'.maxQ = s.maxQ ∧ s'.tail = s.tail ∧ s.pending ≤ s'.pending ∧
    (s.isShutdown = true → s'.isShutdown = true) ∧ (s'.head = s.head ∨ (s'.head = s.head + 1 ∧ s.head - s.tail < s.maxQ)) := by
  cases a with
  | wWake => cases ha
  | wStep => cases ha
  | fStep f r =>
    simp only [step, fStep] at h
    repeat' split at h
    all_goals (cases h <;> simp)
  | sStep i =>
    simp only [step, sStep] at h
    repeat' split at h
    all_goals (cases h <;> simp)
  | pStep p d =>
    simp only [step, pStep] at h
    repeat' split at h
    all_goals (cases h <;> simp_all)

theorem rank_other (s s' : St) (hw : s'.wpc = s.wpc) (hn : s'.notified = s.notified) (hq : s'.maxQ = s.maxQ)
    (hp : s'.pending = s.pending) : rank s' = rank s := by
  unfold rank; rw [hw, hn, hq, hp]

theorem qc_other (s s' : St) (a : Act) (ha : isW a = false) (hQ : QC s) (h : step s a = some s') : QC s' := by
  obtain ⟨hw, hn, hq, ht, _, _, hh⟩ := other_step s s' a ha h
  unfold QC at *
  rw [hw, hn, hq, ht]
  refine ⟨?_, hQ.2⟩
  rcases hh with hh | ⟨hh, hlt⟩ <;> rw [hh]
  · exact hQ.1
  · omega

theorem rank_next (s' : St) (r : Ret) (last : Bool) (T R : Nat) (hw : s'.wpc = next r last T R)
    (hR : last = false → R ≤ s'.maxQ) : rank s' ≤ 5 * s'.maxQ + 13 := by
  unfold rank; rw [hw]
  cases last with
  | true => cases r <;> simp [next]
  | false =>
    have := hR rfl
    simp only [next, Bool.false_eq_true, ↓reduceIte]
    split <;> omega

theorem not_served {P : Nat} {s : St} (h : ¬ Served P s) : s.notified < P ∧ s.isShutdown = false := by
  simp only [Served, not_or] at h
  exact ⟨by omega, by cases hh : s.isShutdown <;> simp_all⟩

/-- what one worker transition does: the configuration, `pending` and `is_shutdown` stay, `notified` only grows, `QC` is
    kept, and unless the newest ticket is already served the transition serves it or lowers the rank -/
def WGoal (s s' : St) : Prop :=
  s'.pending = s.pending ∧ s'.maxQ = s.maxQ ∧ s'.isShutdown = s.isShutdown ∧ s.notified ≤ s'.notified ∧ QC s' ∧
  (¬ Served s.pending s → Served s.pending s' ∨ rank s' < rank s)

theorem wake_goal (s s' : St) (hQ : QC s) (h : step s .wWake = some s') : WGoal s s' := by
  simp only [step] at h
  split at h
  · rename_i hidle
    cases h
    refine ⟨rfl, rfl, rfl, Nat.le_refl _, ⟨hQ.1, trivial⟩, fun _ => Or.inr ?_⟩
    simp [rank, hidle]
  · cases h

theorem wstep_goal (s s' : St) (hI : Inv s) (hQ : QC s) (h : step s .wStep = some s') : WGoal s s' := by
  have hw := hI.w
  unfold WInv at hw
  simp only [step, wStep] at h
  cases hpc : s.wpc with
  | idle => rw [hpc] at h; cases h
  | done => rw [hpc] at h; cases h
  | chk =>
    rw [hpc] at h; simp only at h; cases h
    refine ⟨rfl, rfl, rfl, Nat.le_refl _, ⟨hQ.1, ?_⟩, ?_⟩
    · cases s.isShutdown <;> simp
    · intro hns
      simp only [Served, not_or] at hns
      right
      have hsd : s.isShutdown = false := by cases hh : s.isShutdown <;> simp_all
      simp only [rank, hpc, hsd, Bool.false_eq_true, ↓reduceIte]
      split <;> omega
  | ticket r T R =>
    rw [hpc] at h; simp only at h; cases h
    refine ⟨rfl, rfl, rfl, Nat.le_refl _, ⟨hQ.1, by simp⟩, fun _ => Or.inr ?_⟩
    simp only [rank, hpc, Nat.lt_irrefl, ↓reduceIte]
    split <;> omega
  | size r n T R =>
    rw [hpc] at h hw; simp only at h hw
    obtain ⟨_, _, ⟨_, hR, _⟩, hnp, hTn, _⟩ := hw
    have hq := hQ.1
    (repeat' split at h) <;> cases h <;>
      refine ⟨rfl, rfl, rfl, Nat.le_refl _, ⟨hQ.1, by first | (simp only; done) | (simp only; omega) | (simp only; split <;> omega)⟩, fun _ => Or.inr ?_⟩ <;>
      simp only [rank, hpc] <;> (repeat' split) <;> omega
  | consume r n T R num =>
    rw [hpc] at h hw; simp only at h hw; cases h
    obtain ⟨_, _, _, _, _, _, hnum, _⟩ := hw
    have hq := hQ.1
    have hc := hQ.2
    rw [hpc] at hc; simp only at hc
    refine ⟨rfl, rfl, rfl, Nat.le_refl _, ⟨by simp only; omega, by simp only; exact hc⟩, fun _ => Or.inr ?_⟩
    simp only [rank, hpc]; split <;> omega
  | exportB r n T R num =>
    rw [hpc] at h; simp only at h; cases h
    have hc := hQ.2
    rw [hpc] at hc; simp only at hc
    refine ⟨rfl, rfl, rfl, Nat.le_refl _, ⟨hQ.1, by simp only; exact hc⟩, fun _ => Or.inr ?_⟩
    simp only [rank, hpc]; split <;> omega
  | exportE r n T R num =>
    rw [hpc] at h hw; simp only at h hw; cases h
    obtain ⟨_, _, _, hTn, hnum, _, _⟩ := hw
    refine ⟨rfl, rfl, rfl, Nat.le_refl _, ⟨hQ.1, ?_⟩, fun _ => Or.inr ?_⟩
    · by_cases hz : R - num = 0 <;> simp [hz]
    · by_cases hz : R - num = 0 <;> simp only [rank, hpc, hz, ↓reduceIte] <;> (repeat' split) <;> omega
  | nChk r n last T R =>
    rw [hpc] at h hw; simp only at h hw
    obtain ⟨_, _, hnp, _, hTk, _⟩ := hw
    have hq := hQ.1
    split at h <;> cases h
    · refine ⟨rfl, rfl, rfl, Nat.le_refl _, ⟨hQ.1, by simp⟩, fun _ => Or.inr ?_⟩
      simp only [rank, hpc]; split <;> omega
    · rename_i hle
      refine ⟨rfl, rfl, rfl, Nat.le_refl _, ⟨hQ.1, ?_⟩, fun hns => Or.inr ?_⟩
      · cases last <;> cases r <;> simp [next]
      · have hn := (not_served hns).1
        have := rank_next { s with wpc := next r last T R } r last T R rfl (fun hl => by have := (hTk hl).2.1; simp only; omega)
        by_cases hst : n < s.pending
        · simp only [rank, hpc, hst, ↓reduceIte] at this ⊢; omega
        · omega
  | flushB r n last T R =>
    rw [hpc] at h; simp only at h; cases h
    refine ⟨rfl, rfl, rfl, Nat.le_refl _, ⟨hQ.1, by simp⟩, fun _ => Or.inr ?_⟩
    simp only [rank, hpc]; split <;> omega
  | flushE r n last T R =>
    rw [hpc] at h; simp only at h; cases h
    refine ⟨rfl, rfl, rfl, Nat.le_refl _, ⟨hQ.1, by simp⟩, fun _ => Or.inr ?_⟩
    simp only [rank, hpc]; split <;> omega
  | pubLd r n last T R =>
    rw [hpc] at h hw; simp only at h hw
    obtain ⟨_, _, hnp, _, hTk, _⟩ := hw
    have hq := hQ.1
    split at h <;> cases h
    · refine ⟨rfl, rfl, rfl, Nat.le_refl _, ⟨hQ.1, by simp⟩, fun _ => Or.inr ?_⟩
      simp only [rank, hpc, ↓reduceIte]; split <;> omega
    · refine ⟨rfl, rfl, rfl, Nat.le_refl _, ⟨hQ.1, ?_⟩, fun hns => Or.inr ?_⟩
      · cases last <;> cases r <;> simp [next]
      · have hn := (not_served hns).1
        have := rank_next { s with wpc := next r last T R } r last T R rfl (fun hl => by have := (hTk hl).2.1; simp only; omega)
        by_cases hst : n < s.pending
        · simp only [rank, hpc, hst, ↓reduceIte] at this ⊢; omega
        · omega
  | pubCas r n last T R v =>
    rw [hpc] at h hw; simp only at h hw
    obtain ⟨⟨_, _, hnp, _, hTk, _⟩, hvn⟩ := hw
    have hq := hQ.1
    have hc := hQ.2
    rw [hpc] at hc; simp only at hc
    split at h
    · rename_i heq
      cases h
      refine ⟨rfl, rfl, rfl, by simp only; omega, ⟨hQ.1, ?_⟩, fun hns => ?_⟩
      · simp only [hpc]; right; exact Nat.le_refl _
      · by_cases hst : n < s.pending
        · right
          have hne : n ≠ v := by omega
          simp only [rank, hpc, hst, heq, hne, ↓reduceIte]; omega
        · left; left; simp only; omega
    · rename_i hne
      split at h
      · omega
      · rename_i hle
        cases h
        refine ⟨rfl, rfl, rfl, Nat.le_refl _, ⟨hQ.1, ?_⟩, fun hns => Or.inr ?_⟩
        · cases last <;> cases r <;> simp [next]
        · have hn := (not_served hns).1
          have := rank_next { s with wpc := next r last T R } r last T R rfl (fun hl => by have := (hTk hl).2.1; simp only; omega)
          by_cases hst : n < s.pending
          · simp only [rank, hpc, hne, hst, ↓reduceIte] at this ⊢; omega
          · omega
  | dEmpty =>
    rw [hpc] at h hw; simp only at h hw
    have hsd := hw.2.2
    split at h <;> cases h <;>
      exact ⟨rfl, rfl, rfl, Nat.le_refl _, ⟨hQ.1, by simp⟩, fun hns => absurd (Or.inr hsd) hns⟩
  | dPend =>
    rw [hpc] at h hw; simp only at h hw
    have hsd := hw.2.2.1
    cases h
    exact ⟨rfl, rfl, rfl, Nat.le_refl _, ⟨hQ.1, by simp⟩, fun hns => absurd (Or.inr hsd) hns⟩
  | dNot pn =>
    rw [hpc] at h hw; simp only at h hw
    have hsd := hw.2.2.1
    split at h <;> cases h <;>
      exact ⟨rfl, rfl, rfl, Nat.le_refl _, ⟨hQ.1, by simp⟩, fun hns => absurd (Or.inr hsd) hns⟩

theorem worker_goal (s s' : St) (a : Act) (ha : isW a = true) (hI : Inv s) (hQ : QC s) (h : step s a = some s') : WGoal s s' := by
  cases a with
  | wWake => exact wake_goal s s' hQ h
  | wStep => exact wstep_goal s s' hI hQ h
  | fStep f r => cases ha
  | sStep i => cases ha
  | pStep p d => cases ha

/-- any transition: what is monotone, and `QC` -/
theorem step_facts (s s' : St) (a : Act) (hI : Inv s) (hQ : QC s) (h : step s a = some s') :
    s.pending ≤ s'.pending ∧ s'.maxQ = s.maxQ ∧ s.notified ≤ s'.notified ∧ (s.isShutdown = true → s'.isShutdown = true) ∧ QC s' := by
  cases ha : isW a with
  | true =>
    obtain ⟨a1, a2, a3, a4, a5, _⟩ := worker_goal s s' a ha hI hQ h
    exact ⟨by omega, a2, a4, fun hs => by rw [a3]; exact hs, a5⟩
  | false =>
    obtain ⟨_, b2, b3, _, b5, b6, _⟩ := other_step s s' a ha h
    exact ⟨b5, b3, by omega, b6, qc_other s s' a ha hQ h⟩

theorem qc_run (s s' : St) (as : List Act) (hI : Inv s) (hQ : QC s) (h : run s as = some s') :
    QC s' ∧ s.pending ≤ s'.pending ∧ s'.maxQ = s.maxQ ∧ s.notified ≤ s'.notified ∧ (s.isShutdown = true → s'.isShutdown = true) := by
  induction as generalizing s with
  | nil => simp [run] at h; subst h; exact ⟨hQ, Nat.le_refl _, rfl, Nat.le_refl _, id⟩
  | cons a as ih =>
    simp only [run] at h
    split at h
    · rename_i s1 hs1
      obtain ⟨a1, a2, a3, a4, a5⟩ := step_facts s s1 a hI hQ hs1
      obtain ⟨b1, b2, b3, b4, b5⟩ := ih s1 (inv_step s s1 a hI hs1) a5 h
      exact ⟨b1, by omega, b3.trans a2, by omega, fun hs => b5 (a4 hs)⟩
    · cases h

theorem reachable_qc (maxQ maxB : Nat) (hb : 1 ≤ maxB) (as : List Act) (s : St) (h : run (init maxQ maxB) as = some s) : QC s :=
  (qc_run _ _ as (inv_init maxQ maxB hb) (qc_init maxQ maxB) h).1

theorem served_run (P : Nat) (s s' : St) (as : List Act) (hI : Inv s) (hQ : QC s) (h : run s as = some s')
    (hS : Served P s) : Served P s' := by
  obtain ⟨_, _, _, hn, hsd⟩ := qc_run s s' as hI hQ h
  rcases hS with hS | hS
  · left; omega
  · right; exact hsd hS

theorem rank_pos_or_served (s : St) (hI : Inv s) (h0 : rank s = 0) : s.isShutdown = true := by
  have hw := hI.w
  unfold WInv at hw
  unfold rank at h0
  cases hpc : s.wpc <;> rw [hpc] at h0 hw <;> simp only at h0 hw <;> first
    | exact hw.2.2.1
    | exact hw.2.2
    | (exfalso; revert h0; (repeat' split) <;> omega)

/-- the heart of the progress argument, by induction over the schedule -/
theorem served_of_wcount (as : List Act) : ∀ (s s' : St), Inv s → QC s → run s as = some s' → s'.pending = s.pending →
    rank s ≤ wcount as → Served s.pending s' := by
  induction as with
  | nil =>
    intro s s' hI hQ h _ hr
    simp [run] at h; subst h
    exact Or.inr (rank_pos_or_served s hI (by simpa [wcount] using hr))
  | cons a as ih =>
    intro s s' hI hQ h hp hr
    simp only [run] at h
    split at h
    · rename_i s1 hs1
      have hI1 := inv_step s s1 a hI hs1
      obtain ⟨a1, _, _, _, hQ1⟩ := step_facts s s1 a hI hQ hs1
      obtain ⟨_, c2, _, _, _⟩ := qc_run s1 s' as hI1 hQ1 h
      have hp1 : s1.pending = s.pending := by omega
      have hp' : s'.pending = s1.pending := by omega
      by_cases hS : Served s.pending s
      · exact served_run _ s s' (a :: as) hI hQ (by simp only [run, hs1]; exact h) hS
      · cases ha : isW a with
        | true =>
          obtain ⟨_, _, _, _, _, hg⟩ := worker_goal s s1 a ha hI hQ hs1
          rcases hg hS with hg | hg
          · exact served_run _ s1 s' as hI1 hQ1 h hg
          · have := ih s1 s' hI1 hQ1 h hp' (by simp only [wcount, ha, ↓reduceIte] at hr; omega)
            rw [hp1] at this; exact this
        | false =>
          obtain ⟨b1, b2, b3, _, _, _, _⟩ := other_step s s1 a ha hs1
          have hrk := rank_other s s1 b1 b2 b3 hp1
          have := ih s1 s' hI1 hQ1 h hp' (by simp only [wcount, ha] at hr; simp at hr; omega)
          rw [hp1] at this; exact this
    · cases h

theorem rank_le (s : St) (hI : Inv s) (hQ : QC s) : rank s ≤ 5 * s.maxQ + 24 := by
  have hw := hI.w
  have hq := hQ.1
  have hc := hQ.2
  unfold WInv at hw
  unfold rank
  cases hpc : s.wpc <;> rw [hpc] at hw hc <;> simp only at hw hc ⊢ <;> (repeat' split) <;> first
    | omega
    | (have := hw.2.2.1.2.1; omega)
    | (have := hw.2.2.1.2.1; have := hw.2.2.2.1; omega)

end Otel.Batch
