import OtelVerif.Model.BatchAbs
/-! The inductive invariant of the batch-processor protocol (`Model/BatchAbs.lean`). -/
namespace Otel.Batch
open Otel.Ring (upd upd_same upd_other)

/-- what the worker knows about the flush ticket `T` it is serving and the `R` records still owed to it -/
def Tk (s : St) (T R : Nat) : Prop :=
  T ≤ s.pending ∧ R ≤ s.head - s.tail ∧ (1 ≤ T → s.tickHead T ≤ s.tail + R)

/-- facts that depend on where the worker is -/
def WInv (s : St) : Prop :=
  match s.wpc with
  | .idle | .chk => s.exported = s.tail ∧ s.inExport = 0
  | .dEmpty => s.exported = s.tail ∧ s.inExport = 0 ∧ s.isShutdown = true
  | .dPend | .dNot _ | .done => s.exported = s.tail ∧ s.inExport = 0 ∧ s.isShutdown = true ∧ s.sdHead ≤ s.exported
  | .ticket r T R => s.exported = s.tail ∧ s.inExport = 0 ∧ Tk s T R ∧ (r = .drain → s.isShutdown = true)
  | .size r n T R =>
      s.exported = s.tail ∧ s.inExport = 0 ∧ Tk s T R ∧ n ≤ s.pending ∧ T ≤ n ∧ (r = .drain → s.isShutdown = true)
  | .consume r n T R num =>
      s.exported = s.tail ∧ s.inExport = 0 ∧ Tk s T R ∧ T = n ∧ 1 ≤ num ∧ num ≤ s.maxB ∧ num ≤ s.head - s.tail ∧
      (r = .drain → s.isShutdown = true)
  | .exportB r n T R num =>
      s.exported + num = s.tail ∧ s.inExport = 0 ∧ Tk s T (R - num) ∧ T = n ∧ 1 ≤ num ∧ num ≤ s.maxB ∧
      (r = .drain → s.isShutdown = true)
  | .exportE r n T R num =>
      s.exported + num = s.tail ∧ s.inExport = 1 ∧ Tk s T (R - num) ∧ T = n ∧ 1 ≤ num ∧ num ≤ s.maxB ∧
      (r = .drain → s.isShutdown = true)
  | .nChk r n last T R | .flushB r n last T R | .flushE r n last T R =>
      s.exported = s.tail ∧ s.inExport = 0 ∧ n ≤ s.pending ∧ (1 ≤ n → s.tickHead n ≤ s.exported) ∧
      (last = false → Tk s T R) ∧ (r = .drain → s.isShutdown = true)
  | .pubLd r n last T R =>
      s.exported = s.tail ∧ s.inExport = 0 ∧ n ≤ s.pending ∧ (1 ≤ n → s.tickHead n ≤ s.flushedUpTo) ∧
      (last = false → Tk s T R) ∧ (r = .drain → s.isShutdown = true)
  | .pubCas r n last T R v =>
      (s.exported = s.tail ∧ s.inExport = 0 ∧ n ≤ s.pending ∧ (1 ≤ n → s.tickHead n ≤ s.flushedUpTo) ∧
      (last = false → Tk s T R) ∧ (r = .drain → s.isShutdown = true)) ∧ v < n

def FInv (s : St) (f : Nat) : Prop :=
  match s.fl f with
  | .idle => True
  | .chk bh | .ticket bh => bh ≤ s.head
  | .wait bh cur seen => 1 ≤ cur ∧ cur ≤ s.pending ∧ bh ≤ s.tickHead cur ∧ (∀ v, seen = some v → v ≤ s.notified)
  | .ret bh ok => ok = true → bh ≤ s.flushedUpTo

def SInv (s : St) (i : Nat) : Prop :=
  match s.sd i with
  | .idle | .begin | .ret => s.sdLock ≠ some i
  | .locked => s.sdLock = some i ∧ (s.isShutdown = true → s.expShutdowns = 1 ∧ s.joined = true ∧ s.wpc = .done)
  | .joinW a => s.sdLock = some i ∧ s.isShutdown = true ∧ a = false ∧ s.expShutdowns = 0 ∧ s.joined = false
  | .expB => s.sdLock = some i ∧ s.isShutdown = true ∧ s.wpc = .done ∧ s.joined = true ∧ s.expShutdowns = 0
  | .expE | .unlockP => s.sdLock = some i ∧ s.isShutdown = true ∧ s.wpc = .done ∧ s.joined = true ∧ s.expShutdowns = 1

structure Inv (s : St) : Prop where
  maxBpos  : 1 ≤ s.maxB
  notLe    : s.notified ≤ s.pending
  expLe    : s.exported ≤ s.tail
  tailLe   : s.tail ≤ s.head
  fluLe    : s.flushedUpTo ≤ s.exported
  ticks    : ∀ t, 1 ≤ t → t ≤ s.notified → s.tickHead t ≤ s.flushedUpTo
  tickHd   : ∀ t, 1 ≤ t → t ≤ s.pending → s.tickHead t ≤ s.head
  tickMono : ∀ t u, 1 ≤ t → t ≤ u → u ≤ s.pending → s.tickHead t ≤ s.tickHead u
  w        : WInv s
  f        : ∀ f, FInv s f
  sd       : ∀ i, SInv s i
  sdHd     : s.isShutdown = true → s.sdHead ≤ s.head
  free     : s.isShutdown = true → s.sdLock = none → s.expShutdowns = 1 ∧ s.joined = true ∧ s.wpc = .done
  notSd    : s.isShutdown = false → s.expShutdowns = 0 ∧ s.joined = false ∧ s.sdReturned = false ∧ s.wpc ≠ .done
  retd     : s.sdReturned = true → s.isShutdown = true ∧ s.expShutdowns = 1 ∧ s.joined = true ∧ s.wpc = .done
  sdOnce   : s.expShutdowns ≤ 1
  batches  : ∀ b ∈ s.batches, 1 ≤ b ∧ b ≤ s.maxB
  late     : s.lateCalls = 0

theorem inv_init (maxQ maxB : Nat) (h : 1 ≤ maxB) : Inv (init maxQ maxB) := by
  refine ⟨h, ?_, ?_, ?_, ?_, ?_, ?_, ?_, ?_, ?_, ?_, ?_, ?_, ?_, ?_, ?_, ?_, ?_⟩ <;>
    simp [init, WInv, FInv, SInv]

/-! ### frame lemmas -/

theorem Tk_mono {s s' : St} {T R : Nat} (hp : s.pending ≤ s'.pending) (hh : s.head ≤ s'.head) (ht : s'.tail = s.tail)
    (hk : ∀ t, 1 ≤ t → t ≤ s.pending → s'.tickHead t = s.tickHead t) (h : Tk s T R) : Tk s' T R := by
  obtain ⟨h1, h2, h3⟩ := h
  refine ⟨by omega, by rw [ht]; omega, ?_⟩
  intro hT
  rw [hk T hT h1, ht]; exact h3 hT

/-- a step of another thread that leaves the worker's pc, `tail`, `exported`, `inExport`, `flushedUpTo` alone, lets
    `head`, `pending` grow, keeps `is_shutdown` once set and `sdHead`, and issues tickets only above `pending` -/
theorem WInv_frame {s s' : St} (hw : s'.wpc = s.wpc) (ht : s'.tail = s.tail) (he : s'.exported = s.exported)
    (hi : s'.inExport = s.inExport) (hf : s'.flushedUpTo = s.flushedUpTo) (hp : s.pending ≤ s'.pending)
    (hh : s.head ≤ s'.head) (hsd : s.isShutdown = true → s'.isShutdown = true)
    (hsh : s.isShutdown = true → s'.sdHead = s.sdHead)
    (hk : ∀ t, 1 ≤ t → t ≤ s.pending → s'.tickHead t = s.tickHead t) (hmb : s'.maxB = s.maxB) (h : WInv s) : WInv s' := by
  have tk : ∀ T R, Tk s T R → Tk s' T R := fun T R => Tk_mono hp hh ht hk
  have hdone : s.exported = s.tail ∧ s.inExport = 0 ∧ s.isShutdown = true ∧ s.sdHead ≤ s.exported →
      s.exported = s.tail ∧ s.inExport = 0 ∧ s'.isShutdown = true ∧ s'.sdHead ≤ s.exported :=
    fun h => ⟨h.1, h.2.1, hsd h.2.2.1, by rw [hsh h.2.2.1]; exact h.2.2.2⟩
  have hn : ∀ (r : Ret) (n : Nat) (last : Bool) (T R : Nat),
      (s.exported = s.tail ∧ s.inExport = 0 ∧ n ≤ s.pending ∧ (1 ≤ n → s.tickHead n ≤ s.exported) ∧
        (last = false → Tk s T R) ∧ (r = .drain → s.isShutdown = true)) →
      (s.exported = s.tail ∧ s.inExport = 0 ∧ n ≤ s'.pending ∧ (1 ≤ n → s'.tickHead n ≤ s.exported) ∧
        (last = false → Tk s' T R) ∧ (r = .drain → s'.isShutdown = true)) := by
    intro r n last T R ⟨a, b, c, d, e, f⟩
    exact ⟨a, b, by omega, fun hn => by rw [hk _ hn c]; exact d hn, fun hl => tk _ _ (e hl), fun hr => hsd (f hr)⟩
  have hpb : ∀ (r : Ret) (n : Nat) (last : Bool) (T R : Nat),
      (s.exported = s.tail ∧ s.inExport = 0 ∧ n ≤ s.pending ∧ (1 ≤ n → s.tickHead n ≤ s.flushedUpTo) ∧
        (last = false → Tk s T R) ∧ (r = .drain → s.isShutdown = true)) →
      (s.exported = s.tail ∧ s.inExport = 0 ∧ n ≤ s'.pending ∧ (1 ≤ n → s'.tickHead n ≤ s'.flushedUpTo) ∧
        (last = false → Tk s' T R) ∧ (r = .drain → s'.isShutdown = true)) := by
    intro r n last T R ⟨a, b, c, d, e, f⟩
    exact ⟨a, b, by omega, fun hn => by rw [hk _ hn c, hf]; exact d hn, fun hl => tk _ _ (e hl), fun hr => hsd (f hr)⟩
  unfold WInv at *
  rw [hw]
  cases hpc : s.wpc with
  | idle => rw [hpc] at h; simp only at h ⊢; rw [he, ht, hi]; exact h
  | chk => rw [hpc] at h; simp only at h ⊢; rw [he, ht, hi]; exact h
  | ticket r T R =>
    rw [hpc] at h; simp only at h ⊢; rw [he, ht, hi]
    exact ⟨h.1, h.2.1, tk _ _ h.2.2.1, fun hr => hsd (h.2.2.2 hr)⟩
  | size r n T R =>
    rw [hpc] at h; simp only at h ⊢; rw [he, ht, hi]
    exact ⟨h.1, h.2.1, tk _ _ h.2.2.1, by omega, h.2.2.2.2.1, fun hr => hsd (h.2.2.2.2.2 hr)⟩
  | consume r n T R num =>
    rw [hpc] at h; simp only at h ⊢; rw [he, ht, hi]
    obtain ⟨a, b, c, d, e, f, g, i⟩ := h
    exact ⟨a, b, tk _ _ c, d, e, by rw [hmb]; exact f, by omega, fun hr => hsd (i hr)⟩
  | exportB r n T R num =>
    rw [hpc] at h; simp only at h ⊢; rw [he, ht, hi]
    obtain ⟨a, b, c, d, e, f, g⟩ := h
    exact ⟨a, b, tk _ _ c, d, e, by rw [hmb]; exact f, fun hr => hsd (g hr)⟩
  | exportE r n T R num =>
    rw [hpc] at h; simp only at h ⊢; rw [he, ht, hi]
    obtain ⟨a, b, c, d, e, f, g⟩ := h
    exact ⟨a, b, tk _ _ c, d, e, by rw [hmb]; exact f, fun hr => hsd (g hr)⟩
  | nChk r n last T R => rw [hpc] at h; simp only at h ⊢; rw [he, ht, hi]; exact hn r n last T R h
  | flushB r n last T R => rw [hpc] at h; simp only at h ⊢; rw [he, ht, hi]; exact hn r n last T R h
  | flushE r n last T R => rw [hpc] at h; simp only at h ⊢; rw [he, ht, hi]; exact hn r n last T R h
  | pubLd r n last T R => rw [hpc] at h; simp only at h ⊢; rw [he, ht, hi]; exact hpb r n last T R h
  | pubCas r n last T R v => rw [hpc] at h; simp only at h ⊢; rw [he, ht, hi]; exact ⟨hpb r n last T R h.1, h.2⟩
  | dEmpty => rw [hpc] at h; simp only at h ⊢; rw [he, ht, hi]; exact ⟨h.1, h.2.1, hsd h.2.2⟩
  | dPend => rw [hpc] at h; simp only at h ⊢; rw [he, ht, hi]; exact hdone h
  | dNot pn => rw [hpc] at h; simp only at h ⊢; rw [he, ht, hi]; exact hdone h
  | done => rw [hpc] at h; simp only at h ⊢; rw [he, ht, hi]; exact hdone h

theorem FInv_frame {s s' : St} (f : Nat) (h1 : s'.fl f = s.fl f) (h2 : s.head ≤ s'.head) (h3 : s.pending ≤ s'.pending)
    (h4 : ∀ t, 1 ≤ t → t ≤ s.pending → s'.tickHead t = s.tickHead t) (h5 : s.flushedUpTo ≤ s'.flushedUpTo)
    (h6 : s.notified ≤ s'.notified) (h : FInv s f) : FInv s' f := by
  unfold FInv at *
  rw [h1]
  cases hpc : s.fl f with
  | idle => trivial
  | chk bh => rw [hpc] at h; simp only at h ⊢; omega
  | ticket bh => rw [hpc] at h; simp only at h ⊢; omega
  | wait bh cur seen =>
    rw [hpc] at h; simp only at h ⊢
    obtain ⟨a, b, c, d⟩ := h
    exact ⟨a, by omega, by rw [h4 _ a b]; exact c, fun v hv => Nat.le_trans (d v hv) h6⟩
  | ret bh ok => rw [hpc] at h; simp only at h ⊢; intro hok; have := h hok; omega

theorem SInv_frame {s s' : St} (i : Nat) (h1 : s'.sd i = s.sd i) (h2 : s'.sdLock = s.sdLock)
    (h3 : s'.isShutdown = s.isShutdown) (h4 : s'.expShutdowns = s.expShutdowns) (h5 : s'.joined = s.joined)
    (h6 : s.wpc = .done → s'.wpc = .done) (h : SInv s i) : SInv s' i := by
  unfold SInv at *
  rw [h1]
  cases hpc : s.sd i with
  | idle => rw [hpc] at h; simp only at h ⊢; rw [h2]; exact h
  | begin => rw [hpc] at h; simp only at h ⊢; rw [h2]; exact h
  | ret => rw [hpc] at h; simp only at h ⊢; rw [h2]; exact h
  | locked =>
    rw [hpc] at h; simp only at h ⊢; rw [h2, h3, h4, h5]
    exact ⟨h.1, fun hs => ⟨(h.2 hs).1, (h.2 hs).2.1, h6 (h.2 hs).2.2⟩⟩
  | joinW a => rw [hpc] at h; simp only at h ⊢; rw [h2, h3, h4, h5]; exact h
  | expB => rw [hpc] at h; simp only at h ⊢; rw [h2, h3, h4, h5]; exact ⟨h.1, h.2.1, h6 h.2.2.1, h.2.2.2⟩
  | expE => rw [hpc] at h; simp only at h ⊢; rw [h2, h3, h4, h5]; exact ⟨h.1, h.2.1, h6 h.2.2.1, h.2.2.2⟩
  | unlockP => rw [hpc] at h; simp only at h ⊢; rw [h2, h3, h4, h5]; exact ⟨h.1, h.2.1, h6 h.2.2.1, h.2.2.2⟩

end Otel.Batch
