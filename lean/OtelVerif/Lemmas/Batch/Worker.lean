import OtelVerif.Lemmas.Batch.Inv
namespace Otel.Batch
open Otel.Ring (upd upd_same upd_other)

theorem late_zero {s : St} (hI : Inv s) (hnd : s.wpc ≠ .done) : late s = 0 := by
  unfold late
  split
  · rename_i hr; exact absurd (hI.retd hr).2.2.2 hnd
  · exact hI.late

/-- a step of the worker: everything that belongs to other threads is untouched -/
theorem inv_wlocal (s s' : St) (hI : Inv s) (hnd : s.wpc ≠ .done)
    (hmaxB : s'.maxB = s.maxB) (hhead : s'.head = s.head) (hpend : s'.pending = s.pending)
    (hisd : s'.isShutdown = s.isShutdown) (hfl : s'.fl = s.fl) (hsd : s'.sd = s.sd) (hlock : s'.sdLock = s.sdLock)
    (hsdH : s'.sdHead = s.sdHead) (htick : s'.tickHead = s.tickHead) (hxs : s'.expShutdowns = s.expShutdowns)
    (hjoin : s'.joined = s.joined) (hret : s'.sdReturned = s.sdReturned)
    (hnot : s.notified ≤ s'.notified ∧ s'.notified ≤ s.pending)
    (hexp : s'.exported ≤ s'.tail) (htail : s'.tail ≤ s.head)
    (hflu : s.flushedUpTo ≤ s'.flushedUpTo ∧ s'.flushedUpTo ≤ s'.exported)
    (hticks : ∀ t, 1 ≤ t → t ≤ s'.notified → s.tickHead t ≤ s'.flushedUpTo)
    (hw : WInv s') (hbat : ∀ b ∈ s'.batches, 1 ≤ b ∧ b ≤ s.maxB) (hlate : s'.lateCalls = 0)
    (hdone : s'.wpc = .done → s.isShutdown = true) : Inv s' := by
  refine ⟨by rw [hmaxB]; exact hI.maxBpos, by rw [hpend]; exact hnot.2, hexp, by rw [hhead]; exact htail, hflu.2,
    by rw [htick]; exact hticks, by rw [htick, hpend, hhead]; exact hI.tickHd, by rw [htick, hpend]; exact hI.tickMono, hw,
    ?_, ?_, by rw [hisd, hsdH, hhead]; exact hI.sdHd, ?_, ?_, ?_, by rw [hxs]; exact hI.sdOnce, by rw [hmaxB]; exact hbat, hlate⟩
  · intro f
    exact FInv_frame (s := s) f (by rw [hfl]) (by rw [hhead]; exact Nat.le_refl _) (by rw [hpend]; exact Nat.le_refl _)
      (fun t _ _ => by rw [htick]) hflu.1 hnot.1 (hI.f f)
  · intro i
    exact SInv_frame (s := s) i (by rw [hsd]) hlock hisd hxs hjoin (fun h => absurd h hnd) (hI.sd i)
  · intro h1 h2
    rw [hisd] at h1; rw [hlock] at h2
    exact absurd (hI.free h1 h2).2.2 hnd
  · intro h1
    rw [hisd] at h1
    obtain ⟨a, b, c, _⟩ := hI.notSd h1
    refine ⟨by rw [hxs]; exact a, by rw [hjoin]; exact b, by rw [hret]; exact c, ?_⟩
    intro hd
    have := hdone hd
    rw [h1] at this; cases this
  · intro h1
    rw [hret] at h1
    exact absurd (hI.retd h1).2.2.2 hnd

theorem inv_wake (s s' : St) (hI : Inv s) (h : step s .wWake = some s') : Inv s' := by
  simp only [step] at h
  split at h
  · rename_i hidle
    cases h
    have hw := hI.w
    unfold WInv at hw; rw [hidle] at hw; simp only at hw
    refine inv_wlocal s _ hI (by rw [hidle]; simp) rfl rfl rfl rfl rfl rfl rfl rfl rfl rfl rfl rfl
      ⟨Nat.le_refl _, hI.notLe⟩ hI.expLe hI.tailLe ⟨Nat.le_refl _, hI.fluLe⟩ hI.ticks ?_ hI.batches hI.late (by intro h; cases h)
    unfold WInv; exact hw
  · cases h

theorem winv_next {s' : St} (r : Ret) (last : Bool) (T R : Nat) (hw : s'.wpc = next r last T R)
    (h1 : s'.exported = s'.tail) (h2 : s'.inExport = 0) (h3 : last = false → Tk s' T R)
    (h4 : r = .drain → s'.isShutdown = true) : WInv s' := by
  unfold WInv; rw [hw]; unfold next
  cases last
  · simp only [Bool.false_eq_true, if_false]; exact ⟨h1, h2, h3 rfl, h4⟩
  · cases r
    · simp only [if_true]; exact ⟨h1, h2⟩
    · simp only [if_true]; exact ⟨h1, h2, h4 rfl⟩

theorem next_ne_done (r : Ret) (last : Bool) (T R : Nat) : next r last T R ≠ .done := by
  unfold next; cases last <;> cases r <;> simp

theorem inv_wStep (s s' : St) (hI : Inv s) (h : step s .wStep = some s') : Inv s' := by
  simp only [step, wStep] at h
  have hw := hI.w
  split at h
  · cases h
  · -- chk
    rename_i hpc; cases h
    unfold WInv at hw; rw [hpc] at hw; simp only at hw
    refine inv_wlocal s _ hI (by rw [hpc]; simp) rfl rfl rfl rfl rfl rfl rfl rfl rfl rfl rfl rfl
      ⟨Nat.le_refl _, hI.notLe⟩ hI.expLe hI.tailLe ⟨Nat.le_refl _, hI.fluLe⟩ hI.ticks ?_ hI.batches hI.late ?_
    · unfold WInv; simp only
      by_cases hsd : s.isShutdown = true
      · simp only [hsd, if_true]; exact ⟨hw.1, hw.2, trivial⟩
      · simp only [hsd]
        exact ⟨hw.1, hw.2, ⟨Nat.zero_le _, Nat.zero_le _, fun h => absurd h (by omega)⟩, fun h => by cases h⟩
    · intro hd; simp only at hd; split at hd <;> cases hd
  · -- ticket r T R
    rename_i r T R hpc; cases h
    unfold WInv at hw; rw [hpc] at hw; simp only at hw
    refine inv_wlocal s _ hI (by rw [hpc]; simp) rfl rfl rfl rfl rfl rfl rfl rfl rfl rfl rfl rfl
      ⟨Nat.le_refl _, hI.notLe⟩ hI.expLe hI.tailLe ⟨Nat.le_refl _, hI.fluLe⟩ hI.ticks ?_ hI.batches hI.late (by intro h; cases h)
    unfold WInv; simp only
    exact ⟨hw.1, hw.2.1, hw.2.2.1, Nat.le_refl _, hw.2.2.1.1, hw.2.2.2⟩
  · -- size r n T R
    rename_i r n T R hpc
    unfold WInv at hw; rw [hpc] at hw; simp only at hw
    obtain ⟨w1, w2, ⟨k1, k2, k3⟩, w4, w5, w6⟩ := hw
    have htl := hI.tailLe
    -- the ticket now being served and what is owed to it
    have hTk : Tk s (if n > T then n else T) (if n > T then s.head - s.tail else R) := by
      by_cases hnT : n > T
      · simp only [hnT, if_true]
        refine ⟨w4, Nat.le_refl _, fun hn => ?_⟩
        have := hI.tickHd n hn w4
        omega
      · simp only [hnT, if_false]; exact ⟨k1, k2, k3⟩
    have hTn : (if n > T then n else T) = n := by split <;> omega
    by_cases hge : s.head - s.tail ≥ s.maxB
    · -- a full batch
      have hne : ¬ s.maxB = 0 := by have := hI.maxBpos; omega
      have hnumeq : (if s.head - s.tail ≥ s.maxB then s.maxB else s.head - s.tail) = s.maxB := by rw [if_pos hge]
      simp only [hnumeq, hne, ↓reduceIte] at h
      cases h
      refine inv_wlocal s _ hI (by rw [hpc]; simp) rfl rfl rfl rfl rfl rfl rfl rfl rfl rfl rfl rfl
        ⟨Nat.le_refl _, hI.notLe⟩ hI.expLe hI.tailLe ⟨Nat.le_refl _, hI.fluLe⟩ hI.ticks ?_ hI.batches hI.late (by intro h; cases h)
      unfold WInv; simp only
      exact ⟨w1, w2, hTk, hTn, hI.maxBpos, Nat.le_refl _, hge, w6⟩
    · by_cases hz : s.head - s.tail = 0
      · -- empty snapshot: publish and leave
        have hnumeq : (if s.head - s.tail ≥ s.maxB then s.maxB else s.head - s.tail) = 0 := by rw [if_neg hge]; exact hz
        simp only [hnumeq, ↓reduceIte] at h
        cases h
        refine inv_wlocal s _ hI (by rw [hpc]; simp) rfl rfl rfl rfl rfl rfl rfl rfl rfl rfl rfl rfl
          ⟨Nat.le_refl _, hI.notLe⟩ hI.expLe hI.tailLe ⟨Nat.le_refl _, hI.fluLe⟩ hI.ticks ?_ hI.batches hI.late (by intro h; cases h)
        unfold WInv; simp only
        refine ⟨w1, w2, w4, ?_, (fun h => by cases h), w6⟩
        intro hn
        have := hI.tickHd n hn w4
        show s.tickHead n ≤ s.exported
        omega
      · have hnumeq : (if s.head - s.tail ≥ s.maxB then s.maxB else s.head - s.tail) = s.head - s.tail := by rw [if_neg hge]
        simp only [hnumeq, hz, ↓reduceIte] at h
        cases h
        refine inv_wlocal s _ hI (by rw [hpc]; simp) rfl rfl rfl rfl rfl rfl rfl rfl rfl rfl rfl rfl
          ⟨Nat.le_refl _, hI.notLe⟩ hI.expLe hI.tailLe ⟨Nat.le_refl _, hI.fluLe⟩ hI.ticks ?_ hI.batches hI.late (by intro h; cases h)
        unfold WInv; simp only
        exact ⟨w1, w2, hTk, hTn, by omega, by omega, Nat.le_refl _, w6⟩
  · -- consume
    rename_i r n T R num hpc; cases h
    unfold WInv at hw; rw [hpc] at hw; simp only at hw
    obtain ⟨w1, w2, ⟨k1, k2, k3⟩, w4, w5, w6, w7, w8⟩ := hw
    have htl := hI.tailLe
    refine inv_wlocal s _ hI (by rw [hpc]; simp) rfl rfl rfl rfl rfl rfl rfl rfl rfl rfl rfl rfl
      ⟨Nat.le_refl _, hI.notLe⟩ (by show s.exported ≤ s.tail + num; omega) (by show s.tail + num ≤ s.head; omega)
      ⟨Nat.le_refl _, hI.fluLe⟩ hI.ticks ?_ hI.batches hI.late (by intro h; cases h)
    unfold WInv; simp only
    refine ⟨by omega, w2, ⟨k1, ?_, ?_⟩, w4, w5, w6, w8⟩
    · show R - num ≤ s.head - (s.tail + num); omega
    · intro hT; have := k3 hT; show s.tickHead T ≤ s.tail + num + (R - num); omega
  · -- exportB
    rename_i r n T R num hpc; cases h
    unfold WInv at hw; rw [hpc] at hw; simp only at hw
    refine inv_wlocal s _ hI (by rw [hpc]; simp) rfl rfl rfl rfl rfl rfl rfl rfl rfl rfl rfl rfl
      ⟨Nat.le_refl _, hI.notLe⟩ hI.expLe hI.tailLe ⟨Nat.le_refl _, hI.fluLe⟩ hI.ticks ?_ hI.batches
      (late_zero hI (by rw [hpc]; simp)) (by intro h; cases h)
    unfold WInv; simp only
    obtain ⟨w1, w2, w3, w4, w5, w6, w7⟩ := hw
    exact ⟨w1, by rw [w2], w3, w4, w5, w6, w7⟩
  · -- exportE
    rename_i r n T R num hpc; cases h
    unfold WInv at hw; rw [hpc] at hw; simp only at hw
    obtain ⟨w1, w2, ⟨k1, k2, k3⟩, w4, w5, w6, w7⟩ := hw
    have hfl := hI.fluLe
    refine inv_wlocal s _ hI (by rw [hpc]; simp) rfl rfl rfl rfl rfl rfl rfl rfl rfl rfl rfl rfl
      ⟨Nat.le_refl _, hI.notLe⟩ (by show s.exported + num ≤ s.tail; omega) hI.tailLe
      ⟨Nat.le_refl _, by show s.flushedUpTo ≤ s.exported + num; omega⟩ hI.ticks ?_ ?_ hI.late ?_
    · by_cases hR : R - num = 0
      · unfold WInv; simp only [hR, if_true]
        refine ⟨w1, by rw [w2], by rw [← w4]; exact k1, ?_, fun _ => ⟨k1, Nat.zero_le _, ?_⟩, w7⟩
        · intro hn; rw [← w4] at hn ⊢; have := k3 hn; rw [hR] at this; show s.tickHead T ≤ s.exported + num; omega
        · intro hT; have := k3 hT; rw [hR] at this; exact this
      · unfold WInv; simp only [hR, if_false]
        exact ⟨w1, by rw [w2], ⟨k1, k2, k3⟩, w7⟩
    · intro b hb
      have hb' : b = num ∨ b ∈ s.batches := by simpa using hb
      rcases hb' with rfl | hb'
      · exact ⟨w5, w6⟩
      · exact hI.batches b hb'
    · intro hd; exfalso; simp only at hd; split at hd <;> cases hd
  · -- nChk
    rename_i r n last T R hpc
    unfold WInv at hw; rw [hpc] at hw; simp only at hw
    obtain ⟨w1, w2, w3, w4, w5, w6⟩ := hw
    split at h
    · cases h
      refine inv_wlocal s _ hI (by rw [hpc]; simp) rfl rfl rfl rfl rfl rfl rfl rfl rfl rfl rfl rfl
        ⟨Nat.le_refl _, hI.notLe⟩ hI.expLe hI.tailLe ⟨Nat.le_refl _, hI.fluLe⟩ hI.ticks ?_ hI.batches hI.late (by intro h; cases h)
      unfold WInv; simp only; exact ⟨w1, w2, w3, w4, w5, w6⟩
    · cases h
      refine inv_wlocal s _ hI (by rw [hpc]; simp) rfl rfl rfl rfl rfl rfl rfl rfl rfl rfl rfl rfl
        ⟨Nat.le_refl _, hI.notLe⟩ hI.expLe hI.tailLe ⟨Nat.le_refl _, hI.fluLe⟩ hI.ticks ?_ hI.batches hI.late
        (by intro h; exact absurd h (next_ne_done _ _ _ _))
      exact winv_next r last T R rfl w1 w2 w5 w6
  · -- flushB
    rename_i r n last T R hpc; cases h
    unfold WInv at hw; rw [hpc] at hw; simp only at hw
    refine inv_wlocal s _ hI (by rw [hpc]; simp) rfl rfl rfl rfl rfl rfl rfl rfl rfl rfl rfl rfl
      ⟨Nat.le_refl _, hI.notLe⟩ hI.expLe hI.tailLe ⟨Nat.le_refl _, hI.fluLe⟩ hI.ticks ?_ hI.batches
      (late_zero hI (by rw [hpc]; simp)) (by intro h; cases h)
    unfold WInv; simp only; exact hw
  · -- flushE: the exporter's ForceFlush has returned
    rename_i r n last T R hpc; cases h
    unfold WInv at hw; rw [hpc] at hw; simp only at hw
    obtain ⟨w1, w2, w3, w4, w5, w6⟩ := hw
    have hfl := hI.fluLe
    refine inv_wlocal s _ hI (by rw [hpc]; simp) rfl rfl rfl rfl rfl rfl rfl rfl rfl rfl rfl rfl
      ⟨Nat.le_refl _, hI.notLe⟩ hI.expLe hI.tailLe ⟨hfl, Nat.le_refl _⟩ ?_ ?_ hI.batches hI.late (by intro h; cases h)
    · intro t h1 h2; have := hI.ticks t h1 h2; show s.tickHead t ≤ s.exported; omega
    · unfold WInv; simp only; exact ⟨w1, w2, w3, w4, w5, w6⟩
  · -- pubLd
    rename_i r n last T R hpc
    unfold WInv at hw; rw [hpc] at hw; simp only at hw
    obtain ⟨w1, w2, w3, w4, w5, w6⟩ := hw
    split at h
    · rename_i hgt; cases h
      refine inv_wlocal s _ hI (by rw [hpc]; simp) rfl rfl rfl rfl rfl rfl rfl rfl rfl rfl rfl rfl
        ⟨Nat.le_refl _, hI.notLe⟩ hI.expLe hI.tailLe ⟨Nat.le_refl _, hI.fluLe⟩ hI.ticks ?_ hI.batches hI.late (by intro h; cases h)
      unfold WInv; simp only; exact ⟨⟨w1, w2, w3, w4, w5, w6⟩, hgt⟩
    · cases h
      refine inv_wlocal s _ hI (by rw [hpc]; simp) rfl rfl rfl rfl rfl rfl rfl rfl rfl rfl rfl rfl
        ⟨Nat.le_refl _, hI.notLe⟩ hI.expLe hI.tailLe ⟨Nat.le_refl _, hI.fluLe⟩ hI.ticks ?_ hI.batches hI.late
        (by intro h; exact absurd h (next_ne_done _ _ _ _))
      exact winv_next r last T R rfl w1 w2 w5 w6
  · -- pubCas
    rename_i r n last T R v hpc
    unfold WInv at hw; rw [hpc] at hw; simp only at hw
    obtain ⟨⟨w1, w2, w3, w4, w5, w6⟩, hvn⟩ := hw
    have hnl := hI.notLe
    split at h
    · -- the CAS succeeds: the ticket is published
      rename_i hv; cases h
      refine inv_wlocal s _ hI (by rw [hpc]; simp) rfl rfl rfl rfl rfl rfl rfl rfl rfl rfl rfl rfl
        ⟨by show s.notified ≤ n; omega, w3⟩ hI.expLe hI.tailLe ⟨Nat.le_refl _, hI.fluLe⟩ ?_ ?_ hI.batches hI.late
        (by intro h; rw [hpc] at h; cases h)
      · intro t h1 h2
        have h2' : t ≤ n := h2
        have hm := hI.tickMono t n h1 h2' w3
        have := w4 (by omega)
        show s.tickHead t ≤ s.flushedUpTo
        omega
      · unfold WInv; rw [show ({ s with notified := n } : St).wpc = s.wpc from rfl, hpc]; simp only
        exact ⟨⟨w1, w2, w3, w4, w5, w6⟩, hvn⟩
    · split at h
      · rename_i hgt; cases h
        refine inv_wlocal s _ hI (by rw [hpc]; simp) rfl rfl rfl rfl rfl rfl rfl rfl rfl rfl rfl rfl
          ⟨Nat.le_refl _, hI.notLe⟩ hI.expLe hI.tailLe ⟨Nat.le_refl _, hI.fluLe⟩ hI.ticks ?_ hI.batches hI.late (by intro h; cases h)
        unfold WInv; simp only; exact ⟨⟨w1, w2, w3, w4, w5, w6⟩, hgt⟩
      · cases h
        refine inv_wlocal s _ hI (by rw [hpc]; simp) rfl rfl rfl rfl rfl rfl rfl rfl rfl rfl rfl rfl
          ⟨Nat.le_refl _, hI.notLe⟩ hI.expLe hI.tailLe ⟨Nat.le_refl _, hI.fluLe⟩ hI.ticks ?_ hI.batches hI.late
          (by intro h; exact absurd h (next_ne_done _ _ _ _))
        exact winv_next r last T R rfl w1 w2 w5 w6
  · -- dEmpty
    rename_i hpc
    unfold WInv at hw; rw [hpc] at hw; simp only at hw
    obtain ⟨w1, w2, w3⟩ := hw
    split at h
    · rename_i hemp; cases h
      refine inv_wlocal s _ hI (by rw [hpc]; simp) rfl rfl rfl rfl rfl rfl rfl rfl rfl rfl rfl rfl
        ⟨Nat.le_refl _, hI.notLe⟩ hI.expLe hI.tailLe ⟨Nat.le_refl _, hI.fluLe⟩ hI.ticks ?_ hI.batches hI.late (by intro h; cases h)
      unfold WInv; simp only
      have := hI.sdHd w3
      exact ⟨w1, w2, w3, by omega⟩
    · cases h
      refine inv_wlocal s _ hI (by rw [hpc]; simp) rfl rfl rfl rfl rfl rfl rfl rfl rfl rfl rfl rfl
        ⟨Nat.le_refl _, hI.notLe⟩ hI.expLe hI.tailLe ⟨Nat.le_refl _, hI.fluLe⟩ hI.ticks ?_ hI.batches hI.late (by intro h; cases h)
      unfold WInv; simp only
      exact ⟨w1, w2, ⟨Nat.zero_le _, Nat.zero_le _, fun h => absurd h (by omega)⟩, fun _ => w3⟩
  · -- dPend
    rename_i hpc; cases h
    unfold WInv at hw; rw [hpc] at hw; simp only at hw
    refine inv_wlocal s _ hI (by rw [hpc]; simp) rfl rfl rfl rfl rfl rfl rfl rfl rfl rfl rfl rfl
      ⟨Nat.le_refl _, hI.notLe⟩ hI.expLe hI.tailLe ⟨Nat.le_refl _, hI.fluLe⟩ hI.ticks ?_ hI.batches hI.late (by intro h; cases h)
    unfold WInv; simp only; exact hw
  · -- dNot
    rename_i pn hpc
    unfold WInv at hw; rw [hpc] at hw; simp only at hw
    obtain ⟨w1, w2, w3, w4⟩ := hw
    split at h
    · cases h
      refine inv_wlocal s _ hI (by rw [hpc]; simp) rfl rfl rfl rfl rfl rfl rfl rfl rfl rfl rfl rfl
        ⟨Nat.le_refl _, hI.notLe⟩ hI.expLe hI.tailLe ⟨Nat.le_refl _, hI.fluLe⟩ hI.ticks ?_ hI.batches hI.late (fun _ => w3)
      unfold WInv; simp only; exact ⟨w1, w2, w3, w4⟩
    · cases h
      refine inv_wlocal s _ hI (by rw [hpc]; simp) rfl rfl rfl rfl rfl rfl rfl rfl rfl rfl rfl rfl
        ⟨Nat.le_refl _, hI.notLe⟩ hI.expLe hI.tailLe ⟨Nat.le_refl _, hI.fluLe⟩ hI.ticks ?_ hI.batches hI.late (by intro h; cases h)
      unfold WInv; simp only
      exact ⟨w1, w2, ⟨Nat.zero_le _, Nat.zero_le _, fun h => absurd h (by omega)⟩, fun _ => w3⟩
  · cases h

end Otel.Batch
