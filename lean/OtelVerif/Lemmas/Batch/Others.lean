import OtelVerif.Lemmas.Batch.Worker
namespace Otel.Batch
open Otel.Ring (upd upd_same upd_other)

/-! ### producers -/

theorem inv_pStep (s s' : St) (p : Nat) (d : Bool) (hI : Inv s) (h : step s (.pStep p d) = some s') : Inv s' := by
  simp only [step, pStep] at h
  -- every producer step leaves everything but `pr`, `begun`, `dropped` and (commit) `head` alone
  have key : ∀ s1 : St, s1.maxB = s.maxB → s1.tail = s.tail → s1.exported = s.exported → s1.isShutdown = s.isShutdown →
      s1.pending = s.pending → s1.notified = s.notified → s1.wpc = s.wpc → s1.joined = s.joined → s1.fl = s.fl →
      s1.sd = s.sd → s1.sdLock = s.sdLock → s1.sdHead = s.sdHead → s1.tickHead = s.tickHead →
      s1.flushedUpTo = s.flushedUpTo → s1.inExport = s.inExport → s1.batches = s.batches →
      s1.expShutdowns = s.expShutdowns → s1.sdReturned = s.sdReturned → s1.lateCalls = s.lateCalls →
      s.head ≤ s1.head → Inv s1 := by
    intro s1 e1 e2 e3 e4 e5 e6 e7 e8 e9 e10 e11 e12 e13 e14 e15 e16 e17 e18 e19 hh
    refine ⟨by rw [e1]; exact hI.maxBpos, by rw [e5, e6]; exact hI.notLe, by rw [e2, e3]; exact hI.expLe,
      by rw [e2]; exact Nat.le_trans hI.tailLe hh, by rw [e14, e3]; exact hI.fluLe, by rw [e13, e6, e14]; exact hI.ticks,
      ?_, by rw [e13, e5]; exact hI.tickMono, ?_, ?_, ?_, ?_, by rw [e4, e11, e17, e8, e7]; exact hI.free,
      by rw [e4, e17, e8, e18, e7]; exact hI.notSd, by rw [e18, e4, e17, e8, e7]; exact hI.retd, by rw [e17]; exact hI.sdOnce,
      by rw [e16, e1]; exact hI.batches, by rw [e19]; exact hI.late⟩
    · intro t h1 h2; rw [e13]; rw [e5] at h2; exact Nat.le_trans (hI.tickHd t h1 h2) hh
    · exact WInv_frame (s := s) e7 e2 e3 e15 e14 (by rw [e5]; exact Nat.le_refl _) hh (by rw [e4]; exact id)
        (fun _ => e12) (fun t _ _ => by rw [e13]) e1 hI.w
    · intro f
      exact FInv_frame (s := s) f (by rw [e9]) hh (by rw [e5]; exact Nat.le_refl _) (fun t _ _ => by rw [e13])
        (by rw [e14]; exact Nat.le_refl _) (by rw [e6]; exact Nat.le_refl _) (hI.f f)
    · intro i
      exact SInv_frame (s := s) i (by rw [e10]) e11 e4 e17 e8 (by rw [e7]; exact id) (hI.sd i)
    · intro h1; rw [e4] at h1; rw [e12]; exact Nat.le_trans (hI.sdHd h1) hh
  split at h
  · cases h; exact key _ rfl rfl rfl rfl rfl rfl rfl rfl rfl rfl rfl rfl rfl rfl rfl rfl rfl rfl rfl (Nat.le_refl _)
  · split at h <;> (cases h; exact key _ rfl rfl rfl rfl rfl rfl rfl rfl rfl rfl rfl rfl rfl rfl rfl rfl rfl rfl rfl (Nat.le_refl _))
  · split at h
    · split at h
      · cases h; exact key _ rfl rfl rfl rfl rfl rfl rfl rfl rfl rfl rfl rfl rfl rfl rfl rfl rfl rfl rfl (Nat.le_refl _)
      · cases h
    · split at h
      · cases h; exact key _ rfl rfl rfl rfl rfl rfl rfl rfl rfl rfl rfl rfl rfl rfl rfl rfl rfl rfl rfl (Nat.le_succ _)
      · cases h
  · cases h; exact key _ rfl rfl rfl rfl rfl rfl rfl rfl rfl rfl rfl rfl rfl rfl rfl rfl rfl rfl rfl (Nat.le_refl _)
  · cases h; exact key _ rfl rfl rfl rfl rfl rfl rfl rfl rfl rfl rfl rfl rfl rfl rfl rfl rfl rfl rfl (Nat.le_refl _)

/-! ### ForceFlush callers -/

/-- a flusher step that only changes `fl f` -/
theorem inv_flocal (s : St) (f : Nat) (v : FPc) (hI : Inv s) (hv : FInv { s with fl := upd s.fl f v } f) :
    Inv { s with fl := upd s.fl f v } := by
  refine ⟨hI.maxBpos, hI.notLe, hI.expLe, hI.tailLe, hI.fluLe, hI.ticks, hI.tickHd, hI.tickMono, ?_, ?_, ?_, hI.sdHd,
    hI.free, hI.notSd, hI.retd, hI.sdOnce, hI.batches, hI.late⟩
  · exact WInv_frame (s := s) rfl rfl rfl rfl rfl (Nat.le_refl _) (Nat.le_refl _) id (fun _ => rfl) (fun _ _ _ => rfl) rfl hI.w
  · intro g
    by_cases hg : g = f
    · subst hg; exact hv
    · exact FInv_frame (s := s) g (by simp [upd_other _ _ _ _ hg]) (Nat.le_refl _) (Nat.le_refl _) (fun _ _ _ => rfl)
        (Nat.le_refl _) (Nat.le_refl _) (hI.f g)
  · intro i; exact SInv_frame (s := s) i rfl rfl rfl rfl rfl id (hI.sd i)

theorem inv_fStep (s s' : St) (f : Nat) (r : Bool) (hI : Inv s) (h : step s (.fStep f r) = some s') : Inv s' := by
  simp only [step, fStep] at h
  have hf := hI.f f
  split at h
  · -- idle
    cases h
    exact inv_flocal s f _ hI (by unfold FInv; simp)
  · -- chk
    rename_i bh hpc
    unfold FInv at hf; rw [hpc] at hf; simp only at hf
    split at h <;> (cases h; exact inv_flocal s f _ hI (by unfold FInv; simp [hf]))
  · -- ticket: a new ticket is issued
    rename_i bh hpc
    unfold FInv at hf; rw [hpc] at hf; simp only at hf
    cases h
    have hk : ∀ t, 1 ≤ t → t ≤ s.pending → upd s.tickHead (s.pending + 1) s.head t = s.tickHead t := by
      intro t _ ht; exact upd_other _ _ _ _ (by omega)
    refine ⟨hI.maxBpos, by show s.notified ≤ s.pending + 1; have := hI.notLe; omega, hI.expLe, hI.tailLe, hI.fluLe, ?_, ?_, ?_, ?_, ?_,
      ?_, hI.sdHd, hI.free, hI.notSd, hI.retd, hI.sdOnce, hI.batches, hI.late⟩
    · intro t h1 h2
      have h2' : t ≤ s.notified := h2
      show upd s.tickHead (s.pending + 1) s.head t ≤ s.flushedUpTo
      rw [hk t h1 (Nat.le_trans h2' hI.notLe)]; exact hI.ticks t h1 h2'
    · intro t h1 h2
      have h2' : t ≤ s.pending + 1 := h2
      show upd s.tickHead (s.pending + 1) s.head t ≤ s.head
      by_cases ht : t = s.pending + 1
      · subst ht; simp
      · rw [hk t h1 (by omega)]; exact hI.tickHd t h1 (by omega)
    · intro t u h1 h2 h3
      have h3' : u ≤ s.pending + 1 := h3
      show upd s.tickHead (s.pending + 1) s.head t ≤ upd s.tickHead (s.pending + 1) s.head u
      by_cases hu : u = s.pending + 1
      · subst hu
        by_cases ht : t = s.pending + 1
        · subst ht; exact Nat.le_refl _
        · rw [hk t h1 (by omega)]; simp; exact hI.tickHd t h1 (by omega)
      · rw [hk t h1 (by omega), hk u (by omega) (by omega)]; exact hI.tickMono t u h1 h2 (by omega)
    · exact WInv_frame (s := s) rfl rfl rfl rfl rfl (Nat.le_succ _) (Nat.le_refl _) id (fun _ => rfl) hk rfl hI.w
    · intro g
      by_cases hg : g = f
      · subst hg
        unfold FInv; simp only [upd_same]
        exact ⟨by omega, Nat.le_refl _, hf, fun v hv => by cases hv⟩
      · exact FInv_frame (s := s) g (by simp [upd_other _ _ _ _ hg]) (Nat.le_refl _) (Nat.le_succ _) hk
          (Nat.le_refl _) (Nat.le_refl _) (hI.f g)
    · intro i; exact SInv_frame (s := s) i rfl rfl rfl rfl rfl id (hI.sd i)
  · -- wait
    rename_i bh cur seen hpc
    unfold FInv at hf; rw [hpc] at hf; simp only at hf
    obtain ⟨f1, f2, f3, f4⟩ := hf
    split at h
    · split at h
      · rename_i v
        cases h
        refine inv_flocal s f _ hI ?_
        unfold FInv; simp only [upd_same, decide_eq_true_eq]
        intro hge
        have hv := f4 v rfl
        have := hI.ticks cur f1 (by omega)
        omega
      · cases h
    · cases h
      refine inv_flocal s f _ hI ?_
      unfold FInv; simp only [upd_same]
      exact ⟨f1, f2, f3, fun v hv => by cases hv; exact Nat.le_refl _⟩
  · cases h

end Otel.Batch
