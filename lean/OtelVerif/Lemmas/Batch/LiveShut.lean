import OtelVerif.Lemmas.Batch.Live
/-! # Termination of the worker after `Shutdown` (`DrainQueue`)

Once `is_shutdown` is set and the environment is quiet (no producer that had passed the `is_shutdown` test commits any
more, no `ForceFlush` caller that had passed it issues a ticket any more - there are finitely many of each), the worker
reaches the end of `DoBackgroundWork` after a bounded number of its own transitions, so the `join()` in `Shutdown`
returns.  The measure is `32 * (queued + unpublished tickets) + off`, where `off < 32` orders the program counters
between two "paying" transitions (a `Consume`, which shrinks the queue, or a successful publishing CAS). -/
namespace Otel.Batch
open Otel.Ring (upd upd_same upd_other)

def offE (s : St) : Nat := if s.head - s.tail > 0 then 3 else if s.pending ≤ s.notified then 3 else 10
def tgt (s : St) : Ret → Nat
  | .loop => offE s + 2
  | .drain => offE s
def offSize (s : St) (r : Ret) (n : Nat) : Nat :=
  if s.head - s.tail > 0 then 1 else if n > s.notified then 6 else 2 + tgt s r
def offT (s : St) (r : Ret) : Nat := 1 + offSize s r s.pending
def offNX (s : St) (r : Ret) (last : Bool) : Nat := if last then tgt s r else offT s r
def offPubLd (s : St) (r : Ret) (n : Nat) (last : Bool) : Nat := if n > s.notified then 2 else 1 + offNX s r last
def offDNot (s : St) (pn : Nat) : Nat := if pn ≤ s.notified then 1 else 1 + offT s .drain

def off (s : St) : Nat :=
  match s.wpc with
  | .idle => offE s + 2
  | .chk => offE s + 1
  | .dEmpty => offE s
  | .dPend => 1 + offDNot s s.pending
  | .dNot pn => offDNot s pn
  | .done => 0
  | .ticket r _ _ => offT s r
  | .size r n _ _ => offSize s r n
  | .consume _ _ _ _ _ => 0
  | .exportB r _ _ _ _ => offT s r + 8
  | .exportE r _ _ _ _ => offT s r + 7
  | .nChk r n last _ _ => if n > s.notified then 5 else 1 + offNX s r last
  | .flushB r n last _ _ => 2 + offPubLd s r n last
  | .flushE r n last _ _ => 1 + offPubLd s r n last
  | .pubLd r n last _ _ => offPubLd s r n last
  | .pubCas r _ last _ _ v => if s.notified = v then 1 else 1 + offNX s r last

/-- worker transitions still needed, at most, to reach the end of `DoBackgroundWork` once `is_shutdown` is set and the
    environment is quiet -/
def rank2 (s : St) : Nat := 32 * ((s.head - s.tail) + (s.pending - s.notified)) + off s

theorem off_lt (s : St) : off s < 32 := by
  unfold off
  cases s.wpc <;> simp only [offE, tgt, offSize, offT, offNX, offPubLd, offDNot, ↓reduceIte, Bool.false_eq_true] <;> (repeat' split) <;> omega

theorem off_next (s' : St) (r : Ret) (last : Bool) (T R : Nat) (hw : s'.wpc = next r last T R) : off s' = offNX s' r last := by
  unfold off; rw [hw]
  cases last <;> cases r <;> simp [next, offNX, tgt]

theorem wake_rank2 (s s' : St) (h : step s .wWake = some s') : rank2 s' < rank2 s ∧ s'.head = s.head ∧ s'.pending = s.pending ∧ s'.isShutdown = s.isShutdown := by
  simp only [step] at h
  split at h
  · rename_i hidle
    cases h
    refine ⟨?_, rfl, rfl, rfl⟩
    simp only [rank2, off, hidle, offE]
    (repeat' split) <;> omega
  · cases h

theorem rank2_pay (s s' : St)
    (h : (s'.head - s'.tail) + (s'.pending - s'.notified) < (s.head - s.tail) + (s.pending - s.notified)) : rank2 s' < rank2 s := by
  have := off_lt s'
  simp only [rank2]; omega

theorem wstep_rank2 (s s' : St) (hI : Inv s) (hQ : QC s) (hsd : s.isShutdown = true) (h : step s .wStep = some s') :
    rank2 s' < rank2 s ∧ s'.head = s.head ∧ s'.pending = s.pending ∧ s'.isShutdown = s.isShutdown := by
  have hw := hI.w
  have hmb := hI.maxBpos
  have htl := hI.tailLe
  unfold WInv at hw
  simp only [step, wStep] at h
  cases hpc : s.wpc with
  | idle => rw [hpc] at h; cases h
  | done => rw [hpc] at h; cases h
  | chk =>
    rw [hpc] at h; simp only at h; cases h
    refine ⟨?_, rfl, rfl, rfl⟩
    simp only [rank2, off, hpc, hsd, ↓reduceIte, offE, tgt, offSize, offT, offNX, offPubLd, offDNot, ↓reduceIte, Bool.false_eq_true]
    (repeat' split) <;> omega
  | ticket r T R =>
    rw [hpc] at h; simp only at h; cases h
    refine ⟨?_, rfl, rfl, rfl⟩
    simp only [rank2, off, hpc, offE, tgt, offSize, offT, offNX, offPubLd, offDNot, ↓reduceIte, Bool.false_eq_true]
    (repeat' split) <;> omega
  | size r n T R =>
    rw [hpc] at h; simp only at h
    (repeat' split at h) <;> cases h <;> refine ⟨?_, rfl, rfl, rfl⟩ <;>
      simp only [rank2, off, hpc, offE, tgt, offSize, offT, offNX, offPubLd, offDNot, ↓reduceIte, Bool.false_eq_true] <;> (repeat' split) <;> omega
  | consume r n T R num =>
    rw [hpc] at h hw; simp only at h hw; cases h
    obtain ⟨_, _, _, _, hn1, _, hnum, _⟩ := hw
    refine ⟨rank2_pay _ _ ?_, rfl, rfl, rfl⟩
    simp only; omega
  | exportB r n T R num =>
    rw [hpc] at h; simp only at h; cases h
    refine ⟨?_, rfl, rfl, rfl⟩
    simp only [rank2, off, hpc, offE, tgt, offSize, offT, offNX, offPubLd, offDNot, ↓reduceIte, Bool.false_eq_true]
    (repeat' split) <;> omega
  | exportE r n T R num =>
    rw [hpc] at h; simp only at h; cases h
    refine ⟨?_, rfl, rfl, rfl⟩
    by_cases hz : R - num = 0 <;>
      simp only [rank2, off, hpc, hz, offE, tgt, offSize, offT, offNX, offPubLd, offDNot, ↓reduceIte, Bool.false_eq_true] <;>
      (repeat' split) <;> omega
  | nChk r n last T R =>
    rw [hpc] at h; simp only at h
    split at h <;> cases h
    · rename_i hgt
      refine ⟨?_, rfl, rfl, rfl⟩
      simp only [rank2, off, hpc, hgt, ↓reduceIte, offE, tgt, offSize, offT, offNX, offPubLd, offDNot, ↓reduceIte, Bool.false_eq_true]
      (repeat' split) <;> omega
    · rename_i hle
      refine ⟨?_, rfl, rfl, rfl⟩
      simp only [rank2]
      rw [off_next _ r last T R rfl]
      simp only [off, hpc, hle, ↓reduceIte, offE, tgt, offSize, offT, offNX, offPubLd, offDNot, ↓reduceIte, Bool.false_eq_true]
      (repeat' split) <;> omega
  | flushB r n last T R =>
    rw [hpc] at h; simp only at h; cases h
    refine ⟨?_, rfl, rfl, rfl⟩
    simp only [rank2, off, hpc, offE, tgt, offSize, offT, offNX, offPubLd, offDNot, ↓reduceIte, Bool.false_eq_true]
    (repeat' split) <;> omega
  | flushE r n last T R =>
    rw [hpc] at h; simp only at h; cases h
    refine ⟨?_, rfl, rfl, rfl⟩
    simp only [rank2, off, hpc, offE, tgt, offSize, offT, offNX, offPubLd, offDNot, ↓reduceIte, Bool.false_eq_true]
    (repeat' split) <;> omega
  | pubLd r n last T R =>
    rw [hpc] at h; simp only at h
    split at h <;> cases h
    · rename_i hgt
      refine ⟨?_, rfl, rfl, rfl⟩
      simp only [rank2, off, hpc, hgt, ↓reduceIte, offE, tgt, offSize, offT, offNX, offPubLd, offDNot, ↓reduceIte, Bool.false_eq_true]
      (repeat' split) <;> omega
    · rename_i hle
      refine ⟨?_, rfl, rfl, rfl⟩
      simp only [rank2]
      rw [off_next _ r last T R rfl]
      simp only [off, hpc, hle, ↓reduceIte, offE, tgt, offSize, offT, offNX, offPubLd, offDNot, ↓reduceIte, Bool.false_eq_true]
      (repeat' split) <;> omega
  | pubCas r n last T R v =>
    rw [hpc] at h hw; simp only at h hw
    obtain ⟨⟨_, _, hnp, _, _, _⟩, hvn⟩ := hw
    have hc := hQ.2
    rw [hpc] at hc; simp only at hc
    split at h
    · rename_i heq
      cases h
      refine ⟨rank2_pay _ _ ?_, rfl, rfl, rfl⟩
      simp only; omega
    · rename_i hne
      split at h
      · omega
      · cases h
        refine ⟨?_, rfl, rfl, rfl⟩
        simp only [rank2]
        rw [off_next _ r last T R rfl]
        simp only [off, hpc, hne, ↓reduceIte, offE, tgt, offSize, offT, offNX, offPubLd, offDNot, ↓reduceIte, Bool.false_eq_true]
        (repeat' split) <;> omega
  | dEmpty =>
    rw [hpc] at h; simp only at h
    split at h <;> cases h <;> refine ⟨?_, rfl, rfl, rfl⟩ <;>
      simp only [rank2, off, hpc, offE, tgt, offSize, offT, offNX, offPubLd, offDNot, ↓reduceIte, Bool.false_eq_true] <;> (repeat' split) <;> omega
  | dPend =>
    rw [hpc] at h; simp only at h; cases h
    refine ⟨?_, rfl, rfl, rfl⟩
    simp only [rank2, off, hpc, offE, tgt, offSize, offT, offNX, offPubLd, offDNot, ↓reduceIte, Bool.false_eq_true]
    (repeat' split) <;> omega
  | dNot pn =>
    rw [hpc] at h; simp only at h
    split at h <;> cases h <;> refine ⟨?_, rfl, rfl, rfl⟩ <;>
      simp only [rank2, off, hpc, offE, tgt, offSize, offT, offNX, offPubLd, offDNot, ↓reduceIte, Bool.false_eq_true] <;> (repeat' split) <;> omega

/-! ### transitions of the other threads in a quiet environment leave the measure alone -/

/-- the part of the state the measure looks at -/
def Same (s s' : St) : Prop :=
  s'.wpc = s.wpc ∧ s'.head = s.head ∧ s'.tail = s.tail ∧ s'.pending = s.pending ∧ s'.notified = s.notified

theorem offE_same {s s' : St} (h : Same s s') : offE s' = offE s := by
  obtain ⟨_, a, b, c, d⟩ := h; simp only [offE, a, b, c, d]
theorem tgt_same {s s' : St} (h : Same s s') (r : Ret) : tgt s' r = tgt s r := by
  cases r <;> simp only [tgt, offE_same h]
theorem offSize_same {s s' : St} (h : Same s s') (r : Ret) (n : Nat) : offSize s' r n = offSize s r n := by
  have ht := tgt_same h r
  obtain ⟨_, a, b, c, d⟩ := h; simp only [offSize, a, b, d, ht]
theorem offT_same {s s' : St} (h : Same s s') (r : Ret) : offT s' r = offT s r := by
  simp only [offT, offSize_same h, h.2.2.2.1]
theorem offNX_same {s s' : St} (h : Same s s') (r : Ret) (l : Bool) : offNX s' r l = offNX s r l := by
  simp only [offNX, tgt_same h, offT_same h]
theorem offPubLd_same {s s' : St} (h : Same s s') (r : Ret) (n : Nat) (l : Bool) : offPubLd s' r n l = offPubLd s r n l := by
  simp only [offPubLd, offNX_same h, h.2.2.2.2]
theorem offDNot_same {s s' : St} (h : Same s s') (pn : Nat) : offDNot s' pn = offDNot s pn := by
  simp only [offDNot, offT_same h, h.2.2.2.2]

theorem rank2_same {s s' : St} (h : Same s s') : rank2 s' = rank2 s := by
  have h' := h
  obtain ⟨w, a, b, c, d⟩ := h'
  simp only [rank2, off, w, a, b, c, d, offE_same h, offT_same h, offSize_same h, offNX_same h, offPubLd_same h, offDNot_same h]

/-- one transition of anybody, once `is_shutdown` is set -/
theorem quiet_step (s s' : St) (a : Act) (hI : Inv s) (hQ : QC s) (hsd : s.isShutdown = true) (h : step s a = some s') :
    s.head ≤ s'.head ∧ s.pending ≤ s'.pending ∧ s'.isShutdown = true ∧
    (isW a = true → rank2 s' < rank2 s ∧ s'.head = s.head ∧ s'.pending = s.pending) ∧
    (isW a = false → s'.head = s.head → s'.pending = s.pending → rank2 s' = rank2 s) := by
  cases a with
  | wWake =>
    obtain ⟨a1, a2, a3, a4⟩ := wake_rank2 s s' h
    exact ⟨by omega, by omega, by rw [a4]; exact hsd, fun _ => ⟨a1, a2, a3⟩, fun hf => by cases hf⟩
  | wStep =>
    obtain ⟨a1, a2, a3, a4⟩ := wstep_rank2 s s' hI hQ hsd h
    exact ⟨by omega, by omega, by rw [a4]; exact hsd, fun _ => ⟨a1, a2, a3⟩, fun hf => by cases hf⟩
  | fStep f r =>
    obtain ⟨b1, b2, _, b4, b5, b6, b7⟩ := other_step s s' (.fStep f r) rfl h
    exact ⟨by omega, b5, b6 hsd, fun hf => (by cases hf), fun _ hh hp => rank2_same ⟨b1, hh, b4, hp, b2⟩⟩
  | sStep i =>
    obtain ⟨b1, b2, _, b4, b5, b6, b7⟩ := other_step s s' (.sStep i) rfl h
    exact ⟨by omega, b5, b6 hsd, fun hf => (by cases hf), fun _ hh hp => rank2_same ⟨b1, hh, b4, hp, b2⟩⟩
  | pStep p d =>
    obtain ⟨b1, b2, _, b4, b5, b6, b7⟩ := other_step s s' (.pStep p d) rfl h
    exact ⟨by omega, b5, b6 hsd, fun hf => (by cases hf), fun _ hh hp => rank2_same ⟨b1, hh, b4, hp, b2⟩⟩

theorem quiet_run (s s' : St) (as : List Act) (hI : Inv s) (hQ : QC s) (hsd : s.isShutdown = true) (h : run s as = some s') :
    s.head ≤ s'.head ∧ s.pending ≤ s'.pending := by
  induction as generalizing s with
  | nil => simp [run] at h; subst h; exact ⟨Nat.le_refl _, Nat.le_refl _⟩
  | cons a as ih =>
    simp only [run] at h
    split at h
    · rename_i s1 hs1
      obtain ⟨a1, a2, a3, _, _⟩ := quiet_step s s1 a hI hQ hsd hs1
      obtain ⟨b1, b2⟩ := ih s1 (inv_step s s1 a hI hs1) (step_facts s s1 a hI hQ hs1).2.2.2.2 a3 h
      exact ⟨by omega, by omega⟩
    · cases h

theorem rank2_zero (s : St) (hI : Inv s) (h0 : rank2 s = 0) : s.wpc = .done := by
  have hw := hI.w
  unfold WInv at hw
  cases hpc : s.wpc <;> rw [hpc] at hw <;> simp only at hw <;> first
    | rfl
    | (exfalso; revert h0
       simp only [rank2, off, hpc, offE, tgt, offSize, offT, offNX, offPubLd, offDNot, ↓reduceIte, Bool.false_eq_true]
       (repeat' split) <;> omega)

/-- the heart of the termination argument, by induction over the schedule -/
theorem done_of_wcount (as : List Act) : ∀ (s s' : St), Inv s → QC s → s.isShutdown = true → run s as = some s' →
    s'.head = s.head → s'.pending = s.pending → rank2 s ≤ wcount as → s'.wpc = .done := by
  induction as with
  | nil =>
    intro s s' hI hQ _ h _ _ hr
    simp [run] at h; subst h
    exact rank2_zero s hI (by simpa [wcount] using hr)
  | cons a as ih =>
    intro s s' hI hQ hsd h hh hp hr
    simp only [run] at h
    split at h
    · rename_i s1 hs1
      have hI1 := inv_step s s1 a hI hs1
      have hQ1 := (step_facts s s1 a hI hQ hs1).2.2.2.2
      obtain ⟨a1, a2, a3, a4, a5⟩ := quiet_step s s1 a hI hQ hsd hs1
      obtain ⟨c1, c2⟩ := quiet_run s1 s' as hI1 hQ1 a3 h
      have hh1 : s1.head = s.head := by omega
      have hp1 : s1.pending = s.pending := by omega
      cases ha : isW a with
      | true =>
        obtain ⟨d1, _, _⟩ := a4 ha
        exact ih s1 s' hI1 hQ1 a3 h (by omega) (by omega) (by simp only [wcount, ha, ↓reduceIte] at hr; omega)
      | false =>
        have := a5 ha hh1 hp1
        exact ih s1 s' hI1 hQ1 a3 h (by omega) (by omega) (by simp only [wcount, ha] at hr; simp at hr; omega)
    · cases h

theorem rank2_le (s : St) (hQ : QC s) : rank2 s ≤ 32 * (s.maxQ + (s.pending - s.notified)) + 31 := by
  have := off_lt s
  have := hQ.1
  simp only [rank2]; omega

/-! ### without the quiet-environment hypothesis: every record committed and every ticket issued on the way costs at most
    64 more worker transitions -/

theorem other_step3 (s s' : St) (a : Act) (ha : isW a = false) (h : step s a = some s') :
    (s'.head = s.head ∧ s'.pending = s.pending) ∨ (s'.head = s.head + 1 ∧ s'.pending = s.pending) ∨
    (s'.head = s.head ∧ s'.pending = s.pending + 1) := by
  cases a with
  | wWake => cases ha
  | wStep => cases ha
  | fStep f r =>
    simp only [step, fStep] at h
    repeat' split at h
    all_goals (cases h <;> simp)
  | sStep i =>
    simp only [step, sStep] at h
    repeat' split at h
    all_goals (cases h <;> simp)
  | pStep p d =>
    simp only [step, pStep] at h
    repeat' split at h
    all_goals (cases h <;> simp)

theorem rank2_bump (s s' : St) (ht : s'.tail = s.tail) (hn : s'.notified = s.notified)
    (hb : (s'.head = s.head + 1 ∧ s'.pending = s.pending) ∨ (s'.head = s.head ∧ s'.pending = s.pending + 1))
    (htl : s.tail ≤ s.head) (hnl : s.notified ≤ s.pending) : rank2 s' ≤ rank2 s + 64 := by
  have := off_lt s'
  simp only [rank2, ht, hn]
  rcases hb with ⟨h1, h2⟩ | ⟨h1, h2⟩ <;> rw [h1, h2] <;> omega

theorem done_of_wcount_noisy (as : List Act) : ∀ (s s' : St), Inv s → QC s → s.isShutdown = true → run s as = some s' →
    rank2 s + 64 * ((s'.head - s.head) + (s'.pending - s.pending)) ≤ wcount as → s'.wpc = .done := by
  induction as with
  | nil =>
    intro s s' hI _ _ h hr
    simp [run] at h; subst h
    exact rank2_zero s hI (by simp [wcount] at hr; omega)
  | cons a as ih =>
    intro s s' hI hQ hsd h hr
    simp only [run] at h
    split at h
    · rename_i s1 hs1
      have hI1 := inv_step s s1 a hI hs1
      have hQ1 := (step_facts s s1 a hI hQ hs1).2.2.2.2
      obtain ⟨a1, a2, a3, a4, a5⟩ := quiet_step s s1 a hI hQ hsd hs1
      obtain ⟨c1, c2⟩ := quiet_run s1 s' as hI1 hQ1 a3 h
      cases ha : isW a with
      | true =>
        obtain ⟨d1, d2, d3⟩ := a4 ha
        refine ih s1 s' hI1 hQ1 a3 h ?_
        simp only [wcount, ha, ↓reduceIte] at hr
        rw [d2, d3]; omega
      | false =>
        obtain ⟨b1, b2, _, b4, _, _, _⟩ := other_step s s1 a ha hs1
        simp only [wcount, ha] at hr
        rcases other_step3 s s1 a ha hs1 with ⟨e1, e2⟩ | hb
        · have := a5 ha e1 e2
          refine ih s1 s' hI1 hQ1 a3 h ?_
          rw [e1, e2, this]; simp at hr; omega
        · have hbump := rank2_bump s s1 b4 b2 hb hI.tailLe hI.notLe
          refine ih s1 s' hI1 hQ1 a3 h ?_
          simp at hr
          rcases hb with ⟨e1, e2⟩ | ⟨e1, e2⟩ <;> omega
    · cases h

end Otel.Batch
