import OtelVerif.Lemmas.Batch.Others
namespace Otel.Batch
open Otel.Ring (upd upd_same upd_other)

/-- another caller `j ≠ i` cannot hold `shutdown_m` while it is free or held by `i`; its invariant then only says
    that it is not the holder -/
theorem sinv_other {s s' : St} (i j : Nat) (hj : j ≠ i) (hsdj : s'.sd j = s.sd j)
    (hold : s.sdLock = none ∨ s.sdLock = some i) (hnew : s'.sdLock = none ∨ s'.sdLock = some i)
    (h : SInv s j) : SInv s' j := by
  have hne : s'.sdLock ≠ some j := by
    rcases hnew with hn | hn <;> rw [hn]
    · simp
    · intro e; cases e; exact hj rfl
  have hcontra : s.sdLock = some j → False := by
    intro e
    rcases hold with ho | ho <;> rw [ho] at e
    · cases e
    · cases e; exact hj rfl
  unfold SInv at *
  rw [hsdj]
  cases hpc : s.sd j with
  | idle => exact hne
  | begin => exact hne
  | ret => exact hne
  | locked => rw [hpc] at h; exact absurd h.1 hcontra
  | joinW a => rw [hpc] at h; exact absurd h.1 hcontra
  | expB => rw [hpc] at h; exact absurd h.1 hcontra
  | expE => rw [hpc] at h; exact absurd h.1 hcontra
  | unlockP => rw [hpc] at h; exact absurd h.1 hcontra

theorem inv_sStep (s s' : St) (i : Nat) (hI : Inv s) (h : step s (.sStep i) = some s') : Inv s' := by
  simp only [step, sStep] at h
  have hs := hI.sd i
  have hwf : ∀ s1 : St, s1.wpc = s.wpc → s1.tail = s.tail → s1.exported = s.exported → s1.inExport = s.inExport →
      s1.flushedUpTo = s.flushedUpTo → s1.pending = s.pending → s1.head = s.head → s1.tickHead = s.tickHead →
      s1.maxB = s.maxB → (s.isShutdown = true → s1.isShutdown = true) → (s.isShutdown = true → s1.sdHead = s.sdHead) →
      WInv s1 := by
    intro s1 e1 e2 e3 e4 e5 e6 e7 e8 e9 e10 e11
    exact WInv_frame (s := s) e1 e2 e3 e4 e5 (by rw [e6]; exact Nat.le_refl _) (by rw [e7]; exact Nat.le_refl _) e10 e11
      (fun t _ _ => by rw [e8]) e9 hI.w
  have hff : ∀ s1 : St, s1.fl = s.fl → s1.head = s.head → s1.pending = s.pending → s1.tickHead = s.tickHead →
      s1.flushedUpTo = s.flushedUpTo → s1.notified = s.notified → ∀ f, FInv s1 f := by
    intro s1 e1 e2 e3 e4 e5 e6 f
    exact FInv_frame (s := s) f (by rw [e1]) (by rw [e2]; exact Nat.le_refl _) (by rw [e3]; exact Nat.le_refl _)
      (fun t _ _ => by rw [e4]) (by rw [e5]; exact Nat.le_refl _) (by rw [e6]; exact Nat.le_refl _) (hI.f f)
  split at h
  · -- idle → begin
    rename_i hpc; cases h
    unfold SInv at hs; rw [hpc] at hs; simp only at hs
    refine ⟨hI.maxBpos, hI.notLe, hI.expLe, hI.tailLe, hI.fluLe, hI.ticks, hI.tickHd, hI.tickMono,
      hwf _ rfl rfl rfl rfl rfl rfl rfl rfl rfl id (fun _ => rfl), hff _ rfl rfl rfl rfl rfl rfl, ?_, hI.sdHd, hI.free, hI.notSd,
      hI.retd, hI.sdOnce, hI.batches, hI.late⟩
    intro j
    by_cases hj : j = i
    · subst hj; unfold SInv; simp only [upd_same]; exact hs
    · exact SInv_frame (s := s) j (by simp [upd_other _ _ _ _ hj]) rfl rfl rfl rfl id (hI.sd j)
  · -- begin → locked: take `shutdown_m`
    rename_i hpc
    split at h
    · rename_i hfree; cases h
      refine ⟨hI.maxBpos, hI.notLe, hI.expLe, hI.tailLe, hI.fluLe, hI.ticks, hI.tickHd, hI.tickMono,
        hwf _ rfl rfl rfl rfl rfl rfl rfl rfl rfl id (fun _ => rfl), hff _ rfl rfl rfl rfl rfl rfl, ?_, hI.sdHd, ?_, hI.notSd,
        hI.retd, hI.sdOnce, hI.batches, hI.late⟩
      · intro j
        by_cases hj : j = i
        · subst hj; unfold SInv; simp only [upd_same]
          exact ⟨by first | trivial | rfl, fun hsd => hI.free hsd hfree⟩
        · exact sinv_other (s := s) i j hj (by simp [upd_other _ _ _ _ hj]) (Or.inl hfree) (Or.inr rfl) (hI.sd j)
      · intro _ hn; cases hn
    · cases h
  · -- locked: `is_shutdown.exchange(true)`
    rename_i hpc; cases h
    unfold SInv at hs; rw [hpc] at hs; simp only at hs
    obtain ⟨hl, hsh⟩ := hs
    refine ⟨hI.maxBpos, hI.notLe, hI.expLe, hI.tailLe, hI.fluLe, hI.ticks, hI.tickHd, hI.tickMono,
      hwf _ rfl rfl rfl rfl rfl rfl rfl rfl rfl (fun _ => rfl) (fun h => by simp [h]), hff _ rfl rfl rfl rfl rfl rfl, ?_, ?_, ?_, ?_,
      ?_, hI.sdOnce, hI.batches, hI.late⟩
    · intro j
      by_cases hj : j = i
      · subst hj; unfold SInv; simp only [upd_same]
        by_cases hjo : s.joined = true
        · by_cases hsd : s.isShutdown = true
          · simp only [hjo, hsd, if_true]
            obtain ⟨a, b, c⟩ := hsh hsd
            exact ⟨hl, by first | trivial | rfl, c, by first | trivial | exact b, a⟩
          · have := (hI.notSd (by simpa using hsd)).2.1
            rw [hjo] at this; cases this
        · simp only [hjo]
          have hsd : s.isShutdown = false := by
            cases hh : s.isShutdown with
            | false => rfl
            | true => exact absurd (hsh hh).2.1 hjo
          simp only [Bool.false_eq_true, if_false]
          exact ⟨hl, by first | trivial | rfl, by first | trivial | exact hsd, (hI.notSd hsd).1, by simpa using hjo⟩
      · exact sinv_other (s := s) i j hj (by simp [upd_other _ _ _ _ hj]) (Or.inr hl) (Or.inr hl) (hI.sd j)
    · intro _
      show (if s.isShutdown = true then s.sdHead else s.head) ≤ s.head
      split
      · rename_i hsd; exact hI.sdHd hsd
      · exact Nat.le_refl _
    · intro _ hn
      have : s.sdLock = none := hn
      rw [hl] at this; cases this
    · intro hf; cases hf
    · intro hr
      obtain ⟨a, b, c, d⟩ := hI.retd hr
      exact ⟨by first | trivial | rfl, b, c, d⟩
  · -- joinW: the worker has finished
    rename_i a hpc
    unfold SInv at hs; rw [hpc] at hs; simp only at hs
    obtain ⟨hl, hsd, ha, hx, hj0⟩ := hs
    split at h
    · rename_i hdone; cases h
      refine ⟨hI.maxBpos, hI.notLe, hI.expLe, hI.tailLe, hI.fluLe, hI.ticks, hI.tickHd, hI.tickMono,
        hwf _ rfl rfl rfl rfl rfl rfl rfl rfl rfl id (fun _ => rfl), hff _ rfl rfl rfl rfl rfl rfl, ?_, hI.sdHd, ?_, ?_, ?_,
        hI.sdOnce, hI.batches, hI.late⟩
      · intro j
        by_cases hj : j = i
        · subst hj; unfold SInv; simp only [upd_same, ha, Bool.false_eq_true, if_false]
          exact ⟨hl, hsd, hdone, by first | trivial | rfl, hx⟩
        · exact sinv_other (s := s) i j hj (by simp [upd_other _ _ _ _ hj]) (Or.inr hl) (Or.inr hl) (hI.sd j)
      · intro _ hn
        have : s.sdLock = none := hn
        rw [hl] at this; cases this
      · intro hf
        have : s.isShutdown = false := hf
        rw [hsd] at this; cases this
      · intro hr
        obtain ⟨a', b, c, d⟩ := hI.retd hr
        exact ⟨a', b, by first | trivial | rfl, d⟩
    · cases h
  · -- expB: the exporter's Shutdown is called
    rename_i hpc; cases h
    unfold SInv at hs; rw [hpc] at hs; simp only at hs
    obtain ⟨hl, hsd, hd, hj1, hx⟩ := hs
    have hnr : s.sdReturned = false := by
      cases hh : s.sdReturned with
      | false => rfl
      | true => have := (hI.retd hh).2.1; omega
    refine ⟨hI.maxBpos, hI.notLe, hI.expLe, hI.tailLe, hI.fluLe, hI.ticks, hI.tickHd, hI.tickMono,
      hwf _ rfl rfl rfl rfl rfl rfl rfl rfl rfl id (fun _ => rfl), hff _ rfl rfl rfl rfl rfl rfl, ?_, hI.sdHd, ?_, ?_, ?_,
      by show s.expShutdowns + 1 ≤ 1; omega, hI.batches, ?_⟩
    · intro j
      by_cases hj : j = i
      · subst hj; unfold SInv; simp only [upd_same]
        exact ⟨hl, hsd, hd, hj1, by show s.expShutdowns + 1 = 1; omega⟩
      · exact sinv_other (s := s) i j hj (by simp [upd_other _ _ _ _ hj]) (Or.inr hl) (Or.inr hl) (hI.sd j)
    · intro _ hn
      have : s.sdLock = none := hn
      rw [hl] at this; cases this
    · intro hf
      have : s.isShutdown = false := hf
      rw [hsd] at this; cases this
    · intro hr
      have : s.sdReturned = true := hr
      rw [hnr] at this; cases this
    · show late s = 0
      unfold late; simp [hnr, hI.late]
  · -- expE → unlockP
    rename_i hpc; cases h
    unfold SInv at hs; rw [hpc] at hs; simp only at hs
    obtain ⟨hl, rest⟩ := hs
    refine ⟨hI.maxBpos, hI.notLe, hI.expLe, hI.tailLe, hI.fluLe, hI.ticks, hI.tickHd, hI.tickMono,
      hwf _ rfl rfl rfl rfl rfl rfl rfl rfl rfl id (fun _ => rfl), hff _ rfl rfl rfl rfl rfl rfl, ?_, hI.sdHd, hI.free, hI.notSd,
      hI.retd, hI.sdOnce, hI.batches, hI.late⟩
    intro j
    by_cases hj : j = i
    · subst hj; unfold SInv; simp only [upd_same]; exact ⟨hl, rest⟩
    · exact sinv_other (s := s) i j hj (by simp [upd_other _ _ _ _ hj]) (Or.inr hl) (Or.inr hl) (hI.sd j)
  · -- unlockP → ret: release `shutdown_m`, the call returns
    rename_i hpc; cases h
    unfold SInv at hs; rw [hpc] at hs; simp only at hs
    obtain ⟨hl, hsd, hd, hj1, hx⟩ := hs
    refine ⟨hI.maxBpos, hI.notLe, hI.expLe, hI.tailLe, hI.fluLe, hI.ticks, hI.tickHd, hI.tickMono,
      hwf _ rfl rfl rfl rfl rfl rfl rfl rfl rfl id (fun _ => rfl), hff _ rfl rfl rfl rfl rfl rfl, ?_, hI.sdHd, ?_, ?_, ?_,
      hI.sdOnce, hI.batches, hI.late⟩
    · intro j
      by_cases hj : j = i
      · subst hj; unfold SInv; simp only [upd_same]; simp
      · exact sinv_other (s := s) i j hj (by simp [upd_other _ _ _ _ hj]) (Or.inr hl) (Or.inl rfl) (hI.sd j)
    · intro _ _; exact ⟨hx, hj1, hd⟩
    · intro hf
      have : s.isShutdown = false := hf
      rw [hsd] at this; cases this
    · intro _; exact ⟨hsd, hx, hj1, hd⟩
  · cases h

end Otel.Batch
