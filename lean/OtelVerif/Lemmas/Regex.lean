import OtelVerif.Model.Regex
/-! Declarative semantics of the regex fragment and its equivalence with the backtracking matcher `rxGo`. -/
namespace Otel

/-- `s` splits into consecutive chunks, one per item, each chunk inside the item's class and repetition bounds -/
def RxSem : List RxItem → Bytes → Prop
  | [], s => s = []
  | it :: rest, s => ∃ a b, s = a ++ b ∧ it.lo ≤ a.length ∧ it.allows a.length = true ∧ (∀ c ∈ a, it.has c = true) ∧ RxSem rest b

theorem RxItem.allows_mono (it : RxItem) {j k : Nat} (hjk : j ≤ k) (h : it.allows k = true) : it.allows j = true := by
  unfold RxItem.allows at *
  cases hh : it.hi with
  | none => simp
  | some m => simp [hh] at h ⊢; omega

/-- the matcher with `k` repetitions of the head item already consumed -/
def RxSemK : List RxItem → Nat → Bytes → Prop
  | [], _, s => s = []
  | it :: rest, k, s => ∃ a b, s = a ++ b ∧ it.lo ≤ k + a.length ∧ (a ≠ [] → it.allows (k + a.length) = true) ∧
      (∀ c ∈ a, it.has c = true) ∧ RxSemK rest 0 b

theorem rxGo_iff : ∀ (items : List RxItem) (k : Nat) (s : Bytes), rxGo items k s = true ↔ RxSemK items k s := by
  intro items k s
  induction items, k, s using rxGo.induct with
  | case1 k s => rw [rxGo]; simp [RxSemK]
  | case2 it rest k ih =>
    rw [rxGo]
    simp only [Bool.and_eq_true, decide_eq_true_eq, RxSemK]
    constructor
    · rintro ⟨hlo, hr⟩
      exact ⟨[], [], rfl, by simpa using hlo, by simp, by simp, ih.1 hr⟩
    · rintro ⟨a, b, hab, hlo, _, _, hb⟩
      have : a = [] ∧ b = [] := List.append_eq_nil_iff.1 hab.symm
      obtain ⟨rfl, rfl⟩ := this
      exact ⟨by simpa using hlo, ih.2 hb⟩
  | case3 it rest k c t ih1 ih2 =>
    rw [rxGo]
    simp only [Bool.or_eq_true, Bool.and_eq_true, decide_eq_true_eq, RxSemK]
    constructor
    · rintro (⟨hlo, hr⟩ | ⟨⟨hc, hal⟩, hr⟩)
      · exact ⟨[], c :: t, rfl, by simpa using hlo, by simp, by simp, ih1.1 hr⟩
      · obtain ⟨a, b, hab, hlo, hal', hall, hb⟩ := ih2.1 hr
        refine ⟨c :: a, b, by simp [hab], by simp; omega, ?_, ?_, hb⟩
        · intro _
          cases a with
          | nil => simpa using hal
          | cons x xs =>
            have := hal' (by simp)
            simpa [Nat.add_assoc, Nat.add_comm 1] using this
        · intro x hx
          simp only [List.mem_cons] at hx
          rcases hx with rfl | hx
          · exact hc
          · exact hall x hx
    · rintro ⟨a, b, hab, hlo, hal, hall, hb⟩
      cases a with
      | nil =>
        left
        simp only [List.nil_append] at hab
        subst hab
        exact ⟨by simpa using hlo, ih1.2 hb⟩
      | cons x xs =>
        right
        simp only [List.cons_append, List.cons.injEq] at hab
        obtain ⟨rfl, rfl⟩ := hab
        have hal0 := hal (by simp)
        refine ⟨⟨hall _ (by simp), ?_⟩, ?_⟩
        · exact it.allows_mono (by simp) hal0
        · apply ih2.2
          refine ⟨xs, b, rfl, by simp at hlo; omega, ?_, fun y hy => hall y (by simp [hy]), hb⟩
          intro _
          simpa [Nat.add_assoc, Nat.add_comm 1] using hal0

theorem RxSemK_zero_iff : ∀ (items : List RxItem) (s : Bytes), RxSemK items 0 s ↔ RxSem items s := by
  intro items
  induction items with
  | nil => intro s; simp [RxSemK, RxSem]
  | cons it rest ih =>
    intro s
    simp only [RxSemK, RxSem, Nat.zero_add]
    constructor
    · rintro ⟨a, b, hab, hlo, hal, hall, hb⟩
      refine ⟨a, b, hab, hlo, ?_, hall, (ih b).1 hb⟩
      cases a with
      | nil =>
        unfold RxItem.allows
        cases it.hi <;> simp
      | cons x xs => exact hal (by simp)
    · rintro ⟨a, b, hab, hlo, hal, hall, hb⟩
      exact ⟨a, b, hab, hlo, fun _ => hal, hall, (ih b).2 hb⟩

/-- **`std::regex_match` of the fragment = the declarative chunk semantics** -/
theorem rxMatch_iff (items : List RxItem) (s : Bytes) : rxMatch items s = true ↔ RxSem items s := by
  unfold rxMatch
  rw [rxGo_iff, RxSemK_zero_iff]

end Otel
