import OtelVerif.Lemmas.SeriesStore
/-! Per-series exactness below the cardinality limit: while no table reaches its limit (nothing is folded), the
    series of a key `k0` carries exactly the measurements whose key is `k0` — through every collection cycle, for
    every reader.  Same structure as the total-conservation proof, with the measure restricted to the entries of
    key `k0` and a size potential that shows no table ever gets near the limit. -/
namespace Otel.Series

variable {K A V : Type} [DecidableEq K]

section key
variable {M : Type} [AddCommMonoid M] (k0 : K)

/-- the measure of the entries with key `k0` -/
def totK (μ : A → M) (es : List (K × A)) : M := (es.map fun e => if e.1 = k0 then μ e.2 else 0).sum

theorem totK_nil (μ : A → M) : totK k0 μ ([] : List (K × A)) = 0 := rfl

theorem totK_append (μ : A → M) (es es' : List (K × A)) : totK k0 μ (es ++ es') = totK k0 μ es + totK k0 μ es' := by
  simp [totK]

theorem totK_perm (μ : A → M) {es es' : List (K × A)} (h : es.Perm es') : totK k0 μ es = totK k0 μ es' :=
  (h.map _).sum_eq

theorem totK_updKey (μ : A → M) (k : K) (f : A → A) (d : M) :
    ∀ (es : List (K × A)) (a : A), lookupKey k es = some a →
      (if k = k0 then μ (f a) else 0) = (if k = k0 then μ a else 0) + d → totK k0 μ (updKey k f es) = totK k0 μ es + d := by
  intro es
  induction es with
  | nil => intro a h; simp [lookupKey] at h
  | cons e es ih =>
    intro a h hf
    unfold updKey
    by_cases hk : e.1 = k
    · rw [if_pos hk]
      simp only [lookupKey, if_pos hk, Option.some.injEq] at h
      subst h
      simp only [totK, List.map_cons, List.sum_cons, hk, hf]
      rw [add_right_comm]
    · rw [if_neg hk]
      simp only [lookupKey, if_neg hk] at h
      have := ih a h hf
      simp only [totK, List.map_cons, List.sum_cons] at this ⊢
      rw [this, add_assoc]

/-- there is room for one more series: `IsOverflowAttributes()` is false -/
def Table.Room (t : Table K A) : Prop := t.size + 1 < t.limit

theorem Table.Room.not_overflow {t : Table K A} (h : t.Room) : t.isOverflow = false := by
  unfold Table.isOverflow; unfold Table.Room Table.size at h
  simp only [decide_eq_false_iff_not]; omega

variable {ag : Agg V A}

theorem Table.resolve_of_room (ovf : K) {t : Table K A} (h : t.Room) (k : K) (d : A) :
    t.resolve ovf k d = if t.has k then (t, k) else ({ t with entries := t.entries ++ [(k, d)] }, k) := by
  unfold Table.resolve
  split
  · rfl
  · rw [if_neg (by simp [h.not_overflow])]

theorem Table.size_resolve_le (ovf : K) (t : Table K A) (k : K) (d : A) : (t.resolve ovf k d).1.size ≤ t.size + 1 := by
  unfold Table.resolve Table.size
  split
  · simp
  · split
    · split <;> simp
    · simp

theorem Table.size_record_le (ag : Agg V A) (ovf : K) (t : Table K A) (k : K) (v : V) : (t.record ag ovf k v).size ≤ t.size + 1 := by
  unfold Table.record
  simp only [Table.size, length_updKey]
  exact Table.size_resolve_le ovf t k ag.new

theorem Table.size_set_le (ovf : K) (t : Table K A) (k : K) (a : A) : (t.set ovf k a).size ≤ t.size + 1 := by
  unfold Table.set Table.size
  split
  · simp [length_updKey]
  · split
    · unfold assign; split <;> simp [length_updKey]
    · simp

/-- below the limit a measurement lands in the series of its own key -/
theorem Table.totK_record (ms : Measure ag M) (ovf : K) {t : Table K A} (h : t.Room) (k : K) (v : V) :
    totK k0 ms.μ (t.record ag ovf k v).entries = totK k0 ms.μ t.entries + (if k = k0 then ms.w v else 0) := by
  unfold Table.record
  obtain ⟨slot, hs⟩ := Table.resolve_has ovf t k ag.new
  rw [Table.resolve_of_room ovf h] at hs ⊢
  by_cases hk : t.has k = true
  · rw [if_pos hk] at hs ⊢
    simp only at hs ⊢
    apply totK_updKey k0 ms.μ _ _ _ _ slot hs
    by_cases hk0 : k = k0 <;> simp [hk0, ms.add]
  · rw [if_neg hk] at hs ⊢
    simp only at hs ⊢
    rw [totK_updKey k0 ms.μ _ _ (if k = k0 then ms.w v else 0) _ slot hs (by by_cases hk0 : k = k0 <;> simp [hk0, ms.add])]
    rw [totK_append]
    by_cases hk0 : k = k0 <;> simp [totK, hk0, ms.new]

/-- below the limit one merge step adds the merged series to the series of the same key -/
theorem Table.totK_mergeEntry (ms : Measure ag M) (ovf : K) {t : Table K A} (h : t.Room) (e : K × A) :
    totK k0 ms.μ (t.mergeEntry ag ovf e).entries = totK k0 ms.μ t.entries + (if e.1 = k0 then ms.μ e.2 else 0) ∧
    (t.mergeEntry ag ovf e).size ≤ t.size + 1 := by
  unfold Table.mergeEntry
  cases hg : t.get? e.1 with
  | some cur =>
    simp only
    have hh : t.has e.1 = true := by simp [Table.has, hg]
    refine ⟨?_, by unfold Table.set; rw [if_pos hh]; simp [Table.size, length_updKey]⟩
    rw [Table.set_of_has ovf hh]
    apply totK_updKey k0 ms.μ _ _ _ _ cur hg
    by_cases hk0 : e.1 = k0 <;> simp [hk0, ms.merge]
  | none =>
    simp only
    have hno : ¬ t.has e.1 = true := by simp [Table.has, hg]
    obtain ⟨slot, hs⟩ := Table.resolve_has ovf t e.1 ag.new
    rw [hs]
    simp only
    rw [Table.resolve_of_room ovf h, if_neg hno] at hs ⊢
    simp only at hs ⊢
    have hh : ({ t with entries := t.entries ++ [(e.1, ag.new)] } : Table K A).has e.1 = true := by
      simp [Table.has, Table.get?, lookupKey_append, (show lookupKey e.1 t.entries = none from hg)]
    refine ⟨?_, by unfold Table.set; rw [if_pos hh]; simp [Table.size, length_updKey]⟩
    rw [Table.set_of_has ovf hh]
    rw [totK_updKey k0 ms.μ _ _ (if e.1 = k0 then ms.μ e.2 else 0) _ slot hs
      (by
        have hslot : slot = ag.new := by
          have : lookupKey e.1 (t.entries ++ [(e.1, ag.new)]) = some ag.new := by
            simp [lookupKey_append, (show lookupKey e.1 t.entries = none from hg)]
          simp only [Table.get?] at hs
          rw [this] at hs; exact (Option.some.inj hs).symm
        by_cases hk0 : e.1 = k0 <;> simp [hk0, ms.merge, hslot, ms.new])]
    rw [totK_append]
    by_cases hk0 : e.1 = k0 <;> simp [totK, hk0, ms.new]

/-- sum of the sizes of a list of tables -/
def sizesSum (ts : List (Table K A)) : Nat := (ts.map fun t => t.size).sum

theorem foldl_mergeEntry_room (ms : Measure ag M) (ovf : K) (l : List (K × A)) : ∀ m : Table K A, m.size + l.length + 1 < m.limit →
    totK k0 ms.μ (l.foldl (Table.mergeEntry ag ovf) m).entries = totK k0 ms.μ m.entries + totK k0 ms.μ l ∧
    (l.foldl (Table.mergeEntry ag ovf) m).size ≤ m.size + l.length ∧ (l.foldl (Table.mergeEntry ag ovf) m).limit = m.limit := by
  induction l with
  | nil => intro m _; simp [totK_nil]
  | cons e l ih =>
    intro m h
    simp only [List.length_cons] at h
    have hroom : m.Room := by unfold Table.Room; omega
    obtain ⟨h1, h2⟩ := Table.totK_mergeEntry k0 ms ovf hroom e
    have hl := Table.mergeEntry_limit ag ovf m e
    obtain ⟨i1, i2, i3⟩ := ih (m.mergeEntry ag ovf e) (by rw [hl]; omega)
    rw [List.foldl_cons]
    refine ⟨?_, ?_, ?_⟩
    · rw [i1, h1]
      simp only [totK, List.map_cons, List.sum_cons]
      rw [add_assoc]
    · simp only [List.length_cons]; omega
    · rw [i3, hl]

variable (c : Cfg K A V) (ms : Measure c.ag M)

/-- total over a list of tables of the measure at key `k0` -/
def tablesTotK (μ : A → M) (ts : List (Table K A)) : M := (ts.map fun t => totK k0 μ t.entries).sum

theorem totK_mergeTables (hiter : ∀ l, (c.iter l).Perm l) (ts : List (Table K A)) : ∀ m : Table K A,
    m.size + sizesSum ts + 1 < m.limit →
    totK k0 ms.μ (mergeTables c m ts).entries = totK k0 ms.μ m.entries + tablesTotK k0 ms.μ ts ∧
    (mergeTables c m ts).size ≤ m.size + sizesSum ts := by
  unfold mergeTables tablesTotK sizesSum
  induction ts with
  | nil => intro m _; simp
  | cons t ts ih =>
    intro m h
    simp only [List.map_cons, List.sum_cons] at h
    have hlen : (c.iter t.entries).length = t.size := (hiter t.entries).length_eq
    obtain ⟨f1, f2, f3⟩ := foldl_mergeEntry_room k0 ms c.ovf (c.iter t.entries) m (by rw [hlen]; omega)
    rw [hlen] at f2
    obtain ⟨i1, i2⟩ := ih ((c.iter t.entries).foldl (Table.mergeEntry c.ag c.ovf) m) (by rw [f3]; omega)
    rw [List.foldl_cons]
    refine ⟨?_, ?_⟩
    · rw [i1, f1, totK_perm k0 ms.μ (hiter t.entries), List.map_cons, List.sum_cons, add_assoc]
    · simp only [List.map_cons, List.sum_cons]; omega

/-! ### store level -/

def pendUK (μ : A → M) (s : Store K A) (r : Nat) : M := tablesTotK k0 μ ((lookupNat r s.unreported).getD [])

def lastTotK (μ : A → M) (s : Store K A) (r : Nat) : M :=
  match lookupNat r s.last with
  | some t => totK k0 μ t.entries
  | none => 0

/-- the size potential of reader `r`: everything that can still end up in one of its merged tables -/
def potential (s : Store K A) (r : Nat) : Nat :=
  (match lookupNat r s.last with | some t => t.size | none => 0) + sizesSum ((lookupNat r s.unreported).getD []) + s.cur.size

/-- invariant: the per-key conservation equations plus "no table is near the limit" (`R` = records so far) -/
def SInvK (s : Store K A) (pend : Nat → M) (all : M) (R : Nat) : Prop :=
  s.cur.limit = c.limit ∧ s.cur.size ≤ R ∧
  (Fast c → totK k0 ms.μ s.cur.entries = pend 0) ∧
  (¬ Fast c → ∀ r, r < c.temps.length →
    potential s r ≤ R ∧
    ((lookupNat r s.last).isSome = true → (lookupNat r s.unreported).isSome = true) ∧
    (c.temps[r]? = some Temporality.delta → pendUK k0 ms.μ s r + totK k0 ms.μ s.cur.entries = pend r) ∧
    (c.temps[r]? ≠ some Temporality.delta → lastTotK k0 ms.μ s r + pendUK k0 ms.μ s r + totK k0 ms.μ s.cur.entries = all))

theorem sinvK_init : SInvK k0 c ms (Store.init c) (fun _ => 0) 0 0 := by
  refine ⟨rfl, by simp [Store.init, Table.empty, Table.size], fun _ => rfl, fun _ r _ => ⟨?_, by simp [Store.init, lookupNat], fun _ => ?_, fun _ => ?_⟩⟩
  · simp [potential, Store.init, lookupNat, sizesSum, Table.empty, Table.size]
  · simp [pendUK, Store.init, lookupNat, tablesTotK, Table.empty, totK]
  · simp [pendUK, lastTotK, Store.init, lookupNat, tablesTotK, Table.empty, totK]

theorem sinvK_record {s : Store K A} {pend : Nat → M} {all : M} {R : Nat} (h : SInvK k0 c ms s pend all R)
    (hroom : R + 1 < c.limit) (k : K) (v : V) :
    SInvK k0 c ms (s.record c k v) (fun r => pend r + (if k = k0 then ms.w v else 0)) (all + (if k = k0 then ms.w v else 0)) (R + 1) := by
  obtain ⟨hl, hsz, h1, h2⟩ := h
  have hr : s.cur.Room := by unfold Table.Room; omega
  have hsz' := Table.size_record_le c.ag c.ovf s.cur k v
  refine ⟨by simp [Store.record, Table.record_limit, hl], by simp only [Store.record]; omega, fun hf => ?_, fun hf r hr' => ?_⟩
  · simp only [Store.record, Table.totK_record k0 ms c.ovf hr, h1 hf]
  · obtain ⟨hp, ha, hb, hc⟩ := h2 hf r hr'
    refine ⟨?_, ha, fun hd => ?_, fun hd => ?_⟩
    · simp only [potential, Store.record] at hp ⊢; omega
    · have := hb hd
      simp only [Store.record, pendUK, Table.totK_record k0 ms c.ovf hr] at this ⊢
      rw [← add_assoc, this]
    · have := hc hd
      simp only [Store.record, pendUK, lastTotK, Table.totK_record k0 ms c.ovf hr] at this ⊢
      rw [← add_assoc, this]

/-- one collect below the limit: per key the output carries exactly what the specification demands -/
theorem sinvK_collect (hiter : ∀ l, (c.iter l).Perm l) {s : Store K A} {pend : Nat → M} {all : M} {R : Nat}
    (h : SInvK k0 c ms s pend all R) (hroom : R + 1 < c.limit) (r : Nat) (hr : r < c.temps.length) :
    (match (s.collect c r).2 with | none => 0 | some es => totK k0 ms.μ es) =
      (if c.temps[r]? = some Temporality.delta then pend r else all) ∧
    SInvK k0 c ms (s.collect c r).1 (fun r' => if r' = r then 0 else pend r') all R := by
  obtain ⟨hl, hsz, h1, h2⟩ := h
  unfold Store.collect
  simp only
  by_cases hf : Fast c
  · have hcond := (fast_iff c hr).mpr hf
    rw [if_pos hcond]
    have hr0 : r = 0 := by have := hf.1; omega
    subst hr0
    have hd : c.temps[0]? = some Temporality.delta := hf.2
    rw [if_pos hd]
    have hcur := h1 hf
    by_cases hz : s.cur.size = 0
    · rw [if_pos hz]
      have : s.cur.entries = [] := List.eq_nil_of_length_eq_zero hz
      refine ⟨?_, rfl, by simp [Table.empty, Table.size], fun _ => by simp [Table.empty, totK], fun hnf => absurd hf hnf⟩
      rw [← hcur, this]; rfl
    · rw [if_neg hz]
      exact ⟨hcur, rfl, by simp [Table.empty, Table.size], fun _ => by simp [Table.empty, totK], fun hnf => absurd hf hnf⟩
  · have hcond : ¬ (c.temps.length = 1 ∧ c.temps[r]? = some Temporality.delta) := fun hh => hf ((fast_iff c hr).mp hh)
    rw [if_neg hcond]
    have hlook : ∀ r', r' < c.temps.length →
        tablesTotK k0 ms.μ ((lookupNat r' (if s.cur.size = 0 then s.unreported
          else (List.range c.temps.length).foldl (fun u col => pushUnreported col s.cur u) s.unreported)).getD []) =
        pendUK k0 ms.μ s r' + totK k0 ms.μ s.cur.entries ∧
        sizesSum ((lookupNat r' (if s.cur.size = 0 then s.unreported
          else (List.range c.temps.length).foldl (fun u col => pushUnreported col s.cur u) s.unreported)).getD []) =
        sizesSum ((lookupNat r' s.unreported).getD []) + s.cur.size := by
      intro r' hr'
      by_cases hz : s.cur.size = 0
      · rw [if_pos hz]
        have : s.cur.entries = [] := List.eq_nil_of_length_eq_zero hz
        simp [pendUK, this, totK, hz]
      · rw [if_neg hz, lookup_pushAll, if_pos hr']
        simp [pendUK, tablesTotK, sizesSum]
    have hsome : ∀ r', (lookupNat r' s.unreported).isSome = true →
        (lookupNat r' (if s.cur.size = 0 then s.unreported
          else (List.range c.temps.length).foldl (fun u col => pushUnreported col s.cur u) s.unreported)).isSome = true := by
      intro r' hs
      by_cases hz : s.cur.size = 0
      · rw [if_pos hz]; exact hs
      · rw [if_neg hz, lookup_pushAll]; split <;> simp [hs]
    generalize hU : (if s.cur.size = 0 then s.unreported
          else (List.range c.temps.length).foldl (fun u col => pushUnreported col s.cur u) s.unreported) = U at hlook hsome
    obtain ⟨hp, ha, hb, hc⟩ := h2 hf r hr
    cases hL : lookupNat r U with
    | none =>
      simp only
      obtain ⟨hUr, hSr⟩ := hlook r hr
      rw [hL] at hUr hSr
      simp only [Option.getD_none, tablesTotK, List.map_nil, List.sum_nil] at hUr
      have hlast : (lookupNat r s.last).isSome = false := by
        by_contra hx
        have hx' : (lookupNat r s.last).isSome = true := by
          revert hx; cases (lookupNat r s.last).isSome <;> simp
        have := hsome r (ha hx')
        rw [hL] at this; exact absurd this (by simp)
      constructor
      · by_cases hd : c.temps[r]? = some Temporality.delta
        · rw [if_pos hd, ← hb hd, ← hUr]
        · rw [if_neg hd, ← hc hd]
          have : lastTotK k0 ms.μ s r = 0 := by
            unfold lastTotK
            cases hx : lookupNat r s.last with
            | none => rfl
            | some t => rw [hx] at hlast; exact absurd hlast (by simp)
          rw [this, zero_add, ← hUr]
      · refine ⟨rfl, by simp [Table.empty, Table.size], fun hff => absurd hff hf, fun _ r' hr' => ?_⟩
        obtain ⟨hp', ha', hb', hc'⟩ := h2 hf r' hr'
        obtain ⟨hU', hS'⟩ := hlook r' hr'
        refine ⟨?_, fun hs => hsome r' (ha' hs), fun hd => ?_, fun hd => ?_⟩
        · simp only [potential, Table.empty, Table.size, List.length_nil, add_zero] at hp' ⊢
          rw [hS']; simp only [Table.size] at hp' ⊢; omega
        · simp only [pendUK, Table.empty, totK_nil, add_zero]
          rw [hU']
          by_cases hrr : r' = r
          · subst hrr; rw [if_pos rfl]; exact hUr.symm
          · rw [if_neg hrr]; exact hb' hd
        · simp only [pendUK, lastTotK, Table.empty, totK_nil, add_zero]
          rw [hU']
          have := hc' hd
          simp only [lastTotK, add_assoc] at this ⊢
          exact this
    | some ts =>
      simp only
      obtain ⟨hUr, hSr⟩ := hlook r hr
      rw [hL] at hUr hSr
      simp only [Option.getD_some] at hUr hSr
      -- room for the merges: everything that is merged is bounded by the potential
      have hpot : (match lookupNat r s.last with | some t => t.size | none => 0) + sizesSum ts ≤ R := by
        simp only [potential] at hp; rw [hSr]; omega
      have hm0 := totK_mergeTables k0 c ms hiter ts (Table.empty c.limit) (by
        simp only [Table.empty, Table.size, List.length_nil]; omega)
      have hm0l : (mergeTables c (Table.empty c.limit) ts).limit = c.limit := mergeTables_limit c _ _
      obtain ⟨hm0t, hm0s⟩ := hm0
      have he1 : (Table.empty c.limit : Table K A).entries = [] := rfl
      have he2 : (Table.empty c.limit : Table K A).size = 0 := rfl
      rw [he1, totK_nil, zero_add] at hm0t
      rw [he2, Nat.zero_add] at hm0s
      have hs1 : ∀ lt : Table K A, sizesSum [lt] = lt.size := fun lt => by simp [sizesSum]
      have hout : totK k0 ms.μ (match lookupNat r s.last with
            | some lt => if c.temps[r]? = some Temporality.cumulative then mergeTables c (mergeTables c (Table.empty c.limit) ts) [lt]
                          else mergeTables c (Table.empty c.limit) ts
            | none => mergeTables c (Table.empty c.limit) ts).entries =
          (if c.temps[r]? = some Temporality.delta then pend r else all) ∧
          (match lookupNat r s.last with
            | some lt => if c.temps[r]? = some Temporality.cumulative then mergeTables c (mergeTables c (Table.empty c.limit) ts) [lt]
                          else mergeTables c (Table.empty c.limit) ts
            | none => mergeTables c (Table.empty c.limit) ts).size ≤ R := by
        by_cases hd : c.temps[r]? = some Temporality.delta
        · have hnc : ¬ c.temps[r]? = some Temporality.cumulative := by rw [hd]; simp
          rw [if_pos hd]
          have : totK k0 ms.μ (mergeTables c (Table.empty c.limit) ts).entries = pend r := by
            rw [hm0t, hUr]; exact hb hd
          have hsz2 : (mergeTables c (Table.empty c.limit) ts).size ≤ R := by
            omega
          cases lookupNat r s.last with
          | none => exact ⟨this, hsz2⟩
          | some lt => simp only [if_neg hnc]; exact ⟨this, hsz2⟩
        · rw [if_neg hd]
          have hcum : c.temps[r]? = some Temporality.cumulative := by
            have : r < c.temps.length := hr
            rw [List.getElem?_eq_getElem this] at hd ⊢
            cases hx : c.temps[r] with
            | delta => rw [hx] at hd; exact absurd rfl hd
            | cumulative => rfl
          have hcc := hc hd
          unfold lastTotK at hcc
          cases hx : lookupNat r s.last with
          | none =>
            rw [hx] at hcc hpot
            simp only
            constructor
            · rw [hm0t, hUr, ← hcc, zero_add]
            · omega
          | some lt =>
            rw [hx] at hcc hpot
            simp only at hpot
            simp only [if_pos hcum]
            have hm1 := totK_mergeTables k0 c ms hiter [lt] (mergeTables c (Table.empty c.limit) ts) (by
              rw [hm0l, hs1]
              omega)
            obtain ⟨hm1t, hm1s⟩ := hm1
            rw [hs1] at hm1s
            constructor
            · rw [hm1t, hm0t, hUr, ← hcc]
              simp only [tablesTotK, List.map_cons, List.map_nil, List.sum_cons, List.sum_nil, add_zero]
              rw [add_comm (pendUK k0 ms.μ s r + totK k0 ms.μ s.cur.entries), add_assoc]
            · omega
      obtain ⟨hout1, hout2⟩ := hout
      refine ⟨hout1, rfl, by simp [Table.empty, Table.size], fun hff => absurd hff hf, fun _ r' hr' => ?_⟩
      obtain ⟨hp', ha', hb', hc'⟩ := h2 hf r' hr'
      obtain ⟨hU', hS'⟩ := hlook r' hr'
      simp only [potential, pendUK, lastTotK, lookupNat_assignNat, Table.empty, totK_nil, add_zero]
      by_cases hrr : r' = r
      · subst hrr
        simp only [if_true, Option.isSome_some, Option.getD_some, tablesTotK, sizesSum, List.map_nil, List.sum_nil, implies_true,
          true_and, Table.size, List.length_nil, add_zero]
        refine ⟨hout2, fun hd => ?_⟩
        have := hout1
        rw [if_neg hd] at this
        exact this
      · simp only [if_neg hrr]
        refine ⟨?_, fun hs => hsome r' (ha' hs), fun hd => ?_, fun hd => ?_⟩
        · simp only [potential, Table.size, List.length_nil, add_zero] at hp' ⊢
          rw [hS']; simp only [Table.size] at hp' ⊢; omega
        · rw [hU']; exact hb' hd
        · rw [hU']
          have := hc' hd
          simp only [lastTotK, add_assoc] at this ⊢
          exact this

/-- output measure at key `k0` -/
def outKey (μ : A → M) : Option (List (K × A)) → M
  | none => 0
  | some es => totK k0 μ es

/-- number of `record` operations -/
def recordCount : List (Op K V) → Nat
  | [] => 0
  | Op.record _ _ :: ops => recordCount ops + 1
  | Op.collect _ :: ops => recordCount ops

/-- **per-series exactness below the limit**, for every history: the series of `k0` handed to a reader carries
    exactly the measurements with key `k0` of that reader's interval (delta) / so far (cumulative) -/
theorem run_key_totals (hiter : ∀ l, (c.iter l).Perm l) (ops : List (Op K V)) :
    ∀ (s : Store K A) (pend : Nat → M) (all : M) (R : Nat), SInvK k0 c ms s pend all R →
      R + recordCount ops + 1 < c.limit →
      (∀ r, Op.collect r ∈ ops → r < c.temps.length) →
      ((Store.run c s ops).2.map fun o => (o.1, outKey k0 ms.μ o.2)) =
        specTotals c (fun k v => if k = k0 then ms.w v else 0) pend all ops := by
  induction ops with
  | nil => intro s pend all R _ _ _; simp [Store.run, specTotals]
  | cons op ops ih =>
    intro s pend all R h hroom hops
    cases op with
    | record k v =>
      simp only [recordCount] at hroom
      simp only [Store.run, specTotals]
      exact ih _ _ _ (R + 1) (sinvK_record k0 c ms h (by omega) k v) (by omega) fun r hr => hops r (List.mem_cons_of_mem _ hr)
    | collect r =>
      simp only [recordCount] at hroom
      have hr := hops r (List.mem_cons_self ..)
      obtain ⟨ho, hi⟩ := sinvK_collect k0 c ms hiter h (by omega) r hr
      simp only [Store.run, specTotals, List.map_cons]
      have ho' : outKey k0 ms.μ (s.collect c r).2 = (if c.temps[r]? = some Temporality.delta then pend r else all) := by
        rw [← ho]; cases (s.collect c r).2 <;> rfl
      rw [ho', ih _ _ _ R hi hroom fun r' hr' => hops r' (List.mem_cons_of_mem _ hr')]

end key
end Otel.Series
