import OtelVerif.Model.Ring
namespace Otel.Ring

def pcOf (s : St) (p : Nat) : PPc := (s.prods p).pc
def elOf (s : St) (p : Nat) : Nat := (s.prods p).elem

/-- producer `p` tentatively holds slot `k` (it swapped its element in and has not yet committed/undone) -/
def Tent (s : St) (p k : Nat) : Prop :=
  ∃ h, (pcOf s p = .cas h ∨ pcOf s p = .undo h) ∧ h % s.cap = k

/-- slot `k` is the home of a committed, not yet cleared index -/
def Committed (s : St) (k : Nat) : Prop := ∃ i, s.clr ≤ i ∧ i < s.head ∧ i % s.cap = k

structure Inv (s : St) : Prop where
  capPos   : 2 ≤ s.cap
  clrLe    : s.clr ≤ s.tail
  tailLe   : s.tail ≤ s.head
  sizeLe   : s.head - s.tail ≤ s.cap - 1
  logLen   : s.log.length = s.head
  winInj   : ∀ i j, s.clr ≤ i → i < s.head → s.clr ≤ j → j < s.head → i % s.cap = j % s.cap → i = j
  commit   : ∀ i, s.clr ≤ i → i < s.head → s.slots (i % s.cap) = s.log[i]?
  slotOwn  : ∀ k e, s.slots k = some e → Committed s k ∨ ∃ p, Tent s p k ∧ elOf s p = e
  tentSlot : ∀ p k, Tent s p k → s.slots k = some (elOf s p) ∧ ¬ Committed s k
  tentUniq : ∀ p q k, Tent s p k → Tent s q k → p = q
  casLe    : ∀ p h, (pcOf s p = .cas h ∨ pcOf s p = .undo h) → h ≤ s.head
  casBound : ∀ p h, pcOf s p = .cas h → h - s.tail < s.cap - 1
  ldHeadLe : ∀ p t, pcOf s p = .ldHead t → t ≤ s.tail
  swapOk   : ∀ p t h, pcOf s p = .swap t h → t ≤ s.tail ∧ h ≤ s.head ∧ h - t < s.cap - 1
  outEq    : s.out = s.log.take s.clr

theorem inv_init (cap : Nat) (h : 2 ≤ cap) : Inv (init cap) := by
  refine ⟨h, ?_, ?_, ?_, ?_, ?_, ?_, ?_, ?_, ?_, ?_, ?_, ?_, ?_, ?_⟩ <;>
    simp [init, Tent, Committed, pcOf, elOf]

/-! ### frame lemmas for producer-local updates -/

theorem pcOf_upd_same (s : St) (p : Nat) (v : Prod) (s' : St) (h : s'.prods = upd s.prods p v) :
    pcOf s' p = v.pc := by simp [pcOf, h]
theorem pcOf_upd_other (s : St) (p q : Nat) (v : Prod) (s' : St) (h : s'.prods = upd s.prods p v)
    (hq : q ≠ p) : pcOf s' q = pcOf s q := by simp [pcOf, h, upd_other _ _ _ _ hq]
theorem elOf_upd_other (s : St) (p q : Nat) (v : Prod) (s' : St) (h : s'.prods = upd s.prods p v)
    (hq : q ≠ p) : elOf s' q = elOf s q := by simp [elOf, h, upd_other _ _ _ _ hq]

theorem tent_other {s s' : St} {p q k : Nat} {v : Prod} (hc : s'.cap = s.cap)
    (hp : s'.prods = upd s.prods p v) (hq : q ≠ p) : Tent s' q k ↔ Tent s q k := by
  unfold Tent; rw [pcOf_upd_other s p q v s' hp hq, hc]

theorem committed_congr {s s' : St} (hc : s'.cap = s.cap) (h1 : s'.clr = s.clr) (h2 : s'.head = s.head)
    (k : Nat) : Committed s' k ↔ Committed s k := by
  unfold Committed; rw [hc, h1, h2]

theorem mod_inj_window {a b i j c : Nat} (hc : 0 < c) (hw : b - a ≤ c)
    (hi : a ≤ i) (hi' : i < b) (hj : a ≤ j) (hj' : j < b) (h : i % c = j % c) : i = j := by
  have h1 := Nat.div_add_mod i c
  have h2 := Nat.div_add_mod j c
  rcases Nat.lt_trichotomy (i / c) (j / c) with hlt | heq | hgt
  · have : c * (i / c + 1) ≤ c * (j / c) := Nat.mul_le_mul_left c hlt
    have hm := Nat.mod_lt i hc
    rw [Nat.mul_add] at this; omega
  · rw [heq] at h1; omega
  · have : c * (j / c + 1) ≤ c * (i / c) := Nat.mul_le_mul_left c hgt
    have hm := Nat.mod_lt j hc
    rw [Nat.mul_add] at this; omega

end Otel.Ring
