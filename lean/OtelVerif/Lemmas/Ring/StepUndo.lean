import OtelVerif.Lemmas.Ring.StepLocal
namespace Otel.Ring

theorem inv_pUndo (s s' : St) (p : Nat) (hI : Inv s) (h : step s (.pUndo p) = some s') : Inv s' := by
  simp only [step] at h
  split at h
  · rename_i hh hpc
    have hpc' : pcOf s p = .undo hh := hpc
    obtain ⟨capPos, clrLe, tailLe, sizeLe, logLen, winInj, commit, slotOwn, tentSlot, tentUniq, casLe,
      casBound, ldHeadLe, swapOk, outEq⟩ := hI
    cases h
    have hTp : Tent s p (hh % s.cap) := ⟨hh, Or.inr hpc', rfl⟩
    have hTp_only : ∀ k, Tent s p k → k = hh % s.cap := by
      rintro k ⟨h, hx, hk⟩; rw [hpc'] at hx
      rcases hx with hx | hx
      · cases hx
      · cases hx; exact hk.symm
    let v : Prod := { (s.prods p) with pc := .ldTail }
    let s1 : St := { s with slots := upd s.slots (hh % s.cap) none, prods := upd s.prods p v }
    have hprods : s1.prods = upd s.prods p v := rfl
    have hpc_same : pcOf s1 p = .ldTail := by simp [s1, pcOf, v]
    have hpc_other : ∀ q, q ≠ p → pcOf s1 q = pcOf s q := fun q hq => pcOf_upd_other s p q v s1 hprods hq
    have hel_other : ∀ q, q ≠ p → elOf s1 q = elOf s q := fun q hq => elOf_upd_other s p q v s1 hprods hq
    have hTnew : ∀ k, ¬ Tent s1 p k := by
      rintro k ⟨h, hx, _⟩; rw [hpc_same] at hx; rcases hx with hx | hx <;> cases hx
    have hTq : ∀ q k, q ≠ p → (Tent s1 q k ↔ Tent s q k) := fun q k hq => tent_other rfl hprods hq
    obtain ⟨hslotp, hnotC⟩ := tentSlot p _ hTp
    show Inv s1
    refine ⟨capPos, clrLe, tailLe, sizeLe, logLen, winInj, ?_, ?_, ?_, ?_, ?_, ?_, ?_, ?_, outEq⟩
    · intro i hi hi'
      have hne : i % s.cap ≠ hh % s.cap := fun heq => hnotC ⟨i, hi, hi', heq⟩
      show upd s.slots (hh % s.cap) none (i % s.cap) = s.log[i]?
      rw [upd_other _ _ _ _ hne]; exact commit i hi hi'
    · intro k e hk
      have hk' : upd s.slots (hh % s.cap) none k = some e := hk
      have hne : k ≠ hh % s.cap := by intro heq; rw [heq, upd_same] at hk'; cases hk'
      rw [upd_other _ _ _ _ hne] at hk'
      rcases slotOwn k e hk' with hc | ⟨q, hq, he⟩
      · left; exact hc
      · right
        have hqp : q ≠ p := by intro h; subst h; exact hne (hTp_only k hq)
        exact ⟨q, (hTq q k hqp).2 hq, by rw [hel_other q hqp]; exact he⟩
    · intro q k hq
      have hqp : q ≠ p := by intro h; subst h; exact hTnew k hq
      have hq' := (hTq q k hqp).1 hq
      obtain ⟨h1, h2⟩ := tentSlot q k hq'
      have hne : k ≠ hh % s.cap := by
        intro heq; subst heq; exact hqp (tentUniq q p _ hq' hTp)
      refine ⟨?_, h2⟩
      show upd s.slots (hh % s.cap) none k = some (elOf s1 q)
      rw [upd_other _ _ _ _ hne, hel_other q hqp]; exact h1
    · intro q r k hq hr
      have hqp : q ≠ p := by intro h; subst h; exact hTnew k hq
      have hrp : r ≠ p := by intro h; subst h; exact hTnew k hr
      exact tentUniq q r k ((hTq q k hqp).1 hq) ((hTq r k hrp).1 hr)
    · intro q h hq
      by_cases hqp : q = p
      · subst hqp; rw [hpc_same] at hq; rcases hq with hq | hq <;> cases hq
      · rw [hpc_other q hqp] at hq; exact casLe q h hq
    · intro q h hq
      by_cases hqp : q = p
      · subst hqp; rw [hpc_same] at hq; cases hq
      · rw [hpc_other q hqp] at hq; exact casBound q h hq
    · intro q t' hq
      by_cases hqp : q = p
      · subst hqp; rw [hpc_same] at hq; cases hq
      · rw [hpc_other q hqp] at hq; exact ldHeadLe q t' hq
    · intro q t' h' hq
      by_cases hqp : q = p
      · subst hqp; rw [hpc_same] at hq; cases hq
      · rw [hpc_other q hqp] at hq; exact swapOk q t' h' hq
  · cases h

end Otel.Ring
