import OtelVerif.Lemmas.Ring.StepC
import OtelVerif.Lemmas.Ring.StepSwap
import OtelVerif.Lemmas.Ring.StepCas
import OtelVerif.Lemmas.Ring.StepUndo
namespace Otel.Ring

theorem inv_step (s s' : St) (a : Act) (hI : Inv s) (h : step s a = some s') : Inv s' := by
  cases a with
  | pStart p => exact inv_pStart s s' p hI h
  | pLdTail p => exact inv_pLdTail s s' p hI h
  | pLdHead p => exact inv_pLdHead s s' p hI h
  | pSwap p spur => exact inv_pSwap s s' p spur hI h
  | pCas p spur => exact inv_pCas s s' p spur hI h
  | pUndo p => exact inv_pUndo s s' p hI h
  | cTake n => exact inv_cTake s s' n hI h
  | cClear => exact (inv_cClear s s' hI h).1

/-- run a schedule; `none` if some action is not enabled -/
def run (s : St) : List Act → Option St
  | [] => some s
  | a :: as => match step s a with
    | some s' => run s' as
    | none => none

theorem inv_run (s s' : St) (as : List Act) (hI : Inv s) (h : run s as = some s') : Inv s' := by
  induction as generalizing s with
  | nil => simp [run] at h; subst h; exact hI
  | cons a as ih =>
    simp only [run] at h
    split at h
    · rename_i s1 hs1; exact ih s1 (inv_step s s1 a hI hs1) h
    · cases h

/-- **Every schedule, any number of producers, any capacity ≥ 2 (max_size ≥ 1):**
    what the consumer has taken out is exactly the first `clr` committed elements, in commit order. -/
theorem consumed_is_log_prefix (cap : Nat) (hc : 2 ≤ cap) (as : List Act) (s : St)
    (h : run (init cap) as = some s) : s.out = s.log.take s.clr :=
  (inv_run _ _ as (inv_init cap hc) h).outEq

theorem cap_step (s s' : St) (a : Act) (h : step s a = some s') : s'.cap = s.cap := by
  cases a <;> simp only [step] at h <;> (repeat' split at h) <;>
    first | (cases h; rfl) | cases h

theorem cap_run (s s' : St) (as : List Act) (h : run s as = some s') : s'.cap = s.cap := by
  induction as generalizing s with
  | nil => simp [run] at h; subst h; rfl
  | cons a as ih =>
    simp only [run] at h
    split at h
    · rename_i s1 hs1; rw [ih s1 h]; exact cap_step s s1 a hs1
    · cases h

/-- the number of queued elements never exceeds `max_size = cap - 1` -/
theorem size_le_max (cap : Nat) (hc : 2 ≤ cap) (as : List Act) (s : St)
    (h : run (init cap) as = some s) : s.head - s.tail ≤ cap - 1 := by
  have hI := inv_run _ _ as (inv_init cap hc) h
  have hcap : s.cap = cap := cap_run _ _ as h
  rw [← hcap]; exact hI.sizeLe

/-- the consumer never exchanges out an empty slot -/
theorem never_consumes_empty (cap : Nat) (hc : 2 ≤ cap) (as : List Act) (s s' : St)
    (h : run (init cap) as = some s) (h' : step s .cClear = some s') :
    s.slots (s.clr % s.cap) ≠ none :=
  (inv_cClear s s' (inv_run _ _ as (inv_init cap hc) h) h').2

end Otel.Ring
