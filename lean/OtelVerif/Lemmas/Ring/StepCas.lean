import OtelVerif.Lemmas.Ring.StepLocal
namespace Otel.Ring

theorem inv_pCas (s s' : St) (p : Nat) (spur : Bool) (hI : Inv s)
    (h : step s (.pCas p spur) = some s') : Inv s' := by
  simp only [step] at h
  split at h
  · rename_i hh hpc
    have hpc' : pcOf s p = .cas hh := hpc
    obtain ⟨capPos, clrLe, tailLe, sizeLe, logLen, winInj, commit, slotOwn, tentSlot, tentUniq, casLe,
      casBound, ldHeadLe, swapOk, outEq⟩ := hI
    have hTp : Tent s p (hh % s.cap) := ⟨hh, Or.inl hpc', rfl⟩
    have hTp_only : ∀ k, Tent s p k → k = hh % s.cap := by
      rintro k ⟨h, hx, hk⟩; rw [hpc'] at hx
      rcases hx with hx | hx
      · cases hx; exact hk.symm
      · cases hx
    split at h
    · -- success: commit index `hh = head`
      rename_i hcond
      obtain ⟨hhead, _⟩ := hcond
      cases h
      let v : Prod := { (s.prods p) with pc := .idle }
      let s1 : St := { s with head := hh + 1, log := s.log ++ [(s.prods p).elem], prods := upd s.prods p v }
      have hprods : s1.prods = upd s.prods p v := rfl
      have hpc_same : pcOf s1 p = .idle := by simp [s1, pcOf, v]
      have hpc_other : ∀ q, q ≠ p → pcOf s1 q = pcOf s q := fun q hq => pcOf_upd_other s p q v s1 hprods hq
      have hel_other : ∀ q, q ≠ p → elOf s1 q = elOf s q := fun q hq => elOf_upd_other s p q v s1 hprods hq
      have hTnew : ∀ k, ¬ Tent s1 p k := by
        rintro k ⟨h, hx, _⟩; rw [hpc_same] at hx; rcases hx with hx | hx <;> cases hx
      have hTq : ∀ q k, q ≠ p → (Tent s1 q k ↔ Tent s q k) := fun q k hq => tent_other rfl hprods hq
      obtain ⟨hslotp, hnotC⟩ := tentSlot p _ hTp
      have hbound := casBound p hh hpc'
      have hC : ∀ k, Committed s1 k ↔ (Committed s k ∨ k = hh % s.cap) := by
        intro k; constructor
        · rintro ⟨i, h1, h2, h3⟩
          have h2' : i < hh + 1 := h2
          rcases Nat.lt_or_ge i hh with hlt | hge
          · left; exact ⟨i, h1, by omega, h3⟩
          · right; have : i = hh := by omega
            subst this; exact h3.symm
        · rintro (⟨i, h1, h2, h3⟩ | hk)
          · exact ⟨i, h1, by show i < hh + 1; omega, h3⟩
          · exact ⟨hh, by show s.clr ≤ hh; omega, by show hh < hh + 1; omega, hk.symm⟩
      show Inv s1
      refine ⟨capPos, clrLe, ?_, ?_, ?_, ?_, ?_, ?_, ?_, ?_, ?_, ?_, ?_, ?_, ?_⟩
      · show s.tail ≤ hh + 1; omega
      · show hh + 1 - s.tail ≤ s.cap - 1; omega
      · show (s.log ++ [(s.prods p).elem]).length = hh + 1; simp [logLen, hhead]
      · -- window injectivity with the new index
        intro i j hi hi' hj hj' hij
        have hi'' : i < hh + 1 := hi'
        have hj'' : j < hh + 1 := hj'
        rcases Nat.lt_or_ge i hh with hil | hig
        · rcases Nat.lt_or_ge j hh with hjl | hjg
          · exact winInj i j hi (by omega) hj (by omega) hij
          · exfalso; have : j = hh := by omega
            subst this; exact hnotC ⟨i, hi, by omega, hij⟩
        · have hie : i = hh := by omega
          rcases Nat.lt_or_ge j hh with hjl | hjg
          · exfalso; subst hie; exact hnotC ⟨j, hj, by omega, hij.symm⟩
          · omega
      · intro i hi hi'
        have hi'' : i < hh + 1 := hi'
        show s.slots (i % s.cap) = (s.log ++ [(s.prods p).elem])[i]?
        rcases Nat.lt_or_ge i hh with hil | hig
        · rw [List.getElem?_append_left (by omega)]; exact commit i hi (by omega)
        · have hie : i = hh := by omega
          subst hie
          rw [hslotp]
          have : s.log.length = i := by omega
          simp [elOf, this]
      · intro k e hk
        have hk' : s.slots k = some e := hk
        rcases slotOwn k e hk' with hc | ⟨q, hq, he⟩
        · left; exact (hC k).2 (Or.inl hc)
        · by_cases hqp : q = p
          · subst hqp; left; exact (hC k).2 (Or.inr (hTp_only k hq))
          · right; exact ⟨q, (hTq q k hqp).2 hq, by rw [hel_other q hqp]; exact he⟩
      · intro q k hq
        have hqp : q ≠ p := by intro h; subst h; exact hTnew k hq
        have hq' := (hTq q k hqp).1 hq
        obtain ⟨h1, h2⟩ := tentSlot q k hq'
        refine ⟨by show s.slots k = some (elOf s1 q); rw [hel_other q hqp]; exact h1, ?_⟩
        intro hc
        rcases (hC k).1 hc with hc | hk
        · exact h2 hc
        · subst hk; exact hqp (tentUniq q p _ hq' hTp)
      · intro q r k hq hr
        have hqp : q ≠ p := by intro h; subst h; exact hTnew k hq
        have hrp : r ≠ p := by intro h; subst h; exact hTnew k hr
        exact tentUniq q r k ((hTq q k hqp).1 hq) ((hTq r k hrp).1 hr)
      · intro q h hq
        by_cases hqp : q = p
        · subst hqp; rw [hpc_same] at hq; rcases hq with hq | hq <;> cases hq
        · rw [hpc_other q hqp] at hq; have := casLe q h hq; show h ≤ hh + 1; omega
      · intro q h hq
        by_cases hqp : q = p
        · subst hqp; rw [hpc_same] at hq; cases hq
        · rw [hpc_other q hqp] at hq; exact casBound q h hq
      · intro q t' hq
        by_cases hqp : q = p
        · subst hqp; rw [hpc_same] at hq; cases hq
        · rw [hpc_other q hqp] at hq; exact ldHeadLe q t' hq
      · intro q t' h' hq
        by_cases hqp : q = p
        · subst hqp; rw [hpc_same] at hq; cases hq
        · rw [hpc_other q hqp] at hq
          have := swapOk q t' h' hq
          exact ⟨this.1, by show h' ≤ hh + 1; omega, this.2.2⟩
      · show s.out = (s.log ++ [(s.prods p).elem]).take s.clr
        rw [List.take_append_of_le_length (by omega)]; exact outEq
    · -- failure: head moved (or spurious); go undo the swap
      cases h
      let v : Prod := { (s.prods p) with pc := .undo hh }
      let s1 : St := { s with prods := upd s.prods p v }
      have hprods : s1.prods = upd s.prods p v := rfl
      have hpc_same : pcOf s1 p = .undo hh := by simp [s1, pcOf, v]
      have hel_same : elOf s1 p = elOf s p := by simp [s1, elOf, v]
      have hpc_other : ∀ q, q ≠ p → pcOf s1 q = pcOf s q := fun q hq => pcOf_upd_other s p q v s1 hprods hq
      have hel_other : ∀ q, q ≠ p → elOf s1 q = elOf s q := fun q hq => elOf_upd_other s p q v s1 hprods hq
      have hT : ∀ q k, Tent s1 q k ↔ Tent s q k := by
        intro q k
        by_cases hqp : q = p
        · subst hqp; constructor
          · rintro ⟨h, hx, hk⟩; rw [hpc_same] at hx
            rcases hx with hx | hx
            · cases hx
            · cases hx; exact ⟨hh, Or.inl hpc', hk⟩
          · intro ht; have := hTp_only k ht; subst this; exact ⟨hh, Or.inr hpc_same, rfl⟩
        · exact tent_other rfl hprods hqp
      have hel : ∀ q, elOf s1 q = elOf s q := by
        intro q; by_cases hqp : q = p
        · subst hqp; exact hel_same
        · exact hel_other q hqp
      show Inv s1
      refine ⟨capPos, clrLe, tailLe, sizeLe, logLen, winInj, commit, ?_, ?_, ?_, ?_, ?_, ?_, ?_, outEq⟩
      · intro k e hk
        rcases slotOwn k e hk with hc | ⟨q, hq, he⟩
        · left; exact hc
        · right; exact ⟨q, (hT q k).2 hq, by rw [hel q]; exact he⟩
      · intro q k hq
        obtain ⟨h1, h2⟩ := tentSlot q k ((hT q k).1 hq)
        exact ⟨by show s.slots k = some (elOf s1 q); rw [hel q]; exact h1, h2⟩
      · intro q r k hq hr; exact tentUniq q r k ((hT q k).1 hq) ((hT r k).1 hr)
      · intro q h hq
        by_cases hqp : q = p
        · subst hqp; rw [hpc_same] at hq
          rcases hq with hq | hq
          · cases hq
          · cases hq; exact casLe q hh (Or.inl hpc')
        · rw [hpc_other q hqp] at hq; exact casLe q h hq
      · intro q h hq
        by_cases hqp : q = p
        · subst hqp; rw [hpc_same] at hq; cases hq
        · rw [hpc_other q hqp] at hq; exact casBound q h hq
      · intro q t' hq
        by_cases hqp : q = p
        · subst hqp; rw [hpc_same] at hq; cases hq
        · rw [hpc_other q hqp] at hq; exact ldHeadLe q t' hq
      · intro q t' h' hq
        by_cases hqp : q = p
        · subst hqp; rw [hpc_same] at hq; cases hq
        · rw [hpc_other q hqp] at hq; exact swapOk q t' h' hq
  · cases h

end Otel.Ring
