import OtelVerif.Lemmas.Ring.Main
/-! Ghost bookkeeping on top of `Ring.Inv`: element ids are fresh, the commit log has no duplicates, failed and
    in-flight elements are not in the log, per-producer commit order = call order, every started element is
    accounted for, and what a producer knew about consumption when its `Add` began. -/
namespace Otel.Ring

def c0Of (s : St) (p : Nat) : Nat := (s.prods p).c0

structure Inv2 (s : St) : Prop where
  logLt     : ∀ e ∈ s.log, e < s.nextId
  logNodup  : s.log.Nodup
  failsOk   : ∀ e ∈ s.fails, e < s.nextId ∧ e ∉ s.log
  flight    : ∀ p, pcOf s p ≠ .idle →
                elOf s p < s.nextId ∧ elOf s p ∉ s.log ∧ elOf s p ∉ s.fails ∧ s.own (elOf s p) = p ∧ c0Of s p ≤ s.clr
  distinct  : ∀ p q, p ≠ q → pcOf s p ≠ .idle → pcOf s q ≠ .idle → elOf s p ≠ elOf s q
  ldHeadC0  : ∀ p t, pcOf s p = .ldHead t → c0Of s p ≤ t
  ownSorted : ∀ p, (s.log.filter (fun e => s.own e == p)).Pairwise (· < ·)
  ownLe     : ∀ e ∈ s.log, e ≤ elOf s (s.own e)
  cover     : ∀ e, e < s.nextId → e ∈ s.log ∨ e ∈ s.fails ∨ ∃ p, pcOf s p ≠ .idle ∧ elOf s p = e

theorem inv2_init (cap : Nat) : Inv2 (init cap) := by
  refine ⟨?_, ?_, ?_, ?_, ?_, ?_, ?_, ?_, ?_⟩ <;> simp [init, pcOf, elOf]

/-- a step that changes only producer `p`'s program counter between two non-idle values (and possibly slots, tail,
    clr upwards, out) -/
theorem inv2_pcOnly (s s' : St) (p : Nat) (v : Prod) (h2 : Inv2 s)
    (hlog : s'.log = s.log) (hfails : s'.fails = s.fails) (hnext : s'.nextId = s.nextId) (hown : s'.own = s.own)
    (hclr : s.clr ≤ s'.clr) (hprods : s'.prods = upd s.prods p v)
    (hvel : v.elem = elOf s p) (hvc0 : v.c0 = c0Of s p) (hvpc : v.pc ≠ .idle) (hold : pcOf s p ≠ .idle)
    (hld : ∀ t, v.pc = .ldHead t → c0Of s p ≤ t) : Inv2 s' := by
  obtain ⟨logLt, logNodup, failsOk, flight, distinct, ldHeadC0, ownSorted, ownLe, cover⟩ := h2
  have hpc_same : pcOf s' p = v.pc := pcOf_upd_same s p v s' hprods
  have hpc_other : ∀ q, q ≠ p → pcOf s' q = pcOf s q := fun q hq => pcOf_upd_other s p q v s' hprods hq
  have hel : ∀ q, elOf s' q = elOf s q := by
    intro q
    by_cases hq : q = p
    · subst hq; simp [elOf, hprods, hvel]
    · exact elOf_upd_other s p q v s' hprods hq
  have hc0 : ∀ q, c0Of s' q = c0Of s q := by
    intro q
    by_cases hq : q = p
    · subst hq; simp [c0Of, hprods, hvc0]
    · simp [c0Of, hprods, upd_other _ _ _ _ hq]
  have hidle : ∀ q, pcOf s' q ≠ .idle ↔ pcOf s q ≠ .idle := by
    intro q
    by_cases hq : q = p
    · subst hq; rw [hpc_same]; exact ⟨fun _ => hold, fun _ => hvpc⟩
    · rw [hpc_other q hq]
  refine ⟨by rw [hlog, hnext]; exact logLt, by rw [hlog]; exact logNodup, by rw [hfails, hnext, hlog]; exact failsOk,
    ?_, ?_, ?_, by rw [hlog, hown]; exact ownSorted, ?_, ?_⟩
  · intro q hq
    obtain ⟨a, b, c, d, e⟩ := flight q ((hidle q).1 hq)
    rw [hel, hnext, hlog, hfails, hown, hc0]
    exact ⟨a, b, c, d, Nat.le_trans e hclr⟩
  · intro q r hqr hq hr
    rw [hel, hel]
    exact distinct q r hqr ((hidle q).1 hq) ((hidle r).1 hr)
  · intro q t hq
    rw [hc0]
    by_cases hqp : q = p
    · subst hqp; rw [hpc_same] at hq; exact hld t hq
    · rw [hpc_other q hqp] at hq; exact ldHeadC0 q t hq
  · intro e he
    rw [hlog] at he
    rw [hown, hel]; exact ownLe e he
  · intro e he
    rw [hnext] at he
    rcases cover e he with h | h | ⟨q, hq, hqe⟩
    · left; rw [hlog]; exact h
    · right; left; rw [hfails]; exact h
    · right; right; exact ⟨q, (hidle q).2 hq, by rw [hel]; exact hqe⟩

/-- consumer steps: producers untouched, `clr` does not decrease -/
theorem inv2_cons (s s' : St) (h2 : Inv2 s)
    (hlog : s'.log = s.log) (hfails : s'.fails = s.fails) (hnext : s'.nextId = s.nextId) (hown : s'.own = s.own)
    (hclr : s.clr ≤ s'.clr) (hprods : s'.prods = s.prods) : Inv2 s' := by
  obtain ⟨logLt, logNodup, failsOk, flight, distinct, ldHeadC0, ownSorted, ownLe, cover⟩ := h2
  have hpc : ∀ q, pcOf s' q = pcOf s q := fun q => by simp [pcOf, hprods]
  have hel : ∀ q, elOf s' q = elOf s q := fun q => by simp [elOf, hprods]
  have hc0 : ∀ q, c0Of s' q = c0Of s q := fun q => by simp [c0Of, hprods]
  refine ⟨by rw [hlog, hnext]; exact logLt, by rw [hlog]; exact logNodup, by rw [hfails, hnext, hlog]; exact failsOk,
    ?_, ?_, ?_, by rw [hlog, hown]; exact ownSorted, ?_, ?_⟩
  · intro q hq
    rw [hpc] at hq
    obtain ⟨a, b, c, d, e⟩ := flight q hq
    rw [hel, hnext, hlog, hfails, hown, hc0]
    exact ⟨a, b, c, d, Nat.le_trans e hclr⟩
  · intro q r hqr hq hr
    rw [hpc] at hq hr; rw [hel, hel]; exact distinct q r hqr hq hr
  · intro q t hq
    rw [hpc] at hq; rw [hc0]; exact ldHeadC0 q t hq
  · intro e he
    rw [hlog] at he; rw [hown, hel]; exact ownLe e he
  · intro e he
    rw [hnext] at he
    rcases cover e he with h | h | ⟨q, hq, hqe⟩
    · left; rw [hlog]; exact h
    · right; left; rw [hfails]; exact h
    · right; right; exact ⟨q, by rw [hpc]; exact hq, by rw [hel]; exact hqe⟩

/-! ### the three steps that move elements between the classes -/

theorem inv2_pStart (s s' : St) (p : Nat) (h2 : Inv2 s) (h : step s (.pStart p) = some s') : Inv2 s' := by
  simp only [step] at h
  split at h
  · rename_i hpc
    have hpcp : pcOf s p = .idle := hpc
    cases h
    obtain ⟨logLt, logNodup, failsOk, flight, distinct, ldHeadC0, ownSorted, ownLe, cover⟩ := h2
    let v : Prod := { pc := .ldTail, elem := s.nextId, c0 := s.clr }
    let s1 : St := { s with prods := upd s.prods p v, nextId := s.nextId + 1, own := upd s.own s.nextId p }
    have hprods : s1.prods = upd s.prods p v := rfl
    have hpc_same : pcOf s1 p = .ldTail := by simp [s1, pcOf, v]
    have hel_same : elOf s1 p = s.nextId := by simp [s1, elOf, v]
    have hpc_other : ∀ q, q ≠ p → pcOf s1 q = pcOf s q := fun q hq => pcOf_upd_other s p q v s1 hprods hq
    have hel_other : ∀ q, q ≠ p → elOf s1 q = elOf s q := fun q hq => elOf_upd_other s p q v s1 hprods hq
    have hc0_other : ∀ q, q ≠ p → c0Of s1 q = c0Of s q := fun q hq => by simp [c0Of, s1, upd_other _ _ _ _ hq]
    have hown_old : ∀ e, e < s.nextId → s1.own e = s.own e := by
      intro e he
      have : e ≠ s.nextId := by omega
      simp [s1, upd_other _ _ _ _ this]
    have hnotlog : s.nextId ∉ s.log := fun hm => by have := logLt _ hm; omega
    have hnotfail : s.nextId ∉ s.fails := fun hm => by have := (failsOk _ hm).1; omega
    show Inv2 s1
    refine ⟨?_, logNodup, ?_, ?_, ?_, ?_, ?_, ?_, ?_⟩
    · intro e he; have := logLt e he; show e < s.nextId + 1; omega
    · intro e he; have := failsOk e he; exact ⟨by show e < s.nextId + 1; omega, this.2⟩
    · intro q hq
      by_cases hqp : q = p
      · subst hqp
        rw [hel_same]
        refine ⟨by show s.nextId < s.nextId + 1; omega, hnotlog, hnotfail, by simp [s1], by simp [c0Of, s1, v]⟩
      · rw [hpc_other q hqp] at hq
        obtain ⟨a, b, c, d, e⟩ := flight q hq
        rw [hel_other q hqp, hc0_other q hqp]
        exact ⟨by show elOf s q < s.nextId + 1; omega, b, c, by rw [hown_old _ a]; exact d, e⟩
    · intro q r hqr hq hr
      by_cases hqp : q = p
      · subst hqp
        have hrp : r ≠ q := fun e => hqr e.symm
        rw [hpc_other r hrp] at hr
        rw [hel_same, hel_other r hrp]
        have := (flight r hr).1; omega
      · rw [hpc_other q hqp] at hq
        rw [hel_other q hqp]
        by_cases hrp : r = p
        · subst hrp; rw [hel_same]; have := (flight q hq).1; omega
        · rw [hpc_other r hrp] at hr; rw [hel_other r hrp]; exact distinct q r hqr hq hr
    · intro q t hq
      by_cases hqp : q = p
      · subst hqp; rw [hpc_same] at hq; cases hq
      · rw [hpc_other q hqp] at hq; rw [hc0_other q hqp]; exact ldHeadC0 q t hq
    · intro q
      have : s1.log.filter (fun e => s1.own e == q) = s.log.filter (fun e => s.own e == q) := by
        apply List.filter_congr
        intro e he
        rw [hown_old e (logLt e he)]
      rw [this]; exact ownSorted q
    · intro e he
      have helt := logLt e he
      rw [hown_old e helt]
      by_cases hq : s.own e = p
      · rw [hq, hel_same]; omega
      · rw [hel_other _ hq]; exact ownLe e he
    · intro e he
      have he' : e < s.nextId + 1 := he
      rcases Nat.lt_or_ge e s.nextId with hlt | hge
      · rcases cover e hlt with h | h | ⟨q, hq, hqe⟩
        · left; exact h
        · right; left; exact h
        · right; right
          have hqp : q ≠ p := by intro e; subst e; exact hq hpcp
          exact ⟨q, by rw [hpc_other q hqp]; exact hq, by rw [hel_other q hqp]; exact hqe⟩
      · right; right
        exact ⟨p, by rw [hpc_same]; simp, by rw [hel_same]; omega⟩
  · cases h

/-- `Add` returns false: the element goes back to the caller (class `fails`) -/
theorem inv2_fail (s : St) (p t : Nat) (h2 : Inv2 s) (hpc : pcOf s p = .ldHead t) :
    Inv2 { s with prods := setPc s p .idle, fails := (s.prods p).elem :: s.fails } := by
  obtain ⟨logLt, logNodup, failsOk, flight, distinct, ldHeadC0, ownSorted, ownLe, cover⟩ := h2
  let v : Prod := { (s.prods p) with pc := .idle }
  let s1 : St := { s with prods := upd s.prods p v, fails := (s.prods p).elem :: s.fails }
  have hs1 : ({ s with prods := setPc s p .idle, fails := (s.prods p).elem :: s.fails } : St) = s1 := rfl
  rw [hs1]
  have hprods : s1.prods = upd s.prods p v := rfl
  have hne : pcOf s p ≠ .idle := by rw [hpc]; simp
  have hpc_same : pcOf s1 p = .idle := by simp [s1, pcOf, v]
  have hpc_other : ∀ q, q ≠ p → pcOf s1 q = pcOf s q := fun q hq => pcOf_upd_other s p q v s1 hprods hq
  have hel : ∀ q, elOf s1 q = elOf s q := by
    intro q
    by_cases hq : q = p
    · subst hq; simp [elOf, s1, v]
    · exact elOf_upd_other s p q v s1 hprods hq
  have hc0_other : ∀ q, q ≠ p → c0Of s1 q = c0Of s q := fun q hq => by simp [c0Of, s1, upd_other _ _ _ _ hq]
  obtain ⟨fa, fb, fc, fd, fe⟩ := flight p hne
  refine ⟨logLt, logNodup, ?_, ?_, ?_, ?_, ownSorted, ?_, ?_⟩
  · intro e he
    have he' : e = elOf s p ∨ e ∈ s.fails := by simpa [s1, elOf] using he
    rcases he' with rfl | he'
    · exact ⟨fa, fb⟩
    · exact failsOk e he'
  · intro q hq
    have hqp : q ≠ p := by intro e; subst e; exact hq hpc_same
    rw [hpc_other q hqp] at hq
    obtain ⟨a, b, c, d, e⟩ := flight q hq
    rw [hel, hc0_other q hqp]
    refine ⟨a, b, ?_, d, e⟩
    intro hm
    have hm' : elOf s q = elOf s p ∨ elOf s q ∈ s.fails := by simpa [s1, elOf] using hm
    rcases hm' with hm' | hm'
    · exact distinct q p hqp hq hne hm'
    · exact c hm'
  · intro q r hqr hq hr
    have hqp : q ≠ p := by intro e; subst e; exact hq hpc_same
    have hrp : r ≠ p := by intro e; subst e; exact hr hpc_same
    rw [hpc_other q hqp] at hq; rw [hpc_other r hrp] at hr
    rw [hel, hel]; exact distinct q r hqr hq hr
  · intro q t' hq
    have hqp : q ≠ p := by intro e; subst e; rw [hpc_same] at hq; cases hq
    rw [hpc_other q hqp] at hq; rw [hc0_other q hqp]; exact ldHeadC0 q t' hq
  · intro e he; rw [hel]; exact ownLe e he
  · intro e he
    rcases cover e he with h | h | ⟨q, hq, hqe⟩
    · left; exact h
    · right; left; show e ∈ (s.prods p).elem :: s.fails; simp [h]
    · by_cases hqp : q = p
      · subst hqp; right; left; show e ∈ (s.prods q).elem :: s.fails
        have : (s.prods q).elem = e := hqe
        simp [this]
      · right; right; exact ⟨q, by rw [hpc_other q hqp]; exact hq, by rw [hel]; exact hqe⟩

/-- the head CAS succeeds: the element is committed (class `log`) and `Add` returns true -/
theorem inv2_commit (s : St) (p h : Nat) (h2 : Inv2 s) (hpc : pcOf s p = .cas h) :
    Inv2 { s with head := h + 1, log := s.log ++ [(s.prods p).elem], prods := setPc s p .idle } := by
  obtain ⟨logLt, logNodup, failsOk, flight, distinct, ldHeadC0, ownSorted, ownLe, cover⟩ := h2
  let v : Prod := { (s.prods p) with pc := .idle }
  let s1 : St := { s with head := h + 1, log := s.log ++ [(s.prods p).elem], prods := upd s.prods p v }
  have hs1 : ({ s with head := h + 1, log := s.log ++ [(s.prods p).elem], prods := setPc s p .idle } : St) = s1 := rfl
  rw [hs1]
  have hprods : s1.prods = upd s.prods p v := rfl
  have hne : pcOf s p ≠ .idle := by rw [hpc]; simp
  have hpc_same : pcOf s1 p = .idle := by simp [s1, pcOf, v]
  have hpc_other : ∀ q, q ≠ p → pcOf s1 q = pcOf s q := fun q hq => pcOf_upd_other s p q v s1 hprods hq
  have hel : ∀ q, elOf s1 q = elOf s q := by
    intro q
    by_cases hq : q = p
    · subst hq; simp [elOf, s1, v]
    · exact elOf_upd_other s p q v s1 hprods hq
  have hc0_other : ∀ q, q ≠ p → c0Of s1 q = c0Of s q := fun q hq => by simp [c0Of, s1, upd_other _ _ _ _ hq]
  obtain ⟨fa, fb, fc, fd, fe⟩ := flight p hne
  have hlog1 : s1.log = s.log ++ [elOf s p] := rfl
  refine ⟨?_, ?_, ?_, ?_, ?_, ?_, ?_, ?_, ?_⟩
  · intro e he
    rw [hlog1] at he
    simp only [List.mem_append, List.mem_singleton] at he
    rcases he with he | rfl
    · exact logLt e he
    · exact fa
  · rw [hlog1, List.nodup_append]
    refine ⟨logNodup, by simp, ?_⟩
    intro a ha b hb
    simp only [List.mem_singleton] at hb
    subst hb
    intro e; subst e; exact fb ha
  · intro e he
    obtain ⟨a, b⟩ := failsOk e he
    refine ⟨a, ?_⟩
    rw [hlog1]
    simp only [List.mem_append, List.mem_singleton, not_or]
    exact ⟨b, fun e' => by subst e'; exact fc he⟩
  · intro q hq
    have hqp : q ≠ p := by intro e; subst e; exact hq hpc_same
    rw [hpc_other q hqp] at hq
    obtain ⟨a, b, c, d, e⟩ := flight q hq
    rw [hel, hc0_other q hqp, hlog1]
    refine ⟨a, ?_, c, d, e⟩
    simp only [List.mem_append, List.mem_singleton, not_or]
    exact ⟨b, distinct q p hqp hq hne⟩
  · intro q r hqr hq hr
    have hqp : q ≠ p := by intro e; subst e; exact hq hpc_same
    have hrp : r ≠ p := by intro e; subst e; exact hr hpc_same
    rw [hpc_other q hqp] at hq; rw [hpc_other r hrp] at hr
    rw [hel, hel]; exact distinct q r hqr hq hr
  · intro q t' hq
    have hqp : q ≠ p := by intro e; subst e; rw [hpc_same] at hq; cases hq
    rw [hpc_other q hqp] at hq; rw [hc0_other q hqp]; exact ldHeadC0 q t' hq
  · intro q
    show ((s.log ++ [elOf s p]).filter (fun e => s.own e == q)).Pairwise (· < ·)
    rw [List.filter_append]
    by_cases hq : q = p
    · subst hq
      have : [elOf s q].filter (fun e => s.own e == q) = [elOf s q] := by simp [fd]
      rw [this, List.pairwise_append]
      refine ⟨ownSorted q, by simp, ?_⟩
      intro a ha b hb
      simp only [List.mem_singleton] at hb
      subst hb
      have ha' := List.mem_filter.1 ha
      have hown : s.own a = q := by simpa using ha'.2
      have hle := ownLe a ha'.1
      rw [hown] at hle
      have hne' : a ≠ elOf s q := fun e => by rw [e] at ha'; exact fb ha'.1
      omega
    · have : [elOf s p].filter (fun e => s.own e == q) = [] := by
        simp [fd]; exact fun e => hq e.symm
      rw [this, List.append_nil]; exact ownSorted q
  · intro e he
    rw [hlog1] at he
    simp only [List.mem_append, List.mem_singleton] at he
    rw [hel]
    rcases he with he | rfl
    · exact ownLe e he
    · rw [fd]; exact Nat.le_refl _
  · intro e he
    rcases cover e he with h' | h' | ⟨q, hq, hqe⟩
    · left; rw [hlog1]; simp [h']
    · right; left; exact h'
    · by_cases hqp : q = p
      · subst hqp; left; rw [hlog1]; simp [hqe]
      · right; right; exact ⟨q, by rw [hpc_other q hqp]; exact hq, by rw [hel]; exact hqe⟩

/-! ### every action preserves the ghost invariant -/

theorem inv2_step (s s' : St) (a : Act) (hI : Inv s) (h2 : Inv2 s) (h : step s a = some s') : Inv2 s' := by
  cases a with
  | pStart p => exact inv2_pStart s s' p h2 h
  | pLdTail p =>
    simp only [step] at h
    split at h
    · rename_i hpc
      cases h
      have hne : pcOf s p ≠ .idle := by unfold pcOf; rw [hpc]; simp
      refine inv2_pcOnly s _ p { (s.prods p) with pc := .ldHead s.tail } h2 rfl rfl rfl rfl (Nat.le_refl _) rfl rfl rfl
        (by simp) hne ?_
      intro t ht
      simp at ht; subst ht
      exact Nat.le_trans (h2.flight p hne).2.2.2.2 hI.clrLe
    · cases h
  | pLdHead p =>
    simp only [step] at h
    split at h
    · rename_i t hpc
      have hpc' : pcOf s p = .ldHead t := hpc
      split at h
      · cases h; exact inv2_fail s p t h2 hpc'
      · cases h
        have hne : pcOf s p ≠ .idle := by rw [hpc']; simp
        exact inv2_pcOnly s _ p { (s.prods p) with pc := .swap t s.head } h2 rfl rfl rfl rfl (Nat.le_refl _) rfl rfl rfl
          (by simp) hne (by intro t' ht'; simp at ht')
    · cases h
  | pSwap p spur =>
    simp only [step] at h
    split at h
    · rename_i t hh hpc
      have hne : pcOf s p ≠ .idle := by unfold pcOf; rw [hpc]; simp
      split at h
      · cases h
        exact inv2_pcOnly s _ p { (s.prods p) with pc := .cas hh } h2 rfl rfl rfl rfl (Nat.le_refl _) rfl rfl rfl
          (by simp) hne (by intro t' ht'; simp at ht')
      · cases h
        exact inv2_pcOnly s _ p { (s.prods p) with pc := .ldTail } h2 rfl rfl rfl rfl (Nat.le_refl _) rfl rfl rfl
          (by simp) hne (by intro t' ht'; simp at ht')
    · cases h
  | pCas p spur =>
    simp only [step] at h
    split at h
    · rename_i hh hpc
      have hpc' : pcOf s p = .cas hh := hpc
      have hne : pcOf s p ≠ .idle := by rw [hpc']; simp
      split at h
      · cases h; exact inv2_commit s p hh h2 hpc'
      · cases h
        exact inv2_pcOnly s _ p { (s.prods p) with pc := .undo hh } h2 rfl rfl rfl rfl (Nat.le_refl _) rfl rfl rfl
          (by simp) hne (by intro t' ht'; simp at ht')
    · cases h
  | pUndo p =>
    simp only [step] at h
    split at h
    · rename_i hh hpc
      have hne : pcOf s p ≠ .idle := by unfold pcOf; rw [hpc]; simp
      cases h
      exact inv2_pcOnly s _ p { (s.prods p) with pc := .ldTail } h2 rfl rfl rfl rfl (Nat.le_refl _) rfl rfl rfl
        (by simp) hne (by intro t' ht'; simp at ht')
    · cases h
  | cTake n =>
    simp only [step] at h
    split at h
    · cases h; exact inv2_cons s _ h2 rfl rfl rfl rfl (Nat.le_refl _) rfl
    · cases h
  | cClear =>
    simp only [step] at h
    split at h
    · split at h
      · cases h; exact inv2_cons s _ h2 rfl rfl rfl rfl (Nat.le_succ _) rfl
      · cases h; exact inv2_cons s _ h2 rfl rfl rfl rfl (Nat.le_succ _) rfl
    · cases h

theorem inv_inv2_run (s s' : St) (as : List Act) (hI : Inv s) (h2 : Inv2 s) (h : run s as = some s') : Inv s' ∧ Inv2 s' := by
  induction as generalizing s with
  | nil => simp [run] at h; subst h; exact ⟨hI, h2⟩
  | cons a as ih =>
    simp only [run] at h
    split at h
    · rename_i s1 hs1; exact ih s1 (inv_step s s1 a hI hs1) (inv2_step s s1 a hI h2 hs1) h
    · cases h

theorem reachable_inv (cap : Nat) (hc : 2 ≤ cap) (as : List Act) (s : St) (h : run (init cap) as = some s) :
    Inv s ∧ Inv2 s := inv_inv2_run _ _ as (inv_init cap hc) (inv2_init cap) h

end Otel.Ring
