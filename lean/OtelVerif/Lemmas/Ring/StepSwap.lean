import OtelVerif.Lemmas.Ring.StepLocal
namespace Otel.Ring

theorem inv_pSwap (s s' : St) (p : Nat) (spur : Bool) (hI : Inv s)
    (h : step s (.pSwap p spur) = some s') : Inv s' := by
  simp only [step] at h
  split at h
  · rename_i t hh hpc
    have hpc' : pcOf s p = .swap t hh := hpc
    split at h
    · -- success: slot was null
      rename_i hcond
      obtain ⟨hnull, _⟩ := hcond
      cases h
      have hsw := hI.swapOk p t hh hpc'
      obtain ⟨capPos, clrLe, tailLe, sizeLe, logLen, winInj, commit, slotOwn, tentSlot, tentUniq, casLe,
        casBound, ldHeadLe, swapOk, outEq⟩ := hI
      -- abbreviations
      let v : Prod := { (s.prods p) with pc := .cas hh }
      let s1 : St := { s with slots := upd s.slots (hh % s.cap) (some (s.prods p).elem), prods := upd s.prods p v }
      have hprods : s1.prods = upd s.prods p v := rfl
      have hpc_same : pcOf s1 p = .cas hh := by simp [s1, pcOf, v]
      have hel_same : elOf s1 p = elOf s p := by simp [s1, elOf, v]
      have hpc_other : ∀ q, q ≠ p → pcOf s1 q = pcOf s q := fun q hq => pcOf_upd_other s p q v s1 hprods hq
      have hel_other : ∀ q, q ≠ p → elOf s1 q = elOf s q := fun q hq => elOf_upd_other s p q v s1 hprods hq
      have hTold : ∀ k, ¬ Tent s p k := by
        rintro k ⟨h, hx, _⟩; rw [hpc'] at hx; rcases hx with hx | hx <;> cases hx
      have hTp : ∀ k, Tent s1 p k ↔ k = hh % s.cap := by
        intro k; constructor
        · rintro ⟨h, hx, hk⟩
          rw [hpc_same] at hx
          rcases hx with hx | hx
          · cases hx; exact hk.symm
          · cases hx
        · intro hk; exact ⟨hh, Or.inl hpc_same, hk.symm⟩
      have hTq : ∀ q k, q ≠ p → (Tent s1 q k ↔ Tent s q k) := fun q k hq => tent_other rfl hprods hq
      have hnotC : ¬ Committed s (hh % s.cap) := by
        rintro ⟨i, h1, h2, h3⟩
        have := commit i h1 h2
        rw [h3, hnull] at this
        have hget : s.log[i]? = some (s.log[i]'(by omega)) := List.getElem?_eq_getElem (by omega)
        rw [hget] at this; cases this
      have hC : ∀ k, Committed s1 k ↔ Committed s k := fun k => Iff.rfl
      show Inv s1
      refine ⟨capPos, clrLe, tailLe, sizeLe, logLen, winInj, ?_, ?_, ?_, ?_, ?_, ?_, ?_, ?_, outEq⟩
      · intro i hi hi'
        have hne : i % s.cap ≠ hh % s.cap := fun heq => hnotC ⟨i, hi, hi', heq⟩
        show upd s.slots (hh % s.cap) (some (s.prods p).elem) (i % s.cap) = s.log[i]?
        rw [upd_other _ _ _ _ hne]; exact commit i hi hi'
      · intro k e hk
        have hk' : upd s.slots (hh % s.cap) (some (s.prods p).elem) k = some e := hk
        by_cases hkk : k = hh % s.cap
        · subst hkk; rw [upd_same] at hk'; cases hk'
          right; exact ⟨p, (hTp _).2 rfl, hel_same⟩
        · rw [upd_other _ _ _ _ hkk] at hk'
          rcases slotOwn k e hk' with hc | ⟨q, hq, he⟩
          · left; exact hc
          · right
            have hqp : q ≠ p := by intro h; subst h; exact hTold k hq
            exact ⟨q, (hTq q k hqp).2 hq, by rw [hel_other q hqp]; exact he⟩
      · intro q k hq
        by_cases hqp : q = p
        · subst hqp
          have hk := (hTp k).1 hq; subst hk
          refine ⟨?_, hnotC⟩
          show upd s.slots (hh % s.cap) (some (s.prods q).elem) (hh % s.cap) = some (elOf s1 q)
          rw [upd_same, hel_same]; rfl
        · have hq' := (hTq q k hqp).1 hq
          obtain ⟨h1, h2⟩ := tentSlot q k hq'
          have hkk : k ≠ hh % s.cap := by intro heq; rw [heq, hnull] at h1; cases h1
          refine ⟨?_, h2⟩
          show upd s.slots (hh % s.cap) (some (s.prods p).elem) k = some (elOf s1 q)
          rw [upd_other _ _ _ _ hkk, hel_other q hqp]; exact h1
      · intro q r k hq hr
        by_cases hqp : q = p
        · by_cases hrp : r = p
          · rw [hqp, hrp]
          · exfalso
            subst hqp
            have hk := (hTp k).1 hq
            have hr' := (hTq r k hrp).1 hr
            have := (tentSlot r k hr').1
            rw [hk, hnull] at this; cases this
        · by_cases hrp : r = p
          · exfalso
            subst hrp
            have hk := (hTp k).1 hr
            have hq' := (hTq q k hqp).1 hq
            have := (tentSlot q k hq').1
            rw [hk, hnull] at this; cases this
          · exact tentUniq q r k ((hTq q k hqp).1 hq) ((hTq r k hrp).1 hr)
      · intro q h hq
        by_cases hqp : q = p
        · subst hqp; rw [hpc_same] at hq
          rcases hq with hq | hq
          · cases hq; exact hsw.2.1
          · cases hq
        · rw [hpc_other q hqp] at hq; exact casLe q h hq
      · intro q h hq
        by_cases hqp : q = p
        · subst hqp; rw [hpc_same] at hq; cases hq
          show hh - s.tail < s.cap - 1
          have := hsw.1; have := hsw.2.2; omega
        · rw [hpc_other q hqp] at hq; exact casBound q h hq
      · intro q t' hq
        by_cases hqp : q = p
        · subst hqp; rw [hpc_same] at hq; cases hq
        · rw [hpc_other q hqp] at hq; exact ldHeadLe q t' hq
      · intro q t' h' hq
        by_cases hqp : q = p
        · subst hqp; rw [hpc_same] at hq; cases hq
        · rw [hpc_other q hqp] at hq; exact swapOk q t' h' hq
    · -- failure (slot occupied or spurious): retry from the top
      cases h
      refine inv_local s _ p { (s.prods p) with pc := .ldTail } hI rfl rfl rfl rfl rfl rfl rfl rfl ?_ ?_ ?_ ?_
      · intro h; rw [hpc']; simp
      · intro h; simp
      · intro t ht; simp at ht
      · intro t h ht; simp at ht
  · cases h

end Otel.Ring
