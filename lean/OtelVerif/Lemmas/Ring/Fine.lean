import OtelVerif.Lemmas.Ring.Ghost
import OtelVerif.Model.RingFine
/-! The fine-grained system (`Model/RingFine.lean`, what the harness steps) refines the ring transition system:
    every thread step is a `Ring.step` action or leaves the ring state untouched, and the consumer always meets
    `Consume`'s contract `n ≤ head_ - tail_`. -/
namespace Otel.RingFine
open Otel.Ring

def IsProd : Ring.Act → Prop
  | .pStart _ | .pLdTail _ | .pLdHead _ | .pSwap _ _ | .pCas _ _ | .pUndo _ => True
  | _ => False

/-- producer actions never touch `tail`/`clr` and never decrease `head` -/
theorem prod_frame (s s' : Ring.St) (a : Ring.Act) (ha : IsProd a) (h : Ring.step s a = some s') :
    s'.tail = s.tail ∧ s'.clr = s.clr ∧ s.head ≤ s'.head := by
  cases a <;> simp only [IsProd] at ha <;> simp only [Ring.step] at h <;> (repeat' split at h) <;>
    first
    | (cases h; exact ⟨rfl, rfl, Nat.le_refl _⟩)
    | (cases h; rename_i hc; exact ⟨rfl, rfl, by obtain ⟨hc, _⟩ := hc; show s.head ≤ _ + 1; omega⟩)
    | cases h

/-- what the consumer's program counter knows about the ring -/
def CInv (s : St) : Prop :=
  match s.cpc with
  | .idle => s.r.clr = s.r.tail
  | .szTail => s.r.clr = s.r.tail
  | .szHead t => s.r.clr = s.r.tail ∧ t = s.r.tail
  | .pkTail n => s.r.clr = s.r.tail ∧ (0 < n ∧ n ≤ s.r.head - s.r.tail)
  | .pkHead n _ => s.r.clr = s.r.tail ∧ (0 < n ∧ n ≤ s.r.head - s.r.tail)
  | .adv n => s.r.clr = s.r.tail ∧ (0 < n ∧ n ≤ s.r.head - s.r.tail)
  | .clearing => s.r.clr < s.r.tail

theorem cinv_frame (s s' : St) (hc : s'.cpc = s.cpc) (ht : s'.r.tail = s.r.tail) (hcl : s'.r.clr = s.r.clr)
    (hh : s.r.head ≤ s'.r.head) (h : CInv s) : CInv s' := by
  unfold CInv at *
  rw [hc]
  split <;> rename_i heq <;> rw [heq] at h <;> simp only at h ⊢ <;> (try rw [ht, hcl]) <;> (try exact h) <;>
    (obtain ⟨h1, h2⟩ := h; exact ⟨h1, by omega⟩)

theorem mkProd {s r' : Ring.St} {a : Ring.Act} (hr : Ring.step s a = some r') (ha : IsProd a) :
    ∃ a, IsProd a ∧ Ring.step s a = some r' := ⟨a, ha, hr⟩

theorem stepProd_ring (s s' : St) (p : Nat) (spur : Bool) (t : String) (h : stepProd s p spur = some (s', t)) :
    s'.cpc = s.cpc ∧ (s'.r = s.r ∨ ∃ a, IsProd a ∧ Ring.step s.r a = some s'.r) := by
  unfold stepProd at h
  split at h
  · cases h
  · split at h
    · cases h; exact ⟨rfl, Or.inl rfl⟩
    · simp only at h
      split at h
      · -- idle: begin the next Add
        split at h
        · cases h
        · split at h
          · rename_i r' hr; cases h; exact ⟨rfl, Or.inr (mkProd hr trivial)⟩
          · cases h
      · split at h
        · rename_i r' hr; cases h; exact ⟨rfl, Or.inr (mkProd hr trivial)⟩
        · cases h
      · split at h
        · rename_i r' hr
          split at h <;> (cases h; exact ⟨rfl, Or.inr (mkProd hr trivial)⟩)
        · cases h
      · split at h
        · rename_i r' hr; cases h; exact ⟨rfl, Or.inr (mkProd hr trivial)⟩
        · cases h
      · split at h
        · rename_i r' hr
          split at h <;> (cases h; exact ⟨rfl, Or.inr (mkProd hr trivial)⟩)
        · cases h
      · split at h
        · rename_i r' hr; cases h; exact ⟨rfl, Or.inr (mkProd hr trivial)⟩
        · cases h

/-- the invariant of the fine-grained system -/
def FInv (s : St) : Prop := Ring.Inv s.r ∧ Ring.Inv2 s.r ∧ CInv s

theorem finv_init (maxSize nprod adds creq rounds : Nat) (h : 1 ≤ maxSize) : FInv (init maxSize nprod adds creq rounds) :=
  ⟨Ring.inv_init _ (by omega), Ring.inv2_init _, by simp [CInv, init, Ring.init]⟩

theorem finv_stepProd (s s' : St) (p : Nat) (spur : Bool) (t : String) (hI : FInv s)
    (h : stepProd s p spur = some (s', t)) : FInv s' := by
  obtain ⟨h1, h2, h3⟩ := hI
  obtain ⟨hc, hr⟩ := stepProd_ring s s' p spur t h
  rcases hr with hr | ⟨a, ha, hr⟩
  · exact ⟨hr ▸ h1, hr ▸ h2, cinv_frame s s' hc (by rw [hr]) (by rw [hr]) (by rw [hr]; exact Nat.le_refl _) h3⟩
  · obtain ⟨f1, f2, f3⟩ := prod_frame s.r s'.r a ha hr
    exact ⟨Ring.inv_step _ _ a h1 hr, Ring.inv2_step _ _ a h1 h2 hr, cinv_frame s s' hc f1 f2 f3 h3⟩

theorem finv_stepCons (s s' : St) (t : String) (hI : FInv s) (h : stepCons s = some (s', t)) : FInv s' := by
  obtain ⟨h1, h2, h3⟩ := hI
  unfold stepCons at h
  split at h
  · cases h; exact ⟨h1, h2, h3⟩
  · split at h
    · -- idle
      rename_i hcpc
      split at h
      · cases h
      · cases h
        refine ⟨h1, h2, ?_⟩
        unfold CInv at h3 ⊢; rw [hcpc] at h3; exact h3
    · rename_i hcpc
      cases h
      refine ⟨h1, h2, ?_⟩
      unfold CInv at h3 ⊢; rw [hcpc] at h3; exact ⟨h3, rfl⟩
    · rename_i t0 hcpc
      unfold CInv at h3; rw [hcpc] at h3
      obtain ⟨hct, ht0⟩ := h3
      simp only at h
      split at h
      · cases h; exact ⟨h1, h2, by unfold CInv; exact hct⟩
      · rename_i hn
        cases h
        refine ⟨h1, h2, ?_⟩
        unfold CInv
        simp only
        refine ⟨hct, ?_, ?_⟩
        · simp at hn; omega
        · rw [ht0]; exact Nat.min_le_left _ _
    · rename_i n hcpc
      cases h
      refine ⟨h1, h2, ?_⟩
      unfold CInv at h3 ⊢; rw [hcpc] at h3; exact h3
    · rename_i n t0 hcpc
      cases h
      refine ⟨h1, h2, ?_⟩
      unfold CInv at h3 ⊢; rw [hcpc] at h3; exact h3
    · rename_i n hcpc
      unfold CInv at h3; rw [hcpc] at h3
      obtain ⟨hct, hn0, hn⟩ := h3
      split at h
      · rename_i r' hr
        cases h
        have hr' := hr
        simp only [Ring.step] at hr'
        split at hr'
        · cases hr'
          refine ⟨Ring.inv_step _ _ _ h1 hr, Ring.inv2_step _ _ _ h1 h2 hr, ?_⟩
          unfold CInv
          show s.r.clr < s.r.tail + n
          omega
        · cases hr'
      · cases h
    · rename_i hcpc
      unfold CInv at h3; rw [hcpc] at h3
      split at h
      · rename_i r' hr
        cases h
        have hI' := Ring.inv_step _ _ _ h1 hr
        refine ⟨hI', Ring.inv2_step _ _ _ h1 h2 hr, ?_⟩
        have hle := hI'.clrLe
        unfold CInv
        by_cases hfin : (r'.clr == r'.tail) = true
        · simp only [hfin, if_true]; simpa using hfin
        · simp only [hfin]
          have : r'.clr ≠ r'.tail := by simpa using hfin
          show r'.clr < r'.tail
          omega
      · cases h

theorem finv_stepThread (s s' : St) (i : Nat) (spur : Bool) (t : String) (hI : FInv s)
    (h : stepThread s i spur = some (s', t)) : FInv s' := by
  unfold stepThread at h
  split at h
  · exact finv_stepProd s s' i spur t hI h
  · split at h
    · exact finv_stepCons s s' t hI h
    · cases h

/-- the states the harness can reach: any schedule of thread steps (producers with or without spurious CAS failures,
    the consumer), from the initial state -/
inductive Reach (maxSize nprod adds creq rounds : Nat) : St → Prop where
  | init : Reach maxSize nprod adds creq rounds (init maxSize nprod adds creq rounds)
  | step (s s' : St) (i : Nat) (spur : Bool) (t : String) :
      Reach maxSize nprod adds creq rounds s → stepThread s i spur = some (s', t) → Reach maxSize nprod adds creq rounds s'

theorem reach_finv {maxSize nprod adds creq rounds : Nat} (h : 1 ≤ maxSize) {s : St}
    (hr : Reach maxSize nprod adds creq rounds s) : FInv s := by
  induction hr with
  | init => exact finv_init _ _ _ _ _ h
  | step s s' i spur t _ hs ih => exact finv_stepThread s s' i spur t ih hs

/-- **`Consume`'s contract is always met**: whenever the consumer is about to execute `tail_ += n`, the ring really
    holds at least `n` elements and the previous batch has been cleared (the `assert` in `Consume` cannot fire) -/
theorem consume_contract {maxSize nprod adds creq rounds : Nat} (h : 1 ≤ maxSize) {s : St}
    (hr : Reach maxSize nprod adds creq rounds s) (n : Nat) (hc : s.cpc = .adv n) :
    s.r.clr = s.r.tail ∧ n ≤ s.r.head - s.r.tail ∧ (Ring.step s.r (.cTake n)).isSome = true := by
  obtain ⟨_, _, h3⟩ := reach_finv h hr
  unfold CInv at h3; rw [hc] at h3
  obtain ⟨a, _, b⟩ := h3
  refine ⟨a, b, ?_⟩
  simp [Ring.step, a, b]

end Otel.RingFine
