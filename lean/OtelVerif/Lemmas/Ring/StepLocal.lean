import OtelVerif.Lemmas.Ring.Inv
namespace Otel.Ring

/-- A producer-local step that neither starts nor ends in a slot-holding pc (`cas`/`undo`)
    and touches no shared cell. -/
theorem inv_local (s s' : St) (p : Nat) (v : Prod) (hI : Inv s)
    (hcap : s'.cap = s.cap) (hslots : s'.slots = s.slots) (hhead : s'.head = s.head)
    (htail : s'.tail = s.tail) (hclr : s'.clr = s.clr) (hout : s'.out = s.out) (hlog : s'.log = s.log)
    (hprods : s'.prods = upd s.prods p v)
    (hold : ∀ h, pcOf s p ≠ .cas h ∧ pcOf s p ≠ .undo h)
    (hnew : ∀ h, v.pc ≠ .cas h ∧ v.pc ≠ .undo h)
    (hld : ∀ t, v.pc = .ldHead t → t ≤ s.tail)
    (hsw : ∀ t h, v.pc = .swap t h → t ≤ s.tail ∧ h ≤ s.head ∧ h - t < s.cap - 1) : Inv s' := by
  obtain ⟨capPos, clrLe, tailLe, sizeLe, logLen, winInj, commit, slotOwn, tentSlot, tentUniq, casLe,
    casBound, ldHeadLe, swapOk, outEq⟩ := hI
  have hpc_same : pcOf s' p = v.pc := pcOf_upd_same s p v s' hprods
  have hpc_other : ∀ q, q ≠ p → pcOf s' q = pcOf s q := fun q hq => pcOf_upd_other s p q v s' hprods hq
  have hel_other : ∀ q, q ≠ p → elOf s' q = elOf s q := fun q hq => elOf_upd_other s p q v s' hprods hq
  have hTnew : ∀ k, ¬ Tent s' p k := by
    rintro k ⟨h, hh, _⟩; rw [hpc_same] at hh
    rcases hh with hh | hh
    · exact (hnew h).1 hh
    · exact (hnew h).2 hh
  have hTold : ∀ k, ¬ Tent s p k := by
    rintro k ⟨h, hh, _⟩
    rcases hh with hh | hh
    · exact (hold h).1 hh
    · exact (hold h).2 hh
  have hT : ∀ q k, Tent s' q k ↔ Tent s q k := by
    intro q k
    by_cases hq : q = p
    · subst hq; exact ⟨fun h => absurd h (hTnew k), fun h => absurd h (hTold k)⟩
    · exact tent_other hcap hprods hq
  have hC : ∀ k, Committed s' k ↔ Committed s k := committed_congr hcap hclr hhead
  refine ⟨by rw [hcap]; exact capPos, by rw [hclr, htail]; exact clrLe, by rw [htail, hhead]; exact tailLe,
    by rw [hhead, htail, hcap]; exact sizeLe, by rw [hlog, hhead]; exact logLen, ?_, ?_, ?_, ?_, ?_, ?_, ?_, ?_, ?_,
    by rw [hout, hlog, hclr]; exact outEq⟩
  · rw [hclr, hhead, hcap]; exact winInj
  · rw [hclr, hhead, hcap, hslots, hlog]; exact commit
  · intro k e hk
    rw [hslots] at hk
    rcases slotOwn k e hk with hc | ⟨q, hq, he⟩
    · left; exact (hC k).2 hc
    · right
      have hqp : q ≠ p := by intro h; subst h; exact hTold k hq
      exact ⟨q, (hT q k).2 hq, by rw [hel_other q hqp]; exact he⟩
  · intro q k hq
    have hq' := (hT q k).1 hq
    have hqp : q ≠ p := by intro h; subst h; exact hTold k hq'
    obtain ⟨h1, h2⟩ := tentSlot q k hq'
    exact ⟨by rw [hslots, hel_other q hqp]; exact h1, fun hc => h2 ((hC k).1 hc)⟩
  · intro q r k hq hr
    exact tentUniq q r k ((hT q k).1 hq) ((hT r k).1 hr)
  · intro q h hq
    by_cases hqp : q = p
    · subst hqp; rw [hpc_same] at hq
      rcases hq with hq | hq
      · exact absurd hq (hnew h).1
      · exact absurd hq (hnew h).2
    · rw [hpc_other q hqp] at hq; rw [hhead]; exact casLe q h hq
  · intro q h hq
    by_cases hqp : q = p
    · subst hqp; rw [hpc_same] at hq; exact absurd hq (hnew h).1
    · rw [hpc_other q hqp] at hq; rw [htail, hcap]; exact casBound q h hq
  · intro q t hq
    by_cases hqp : q = p
    · subst hqp; rw [hpc_same] at hq; rw [htail]; exact hld t hq
    · rw [hpc_other q hqp] at hq; rw [htail]; exact ldHeadLe q t hq
  · intro q t h hq
    by_cases hqp : q = p
    · subst hqp; rw [hpc_same] at hq; rw [htail, hhead, hcap]; exact hsw t h hq
    · rw [hpc_other q hqp] at hq; rw [htail, hhead, hcap]; exact swapOk q t h hq

theorem inv_pStart (s s' : St) (p : Nat) (hI : Inv s) (h : step s (.pStart p) = some s') : Inv s' := by
  simp only [step] at h
  split at h
  · rename_i hpc
    cases h
    refine inv_local s _ p { pc := .ldTail, elem := s.nextId, c0 := s.clr } hI rfl rfl rfl rfl rfl rfl rfl rfl ?_ ?_ ?_ ?_
    · intro h; simp [pcOf, hpc]
    · intro h; simp
    · intro t ht; simp at ht
    · intro t h ht; simp at ht
  · cases h

theorem inv_pLdTail (s s' : St) (p : Nat) (hI : Inv s) (h : step s (.pLdTail p) = some s') : Inv s' := by
  simp only [step] at h
  split at h
  · rename_i hpc
    cases h
    refine inv_local s _ p { (s.prods p) with pc := .ldHead s.tail } hI rfl rfl rfl rfl rfl rfl rfl rfl ?_ ?_ ?_ ?_
    · intro h; simp [pcOf, hpc]
    · intro h; simp
    · intro t ht; simp at ht; omega
    · intro t h ht; simp at ht
  · cases h

theorem inv_pLdHead (s s' : St) (p : Nat) (hI : Inv s) (h : step s (.pLdHead p) = some s') : Inv s' := by
  simp only [step] at h
  split at h
  · rename_i t hpc
    have htl : t ≤ s.tail := hI.ldHeadLe p t hpc
    split at h
    · cases h
      refine inv_local s _ p { (s.prods p) with pc := .idle } hI rfl rfl rfl rfl rfl rfl rfl rfl ?_ ?_ ?_ ?_
      · intro h; simp [pcOf] at hpc ⊢; simp [hpc]
      · intro h; simp
      · intro t ht; simp at ht
      · intro t h ht; simp at ht
    · rename_i hfull
      cases h
      refine inv_local s _ p { (s.prods p) with pc := .swap t s.head } hI rfl rfl rfl rfl rfl rfl rfl rfl ?_ ?_ ?_ ?_
      · intro h; simp [pcOf] at hpc ⊢; simp [hpc]
      · intro h; simp
      · intro t ht; simp at ht
      · intro t' h' ht; simp at ht; obtain ⟨rfl, rfl⟩ := ht
        exact ⟨htl, Nat.le_refl _, by omega⟩
  · cases h

end Otel.Ring
