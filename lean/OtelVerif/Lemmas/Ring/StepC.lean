import OtelVerif.Lemmas.Ring.Inv
namespace Otel.Ring

theorem inv_cTake (s s' : St) (n : Nat) (hI : Inv s) (h : step s (.cTake n) = some s') : Inv s' := by
  simp only [step] at h
  split at h
  · rename_i hc
    obtain ⟨hclr, hn⟩ := hc
    cases h
    obtain ⟨capPos, clrLe, tailLe, sizeLe, logLen, winInj, commit, slotOwn, tentSlot, tentUniq, casLe,
      casBound, ldHeadLe, swapOk, outEq⟩ := hI
    refine ⟨capPos, ?_, ?_, ?_, logLen, winInj, commit, slotOwn, tentSlot, tentUniq, casLe, ?_, ?_, ?_, outEq⟩
    · show s.clr ≤ s.tail + n; omega
    · show s.tail + n ≤ s.head; omega
    · show s.head - (s.tail + n) ≤ s.cap - 1; omega
    · intro p h hp; have := casBound p h hp; show h - (s.tail + n) < s.cap - 1; omega
    · intro p t hp; have := ldHeadLe p t hp; show t ≤ s.tail + n; omega
    · intro p t h hp; have := swapOk p t h hp; exact ⟨by show t ≤ s.tail + n; omega, this.2.1, this.2.2⟩
  · cases h

theorem inv_cClear (s s' : St) (hI : Inv s) (h : step s .cClear = some s') :
    Inv s' ∧ s.slots (s.clr % s.cap) ≠ none := by
  simp only [step] at h
  split at h
  · rename_i hlt
    obtain ⟨capPos, clrLe, tailLe, sizeLe, logLen, winInj, commit, slotOwn, tentSlot, tentUniq, casLe,
      casBound, ldHeadLe, swapOk, outEq⟩ := hI
    have hclrHead : s.clr < s.head := by omega
    have hslot := commit s.clr (Nat.le_refl _) hclrHead
    have hget : s.log[s.clr]? = some (s.log[s.clr]'(by omega)) := List.getElem?_eq_getElem (by omega)
    rw [hget] at hslot
    rw [hslot] at h
    simp only at h
    cases h
    refine ⟨⟨capPos, ?_, tailLe, sizeLe, logLen, ?_, ?_, ?_, ?_, ?_, casLe, casBound, ldHeadLe, swapOk, ?_⟩, by simp [hslot]⟩
    · show s.clr + 1 ≤ s.tail; omega
    · intro i j hi hi' hj hj' hij
      exact winInj i j (by show s.clr ≤ i; have : s.clr + 1 ≤ i := hi; omega) hi'
        (by show s.clr ≤ j; have : s.clr + 1 ≤ j := hj; omega) hj' hij
    · intro i hi hi'
      have hi0 : s.clr + 1 ≤ i := hi
      have hne : i % s.cap ≠ s.clr % s.cap := by
        intro heq
        have := winInj i s.clr (by omega) hi' (Nat.le_refl _) hclrHead heq
        omega
      show upd s.slots (s.clr % s.cap) none (i % s.cap) = s.log[i]?
      rw [upd_other _ _ _ _ hne]
      exact commit i (by omega) hi'
    · intro k e hk
      have hk' : upd s.slots (s.clr % s.cap) none k = some e := hk
      have hne : k ≠ s.clr % s.cap := by
        intro heq; rw [heq, upd_same] at hk'; cases hk'
      rw [upd_other _ _ _ _ hne] at hk'
      rcases slotOwn k e hk' with ⟨i, h1, h2, h3⟩ | ⟨p, hp⟩
      · left
        refine ⟨i, ?_, h2, h3⟩
        show s.clr + 1 ≤ i
        rcases Nat.lt_or_ge s.clr i with hlt' | hge
        · omega
        · have : i = s.clr := by omega
          subst this; exact absurd h3.symm hne
      · right; exact ⟨p, hp⟩
    · intro p k hT
      have hT' : Tent s p k := hT
      obtain ⟨h1, h2⟩ := tentSlot p k hT'
      have hne : k ≠ s.clr % s.cap := by
        intro heq; exact h2 ⟨s.clr, Nat.le_refl _, hclrHead, heq.symm⟩
      refine ⟨?_, ?_⟩
      · show upd s.slots (s.clr % s.cap) none k = some (elOf s p)
        rw [upd_other _ _ _ _ hne]; exact h1
      · rintro ⟨i, hi1, hi2, hi3⟩
        exact h2 ⟨i, by have : s.clr + 1 ≤ i := hi1; omega, hi2, hi3⟩
    · exact tentUniq
    · show s.out ++ [s.log[s.clr]] = s.log.take (s.clr + 1)
      rw [outEq, List.take_add_one, hget]
      rfl
  · cases h

end Otel.Ring
