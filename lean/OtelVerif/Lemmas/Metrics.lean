import OtelVerif.Model.Metrics.Temporal
/-! Algebra of the sum-aggregation maps of `Model/Metrics/Temporal.lean`: `addTo`, `mergeInto`, `mergeAll` seen
    through `valAt` (values) and `has` (presence); duplicate-freeness. -/
namespace Otel.Temporal

@[simp] theorem valAt_nil (a : Nat) : valAt [] a = 0 := rfl
@[simp] theorem has_nil (a : Nat) : has [] a = false := rfl

theorem valAt_addTo (m : DMap) (a : Nat) (v : Int) (x : Nat) :
    valAt (addTo m a v) x = valAt m x + (if a = x then v else 0) := by
  induction m with
  | nil => simp [addTo, valAt]
  | cons kv t ih =>
    obtain ⟨k, w⟩ := kv
    unfold addTo
    by_cases hk : k = a
    · subst hk
      simp only [if_true, valAt]
      by_cases hx : k = x <;> simp [hx] <;> omega
    · simp only [hk, if_false, valAt, ih]; omega

theorem has_addTo (m : DMap) (a : Nat) (v : Int) (x : Nat) :
    has (addTo m a v) x = (has m x || a == x) := by
  induction m with
  | nil => simp [addTo, has]
  | cons kv t ih =>
    obtain ⟨k, w⟩ := kv
    unfold addTo
    by_cases hk : k = a
    · subst hk
      simp only [if_true, has]
      cases hkx : (k == x) <;> simp
    · simp only [hk, if_false, has, ih, Bool.or_assoc]

theorem addTo_ne_nil (m : DMap) (a : Nat) (v : Int) : addTo m a v ≠ [] := by
  cases m with
  | nil => simp [addTo]
  | cons kv t => obtain ⟨k, w⟩ := kv; unfold addTo; split <;> simp

theorem valAt_mergeInto (acc m : DMap) (x : Nat) : valAt (mergeInto acc m) x = valAt acc x + valAt m x := by
  unfold mergeInto
  induction m generalizing acc with
  | nil => simp
  | cons kv t ih =>
    obtain ⟨k, w⟩ := kv
    simp only [List.foldl_cons, ih, valAt_addTo, valAt]; omega

theorem has_mergeInto (acc m : DMap) (x : Nat) : has (mergeInto acc m) x = (has acc x || has m x) := by
  unfold mergeInto
  induction m generalizing acc with
  | nil => simp
  | cons kv t ih =>
    obtain ⟨k, w⟩ := kv
    simp only [List.foldl_cons, ih, has_addTo, has, Bool.or_assoc]

/-- Σ of the values for `x` over a list of maps -/
def sumAt : List DMap → Nat → Int
  | [], _ => 0
  | m :: t, x => valAt m x + sumAt t x

def anyHas : List DMap → Nat → Bool
  | [], _ => false
  | m :: t, x => has m x || anyHas t x

@[simp] theorem sumAt_nil (x : Nat) : sumAt [] x = 0 := rfl
@[simp] theorem anyHas_nil (x : Nat) : anyHas [] x = false := rfl

theorem sumAt_append (l₁ l₂ : List DMap) (x : Nat) : sumAt (l₁ ++ l₂) x = sumAt l₁ x + sumAt l₂ x := by
  induction l₁ with
  | nil => simp
  | cons m t ih => simp only [List.cons_append, sumAt, ih]; omega

theorem anyHas_append (l₁ l₂ : List DMap) (x : Nat) : anyHas (l₁ ++ l₂) x = (anyHas l₁ x || anyHas l₂ x) := by
  induction l₁ with
  | nil => simp
  | cons m t ih => simp only [List.cons_append, anyHas, ih, Bool.or_assoc]

theorem valAt_foldl_mergeInto (l : List DMap) (acc : DMap) (x : Nat) :
    valAt (l.foldl mergeInto acc) x = valAt acc x + sumAt l x := by
  induction l generalizing acc with
  | nil => simp
  | cons m t ih => simp only [List.foldl_cons, ih, valAt_mergeInto, sumAt]; omega

theorem has_foldl_mergeInto (l : List DMap) (acc : DMap) (x : Nat) :
    has (l.foldl mergeInto acc) x = (has acc x || anyHas l x) := by
  induction l generalizing acc with
  | nil => simp
  | cons m t ih => simp only [List.foldl_cons, ih, has_mergeInto, anyHas, Bool.or_assoc]

theorem valAt_mergeAll (l : List DMap) (x : Nat) : valAt (mergeAll l) x = sumAt l x := by
  simp [mergeAll, valAt_foldl_mergeInto]

theorem has_mergeAll (l : List DMap) (x : Nat) : has (mergeAll l) x = anyHas l x := by
  simp [mergeAll, has_foldl_mergeInto]

/-! ### duplicate-free maps: `valAt` is the looked-up value -/

/-- no key occurs twice -/
def NoDup : DMap → Prop
  | [] => True
  | (k, _) :: t => has t k = false ∧ NoDup t

theorem valAt_of_not_has : ∀ (m : DMap) (a : Nat), has m a = false → valAt m a = 0
  | [], _, _ => rfl
  | (k, v) :: t, a, h => by
    simp only [has, Bool.or_eq_false_iff, beq_eq_false_iff_ne] at h
    simp [valAt, h.1, valAt_of_not_has t a h.2]

/-- on a duplicate-free map `valAt` is the value found by lookup (0 when absent) -/
theorem valAt_eq_lookup : ∀ (m : DMap) (a : Nat), NoDup m → valAt m a = (m.lookup a).getD 0
  | [], _, _ => rfl
  | (k, v) :: t, a, h => by
    by_cases hk : k = a
    · subst hk
      simp [valAt, List.lookup, valAt_of_not_has t k h.1]
    · have : (a == k) = false := by simp; exact fun h' => hk h'.symm
      simp [valAt, List.lookup, hk, this, valAt_eq_lookup t a h.2]

theorem has_iff_lookup : ∀ (m : DMap) (a : Nat), has m a = (m.lookup a).isSome
  | [], _ => rfl
  | (k, v) :: t, a => by
    by_cases hk : k = a
    · subst hk; simp [has, List.lookup]
    · have : (a == k) = false := by simp; exact fun h' => hk h'.symm
      have hk' : (k == a) = false := by simp [hk]
      simp [has, List.lookup, this, hk', has_iff_lookup t a]

theorem NoDup_addTo : ∀ (m : DMap) (a : Nat) (v : Int), NoDup m → NoDup (addTo m a v)
  | [], _, _, _ => by simp [addTo, NoDup]
  | (k, x) :: t, a, v, h => by
    unfold addTo
    by_cases hk : k = a
    · simp only [hk, if_true]; subst hk; exact h
    · simp only [hk, if_false, NoDup, has_addTo]
      refine ⟨?_, NoDup_addTo t a v h.2⟩
      have : (a == k) = false := by simp; exact fun h' => hk h'.symm
      simp [h.1, this]

theorem NoDup_mergeInto (acc m : DMap) (h : NoDup acc) : NoDup (mergeInto acc m) := by
  unfold mergeInto
  induction m generalizing acc with
  | nil => simpa
  | cons kv t ih => exact ih _ (NoDup_addTo _ _ _ h)

theorem NoDup_mergeAll (l : List DMap) : NoDup (mergeAll l) := by
  unfold mergeAll
  suffices ∀ acc, NoDup acc → NoDup (l.foldl mergeInto acc) from this [] trivial
  induction l with
  | nil => intro acc h; simpa
  | cons m t ih => intro acc h; exact ih _ (NoDup_mergeInto _ _ h)

@[simp] theorem setAt_same {α : Type} (f : Nat → α) (i : Nat) (x : α) : setAt f i x i = x := by simp [setAt]
theorem setAt_other {α : Type} (f : Nat → α) {i j : Nat} (x : α) (h : j ≠ i) : setAt f i x j = f j := by simp [setAt, h]

/-- the source says `collectors.size() == 1` (generated constant); an edit of that literal breaks this lemma and
    everything that stands on it -/
theorem fastPath_def (n : Nat) (temp : Temporality) : fastPath n temp = (n == 1 && temp == .delta) := by
  simp [fastPath, Gen.temporalFastPathCollectors]

end Otel.Temporal
