import OtelVerif.Model.Attr
/-! Lemmas about `SAttr.Map` (used by C04 and C13): lookup after set, distinct keys, and the refinement of a sequence of
`SetAttribute` calls to "the last write per key". -/
namespace Otel.SAttr

/-- SPEC: the value of the last write to `k` in a sequence of writes (hand-written from "last write wins per key") -/
def lastWrite {α : Type} (k : Bytes) (ws : List (Bytes × α)) : Option α := ((ws.filter (fun kv => kv.1 = k)).getLast?).map (·.2)

theorem lastWrite_nil {α : Type} (k : Bytes) : lastWrite (α := α) k [] = none := rfl

theorem lastWrite_append_one {α : Type} (k : Bytes) (ws : List (Bytes × α)) (kv : Bytes × α) :
    lastWrite k (ws ++ [kv]) = if kv.1 = k then some kv.2 else lastWrite k ws := by
  unfold lastWrite
  by_cases h : kv.1 = k
  · simp [List.filter_append, h]
  · simp [List.filter_append, h]

theorem lastWrite_cons {α : Type} (k : Bytes) (kv : Bytes × α) (ws : List (Bytes × α)) :
    lastWrite k (kv :: ws) = match lastWrite k ws with
      | some v => some v
      | none => if kv.1 = k then some kv.2 else none := by
  unfold lastWrite
  by_cases h : kv.1 = k
  · have e : (kv :: ws).filter (fun kv => decide (kv.1 = k)) = kv :: ws.filter (fun kv => decide (kv.1 = k)) := by
      simp [h]
    rw [e, List.getLast?_cons]
    generalize (List.filter (fun kv => decide (kv.1 = k)) ws).getLast? = o
    cases o <;> simp [h]
  · have e : (kv :: ws).filter (fun kv => decide (kv.1 = k)) = ws.filter (fun kv => decide (kv.1 = k)) := by
      simp [h]
    rw [e]
    generalize (List.filter (fun kv => decide (kv.1 = k)) ws).getLast? = o
    cases o <;> simp [h]

theorem lastWrite_append {α : Type} (k : Bytes) (a b : List (Bytes × α)) :
    lastWrite k (a ++ b) = match lastWrite k b with
      | some v => some v
      | none => lastWrite k a := by
  induction a with
  | nil => simp [lastWrite_nil]; cases lastWrite k b <;> rfl
  | cons kv t ih =>
    rw [List.cons_append, lastWrite_cons, ih, lastWrite_cons]
    cases lastWrite k b <;> simp

theorem lastWrite_none_iff {α : Type} (k : Bytes) (ws : List (Bytes × α)) : lastWrite k ws = none ↔ k ∉ ws.map (·.1) := by
  induction ws with
  | nil => simp [lastWrite_nil]
  | cons kv t ih =>
    rw [lastWrite_cons]
    cases h : lastWrite k t with
    | some v =>
      have : ¬ k ∉ t.map (·.1) := fun hn => by rw [ih.mpr hn] at h; cases h
      simp only [List.map_cons, List.mem_cons, not_or, reduceCtorEq, false_iff]
      exact fun hh => this hh.2
    | none =>
      have hk := ih.mp h
      by_cases hkv : kv.1 = k
      · simp [hkv]
      · simp only [hkv, if_false, List.map_cons, List.mem_cons, not_or, true_iff]
        exact ⟨fun e => hkv e.symm, hk⟩

namespace Map

theorem lookup_set_self (k : Bytes) (v : Owned) (m : Map) : lookup k (set k v m) = some v := by
  induction m with
  | nil => simp [set, lookup]
  | cons e t ih =>
    obtain ⟨k', v'⟩ := e
    by_cases h : k' = k
    · simp [set, lookup, h]
    · simp [set, lookup, h, ih]

theorem lookup_set_ne {k k' : Bytes} (h : k ≠ k') (v : Owned) (m : Map) : lookup k' (set k v m) = lookup k' m := by
  induction m with
  | nil => simp [set, lookup, h]
  | cons e t ih =>
    obtain ⟨k2, v2⟩ := e
    by_cases h2 : k2 = k
    · subst h2; simp [set, lookup, h]
    · by_cases h3 : k2 = k'
      · subst h3; simp [set, lookup, h2]
      · simp [set, lookup, h2, h3, ih]

theorem lookup_eq_none_iff (k : Bytes) (m : Map) : lookup k m = none ↔ k ∉ m.keys := by
  induction m with
  | nil => simp [lookup, keys]
  | cons e t ih =>
    obtain ⟨k', v'⟩ := e
    by_cases h : k' = k
    · simp [lookup, keys, h]
    · have h' : ¬ k = k' := fun e => h e.symm
      simp only [lookup, h, if_false, keys, List.map_cons, List.mem_cons, h', false_or]
      exact ih

theorem mem_keys_set (k k' : Bytes) (v : Owned) (m : Map) : k' ∈ (set k v m).keys ↔ k' = k ∨ k' ∈ m.keys := by
  induction m with
  | nil => simp [set, keys]
  | cons e t ih =>
    obtain ⟨k2, v2⟩ := e
    by_cases h2 : k2 = k
    · subst h2; simp [set, keys]
    · simp only [keys] at ih
      simp only [set, h2, if_false, keys, List.map_cons, List.mem_cons, ih]
      constructor
      · rintro (h | h | h) <;> simp [h]
      · rintro (h | h | h) <;> simp [h]

/-- `set` keeps the keys pairwise distinct (the container is a map) -/
theorem nodup_set (k : Bytes) (v : Owned) (m : Map) (h : m.keys.Nodup) : (set k v m).keys.Nodup := by
  induction m with
  | nil => simp [set, keys]
  | cons e t ih =>
    obtain ⟨k2, v2⟩ := e
    simp only [keys, List.map_cons, List.nodup_cons] at h
    by_cases h2 : k2 = k
    · subst h2; simpa [set, keys] using h
    · simp only [set, h2, if_false, keys, List.map_cons, List.nodup_cons]
      refine ⟨?_, ih h.2⟩
      intro hm
      have := (mem_keys_set k k2 v t).mp hm
      rcases this with e | e
      · exact h2 e
      · exact h.1 e

/-- a sequence of `SetAttribute` calls refines to "last write wins per key" on top of the initial content -/
theorem lookup_foldl_setAttribute (k : Bytes) (ws : List (Bytes × Value)) (m0 : Map) :
    lookup k (ws.foldl (fun m kv => m.setAttribute kv.1 kv.2) m0) =
      match lastWrite k ws with
      | some v => some (convert v)
      | none => lookup k m0 := by
  induction ws generalizing m0 with
  | nil => simp [lastWrite_nil]
  | cons kv t ih =>
    rw [List.foldl_cons, ih, lastWrite_cons]
    cases lastWrite k t with
    | some v => rfl
    | none =>
      by_cases h : kv.1 = k
      · subst h; simp [setAttribute, lookup_set_self]
      · simp [h, setAttribute, lookup_set_ne h]

theorem nodup_foldl_setAttribute (ws : List (Bytes × Value)) (m0 : Map) (h : m0.keys.Nodup) :
    (ws.foldl (fun m kv => m.setAttribute kv.1 kv.2) m0).keys.Nodup := by
  induction ws generalizing m0 with
  | nil => exact h
  | cons kv t ih => exact ih _ (nodup_set _ _ _ h)

/-- the map built from an iterable (`AttributeMap(const KeyValueIterable&)`): per key the last pair wins -/
theorem lookup_ofIterable (k : Bytes) (kvs : List (Bytes × Value)) :
    lookup k (ofIterable kvs) = (lastWrite k kvs).map convert := by
  unfold ofIterable
  rw [lookup_foldl_setAttribute]
  cases lastWrite k kvs <;> simp [lookup]

theorem nodup_ofIterable (kvs : List (Bytes × Value)) : (ofIterable kvs).keys.Nodup :=
  nodup_foldl_setAttribute kvs [] (by simp [keys])

end Map
end Otel.SAttr
