import OtelVerif.Lemmas.SeriesMap
import OtelVerif.Lemmas.SeriesKey
import OtelVerif.Lemmas.SeriesNodup
import Mathlib.Algebra.Order.Group.Multiset
/-! The free aggregation (the list of the recorded values) and its multiset measure: below the cardinality limit
    the list stored for a key is a permutation of the values recorded for that key in the reader's interval. -/
namespace Otel.Series

variable {K V : Type} [DecidableEq K]

/-- the free aggregation: remember every value -/
def freeAgg : Agg V (List V) := { new := [], add := fun l v => l ++ [v], merge := fun a b => a ++ b }

/-- the multiset of the remembered values is an additive measure -/
def freeMeasure : Measure (freeAgg : Agg V (List V)) (Multiset V) :=
  { μ := fun l => (l : Multiset V)
    w := fun v => {v}
    new := rfl
    add := fun a v => by
      show ((a ++ [v] : List V) : Multiset V) = (a : Multiset V) + {v}
      rw [← Multiset.coe_singleton, Multiset.coe_add]
    merge := fun a b => by
      show ((a ++ b : List V) : Multiset V) = (a : Multiset V) + (b : Multiset V)
      rw [Multiset.coe_add] }

/-- with pairwise distinct keys the measure at key `k0` is the measure of the one entry with that key -/
theorem totK_of_nodup {A M : Type} [AddCommMonoid M] (k0 : K) (μ : A → M) (es : List (K × A)) (h : KeysNodup es) :
    totK k0 μ es = match lookupKey k0 es with
      | some a => μ a
      | none => 0 := by
  induction es with
  | nil => rfl
  | cons e es ih =>
    have hn : e.1 ∉ es.map (·.1) ∧ KeysNodup es := by
      unfold KeysNodup at h; rw [List.map_cons, List.nodup_cons] at h; exact h
    simp only [totK, List.map_cons, List.sum_cons, lookupKey]
    by_cases hk : e.1 = k0
    · simp only [hk, if_true]
      have : lookupKey k0 es = none := (lookupKey_none_iff k0 es).mpr (hk ▸ hn.1)
      have h0 := ih hn.2
      rw [this] at h0
      simp only [totK] at h0
      rw [h0, add_zero]
    · simp only [hk, if_false, zero_add]
      exact ih hn.2

end Otel.Series
