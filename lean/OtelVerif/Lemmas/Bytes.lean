import OtelVerif.Model.Hex
/-! Helper lemmas about `takeTok`, `splitString`, `trim` and hex encoding/decoding. -/
namespace Otel

theorem forall_byte (P : UInt8 → Prop) (h : ∀ n, n < 256 → P (UInt8.ofNat n)) : ∀ b : UInt8, P b := by
  intro b
  have := h b.toNat b.toNat_lt
  simpa using this

/-! ### takeTok -/

theorem takeTok_none {sep : UInt8} : ∀ {s tok : Bytes}, takeTok sep s = (tok, none) → s = tok ∧ sep ∉ tok
  | [], tok, h => by simp [takeTok] at h; subst h; simp
  | c :: t, tok, h => by
    simp only [takeTok] at h
    split at h
    · simp at h
    · rename_i hc
      generalize hr : takeTok sep t = r at h
      obtain ⟨r1, r2⟩ := r
      simp at h
      obtain ⟨h1, h2⟩ := h
      subst h2
      have := takeTok_none hr
      subst h1
      refine ⟨by rw [this.1], ?_⟩
      simp only [List.mem_cons, not_or]
      exact ⟨fun e => hc e.symm, this.2⟩

theorem takeTok_some {sep : UInt8} : ∀ {s tok rest : Bytes}, takeTok sep s = (tok, some rest) →
    s = tok ++ sep :: rest ∧ sep ∉ tok
  | [], tok, rest, h => by simp [takeTok] at h
  | c :: t, tok, rest, h => by
    simp only [takeTok] at h
    split at h
    · rename_i hc
      simp at h
      obtain ⟨h1, h2⟩ := h
      subst h1 h2 hc
      simp
    · rename_i hc
      generalize hr : takeTok sep t = r at h
      obtain ⟨r1, r2⟩ := r
      simp at h
      obtain ⟨h1, h2⟩ := h
      subst h2 h1
      have := takeTok_some hr
      refine ⟨by rw [this.1]; simp, ?_⟩
      simp only [List.mem_cons, not_or]
      exact ⟨fun e => hc e.symm, this.2⟩

theorem takeTok_append_sep {sep : UInt8} : ∀ (a r : Bytes), sep ∉ a → takeTok sep (a ++ sep :: r) = (a, some r)
  | [], r, _ => by simp [takeTok]
  | c :: t, r, h => by
    simp only [List.mem_cons, not_or] at h
    have hc : ¬ c = sep := fun e => h.1 e.symm
    simp [takeTok, hc, takeTok_append_sep t r h.2]

theorem takeTok_no_sep {sep : UInt8} : ∀ (a : Bytes), sep ∉ a → takeTok sep a = (a, none)
  | [], _ => by simp [takeTok]
  | c :: t, h => by
    simp only [List.mem_cons, not_or] at h
    have hc : ¬ c = sep := fun e => h.1 e.symm
    simp [takeTok, hc, takeTok_no_sep t h.2]

/-! ### splitString into four fields -/

/-- the shape of a string that `SplitString(s, sep, _, 4)` splits into exactly four fields -/
theorem splitString4_spec {sep : UInt8} {s a b c d : Bytes} (h : splitString sep 4 s = [a, b, c, d]) :
    sep ∉ a ∧ sep ∉ b ∧ sep ∉ c ∧ sep ∉ d ∧
    (s = a ++ sep :: (b ++ sep :: (c ++ sep :: d)) ∨ ∃ r, s = a ++ sep :: (b ++ sep :: (c ++ sep :: (d ++ sep :: r)))) := by
  simp only [splitString] at h
  generalize h1 : takeTok sep s = r1 at h
  obtain ⟨t1, o1⟩ := r1
  cases o1 with
  | none => simp at h
  | some s1 =>
    simp only [List.cons.injEq] at h
    obtain ⟨ha, h⟩ := h
    generalize h2 : takeTok sep s1 = r2 at h
    obtain ⟨t2, o2⟩ := r2
    cases o2 with
    | none => simp at h
    | some s2 =>
      simp only [List.cons.injEq] at h
      obtain ⟨hb, h⟩ := h
      generalize h3 : takeTok sep s2 = r3 at h
      obtain ⟨t3, o3⟩ := r3
      cases o3 with
      | none => simp at h
      | some s3 =>
        simp only [List.cons.injEq] at h
        obtain ⟨hc, h⟩ := h
        generalize h4 : takeTok sep s3 = r4 at h
        obtain ⟨t4, o4⟩ := r4
        have e1 := takeTok_some h1
        have e2 := takeTok_some h2
        have e3 := takeTok_some h3
        subst ha hb hc
        cases o4 with
        | none =>
          simp at h; subst h
          have e4 := takeTok_none h4
          refine ⟨e1.2, e2.2, e3.2, e4.2, Or.inl ?_⟩
          rw [e1.1, e2.1, e3.1, e4.1]
        | some s4 =>
          simp at h; subst h
          have e4 := takeTok_some h4
          refine ⟨e1.2, e2.2, e3.2, e4.2, Or.inr ⟨s4, ?_⟩⟩
          rw [e1.1, e2.1, e3.1, e4.1]

theorem splitString4_exact {sep : UInt8} (a b c d : Bytes) (ha : sep ∉ a) (hb : sep ∉ b) (hc : sep ∉ c) (hd : sep ∉ d) :
    splitString sep 4 (a ++ sep :: (b ++ sep :: (c ++ sep :: d))) = [a, b, c, d] := by
  simp [splitString, takeTok_append_sep _ _ ha, takeTok_append_sep _ _ hb, takeTok_append_sep _ _ hc, takeTok_no_sep _ hd]

theorem splitString4_more {sep : UInt8} (a b c d r : Bytes) (ha : sep ∉ a) (hb : sep ∉ b) (hc : sep ∉ c) (hd : sep ∉ d) :
    splitString sep 4 (a ++ sep :: (b ++ sep :: (c ++ sep :: (d ++ sep :: r)))) = [a, b, c, d] := by
  simp [splitString, takeTok_append_sep _ _ ha, takeTok_append_sep _ _ hb, takeTok_append_sep _ _ hc, takeTok_append_sep _ _ hd]

/-! ### trim -/

theorem trimLeft_of_head {c : UInt8} {t : Bytes} (h : isSpace c = false) : trimLeft (c :: t) = c :: t := by
  simp [trimLeft, h]

theorem trimLeft_nil : trimLeft [] = [] := rfl

/-- a string whose first and last byte are not white space is left alone by `Trim` -/
theorem trim_id_of_ends (s : Bytes) (c d : UInt8) (m : Bytes) (hs : s = c :: (m ++ [d]))
    (hc : isSpace c = false) (hd : isSpace d = false) : trim s = s := by
  subst hs
  simp only [trim, trimRight, trimLeft_of_head hc]
  have : (c :: (m ++ [d])).reverse = d :: (m.reverse ++ [c]) := by simp
  rw [this, trimLeft_of_head hd]
  simp

end Otel
