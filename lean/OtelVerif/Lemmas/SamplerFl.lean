import Mathlib.Data.Rat.Floor
import Mathlib.Tactic.Linarith
import Mathlib.Tactic.Positivity
import Mathlib.Algebra.Order.Field.Power
import OtelVerif.Lemmas.SamplerThr
/-! # The executable binary64 rounding `fl` of `Model/Sampler.lean` is monotone and fixes the integers below 2^53

`fl q = roundEven (q / ulp) * ulp` with `ulp = 2 ^ (max ⌊log₂ q⌋ (-1022) - 52)`.  Within one binade this is rounding
to a fixed grid (monotone, fixes the grid points); between two binades the power of two that separates them lies on
both grids. -/
namespace Otel.C12
open Otel Otel.Sampler

/-! ## `roundEven` -/

theorem roundEven_bounds (q : ℚ) : ⌊q⌋ ≤ roundEven q ∧ roundEven q ≤ ⌊q⌋ + 1 := by
  unfold roundEven
  have e : Rat.floor q = ⌊q⌋ := rfl
  simp only [e]
  split_ifs <;> constructor <;> omega

theorem roundEven_mono {x y : ℚ} (h : x ≤ y) : roundEven x ≤ roundEven y := by
  have hf : ⌊x⌋ ≤ ⌊y⌋ := Int.floor_mono h
  rcases hf.eq_or_lt with heq | hlt
  · unfold roundEven
    have ex : Rat.floor x = ⌊x⌋ := rfl
    have ey : Rat.floor y = ⌊y⌋ := rfl
    simp only [ex, ey, heq]
    have hr : x - (⌊y⌋ : ℚ) ≤ y - (⌊y⌋ : ℚ) := by linarith
    split_ifs <;> first | omega | (exfalso; linarith)
  · have h1 := (roundEven_bounds x).2
    have h2 := (roundEven_bounds y).1
    omega

theorem roundEven_int (n : ℤ) : roundEven (n : ℚ) = n := by
  unfold roundEven
  have e : Rat.floor (n : ℚ) = ⌊(n : ℚ)⌋ := rfl
  simp only [e, Int.floor_intCast, sub_self]
  norm_num

/-! ## rounding to the grid `2^u · ℤ` -/

theorem pow2_pos (e : ℤ) : 0 < pow2 e := by unfold pow2; positivity

/-- rounding to the grid of spacing `2^u` -/
def grid (u : ℤ) (q : ℚ) : ℚ := (roundEven (q / pow2 u) : ℚ) * pow2 u

theorem grid_mono (u : ℤ) {x y : ℚ} (h : x ≤ y) : grid u x ≤ grid u y := by
  unfold grid
  have hp := pow2_pos u
  have : x / pow2 u ≤ y / pow2 u := div_le_div_of_nonneg_right h hp.le
  have := roundEven_mono this
  have : (roundEven (x / pow2 u) : ℚ) ≤ (roundEven (y / pow2 u) : ℚ) := by exact_mod_cast this
  exact mul_le_mul_of_nonneg_right this hp.le

theorem grid_fix (u : ℤ) (k : ℤ) : grid u ((k : ℚ) * pow2 u) = (k : ℚ) * pow2 u := by
  unfold grid
  have hp := pow2_pos u
  rw [mul_div_assoc, div_self hp.ne', mul_one, roundEven_int]

/-- `2^e` lies on the grid `2^u` when `u ≤ e` -/
theorem pow2_on_grid {u e : ℤ} (h : u ≤ e) : ∃ k : ℤ, pow2 e = (k : ℚ) * pow2 u := by
  refine ⟨2 ^ (e - u).toNat, ?_⟩
  unfold pow2
  have h2 : ((2 ^ (e - u).toNat : ℤ) : ℚ) = (2 : ℚ) ^ (e - u) := by
    push_cast
    rw [← zpow_natCast, Int.toNat_sub_of_le h]
  rw [h2, ← zpow_add₀ (by norm_num : (2 : ℚ) ≠ 0)]
  congr 1; ring

/-- an integer lies on every grid `2^u` with `u ≤ 0` -/
theorem int_on_grid {u : ℤ} (h : u ≤ 0) (n : ℤ) : ∃ k : ℤ, (n : ℚ) = (k : ℚ) * pow2 u := by
  obtain ⟨k, hk⟩ := pow2_on_grid h
  refine ⟨n * k, ?_⟩
  have : pow2 0 = 1 := by unfold pow2; simp
  rw [this] at hk
  push_cast
  rw [mul_assoc, ← hk, mul_one]

/-! ## the binade exponent -/

theorem ilog2_spec (n d : ℕ) (hn : 0 < n) (hd : 0 < d) :
    pow2 (ilog2 n d) ≤ (n : ℚ) / d ∧ (n : ℚ) / d < pow2 (ilog2 n d + 1) := by
  have hdq : (0 : ℚ) < d := by exact_mod_cast hd
  have ha1 : ((2 ^ Nat.log2 n : ℕ) : ℚ) ≤ n := by exact_mod_cast Nat.log2_self_le hn.ne'
  have ha2 : (n : ℚ) < ((2 ^ (Nat.log2 n + 1) : ℕ) : ℚ) := by exact_mod_cast Nat.lt_log2_self
  have hb1 : ((2 ^ Nat.log2 d : ℕ) : ℚ) ≤ d := by exact_mod_cast Nat.log2_self_le hd.ne'
  have hb2 : (d : ℚ) < ((2 ^ (Nat.log2 d + 1) : ℕ) : ℚ) := by exact_mod_cast Nat.lt_log2_self
  push_cast at ha1 ha2 hb1 hb2
  rw [pow_succ] at ha2 hb2
  have two : (2 : ℚ) ≠ 0 := by norm_num
  have hA : (0 : ℚ) < 2 ^ Nat.log2 n := by positivity
  have hB : (0 : ℚ) < 2 ^ Nat.log2 d := by positivity
  have he0 : pow2 ((Nat.log2 n : ℤ) - (Nat.log2 d : ℤ)) = (2 : ℚ) ^ Nat.log2 n / 2 ^ Nat.log2 d := by
    unfold pow2
    rw [zpow_sub₀ two, zpow_natCast, zpow_natCast]
  unfold ilog2
  simp only
  split_ifs with hc
  · constructor
    · rw [le_div_iff₀ hdq]; exact hc
    · rw [div_lt_iff₀ hdq]
      have : pow2 ((Nat.log2 n : ℤ) - (Nat.log2 d : ℤ) + 1) = (2 : ℚ) ^ Nat.log2 n / 2 ^ Nat.log2 d * 2 := by
        rw [← he0]; unfold pow2; rw [zpow_add_one₀ two]
      rw [this, div_mul_eq_mul_div, div_mul_eq_mul_div, lt_div_iff₀ hB]
      nlinarith
  · rw [not_le] at hc
    constructor
    · rw [le_div_iff₀ hdq]
      have : pow2 ((Nat.log2 n : ℤ) - (Nat.log2 d : ℤ) - 1) = (2 : ℚ) ^ Nat.log2 n / 2 ^ Nat.log2 d * 2⁻¹ := by
        rw [← he0]; unfold pow2; rw [zpow_sub_one₀ two]
      rw [this, div_mul_eq_mul_div, div_mul_eq_mul_div, div_le_iff₀ hB]
      nlinarith
    · rw [div_lt_iff₀ hdq]
      have : (Nat.log2 n : ℤ) - (Nat.log2 d : ℤ) - 1 + 1 = (Nat.log2 n : ℤ) - (Nat.log2 d : ℤ) := by ring
      rw [this]; exact hc

/-- binade exponent of a positive rational -/
def bexp (q : ℚ) : ℤ := ilog2 q.num.natAbs q.den

theorem bexp_spec {q : ℚ} (hq : 0 < q) : pow2 (bexp q) ≤ q ∧ q < pow2 (bexp q + 1) := by
  have hnum : 0 < q.num := Rat.num_pos.mpr hq
  have hn : 0 < q.num.natAbs := Int.natAbs_pos.mpr hnum.ne'
  have := ilog2_spec q.num.natAbs q.den hn q.den_pos
  have e : ((q.num.natAbs : ℕ) : ℚ) / (q.den : ℚ) = q := by
    have : ((q.num.natAbs : ℕ) : ℚ) = ((q.num : ℤ) : ℚ) := by
      rw [← Int.cast_natCast, Int.natAbs_of_nonneg hnum.le]
    rw [this]; exact Rat.num_div_den q
  rw [e] at this
  exact this

theorem pow2_lt_iff {a b : ℤ} : pow2 a < pow2 b ↔ a < b := by
  unfold pow2; exact zpow_lt_zpow_iff_right₀ (by norm_num)

theorem pow2_le_iff {a b : ℤ} : pow2 a ≤ pow2 b ↔ a ≤ b := by
  unfold pow2; exact zpow_le_zpow_iff_right₀ (by norm_num)

theorem bexp_mono {x y : ℚ} (hx : 0 < x) (h : x ≤ y) : bexp x ≤ bexp y := by
  have h1 := (bexp_spec hx).1
  have h2 := (bexp_spec (lt_of_lt_of_le hx h)).2
  have : pow2 (bexp x) < pow2 (bexp y + 1) := lt_of_le_of_lt (le_trans h1 h) h2
  have := pow2_lt_iff.mp this
  omega

/-! ## `flPos`, `fl` -/

theorem flPos_eq {q : ℚ} (hq : q ≠ 0) : flPos q = grid (max (bexp q) (-1022) - 52) q := by
  unfold flPos grid ulpExp bexp
  rw [if_neg hq]

theorem flPos_zero : flPos 0 = 0 := by unfold flPos; simp

theorem grid_nonneg (u : ℤ) {q : ℚ} (h : 0 ≤ q) : 0 ≤ grid u q := by
  have := grid_mono u h
  have h0 := grid_fix u 0
  simp at h0
  rwa [h0] at this

theorem flPos_nonneg {q : ℚ} (h : 0 ≤ q) : 0 ≤ flPos q := by
  by_cases hq : q = 0
  · rw [hq, flPos_zero]
  · rw [flPos_eq hq]; exact grid_nonneg _ h

theorem flPos_mono {x y : ℚ} (hx : 0 ≤ x) (h : x ≤ y) : flPos x ≤ flPos y := by
  rcases hx.eq_or_lt with h0 | hxp
  · rw [← h0, flPos_zero]; exact flPos_nonneg (le_trans hx h)
  have hyp : 0 < y := lt_of_lt_of_le hxp h
  rw [flPos_eq hxp.ne', flPos_eq hyp.ne']
  have hb := bexp_mono hxp h
  rcases (show max (bexp x) (-1022) ≤ max (bexp y) (-1022) from max_le_max_right _ hb).eq_or_lt with heq | hlt
  · rw [heq]; exact grid_mono _ h
  · -- different binades: `m = 2 ^ bexp y` separates them and lies on both grids
    have hy1022 : -1022 < bexp y := by
      rcases le_or_gt (bexp y) (-1022) with hle | hgt
      · exfalso
        rw [max_eq_right hle] at hlt
        exact absurd hlt (not_lt.mpr (le_max_right _ _))
      · exact hgt
    have hmy : max (bexp y) (-1022) = bexp y := max_eq_left hy1022.le
    rw [hmy] at hlt ⊢
    have hxlt : bexp x + 1 ≤ bexp y := by
      have := le_max_left (bexp x) (-1022)
      omega
    have hxm : x ≤ pow2 (bexp y) := le_trans (bexp_spec hxp).2.le (pow2_le_iff.mpr hxlt)
    have hmy' : pow2 (bexp y) ≤ y := (bexp_spec hyp).1
    obtain ⟨k1, hk1⟩ := pow2_on_grid (u := max (bexp x) (-1022) - 52) (e := bexp y) (by omega)
    obtain ⟨k2, hk2⟩ := pow2_on_grid (u := bexp y - 52) (e := bexp y) (by omega)
    calc grid (max (bexp x) (-1022) - 52) x
        ≤ grid (max (bexp x) (-1022) - 52) (pow2 (bexp y)) := grid_mono _ hxm
      _ = pow2 (bexp y) := by rw [hk1, grid_fix]
      _ = grid (bexp y - 52) (pow2 (bexp y)) := by rw [hk2, grid_fix]
      _ ≤ grid (bexp y - 52) y := grid_mono _ hmy'

theorem flPos_nat (n : ℕ) (h : n < 2 ^ 53) : flPos (n : ℚ) = n := by
  rcases Nat.eq_zero_or_pos n with h0 | hp
  · rw [h0]; simpa using flPos_zero
  have hq : (0 : ℚ) < n := by exact_mod_cast hp
  rw [flPos_eq hq.ne']
  have hb : bexp (n : ℚ) < 53 := by
    have h1 := (bexp_spec hq).1
    have h2 : (n : ℚ) < pow2 53 := by
      unfold pow2
      have : (n : ℚ) < ((2 ^ 53 : ℕ) : ℚ) := by exact_mod_cast h
      rw [show ((53 : ℤ)) = ((53 : ℕ) : ℤ) from rfl, zpow_natCast]
      exact_mod_cast this
    exact pow2_lt_iff.mp (lt_of_le_of_lt h1 h2)
  obtain ⟨k, hk⟩ := int_on_grid (u := max (bexp (n : ℚ)) (-1022) - 52) (by omega) (n : ℤ)
  have : ((n : ℤ) : ℚ) = (n : ℚ) := by norm_cast
  rw [this] at hk
  have hg := grid_fix (max (bexp (n : ℚ)) (-1022) - 52) k
  rw [← hk] at hg
  exact hg

theorem fl_mono (x y : ℚ) (h : x ≤ y) : fl x ≤ fl y := by
  unfold fl
  split_ifs with hx hy hy
  · have : flPos (-y) ≤ flPos (-x) := flPos_mono (by linarith) (by linarith)
    linarith
  · have h1 : 0 ≤ flPos (-x) := flPos_nonneg (by linarith)
    have h2 : 0 ≤ flPos y := flPos_nonneg (by linarith)
    linarith
  · exfalso; linarith
  · exact flPos_mono (by linarith) h

theorem fl_int (n : ℤ) (h : |n| < 2 ^ 53) : fl (n : ℚ) = n := by
  rw [abs_lt] at h
  unfold fl
  split_ifs with hn
  · have hn' : n < 0 := by exact_mod_cast hn
    have e : -(n : ℚ) = ((-n).toNat : ℚ) := by
      have : ((-n).toNat : ℤ) = -n := Int.toNat_of_nonneg (by omega)
      have : (((-n).toNat : ℤ) : ℚ) = ((-n : ℤ) : ℚ) := by rw [this]
      push_cast at this
      rw [← this]
    rw [e, flPos_nat _ (by omega), ← e]; ring
  · have hn' : 0 ≤ n := by
      rw [not_lt] at hn; exact_mod_cast hn
    have e : (n : ℚ) = (n.toNat : ℚ) := by
      have : (n.toNat : ℤ) = n := Int.toNat_of_nonneg hn'
      have : ((n.toNat : ℤ) : ℚ) = (n : ℚ) := by rw [this]
      push_cast at this
      rw [← this]
    rw [e, flPos_nat _ (by omega)]

/-- the concrete binary64 rounding as an instance of the abstract one -/
def flRnd : Rnd := ⟨fl, fl_mono, fl_int⟩

theorem flRnd_fl : flRnd.fl = fl := rfl

end Otel.C12
