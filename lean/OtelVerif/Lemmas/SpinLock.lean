import OtelVerif.Model.SpinLock
namespace Otel.SpinLock
open Otel.Ring (upd upd_same upd_other)

structure Inv (s : St) : Prop where
  heldFlag : ∀ p, Holds s p → s.flag = true
  unique   : ∀ p q, Holds s p → Holds s q → p = q
  trySound : ∀ x ∈ s.tryResults, x.2.2 = !x.2.1

theorem inv_init : Inv init := ⟨by simp [Holds, init], by simp [Holds, init], by simp [init]⟩

theorem holds_upd_same (s : St) (p : Nat) (pc : Pc) (s' : St) (h : s'.pcs = upd s.pcs p pc) :
    Holds s' p ↔ (pc = .holding ∨ pc = .unlocking) := by simp [Holds, h]
theorem holds_upd_other (s : St) (p q : Nat) (pc : Pc) (s' : St) (h : s'.pcs = upd s.pcs p pc) (hq : q ≠ p) :
    Holds s' q ↔ Holds s q := by simp [Holds, h, upd_other _ _ _ _ hq]

/-- a step of `p` between two pcs outside the critical section, flag untouched -/
theorem inv_outside (s s' : St) (p : Nat) (pc : Pc) (hI : Inv s) (hf : s'.flag = s.flag) (hp : s'.pcs = upd s.pcs p pc)
    (ht : ∀ x ∈ s'.tryResults, x ∈ s.tryResults ∨ x.2.2 = !x.2.1)
    (hnew : pc ≠ .holding ∧ pc ≠ .unlocking) (hold : ¬ Holds s p) : Inv s' := by
  have hH : ∀ q, Holds s' q ↔ Holds s q := by
    intro q
    by_cases hq : q = p
    · subst hq; rw [holds_upd_same s q pc s' hp]
      exact ⟨fun h => by rcases h with h | h; exact absurd h hnew.1; exact absurd h hnew.2, fun h => absurd h hold⟩
    · exact holds_upd_other s p q pc s' hp hq
  refine ⟨fun q hq => by rw [hf]; exact hI.heldFlag q ((hH q).1 hq),
    fun q r hq hr => hI.unique q r ((hH q).1 hq) ((hH r).1 hr), ?_⟩
  intro x hx
  rcases ht x hx with h | h
  · exact hI.trySound x h
  · exact h

/-- an acquisition: the exchange read `false`, `p` enters the critical section -/
theorem inv_acquire (s s' : St) (p : Nat) (hI : Inv s) (hfree : s.flag = false) (hf : s'.flag = true)
    (hp : s'.pcs = upd s.pcs p .holding) (ht : ∀ x ∈ s'.tryResults, x ∈ s.tryResults ∨ x.2.2 = !x.2.1) : Inv s' := by
  have hnone : ∀ q, ¬ Holds s q := fun q hq => by have := hI.heldFlag q hq; rw [hfree] at this; cases this
  have hH : ∀ q, Holds s' q → q = p := by
    intro q hq
    by_cases hqp : q = p
    · exact hqp
    · exact absurd ((holds_upd_other s p q .holding s' hp hqp).1 hq) (hnone q)
  refine ⟨fun _ _ => hf, fun q r hq hr => by rw [hH q hq, hH r hr], ?_⟩
  intro x hx
  rcases ht x hx with h | h
  · exact hI.trySound x h
  · exact h

theorem inv_step (s s' : St) (a : Act) (hI : Inv s) (h : step s a = some s') : Inv s' := by
  cases a with
  | beginLock p =>
    simp only [step] at h
    split at h
    · rename_i hpc; cases h
      exact inv_outside s _ p .lockXchg hI rfl rfl (fun x hx => Or.inl hx) (by simp) (by simp [Holds, hpc])
    · cases h
  | beginTry p =>
    simp only [step] at h
    split at h
    · rename_i hpc; cases h
      exact inv_outside s _ p .tryLoad hI rfl rfl (fun x hx => Or.inl hx) (by simp) (by simp [Holds, hpc])
    · cases h
  | leave p =>
    simp only [step] at h
    split at h
    · rename_i hpc; cases h
      -- holding → unlocking: still the (unique) holder
      have hH : ∀ q, Holds { s with pcs := setPc s p .unlocking } q ↔ Holds s q := by
        intro q
        by_cases hq : q = p
        · subst hq; simp [Holds, setPc, hpc]
        · simp [Holds, setPc, upd_other _ _ _ _ hq]
      exact ⟨fun q hq => hI.heldFlag q ((hH q).1 hq), fun q r hq hr => hI.unique q r ((hH q).1 hq) ((hH r).1 hr), hI.trySound⟩
    · cases h
  | step p =>
    simp only [step] at h
    split at h
    · rename_i hpc   -- lockXchg
      have hno : ¬ Holds s p := by simp [Holds, hpc]
      split at h
      · cases h
        refine inv_outside s _ p _ hI rfl rfl (fun x hx => Or.inl hx) ?_ hno
        split <;> simp
      · rename_i hfl; cases h
        exact inv_acquire s _ p hI (by simpa using hfl) rfl rfl (fun x hx => Or.inl hx)
    · rename_i i hpc   -- spinLoad
      have hno : ¬ Holds s p := by simp [Holds, hpc]
      split at h
      · cases h
        refine inv_outside s _ p _ hI rfl rfl (fun x hx => Or.inl hx) ?_ hno
        unfold afterSpinFail; split <;> simp
      · cases h; exact inv_outside s _ p _ hI rfl rfl (fun x hx => Or.inl hx) (by simp) hno
    · rename_i i hpc   -- spinXchg
      have hno : ¬ Holds s p := by simp [Holds, hpc]
      split at h
      · cases h
        refine inv_outside s _ p _ hI rfl rfl (fun x hx => Or.inl hx) ?_ hno
        unfold afterSpinFail; split <;> simp
      · rename_i hfl; cases h
        exact inv_acquire s _ p hI (by simpa using hfl) rfl rfl (fun x hx => Or.inl hx)
    · rename_i hpc   -- yielding
      cases h; exact inv_outside s _ p _ hI rfl rfl (fun x hx => Or.inl hx) (by simp) (by simp [Holds, hpc])
    · rename_i hpc   -- yLoad
      have hno : ¬ Holds s p := by simp [Holds, hpc]
      split at h <;> (cases h; exact inv_outside s _ p _ hI rfl rfl (fun x hx => Or.inl hx) (by simp) hno)
    · rename_i hpc   -- yXchg
      have hno : ¬ Holds s p := by simp [Holds, hpc]
      split at h
      · cases h; exact inv_outside s _ p _ hI rfl rfl (fun x hx => Or.inl hx) (by simp) hno
      · rename_i hfl; cases h
        exact inv_acquire s _ p hI (by simpa using hfl) rfl rfl (fun x hx => Or.inl hx)
    · rename_i hpc   -- sleeping
      cases h; exact inv_outside s _ p _ hI rfl rfl (fun x hx => Or.inl hx) (by simp) (by simp [Holds, hpc])
    · rename_i hpc   -- tryLoad
      have hno : ¬ Holds s p := by simp [Holds, hpc]
      split at h
      · cases h
        refine inv_outside s _ p _ hI rfl rfl ?_ (by simp) hno
        intro x hx
        simp only [List.mem_cons] at hx
        rcases hx with rfl | hx
        · right; rfl
        · left; exact hx
      · cases h; exact inv_outside s _ p _ hI rfl rfl (fun x hx => Or.inl hx) (by simp) hno
    · rename_i hpc   -- tryXchg
      have hno : ¬ Holds s p := by simp [Holds, hpc]
      split at h
      · cases h
        refine inv_outside s _ p _ hI rfl rfl ?_ (by simp) hno
        intro x hx
        simp only [List.mem_cons] at hx
        rcases hx with rfl | hx
        · right; rfl
        · left; exact hx
      · rename_i hfl; cases h
        refine inv_acquire s _ p hI (by simpa using hfl) rfl rfl ?_
        intro x hx
        simp only [List.mem_cons] at hx
        rcases hx with rfl | hx
        · right; rfl
        · left; exact hx
    · rename_i hpc   -- unlocking: release
      cases h
      have hp : Holds s p := Or.inr hpc
      have hnone : ∀ q, ¬ Holds { s with flag := false, pcs := setPc s p .idle } q := by
        intro q hq
        by_cases hqp : q = p
        · subst hqp; simp [Holds, setPc] at hq
        · have : Holds s q := by simpa [Holds, setPc, upd_other _ _ _ _ hqp] using hq
          exact hqp (hI.unique q p this hp)
      exact ⟨fun q hq => absurd hq (hnone q), fun q r hq _ => absurd hq (hnone q), hI.trySound⟩
    · cases h
    · cases h

theorem inv_run (s s' : St) (as : List Act) (hI : Inv s) (h : run s as = some s') : Inv s' := by
  induction as generalizing s with
  | nil => simp [run] at h; subst h; exact hI
  | cons a as ih =>
    simp only [run] at h
    split at h
    · rename_i s1 hs1; exact ih s1 (inv_step s s1 a hI hs1) h
    · cases h

end Otel.SpinLock
